(* C09: what "planning is deterministic; caching and plan optimisations are transparent" means,
   as Props over observables and over the models, each with the boolean form that the driver
   evaluates on the implementation's own outputs. *)
From Gv Require Import lib.Bytes lib.Json lib.Gql lib.Exec C08.Model C08.Spec C09.Model.
From Coq Require Import List Arith Bool NArith Permutation.
Import ListNotations.

(* ---- generic boolean helpers ---- *)
Fixpoint forall2b {A B : Type} (p : A -> B -> bool) (a : list A) (b : list B) : bool :=
  match a, b with
  | [], [] => true
  | x :: a', y :: b' => p x y && forall2b p a' b'
  | _, _ => false
  end.
Definition all_equal_b {A : Type} (eqb : A -> A -> bool) (l : list A) : bool :=
  match l with [] => true | x :: r => forallb (eqb x) r end.
Definition incl_bytes_b (a b : list bytes) : bool := forallb (fun x => mem_bytes x b) a.
Fixpoint nodup_bytes_b (l : list bytes) : bool :=
  match l with [] => true | x :: r => negb (mem_bytes x r) && nodup_bytes_b r end.

(* ------------------------------------------------------------------ 1a. plan_deterministic *)
(* one printed plan (or one printed request list) per planning run of the same
   (configuration, normalised operation): fresh planners, reused planners, other processes *)
Definition plan_deterministic (runs : list bytes) : Prop := forall a b, In a runs -> In b runs -> a = b.
Definition plan_deterministic_b (runs : list bytes) : bool := all_equal_b bytes_eqb runs.

(* ------------------------------------------------------------------ 1b. histories *)
(* request i of a history, independent of the option set: its meaning class (spellings of one
   template with one set of argument values), the response of a fresh default-option engine, the
   monolithic reference, the fetched (subgraph, entity, field) tuples of the default run *)
Record hbase := { hb_group : N; hb_fresh : json; hb_mono : option json; hb_pairs : list bytes }.
(* the same request as request i of the history on the one engine built with option set O *)
Record hrun := { hr_hit : bool; hr_resp : json; hr_reqs : list bytes; hr_fresh_reqs : list bytes;
                 hr_pairs : list bytes; hr_fresh_resp : json }.

Definition history_transparent (base : list hbase) (run : list hrun) : Prop :=
  Forall2 (fun b r => hr_resp r = hb_fresh b) base run.
Definition history_transparent_b (base : list hbase) (run : list hrun) : bool :=
  forall2b (fun b r => json_eqb (hr_resp r) (hb_fresh b)) base run.

(* a plan served from the cache sends what a freshly planned one sends (sorted request lists of
   the history engine and of a fresh engine with the same options) *)
Definition cache_hit_same_plan (run : list hrun) : Prop :=
  Forall (fun r => hr_reqs r = hr_fresh_reqs r /\ hr_resp r = hr_fresh_resp r) run.
Definition cache_hit_same_plan_b (run : list hrun) : bool :=
  forallb (fun r => list_bytes_eqb (hr_reqs r) (hr_fresh_reqs r) && json_eqb (hr_resp r) (hr_fresh_resp r)) run.

Definition requests_semantically_covered (base : list hbase) (run : list hrun) : Prop :=
  Forall2 (fun b r => incl (hb_pairs b) (hr_pairs r)) base run.
Definition requests_semantically_covered_b (base : list hbase) (run : list hrun) : bool :=
  forall2b (fun b r => incl_bytes_b (hb_pairs b) (hr_pairs r)) base run.

(* renaming variables / literal <-> variable forms: one meaning, one response *)
Definition spelling_transparent (base : list hbase) : Prop :=
  forall a b, In a base -> In b base -> hb_group a = hb_group b -> hb_fresh a = hb_fresh b.
Definition spelling_transparent_b (base : list hbase) : bool :=
  forallb (fun a => forallb (fun b => negb (hb_group a =? hb_group b)%N || json_eqb (hb_fresh a) (hb_fresh b)) base) base.

(* the compared response tree is {errors?, data}; the reference gives the data member *)
Definition s_data : bytes := [100;97;116;97].
Definition mono_agrees (base : list hbase) : Prop :=
  Forall (fun b => match hb_mono b with Some m => jget s_data (hb_fresh b) = Some m | None => True end) base.
Definition mono_agrees_b (base : list hbase) : bool :=
  forallb (fun b => match hb_mono b with
                    | Some m => match jget s_data (hb_fresh b) with Some d => json_eqb d m | None => false end
                    | None => true
                    end) base.

(* ------------------------------------------------------------------ 2i. de-duplication *)
Definition same_key (f g : lfetch) : Prop := equal_single_fetch f g = true.
(* no two fetches of the list are duplicates of each other *)
Definition keys_distinct (l : list lfetch) : Prop :=
  forall pre f mid g post, l = pre ++ f :: mid ++ g :: post -> equal_single_fetch f g = false.
(* the set of distinct requests is unchanged *)
Definition same_requests (l l' : list lfetch) : Prop :=
  (forall f, In f l -> exists g, In g l' /\ same_key g f) /\
  (forall g, In g l' -> exists f, In f l /\ same_key g f).

(* the representative of a fetch id: the first fetch of the list with the same key *)
Definition find_id (l : list lfetch) (d : nat) : option lfetch := find (fun f => (lf_id f =? d)%nat) l.
Definition first_with_key (l : list lfetch) (f : lfetch) : option lfetch :=
  find (fun g => equal_single_fetch g f) l.
Definition rep (l : list lfetch) (d : nat) : nat :=
  match find_id l d with
  | Some f => match first_with_key l f with Some g => lf_id g | None => d end
  | None => d
  end.

(* hypotheses on plans under which removing duplicates is transparent *)
(* duplicates sit at the same level of the dependency order *)
Definition dup_rank_compatible (l : list lfetch) : Prop :=
  exists rank : nat -> nat,
    (forall f d, In f l -> In d (lf_deps f) -> In d (lids l) -> (rank d < rank (lf_id f))%nat) /\
    (forall f g, In f l -> In g l -> equal_single_fetch f g = true -> rank (lf_id f) = rank (lf_id g)).
(* duplicates depend on the same fetches, up to duplicates *)
Definition dups_agree (l : list lfetch) : Prop :=
  forall f g, In f l -> In g l -> equal_single_fetch f g = true ->
  forall d, In d (lf_deps g) -> In d (lids l) -> exists d', In d' (lf_deps f) /\ rep l d' = rep l d.

(* boolean forms, evaluated on the stage's real input and output *)
Fixpoint keys_distinct_b (l : list lfetch) : bool :=
  match l with
  | [] => true
  | f :: r => forallb (fun g => negb (equal_single_fetch f g)) r && keys_distinct_b r
  end.
Definition same_requests_b (l l' : list lfetch) : bool :=
  forallb (fun f => existsb (fun g => equal_single_fetch g f) l') l &&
  forallb (fun g => existsb (fun f => equal_single_fetch g f) l) l'.
Definition deps_redirected_b (l l' : list lfetch) : bool :=
  forallb (fun g => match find_id l (lf_id g) with
                    | Some f => list_nat_eqb (lf_deps g) (map (rep l) (lf_deps f))
                    | None => false
                    end) l'.
Definition survivors_first_b (l l' : list lfetch) : bool :=
  forallb (fun g => match find_id l (lf_id g) with
                    | Some f => match first_with_key l f with Some h => (lf_id h =? lf_id g)%nat | None => false end
                    | None => false
                    end) l'.
Definition dedup_spec_b (l l' : list lfetch) : bool :=
  keys_distinct_b l' && same_requests_b l l' && survivors_first_b l l' && deps_redirected_b l l' &&
  negb (has_dup (lids l')).
Definition dups_agree_b (l : list lfetch) : bool :=
  forallb (fun f => forallb (fun g =>
    negb (equal_single_fetch f g) ||
    forallb (fun d => negb (memb d (lids l)) || existsb (fun d' => (rep l d' =? rep l d)%nat) (lf_deps f)) (lf_deps g)) l) l.

Definition pel_eqb (a b : pel) : bool :=
  (pe_kind a =? pe_kind b)%N && list_bytes_eqb (pe_path a) (pe_path b) && list_bytes_eqb (pe_types a) (pe_types b).
Definition lfetch_eqb (a b : lfetch) : bool :=
  (lf_id a =? lf_id b)%nat && list_nat_eqb (lf_deps a) (lf_deps b) && (lf_ds a =? lf_ds b)%N && (lf_req a =? lf_req b)%N &&
  forall2b pel_eqb (lf_path a) (lf_path b).

(* ------------------------------------------------------------------ 2iii. renaming *)
Definition injective (sg : name -> name) : Prop := forall a b, sg a = sg b -> a = b.
Definition inj_on (names : list name) (sg : name -> name) : Prop :=
  forall a b, In a names -> In b names -> sg a = sg b -> a = b.

(* default values in the type system are variable-free (a variable cannot occur in a schema) *)
Fixpoint value_closed (v : value) : bool :=
  match v with
  | VVar _ => false
  | VList items => forallb value_closed items
  | VObj fields => forallb (fun kv => value_closed (snd kv)) fields
  | _ => true
  end.
Definition iv_closed (d : inputvalue_def) : bool :=
  match iv_default d with Some v => value_closed v | None => true end.
Definition schema_closed (S : schema) : bool :=
  forallb (fun td => forallb iv_closed (td_input_fields td) &&
                     forallb (fun fd => forallb iv_closed (fd_args fd)) (td_fields td)) (s_types S).

(* the variables mapper on one operation, judged on its own output *)
Definition vardef_eqb_names (a b : list vardef) : bool :=
  list_bytes_eqb (map vd_name a) (map vd_name b).
(* (1) no two variable definitions of the result share a name *)
Definition mapper_no_collision_b (after : operation) : bool := nodup_bytes_b (op_var_names after).
(* (2) every variable that is used is defined, before and after *)
Definition uses_defined_b (o : operation) : bool :=
  forallb (fun n => mem_bytes n (op_var_names o)) (op_var_uses o).
(* (3) the reported mapping (new, old) is one-to-one *)
Definition mapping_one_to_one_b (mp : list (name * name)) : bool :=
  nodup_bytes_b (map fst mp) && nodup_bytes_b (map snd mp).
Definition mapper_spec_b (before after : operation) (mp : list (name * name)) : bool :=
  mapper_no_collision_b after && uses_defined_b after && mapping_one_to_one_b mp &&
  (length (op_vars before) =? length (op_vars after))%nat.

(* ------------------------------------------------------------------ 2iv. the plan-cache key *)
Section CacheKey.
  (* astprinter.Print of the normalised operation; xxhash of the printed bytes *)
  Variable print : document -> bytes.
  Variable hash : bytes -> N.
  Variable Plan : Type.
  Variable planner : document -> Plan.        (* a deterministic planner: a function *)

  Definition cache_key (d : document) : N := hash (print d).

  (* the cache as the engine uses it: get-or-plan *)
  Definition cache := list (N * Plan).
  Fixpoint cache_get (c : cache) (k : N) : option Plan :=
    match c with
    | [] => None
    | (k', p) :: r => if (k =? k')%N then Some p else cache_get r k
    end.
  Definition get_cached_plan (c : cache) (d : document) : Plan * cache :=
    match cache_get c (cache_key d) with
    | Some p => (p, c)
    | None => let p := planner d in (p, (cache_key d, p) :: c)
    end.
  (* the engine over a history of normalised operations *)
  Fixpoint run_history (c : cache) (h : list document) : list Plan :=
    match h with
    | [] => []
    | d :: r => let '(p, c') := get_cached_plan c d in p :: run_history c' r
    end.
  (* every entry of the cache was planned from a document with that key *)
  Definition cache_wf (docs : list document) (c : cache) : Prop :=
    forall k p, In (k, p) c -> exists d, In d docs /\ cache_key d = k /\ p = planner d.
End CacheKey.
