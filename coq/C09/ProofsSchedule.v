(* schedule_transparent: every fetch tree that respects the dependencies of a plan and runs every
   fetch exactly once -- the wave tree, the scheduler's tree, any tree accepted by
   validateSchedule -- gives the same result under every schedule, for any [step] whose
   unordered events commute (the hypothesis of ProofsCommute, stated on the Prepare/Merge events
   of the plan).  Corollary of the C08 theorems and [linearization_independent]. *)
From Gv Require Import C08.Model C08.Spec C08.ProofsSpec C08.ProofsWaves C08.ProofsOrganize C09.ProofsCommute.
From Coq Require Import List Arith Bool Permutation Lia.
Import ListNotations.

(* the precedence among the events of a plan: a fetch is prepared before it is merged, and every
   in-plan dependency is merged before its dependant is prepared *)
Definition event_ord (l : list fetch) (a b : event) : Prop :=
  (exists f, In f l /\ a = Prepare (fid f) /\ b = Merge (fid f)) \/
  (exists f d, In f l /\ In d (fdeps f) /\ In d (ids l) /\ a = Merge d /\ b = Prepare (fid f)).

Lemma nodup_split_unique {A} (x : A) : forall p q p' q',
  NoDup (p ++ x :: q) -> p ++ x :: q = p' ++ x :: q' -> p = p' /\ q = q'.
Proof.
  induction p as [| a p IH]; intros q p' q' Hnd Heq.
  - destruct p' as [| b p'].
    + simpl in Heq. injection Heq as ->. now split.
    + simpl in Heq. injection Heq as <- Heq. exfalso.
      simpl in Hnd. inversion Hnd as [| ? ? Hn _]; subst. apply Hn. apply in_or_app. right. now left.
  - destruct p' as [| b p'].
    + simpl in Heq. injection Heq as -> Heq. exfalso.
      simpl in Hnd. inversion Hnd as [| ? ? Hn _]; subst. apply Hn. apply in_or_app. right. now left.
    + simpl in Heq. injection Heq as -> Heq.
      simpl in Hnd. inversion Hnd; subst.
      destruct (IH q p' q' H2 Heq) as [-> ->]. now split.
Qed.

Lemma before_not_after (a b : event) s p q :
  NoDup s -> s = p ++ b :: q -> In a q -> before a b s -> False.
Proof.
  intros Hnd -> Ha [s1 [s2 [s3 Heq]]].
  assert (H : p ++ b :: q = (s1 ++ a :: s2) ++ b :: s3) by (rewrite Heq, <- app_assoc; reflexivity).
  destruct (nodup_split_unique b p q (s1 ++ a :: s2) s3 Hnd H) as [-> ->].
  rewrite <- app_assoc in Hnd. simpl in Hnd.
  apply NoDup_remove_2 in Hnd. apply Hnd.
  apply in_or_app. right. apply in_or_app. right. now right.
Qed.

(* in every execution of a tree a fetch is prepared before it is merged *)
Lemma lin_prepare_before_merge_all :
  (forall t s, lin t s -> forall f, In f (tree_fetches t) -> before (Prepare (fid f)) (Merge (fid f)) s) /\
  (forall ts s, lin_seq ts s -> forall f, In f (flat_map tree_fetches ts) -> before (Prepare (fid f)) (Merge (fid f)) s) /\
  (forall ts s, lin_par ts s -> forall f, In f (flat_map tree_fetches ts) -> before (Prepare (fid f)) (Merge (fid f)) s).
Proof.
  apply lin_mutind.
  - intros f g [<- | []]. exists [], [], []. reflexivity.
  - intros ts s _ IH f Hf. apply IH. exact Hf.
  - intros ts s _ IH f Hf. apply IH. exact Hf.
  - intros f [].
  - intros t ts s1 s2 _ IH1 _ IH2 f Hf. simpl in Hf. apply in_app_or in Hf. destruct Hf as [Hf | Hf].
    + apply before_app_l. now apply IH1.
    + apply before_app_r. now apply IH2.
  - intros f [].
  - intros t ts s1 s2 s _ IH1 _ IH2 Hi f Hf. simpl in Hf. apply in_app_or in Hf. destruct Hf as [Hf | Hf].
    + eapply before_interleave_l; [exact Hi | now apply IH1].
    + eapply before_interleave_r; [exact Hi | now apply IH2].
Qed.

Lemma events_prepare_inv l id : In (Prepare id) (events_of l) -> exists f, In f l /\ fid f = id.
Proof.
  unfold events_of. intros H. apply in_flat_map in H. destruct H as [f [Hf H]].
  destruct H as [H | [H | []]]; [injection H as <- | discriminate]. now exists f.
Qed.

Section TreeRuns.
  Variable St : Type.
  Variable step : St -> event -> St.
  Variable l : list fetch.

  (* the commutation hypothesis of ProofsCommute on the events of the plan *)
  Hypothesis commute :
    forall s a b, In a (events_of l) -> In b (events_of l) -> a <> b ->
    indep event (events_of l) (event_ord l) a b -> step (step s a) b = step (step s b) a.

  Lemma lin_respects t s :
    plan_respects t l -> exactly_once t l -> lin t s -> respects event (event_ord l) s.
  Proof.
    intros Hpr Heo Hlin p x q Heq y Hy Hord.
    destruct (Heo s Hlin) as [Hnd Hperm].
    assert (Hb : before y x s).
    { destruct Hord as [[f [Hf [-> ->]]] | [f [d [Hf [Hd [Hdl [-> ->]]]]]]].
      - (* Prepare f before Merge f: find the tree's fetch with that id *)
        assert (Hin : In (Prepare (fid f)) (events_of (tree_fetches t))).
        { apply (Permutation_in _ (lin_events t s Hlin)).
          apply (Permutation_in _ (Permutation_sym Hperm)). now apply events_of_in_prepare. }
        apply events_prepare_inv in Hin. destruct Hin as [g [Hg Hid]].
        rewrite <- Hid. apply (proj1 lin_prepare_before_merge_all t s Hlin g Hg).
      - apply (Hpr s Hlin f d Hf Hd Hdl). }
    exact (before_not_after y x s p q Hnd Heq Hy Hb).
  Qed.

  Theorem tree_runs_agree :
    unique_ids l -> forall t1 t2,
    plan_respects t1 l -> exactly_once t1 l -> plan_respects t2 l -> exactly_once t2 l ->
    forall s1 s2, lin t1 s1 -> lin t2 s2 ->
    forall st, fold_left step s1 st = fold_left step s2 st.
  Proof.
    intros Hu t1 t2 Hp1 He1 Hp2 He2 s1 s2 Hl1 Hl2 st.
    apply (linearization_independent event St step (events_of l) (event_ord l) commute s1 s2 st).
    - apply events_of_nodup. exact Hu.
    - apply (proj2 (He1 s1 Hl1)).
    - apply (proj2 (He2 s2 Hl2)).
    - apply (lin_respects t1 s1 Hp1 He1 Hl1).
    - apply (lin_respects t2 s2 Hp2 He2 Hl2).
  Qed.

  (* whatever organizeFetchTree builds from the planner's fetches (scheduler or legacy waves,
     with or without a subscription trigger; the MultiFetch stage replaces fetches by merged
     ones and is outside this statement) *)
  Theorem organize_runs_agree :
    acyclic l -> unique_ids l ->
    forall sched trigger t1 sched' trigger' t2,
    organize sched false trigger l = Done t1 -> organize sched' false trigger' l = Done t2 ->
    forall s1 s2, lin t1 s1 -> lin t2 s2 ->
    forall st, fold_left step s1 st = fold_left step s2 st.
  Proof.
    intros Ha Hu sched trigger t1 sched' trigger' t2 H1 H2.
    destruct (organize_respects_deps_proof sched trigger l t1 Ha Hu H1) as [_ [Hp1 He1]].
    destruct (organize_respects_deps_proof sched' trigger' l t2 Ha Hu H2) as [_ [Hp2 He2]].
    apply (tree_runs_agree Hu t1 t2 Hp1 He1 Hp2 He2).
  Qed.

  (* any tree over the plan's fetches that validateSchedule accepts, against the wave tree *)
  Theorem validated_runs_agree :
    acyclic l -> unique_ids l ->
    forall tw, organize_in_waves l = Some tw ->
    forall t, Permutation (tree_fetches t) l -> validate_schedule l (Some t) = true ->
    forall s1 s2, lin tw s1 -> lin t s2 ->
    forall st, fold_left step s1 st = fold_left step s2 st.
  Proof.
    intros Ha Hu tw Hw t Hperm Hv.
    destruct (waves_respect_deps_proof l Ha Hu) as [tw' [Hw' [_ [Hp1 He1]]]].
    rewrite Hw in Hw'. injection Hw' as <-.
    destruct (validate_sound_proof l t Hu Hv) as [Htr _].
    apply (tree_runs_agree Hu tw t Hp1 He1).
    - apply perm_plan_respects; assumption.
    - apply perm_exactly_once; assumption.
  Qed.
End TreeRuns.
