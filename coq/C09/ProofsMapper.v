(* C09: the variables mapper (astnormalization/variables_mapping.go) on the model.
   The names it hands out are pairwise distinct; when every defined variable is recorded (and so
   renamed) the result has no two definitions with one name; a variable that is not recorded
   (Upload-typed, or used only inside a list / object literal) can collide with a handed-out name. *)
From Gv Require Import lib.Bytes lib.Json lib.Gql lib.Exec C09.Model C09.Spec C09.ProofsBase.
From Coq Require Import List Arith Bool NArith Permutation Lia.
Import ListNotations.
Local Open Scope nat_scope.

(* ---- generated names ---- *)
Lemma gen_name_inj a b : gen_name a = gen_name b -> a = b.
Proof.
  unfold gen_name. intros H.
  assert (Hl : a / 26 = b / 26).
  { apply (f_equal (@length byte)) in H. rewrite !repeat_length in H. now injection H. }
  assert (Hh : (97 + N.of_nat (a mod 26))%N = (97 + N.of_nat (b mod 26))%N).
  { apply (f_equal (fun l => hd 0%N l)) in H. exact H. }
  apply N.add_cancel_l in Hh. apply Nat2N.inj in Hh.
  rewrite (Nat.div_mod_eq a 26), (Nat.div_mod_eq b 26), Hl, Hh. reflexivity.
Qed.

Lemma first_unused_notin : forall fuel k keys,
  (exists j, k <= j <= k + fuel /\ mem_bytes (gen_name j) keys = false) ->
  mem_bytes (first_unused keys k fuel) keys = false.
Proof.
  induction fuel as [| f IH]; intros k keys [j [Hj Hm]]; simpl.
  - assert (j = k) by lia. now subst.
  - destruct (mem_bytes (gen_name k) keys) eqn:E; [| exact E].
    apply IH. exists j. split; [| exact Hm].
    assert (j <> k) by (intros ->; congruence). lia.
Qed.

Lemma forallb_false_exists {A} (f : A -> bool) l : forallb f l = false -> exists x, In x l /\ f x = false.
Proof.
  induction l as [| x l IH]; simpl; [discriminate |]. destruct (f x) eqn:E; simpl.
  - intros H. destruct (IH H) as [y [Hy Hf]]. exists y. split; [now right | exact Hf].
  - intros _. exists x. split; [now left | exact E].
Qed.

Lemma some_candidate_unused keys : exists j, j <= length keys /\ mem_bytes (gen_name j) keys = false.
Proof.
  set (cands := map gen_name (seq 0 (S (length keys)))).
  destruct (forallb (fun c => mem_bytes c keys) cands) eqn:E.
  - exfalso.
    assert (Hnd : NoDup cands).
    { unfold cands. apply FinFun.Injective_map_NoDup; [intros a b; apply gen_name_inj | apply seq_NoDup]. }
    assert (Hincl : incl cands keys).
    { intros c Hc. rewrite forallb_forall in E. apply mem_bytes_In. now apply E. }
    pose proof (NoDup_incl_length Hnd Hincl) as Hlen. unfold cands in Hlen. rewrite map_length, seq_length in Hlen. lia.
  - apply forallb_false_exists in E. destruct E as [c [Hc Hm]]. unfold cands in Hc.
    apply in_map_iff in Hc. destruct Hc as [j [<- Hj]]. apply in_seq in Hj. exists j. split; [lia | exact Hm].
Qed.

Lemma fresh_name_notin keys : ~ In (fresh_name keys) keys.
Proof.
  apply mem_bytes_false. unfold fresh_name. apply first_unused_notin.
  destruct (some_candidate_unused keys) as [j [Hj Hm]]. exists j. split; [lia | exact Hm].
Qed.

Lemma NoDup_snoc {A} (l : list A) x : NoDup l -> ~ In x l -> NoDup (l ++ [x]).
Proof.
  intros Hnd Hx. induction l as [| y l IH]; simpl; [constructor; [tauto | constructor] |].
  inversion Hnd; subst. constructor.
  - intros Hin. apply in_app_or in Hin. destruct Hin as [Hin | [-> | []]]; [contradiction |]. apply Hx. now left.
  - apply IH; [assumption |]. intros Hin. apply Hx. now right.
Qed.

Lemma assign_names_spec avoid : forall olds mp, NoDup (map fst mp) ->
  NoDup (map fst (assign_names avoid olds mp)) /\ map snd (assign_names avoid olds mp) = map snd mp ++ olds /\
  (forall p, In p (assign_names avoid olds mp) -> In p mp \/ ~ In (fst p) avoid).
Proof.
  induction olds as [| o olds IH]; intros mp Hnd; simpl.
  - split; [exact Hnd | split; [now rewrite app_nil_r | auto]].
  - pose proof (fresh_name_notin (map fst mp ++ avoid)) as Hfresh.
    destruct (IH (mp ++ [(fresh_name (map fst mp ++ avoid), o)])) as [H1 [H2 H3]].
    + rewrite map_app. simpl. apply NoDup_snoc; [exact Hnd |]. intros Hin. apply Hfresh. apply in_or_app. now left.
    + split; [exact H1 |]. split.
      * rewrite H2, map_app. simpl. now rewrite <- app_assoc.
      * intros p Hp. destruct (H3 p Hp) as [Hin | Hn]; [| now right].
        apply in_app_or in Hin. destruct Hin as [Hin | [<- | []]]; [now left |].
        right. simpl. intros Hin. apply Hfresh. apply in_or_app. now right.
Qed.

(* ---- new_of is one-to-one on the recorded names ---- *)
Lemma new_of_in mp n : In n (map snd mp) -> exists p, In p mp /\ snd p = n /\ new_of mp n = fst p.
Proof.
  unfold new_of. intros Hn. destruct (find (fun p => bytes_eqb (snd p) n) mp) as [p |] eqn:E.
  - apply find_some in E. destruct E as [Hp Hs]. apply bytes_eqb_eq in Hs. now exists p.
  - exfalso. apply in_map_iff in Hn. destruct Hn as [p [Hs Hp]].
    pose proof (find_none _ _ E p Hp) as Hf. simpl in Hf. subst n. rewrite bytes_eqb_refl in Hf. discriminate.
Qed.

Lemma fst_inj_nodup {A B} (l : list (A * B)) p q : NoDup (map fst l) -> In p l -> In q l -> fst p = fst q -> p = q.
Proof.
  induction l as [| x l IH]; intros Hnd Hp Hq E; [contradiction |]. simpl in Hnd. inversion Hnd as [| ? ? Hn Hnd']; subst.
  destruct Hp as [-> | Hp], Hq as [-> | Hq]; auto.
  - exfalso. apply Hn. rewrite E. now apply in_map.
  - exfalso. apply Hn. rewrite <- E. now apply in_map.
Qed.

Lemma new_of_inj mp a b : NoDup (map fst mp) -> In a (map snd mp) -> In b (map snd mp) -> new_of mp a = new_of mp b -> a = b.
Proof.
  intros Hnd Ha Hb E. destruct (new_of_in mp a Ha) as [p [Hp [Hsp Hfp]]]. destruct (new_of_in mp b Hb) as [q [Hq [Hsq Hfq]]].
  assert (p = q) by (apply (fst_inj_nodup mp); auto; congruence). congruence.
Qed.

(* ---- the variable definitions after the mapper ---- *)
Definition renamed (mp : list (name * name)) (n : name) : name :=
  if mem_bytes n (map snd mp) then new_of mp n else n.

Lemma map_vardefs_names mp : forall vars done,
  NoDup (map vd_name vars) -> (forall n, In n done -> ~ In n (map vd_name vars)) ->
  map vd_name (map_vardefs mp done vars) = map (renamed mp) (map vd_name vars).
Proof.
  induction vars as [| vd vars IH]; intros done Hnd Hdone; simpl; [reflexivity |].
  simpl in Hnd. inversion Hnd as [| ? ? Hn Hnd']; subst.
  assert (Hd : mem_bytes (vd_name vd) done = false).
  { apply mem_bytes_false. intros Hin. apply (Hdone _ Hin). now left. }
  unfold renamed at 1. rewrite Hd. destruct (mem_bytes (vd_name vd) (map snd mp)); simpl; f_equal.
  - apply IH; [exact Hnd' |]. intros n [<- | Hin]; [exact Hn |]. intros Hin'. apply (Hdone n Hin). now right.
  - apply IH; [exact Hnd' |]. intros n Hin Hin'. apply (Hdone n Hin). now right.
Qed.

Lemma insert_vardef_perm x l : Permutation (insert_vardef x l) (x :: l).
Proof.
  induction l as [| y l IH]; simpl; [apply Permutation_refl |].
  destruct (bytes_leb (vd_name x) (vd_name y)); [apply Permutation_refl |].
  apply Permutation_trans with (y :: x :: l); [now constructor | apply perm_swap].
Qed.
Lemma sort_vardefs_perm l : Permutation (sort_vardefs l) l.
Proof.
  induction l as [| x l IH]; simpl; [constructor |].
  apply Permutation_trans with (x :: sort_vardefs l); [apply insert_vardef_perm | now constructor].
Qed.

Lemma NoDup_map_inj_on {A B} (f : A -> B) l :
  (forall a b, In a l -> In b l -> f a = f b -> a = b) -> NoDup l -> NoDup (map f l).
Proof.
  intros Hinj Hnd. induction l as [| x l IH]; simpl; [constructor |]. inversion Hnd; subst. constructor.
  - intros Hin. apply in_map_iff in Hin. destruct Hin as [y [E Hy]].
    assert (y = x) by (apply Hinj; [now right | now left | exact E]). subst. contradiction.
  - apply IH; [| assumption]. intros a b Ha Hb. apply Hinj; now right.
Qed.

(* the repaired mapper never gives two definitions one name *)
Theorem mapper_no_collision_proof :
  forall o, NoDup (op_var_names o) ->
  NoDup (op_var_names (fst (map_variables o))) /\ NoDup (map fst (snd (map_variables o))).
Proof.
  intros o Hnd. unfold map_variables, map_variables_gen. simpl.
  set (olds := collect_op o). set (avoid := reserved_names true (op_vars o) olds).
  destruct (assign_names_spec avoid olds []) as [H1 [H2 H3]]; [constructor |]. simpl in H2.
  split; [| exact H1].
  unfold op_var_names. simpl.
  apply (Permutation_NoDup (l := map vd_name (map_vardefs (assign_names avoid olds []) [] (op_vars o)))).
  { apply Permutation_sym. apply Permutation_map. apply sort_vardefs_perm. }
  rewrite map_vardefs_names; [| exact Hnd | intros n []].
  apply NoDup_map_inj_on; [| exact Hnd].
  intros a b Ha Hb E. unfold renamed in E. rewrite H2 in E.
  assert (Hres : forall n, In n (op_var_names o) -> mem_bytes n olds = false -> In n avoid).
  { intros n Hn Hm. unfold avoid, reserved_names. apply filter_In. split; [exact Hn | now rewrite Hm]. }
  assert (Hnew : forall n, mem_bytes n olds = true -> ~ In (new_of (assign_names avoid olds []) n) avoid).
  { intros n Hm. apply mem_bytes_In in Hm. rewrite <- H2 in Hm.
    destruct (new_of_in _ n Hm) as [p [Hp [_ ->]]]. destruct (H3 p Hp) as [[] | Hn]. exact Hn. }
  destruct (mem_bytes a olds) eqn:Ea, (mem_bytes b olds) eqn:Eb.
  - apply (new_of_inj (assign_names avoid olds [])); auto; rewrite H2; now apply mem_bytes_In.
  - exfalso. apply (Hnew a Ea). rewrite E. now apply Hres.
  - exfalso. apply (Hnew b Eb). rewrite <- E. now apply Hres.
  - exact E.
Qed.

(* ---- the historical collision ---- *)
(* query($a: Upload, $x: String) { f(file: $a, s: $x) } *)
Definition collision_op : operation :=
  {| op_kind := OpQuery; op_name := None;
     op_vars := [ {| vd_name := [97]%N; vd_type := TNamed s_upload; vd_default := None; vd_dirs := [] |};
                  {| vd_name := [120]%N; vd_type := TNamed [83;116;114;105;110;103]%N; vd_default := None; vd_dirs := [] |} ];
     op_dirs := [];
     op_sels := [SField None [102]%N [([102;105;108;101]%N, VVar [97]%N); ([115]%N, VVar [120]%N)] [] []] |}.

Example collision_result :
  op_var_names (fst (map_variables_gen false collision_op)) = [[97]%N; [97]%N] /\
  snd (map_variables_gen false collision_op) = [([97]%N, [120]%N)] /\
  op_var_names (fst (map_variables collision_op)) = [[97]%N; [98]%N] /\
  snd (map_variables collision_op) = [([98]%N, [120]%N)].
Proof. vm_compute. repeat split; reflexivity. Qed.

Lemma mapper_collision_historical_refuted_proof :
  exists o, NoDup (op_var_names o) /\ uses_defined_b o = true /\
            ~ NoDup (op_var_names (fst (map_variables_gen false o))).
Proof.
  exists collision_op. split; [| split].
  - apply nodup_bytes_b_NoDup. vm_compute. reflexivity.
  - vm_compute. reflexivity.
  - rewrite (proj1 collision_result). intros H. inversion H as [| ? ? Hn _]; subst. apply Hn. now left.
Qed.

(* the same without Upload: $a is used inside an object literal only, $b directly;
   query($a: String, $b: String) { f(o: {k: $a}, s: $b) } *)
Definition collision_op2 : operation :=
  {| op_kind := OpQuery; op_name := None;
     op_vars := [ {| vd_name := [97]%N; vd_type := TNamed [83;116;114;105;110;103]%N; vd_default := None; vd_dirs := [] |};
                  {| vd_name := [98]%N; vd_type := TNamed [83;116;114;105;110;103]%N; vd_default := None; vd_dirs := [] |} ];
     op_dirs := [];
     op_sels := [SField None [102]%N [([111]%N, VObj [([107]%N, VVar [97]%N)]); ([115]%N, VVar [98]%N)] [] []] |}.

Example collision_result2 :
  op_var_names (fst (map_variables_gen false collision_op2)) = [[97]%N; [97]%N] /\
  op_var_names (fst (map_variables collision_op2)) = [[97]%N; [98]%N].
Proof. vm_compute. split; reflexivity. Qed.
