(* C09: the boolean checkers that the driver evaluates on the implementation's outputs are sound
   for the Prop statements of Spec.v. *)
From Gv Require Import lib.Bytes lib.Json lib.Gql lib.Exec C08.Model C08.Spec C08.ProofsSpec C09.Model C09.Spec C09.ProofsBase C09.ProofsDedup.
From Coq Require Import List Arith Bool NArith Permutation Lia.
Import ListNotations.

Lemma all_equal_b_sound {A} (eqb : A -> A -> bool) (l : list A) :
  (forall a b, eqb a b = true -> a = b) -> all_equal_b eqb l = true -> forall a b, In a l -> In b l -> a = b.
Proof.
  intros Heq H a b Ha Hb. destruct l as [| x r]; [contradiction |]. simpl in H. rewrite forallb_forall in H.
  assert (Hx : forall y, In y (x :: r) -> x = y).
  { intros y [-> | Hy]; [reflexivity | apply Heq; now apply H]. }
  rewrite <- (Hx a Ha), <- (Hx b Hb). reflexivity.
Qed.

Lemma plan_deterministic_b_sound runs : plan_deterministic_b runs = true -> plan_deterministic runs.
Proof.
  unfold plan_deterministic_b, plan_deterministic. intros H. apply all_equal_b_sound with (eqb := bytes_eqb); [| exact H].
  intros a b E. now apply bytes_eqb_eq.
Qed.

Lemma history_transparent_b_sound base run : history_transparent_b base run = true -> history_transparent base run.
Proof.
  unfold history_transparent_b, history_transparent. apply forall2b_Forall2. intros b r H. now apply json_eqb_eq.
Qed.

Lemma cache_hit_same_plan_b_sound run : cache_hit_same_plan_b run = true -> cache_hit_same_plan run.
Proof.
  unfold cache_hit_same_plan_b, cache_hit_same_plan. rewrite forallb_forall. intros H. apply Forall_forall. intros r Hr.
  specialize (H r Hr). apply andb_true_iff in H. destruct H as [H1 H2]. split; [now apply list_bytes_eqb_eq | now apply json_eqb_eq].
Qed.

Lemma requests_semantically_covered_b_sound base run :
  requests_semantically_covered_b base run = true -> requests_semantically_covered base run.
Proof.
  unfold requests_semantically_covered_b, requests_semantically_covered. apply forall2b_Forall2. intros b r H.
  now apply incl_bytes_b_incl.
Qed.

Lemma spelling_transparent_b_sound base : spelling_transparent_b base = true -> spelling_transparent base.
Proof.
  unfold spelling_transparent_b, spelling_transparent. rewrite forallb_forall. intros H a b Ha Hb Hg.
  specialize (H a Ha). rewrite forallb_forall in H. specialize (H b Hb).
  apply orb_true_iff in H. destruct H as [H | H].
  - apply negb_true_iff in H. apply N.eqb_neq in H. contradiction.
  - now apply json_eqb_eq.
Qed.

Lemma mono_agrees_b_sound base : mono_agrees_b base = true -> mono_agrees base.
Proof.
  unfold mono_agrees_b, mono_agrees. rewrite forallb_forall. intros H. apply Forall_forall. intros b Hb.
  specialize (H b Hb). destruct (hb_mono b) as [m |]; [| exact I].
  destruct (jget s_data (hb_fresh b)) as [d |]; [| discriminate]. f_equal. now apply json_eqb_eq.
Qed.

(* de-duplication *)
Lemma keys_distinct_b_sound l : keys_distinct_b l = true -> keys_distinct l.
Proof.
  induction l as [| x l IH]; intros H pre f mid g post E.
  - destruct pre; discriminate.
  - simpl in H. apply andb_true_iff in H. destruct H as [H1 H2]. destruct pre as [| p pre].
    + simpl in E. injection E as -> ->. rewrite forallb_forall in H1.
      specialize (H1 g). rewrite negb_true_iff in H1. apply H1. apply in_or_app. right. now left.
    + simpl in E. injection E as -> ->. now apply (IH H2 pre f mid g post).
Qed.

Lemma same_requests_b_sound l l' : same_requests_b l l' = true -> same_requests l l'.
Proof.
  unfold same_requests_b, same_requests, same_key. rewrite andb_true_iff, !forallb_forall. intros [H1 H2]. split.
  - intros f Hf. specialize (H1 f Hf). apply existsb_exists in H1. destruct H1 as [g [Hg E]]. now exists g.
  - intros g Hg. specialize (H2 g Hg). apply existsb_exists in H2. destruct H2 as [f [Hf E]]. now exists f.
Qed.

Lemma dups_agree_b_sound l : dups_agree_b l = true -> dups_agree l.
Proof.
  unfold dups_agree_b, dups_agree. rewrite forallb_forall. intros H f g Hf Hg E d Hd Hdl.
  specialize (H f Hf). rewrite forallb_forall in H. specialize (H g Hg).
  rewrite E in H. simpl in H. rewrite forallb_forall in H. specialize (H d Hd).
  apply orb_true_iff in H. destruct H as [H | H].
  - apply negb_true_iff in H. apply memb_false in H. contradiction.
  - apply existsb_exists in H. destruct H as [d' [Hd' Hr]]. apply Nat.eqb_eq in Hr. now exists d'.
Qed.

(* the variables mapper: no two variable definitions of the result share a name *)
Lemma mapper_no_collision_b_spec o : mapper_no_collision_b o = true <-> NoDup (op_var_names o).
Proof. unfold mapper_no_collision_b. apply nodup_bytes_b_NoDup. Qed.
