(* C09 (iii): execution is invariant under an injective renaming of variables
   (model of the variables mapper + RemapVariables), for all documents and universes, with fuel. *)
From Gv Require Import lib.Bytes lib.Json lib.Gql lib.Exec C09.Model C09.Spec C09.ProofsBase.
From Coq Require Import List Arith Bool NArith Lia.
Import ListNotations.

(* ---- induction over values ---- *)
Section ValueInd.
  Variable P : value -> Prop.
  Hypothesis Hvar : forall n, P (VVar n).
  Hypothesis Hint : forall r, P (VInt r).
  Hypothesis Hfloat : forall r, P (VFloat r).
  Hypothesis Hstr : forall r b, P (VStr r b).
  Hypothesis Hbool : forall b, P (VBool b).
  Hypothesis Hnull : P VNull.
  Hypothesis Henum : forall n, P (VEnum n).
  Hypothesis Hlist : forall l, Forall P l -> P (VList l).
  Hypothesis Hobj : forall m, Forall (fun kv => P (snd kv)) m -> P (VObj m).
  Fixpoint value_ind' (v : value) : P v :=
    match v with
    | VVar n => Hvar n
    | VInt r => Hint r
    | VFloat r => Hfloat r
    | VStr r b => Hstr r b
    | VBool b => Hbool b
    | VNull => Hnull
    | VEnum n => Henum n
    | VList l => Hlist l ((fix go (l : list value) : Forall P l :=
                             match l with [] => Forall_nil _ | x :: r => Forall_cons _ (value_ind' x) (go r) end) l)
    | VObj m => Hobj m ((fix go (m : list (name * value)) : Forall (fun kv => P (snd kv)) m :=
                           match m with [] => Forall_nil _ | kv :: r => Forall_cons _ (value_ind' (snd kv)) (go r) end) m)
    end.
End ValueInd.

(* the loop over response-key groups inside exec_sels, as a function of its own *)
Section Groups.
  Variable ef : name -> selection -> list selection -> list Exec.pel -> cres.
  Variable path : list Exec.pel.
  Fixpoint go_groups (gs : list (name * selection * list selection)) : option (list (bytes * json)) * list xerr :=
    match gs with
    | [] => (Some [], [])
    | (key, s, subs) :: rest =>
      let r := ef key s subs (path ++ [PN key]) in
      if c_viol r then (None, c_errs r)
      else let '(o, e2) := go_groups rest in
           (match o with Some l => Some ((key, c_json r) :: l) | None => None end, c_errs r ++ e2)
    end.
End Groups.

Lemma exec_sels_S S U frags vars md f objty ov sels path :
  exec_sels S U frags vars md (Datatypes.S f) objty ov sels path =
  match flatten S frags vars (Datatypes.S f) objty sels with
  | FlatBad e => (None, [e])
  | FlatOk fl => go_groups (exec_field S U frags vars md f objty ov) path (group (Datatypes.S (length fl)) fl)
  end.
Proof. reflexivity. Qed.

Lemma fold_left_ext {A B} (f g : A -> B -> A) l : (forall a b, f a b = g a b) -> forall a, fold_left f l a = fold_left g l a.
Proof. intros H. induction l as [| x l IH]; intros a; simpl; [reflexivity |]. now rewrite H, IH. Qed.

Section RenameExec.
  Variable sg : name -> name.
  Hypothesis sg_inj : injective sg.

  Lemma sg_eqb a b : bytes_eqb (sg a) (sg b) = bytes_eqb a b.
  Proof.
    destruct (bytes_eqb a b) eqn:E.
    - apply bytes_eqb_eq in E. subst. apply bytes_eqb_refl.
    - apply bytes_eqb_neq. intros H. apply sg_inj in H. apply bytes_eqb_neq in E. contradiction.
  Qed.

  Lemma assoc_rename_keys n (vars : list (bytes * json)) : assoc (sg n) (rename_keys sg vars) = assoc n vars.
  Proof.
    induction vars as [| [k v] vars IH]; simpl; [reflexivity |]. rewrite sg_eqb. now rewrite IH.
  Qed.

  Lemma assoc_rename_args k (args : list argument) :
    assoc k (rename_args sg args) = option_map (rename_value sg) (assoc k args).
  Proof.
    induction args as [| [k' v] args IH]; simpl; [reflexivity |]. destruct (bytes_eqb k k'); [reflexivity | exact IH].
  Qed.

  Section WithVars.
    Variable vars : list (bytes * json).
    Let vars' := rename_keys sg vars.

    Lemma lit_json_rename : forall v, lit_json vars' (rename_value sg v) = lit_json vars v.
    Proof.
      induction v as [n | r | r | r b | b | | n | l IH | m IH] using value_ind'; simpl; try reflexivity.
      - apply assoc_rename_keys.
      - f_equal. f_equal. induction IH as [| x l Hx _ IHl]; simpl; [reflexivity |].
        rewrite Hx. destruct (lit_json vars x); now rewrite IHl.
      - f_equal. f_equal. induction IH as [| [k x] m Hx _ IHm]; simpl; [reflexivity |].
        simpl in Hx. rewrite Hx. destruct (lit_json vars x); now rewrite IHm.
    Qed.

    Lemma lit_json_closed : forall v vs1 vs2, value_closed v = true -> lit_json vs1 v = lit_json vs2 v.
    Proof.
      induction v as [n | r | r | r b | b | | n | l IH | m IH] using value_ind'; intros vs1 vs2 H; simpl in *; try reflexivity.
      - discriminate.
      - f_equal. f_equal. induction IH as [| x l Hx _ IHl]; simpl in *; [reflexivity |].
        apply andb_true_iff in H. destruct H as [H1 H2]. rewrite (Hx vs1 vs2 H1).
        destruct (lit_json vs2 x); now rewrite IHl.
      - f_equal. f_equal. induction IH as [| [k x] m Hx _ IHm]; simpl in *; [reflexivity |].
        apply andb_true_iff in H. destruct H as [H1 H2]. rewrite (Hx vs1 vs2 H1).
        destruct (lit_json vs2 x); now rewrite IHm.
    Qed.
  End WithVars.

  (* ---- the type system carries no variables ---- *)
  Variable S : schema.
  Hypothesis S_closed : schema_closed S = true.

  Lemma find_type_in n ts td : find_type n ts = Some td -> In td ts.
  Proof.
    induction ts as [| t ts IH]; simpl; [discriminate |].
    destruct (bytes_eqb n (td_name t)); [intros H; injection H as ->; now left | intros H; right; now apply IH].
  Qed.
  Lemma find_field_in n fs fd : find_field n fs = Some fd -> In fd fs.
  Proof.
    induction fs as [| f fs IH]; simpl; [discriminate |].
    destruct (bytes_eqb n (fd_name f)); [intros H; injection H as ->; now left | intros H; right; now apply IH].
  Qed.

  Lemma closed_inputs td d : In td (s_types S) -> In d (td_input_fields td) -> iv_closed d = true.
  Proof.
    intros Htd Hd. unfold schema_closed in S_closed. rewrite forallb_forall in S_closed.
    specialize (S_closed td Htd). apply andb_true_iff in S_closed. destruct S_closed as [H _].
    rewrite forallb_forall in H. now apply H.
  Qed.
  Lemma closed_args td fd d : In td (s_types S) -> In fd (td_fields td) -> In d (fd_args fd) -> iv_closed d = true.
  Proof.
    intros Htd Hfd Hd. unfold schema_closed in S_closed. rewrite forallb_forall in S_closed.
    specialize (S_closed td Htd). apply andb_true_iff in S_closed. destruct S_closed as [_ H].
    rewrite forallb_forall in H. specialize (H fd Hfd). rewrite forallb_forall in H. now apply H.
  Qed.

  Lemma default_json_vars d vs1 vs2 : iv_closed d = true ->
    match iv_default d with Some dv => lit_json vs1 dv | None => None end =
    match iv_default d with Some dv => lit_json vs2 dv | None => None end.
  Proof.
    unfold iv_closed. destruct (iv_default d) as [dv |]; [| reflexivity]. intros H. now apply lit_json_closed.
  Qed.

  Lemma coerce_vars vs1 vs2 : forall fuel t j, coerce S vs1 fuel t j = coerce S vs2 fuel t j.
  Proof.
    induction fuel as [| f IH]; intros t j; simpl; [reflexivity |].
    destruct t as [n | t' | t'].
    - destruct (find_type n (s_types S)) as [td |] eqn:Etd; [| reflexivity].
      apply find_type_in in Etd.
      destruct (td_kind td); try reflexivity. destruct j as [| | | | | m]; try reflexivity.
      f_equal.
      assert (Hcl : forall d, In d (td_input_fields td) -> iv_closed d = true) by (intros; now apply (closed_inputs td)).
      induction (td_input_fields td) as [| d defs IHd]; [reflexivity |].
      assert (Hd : iv_closed d = true) by (apply Hcl; now left).
      assert (Hr : forall d', In d' defs -> iv_closed d' = true) by (intros; apply Hcl; now right).
      specialize (IHd Hr).
      destruct (obj_get (iv_name d) m) as [v |].
      + rewrite IH. f_equal. exact IHd.
      + unfold iv_closed in Hd. destruct (iv_default d) as [dv |].
        * rewrite (lit_json_closed dv vs1 vs2 Hd). destruct (lit_json vs2 dv); [rewrite IH; f_equal; exact IHd | exact IHd].
        * exact IHd.
    - destruct j; try (rewrite IH; reflexivity); try reflexivity.
      f_equal. apply map_ext. intros. apply IH.
    - apply IH.
  Qed.

  (* ---- everything that reads variables, under renaming ---- *)
  Variable U : universe.
  Variable frags : list fragment.
  Variable vars : list (bytes * json).
  Variable md : mode.
  Let vars' := rename_keys sg vars.
  Let frags' := map (rename_frag sg) frags.
  Let R := rename_sel sg.

  Lemma lit_json_rename' v : lit_json vars' (rename_value sg v) = lit_json vars v.
  Proof. apply lit_json_rename. Qed.

  Lemma coerce_args_rename defs args :
    (forall d, In d defs -> iv_closed d = true) ->
    coerce_args S vars' defs (rename_args sg args) = coerce_args S vars defs args.
  Proof.
    intros Hcl. unfold coerce_args.
    induction defs as [| d defs IH]; [reflexivity |].
    assert (Hd : iv_closed d = true) by (apply Hcl; now left).
    assert (Hr : forall d', In d' defs -> iv_closed d' = true) by (intros; apply Hcl; now right).
    specialize (IH Hr).
    rewrite assoc_rename_args.
    assert (E : match option_map (rename_value sg) (assoc (iv_name d) args) with
                | Some v => lit_json vars' v | None => None end =
                match assoc (iv_name d) args with Some v => lit_json vars v | None => None end).
    { destruct (assoc (iv_name d) args); simpl; [apply lit_json_rename' | reflexivity]. }
    rewrite E. destruct (match assoc (iv_name d) args with Some v => lit_json vars v | None => None end).
    - rewrite (coerce_vars vars' vars). f_equal. exact IH.
    - unfold iv_closed in Hd. destruct (iv_default d) as [dv |]; [| exact IH].
      rewrite (lit_json_closed dv vars' vars Hd). destruct (lit_json vars dv); [| exact IH].
      rewrite (coerce_vars vars' vars). f_equal. exact IH.
  Qed.

  Lemma dir_if_rename d : dir_if vars' (rename_dir sg d) = dir_if vars d.
  Proof.
    unfold dir_if, rename_dir. simpl. rewrite assoc_rename_args.
    destruct (assoc s_if (d_args d)); simpl; [now rewrite lit_json_rename' | reflexivity].
  Qed.

  Lemma included_rename dirs : included vars' (rename_dirs sg dirs) = included vars dirs.
  Proof.
    induction dirs as [| d dirs IH]; simpl; [reflexivity |]. rewrite IH, dir_if_rename. reflexivity.
  Qed.

  Lemma find_frag_rename n : find_frag n frags' = option_map (rename_frag sg) (find_frag n frags).
  Proof.
    unfold frags'. induction frags as [| f fs IH]; simpl; [reflexivity |].
    destruct (bytes_eqb n (fr_name f)); [reflexivity | exact IH].
  Qed.

  Definition flat_map_R (r : flat) : flat :=
    match r with FlatOk l => FlatOk (map R l) | FlatBad e => FlatBad e end.

  Lemma flatten_rename : forall fuel objty sels,
    flatten S frags' vars' fuel objty (map R sels) = flat_map_R (flatten S frags vars fuel objty sels).
  Proof.
    induction fuel as [| f IH]; intros objty sels; simpl; [reflexivity |].
    destruct sels as [| s rest]; simpl; [reflexivity |].
    rewrite IH.
    assert (Hhere :
      match R s with
      | SField _ _ _ dirs _ => if included vars' dirs then FlatOk [R s] else FlatOk []
      | SInline cond dirs sub =>
        if negb (included vars' dirs) then FlatOk []
        else match cond with
             | None => flatten S frags' vars' f objty sub
             | Some c =>
               match kind_of S c with
               | None => if bytes_eqb c [95;69;110;116;105;116;121]%N then flatten S frags' vars' f objty sub
                         else FlatBad (XInvalid c)
               | Some _ => if type_applies S objty c then flatten S frags' vars' f objty sub else FlatOk []
               end
             end
      | SSpread n dirs =>
        if negb (included vars' dirs) then FlatOk []
        else match find_frag n frags' with
             | None => FlatBad (XInvalid n)
             | Some fr => if type_applies S objty (fr_type fr) then flatten S frags' vars' f objty (fr_sels fr) else FlatOk []
             end
      end =
      flat_map_R
      match s with
      | SField _ _ _ dirs _ => if included vars dirs then FlatOk [s] else FlatOk []
      | SInline cond dirs sub =>
        if negb (included vars dirs) then FlatOk []
        else match cond with
             | None => flatten S frags vars f objty sub
             | Some c =>
               match kind_of S c with
               | None => if bytes_eqb c [95;69;110;116;105;116;121]%N then flatten S frags vars f objty sub
                         else FlatBad (XInvalid c)
               | Some _ => if type_applies S objty c then flatten S frags vars f objty sub else FlatOk []
               end
             end
      | SSpread n dirs =>
        if negb (included vars dirs) then FlatOk []
        else match find_frag n frags with
             | None => FlatBad (XInvalid n)
             | Some fr => if type_applies S objty (fr_type fr) then flatten S frags vars f objty (fr_sels fr) else FlatOk []
             end
      end).
    { destruct s as [a n args dirs sub | cond dirs sub | n dirs]; simpl.
      - rewrite included_rename. destruct (included vars dirs); reflexivity.
      - rewrite included_rename. destruct (included vars dirs); simpl; [| reflexivity].
        destruct cond as [c |]; [| apply IH].
        destruct (kind_of S c).
        + destruct (type_applies S objty c); [apply IH | reflexivity].
        + destruct (bytes_eqb c [95;69;110;116;105;116;121]%N); [apply IH | reflexivity].
      - rewrite included_rename. destruct (included vars dirs); simpl; [| reflexivity].
        rewrite find_frag_rename. destruct (find_frag n frags) as [fr |]; simpl; [| reflexivity].
        destruct (type_applies S objty (fr_type fr)); [apply IH | reflexivity]. }
    rewrite Hhere.
    match goal with |- context [flat_map_R ?x] => destruct x as [l1 | e] end; simpl; [| reflexivity].
    destruct (flatten S frags vars f objty rest) as [l2 | e]; simpl; [| reflexivity].
    now rewrite map_app.
  Qed.

  Lemma sel_key_R s : sel_key (R s) = sel_key s.
  Proof. destruct s; reflexivity. Qed.

  Definition group_R (g : name * selection * list selection) : name * selection * list selection :=
    let '(k, s, subs) := g in (k, R s, map R subs).

  Lemma subs_R l :
    flat_map (fun x => match x with SField _ _ _ _ ss => ss | _ => [] end) (map R l) =
    map R (flat_map (fun x => match x with SField _ _ _ _ ss => ss | _ => [] end) l).
  Proof.
    induction l as [| x l IH]; simpl; [reflexivity |]. rewrite map_app, IH. destruct x; reflexivity.
  Qed.

  Lemma filter_map_R (p : selection -> bool) l :
    (forall x, p (R x) = p x) -> filter p (map R l) = map R (filter p l).
  Proof.
    intros H. induction l as [| x l IH]; simpl; [reflexivity |]. rewrite H. destruct (p x); simpl; now rewrite IH.
  Qed.

  Lemma group_rename : forall fuel l, group fuel (map R l) = map group_R (group fuel l).
  Proof.
    induction fuel as [| f IH]; intros l; simpl; [reflexivity |].
    destruct l as [| s rest]; simpl; [reflexivity |].
    rewrite sel_key_R.
    rewrite (filter_map_R (fun x => bytes_eqb (sel_key x) (sel_key s))) by (intros; now rewrite sel_key_R).
    rewrite (filter_map_R (fun x => negb (bytes_eqb (sel_key x) (sel_key s)))) by (intros; now rewrite sel_key_R).
    rewrite IH. f_equal. f_equal.
    exact (subs_R (s :: filter (fun x => bytes_eqb (sel_key x) (sel_key s)) rest)).
  Qed.

  Lemma go_groups_rename (ef' ef : name -> selection -> list selection -> list Exec.pel -> cres) path gs :
    (forall k s subs p, ef' k (R s) (map R subs) p = ef k s subs p) ->
    go_groups ef' path (map group_R gs) = go_groups ef path gs.
  Proof.
    intros H. induction gs as [| [[k s] subs] gs IH]; simpl; [reflexivity |].
    rewrite H, IH. reflexivity.
  Qed.

  (* ---- the executor ---- *)
  Definition P_sels (fuel : nat) : Prop := forall objty ov sels path,
    exec_sels S U frags' vars' md fuel objty ov (map R sels) path = exec_sels S U frags vars md fuel objty ov sels path.
  Definition P_field (fuel : nat) : Prop := forall objty ov key s subs path,
    exec_field S U frags' vars' md fuel objty ov key (R s) (map R subs) path =
    exec_field S U frags vars md fuel objty ov key s subs path.
  Definition P_complete (fuel : nat) : Prop := forall t ov fname cargs fv subs path,
    complete S U frags' vars' md fuel t ov fname cargs fv (map R subs) path =
    complete S U frags vars md fuel t ov fname cargs fv subs path.

  Lemma exec_rename_all : forall fuel, P_sels fuel /\ P_field fuel /\ P_complete fuel.
  Proof.
    induction fuel as [| f [IHs [IHf IHc]]].
    - repeat split; intros; reflexivity.
    - split; [| split].
      + (* exec_sels *)
        intros objty ov sels path. rewrite !exec_sels_S.
        rewrite flatten_rename.
        destruct (flatten S frags vars (Datatypes.S f) objty sels) as [fl | e]; unfold flat_map_R; [| reflexivity].
        rewrite map_length, group_rename.
        apply go_groups_rename. intros k s subs p. apply IHf.
      + (* exec_field *)
        intros objty ov key s subs path.
        destruct s as [a fname args dirs ss | c dirs ss | n dirs]; [| reflexivity | reflexivity].
        simpl.
        destruct (bytes_eqb fname s_typename); [reflexivity |].
        destruct (match md with Mono => false | Sub => bytes_eqb fname s_entities && bytes_eqb objty (s_query S) end).
        * rewrite assoc_rename_args.
          assert (E : match option_map (rename_value sg) (assoc s_representations args) with
                      | Some v => match lit_json vars' v with Some (JArr l) => l | _ => [] end
                      | None => [] end =
                      match assoc s_representations args with
                      | Some v => match lit_json vars v with Some (JArr l) => l | _ => [] end
                      | None => [] end).
          { destruct (assoc s_representations args); simpl; [now rewrite lit_json_rename' | reflexivity]. }
          rewrite E.
          erewrite fold_left_ext; [reflexivity |].
          intros [[[items errs] viol] i] r. destruct (find_by_repr U r); [| reflexivity]. now rewrite IHs.
        * destruct (find_type objty (s_types S)) as [td |] eqn:Etd; [| reflexivity].
          destruct (find_field fname (td_fields td)) as [fd |] eqn:Efd; [| reflexivity].
          rewrite coerce_args_rename.
          -- apply IHc.
          -- intros d Hd. apply (closed_args td fd d); [now apply find_type_in in Etd | now apply find_field_in in Efd | exact Hd].
      + (* complete *)
        intros t ov fname cargs fv subs path. simpl.
        destruct t as [n | t' | t'].
        * destruct (kind_of S n) as [[| | | | |] |]; try reflexivity;
            (match goal with |- context [match ?tg with Some _ => _ | None => _ end] => destruct tg as [[e |] |] end; try reflexivity;
             match goal with |- context [if ?c then _ else _] => destruct c end; try reflexivity; now rewrite IHs).
        * destruct fv as [j | | | items | | | |]; try reflexivity.
          -- destruct j; try reflexivity. apply IHc.
          -- erewrite fold_left_ext; [reflexivity |].
             intros [[[out errs] viol] i] it. now rewrite IHc.
        * now rewrite IHc.
  Qed.
End RenameExec.

(* ---- requests ---- *)
Section RenameExecute.
  Variable sg : name -> name.
  Hypothesis sg_inj : injective sg.

  Lemma doc_frags_rename d : doc_frags (rename_doc sg d) = map (rename_frag sg) (doc_frags d).
  Proof. induction d as [| [o | f] d IH]; simpl; [reflexivity | exact IH | now rewrite IH]. Qed.
  Lemma doc_ops_rename d : doc_ops (rename_doc sg d) = map (rename_op sg) (doc_ops d).
  Proof. induction d as [| [o | f] d IH]; simpl; [reflexivity | now rewrite IH | exact IH]. Qed.

  Lemma pick_op_rename d opname : pick_op (rename_doc sg d) opname = option_map (rename_op sg) (pick_op d opname).
  Proof.
    unfold pick_op. rewrite doc_ops_rename. destruct opname as [n |].
    - induction (doc_ops d) as [| o ops IH]; simpl; [reflexivity |].
      destruct (op_name o) as [m |]; simpl; [destruct (bytes_eqb m n); [reflexivity | exact IH] | exact IH].
    - destruct (doc_ops d) as [| o [| o2 ops]]; reflexivity.
  Qed.

  Lemma effective_vars_rename o sup :
    effective_vars (rename_op sg o) (rename_keys sg sup) = rename_keys sg (effective_vars o sup).
  Proof.
    unfold effective_vars, rename_op. simpl.
    induction (op_vars o) as [| vd vds IH]; simpl; [reflexivity |].
    rewrite IH. unfold rename_keys at 3. rewrite map_app. f_equal.
    rewrite (assoc_rename_keys sg sg_inj). destruct (assoc (vd_name vd) sup); [reflexivity |].
    destruct (vd_default vd) as [dv |]; simpl; [| reflexivity].
    pose proof (lit_json_rename sg sg_inj [] dv) as H. change (rename_keys sg []) with (@nil (bytes * json)) in H. rewrite H.
    destruct (lit_json [] dv); reflexivity.
  Qed.

  Theorem rename_transparent_proof : forall S, schema_closed S = true ->
    forall fuel U md d opname supplied,
    execute fuel S U md (rename_doc sg d) opname (rename_supplied sg supplied) = execute fuel S U md d opname supplied.
  Proof.
    intros S HS fuel U md d opname supplied. unfold execute.
    rewrite pick_op_rename. destruct (pick_op d opname) as [o |]; simpl; [| reflexivity].
    destruct (root_type S (op_kind o)) as [rt |]; [| reflexivity].
    assert (E : effective_vars (rename_op sg o) match rename_supplied sg supplied with JObj m => m | _ => [] end =
                rename_keys sg (effective_vars o match supplied with JObj m => m | _ => [] end)).
    { destruct supplied; simpl; try apply (effective_vars_rename o []). apply effective_vars_rename. }
    rewrite E. destruct (find_entity U rt []) as [root |]; [| reflexivity].
    rewrite doc_frags_rename.
    pose proof (proj1 (exec_rename_all sg sg_inj S HS U (doc_frags d)
                         (effective_vars o match supplied with JObj m => m | _ => [] end) md fuel)) as H.
    unfold P_sels in H. unfold rename_sels. rewrite H. reflexivity.
  Qed.
End RenameExecute.

(* document size (the default fuel) is unchanged as well *)
Lemma sel_size_rename sg : forall s, sel_size (rename_sel sg s) = sel_size s.
Proof.
  fix IH 1. intros [a n args dirs ss | c dirs ss | n dirs]; simpl; try reflexivity.
  - f_equal. induction ss as [| x ss IHs]; simpl; [reflexivity |]. now rewrite IH, IHs.
  - f_equal. induction ss as [| x ss IHs]; simpl; [reflexivity |]. now rewrite IH, IHs.
Qed.

Lemma doc_size_rename sg d : doc_size (rename_doc sg d) = doc_size d.
Proof.
  unfold doc_size. induction d as [| [o | f] d IH]; simpl; [reflexivity | |].
  - rewrite IH. f_equal. unfold sels_size, rename_sels.
    induction (op_sels o) as [| x ss IHs]; simpl; [reflexivity |]. now rewrite sel_size_rename, IHs.
  - rewrite IH. f_equal. unfold sels_size, rename_sels.
    induction (fr_sels f) as [| x ss IHs]; simpl; [reflexivity |]. now rewrite sel_size_rename, IHs.
Qed.

Corollary rename_transparent_default sg : injective sg -> forall S, schema_closed S = true ->
  forall U md d opname supplied,
  execute_default S U md (rename_doc sg d) opname (rename_supplied sg supplied) = execute_default S U md d opname supplied.
Proof.
  intros Hi S HS U md d opname supplied. unfold execute_default, default_fuel.
  rewrite doc_size_rename. now apply rename_transparent_proof.
Qed.
