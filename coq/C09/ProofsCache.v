(* C09 (iv): the plan cache.  The key is the hash of the printed normalised operation; a cached
   plan is the plan a fresh planner would build.  Two NAMED assumptions, both Section hypotheses:
     print_injective      -- astprinter.Print is injective on normalised operations (C05 round trip:
                             parse (print d) = d);
     hash_collision_free  -- the 64-bit hash separates the printed operations of the history.
   The planner is a Section variable: a function (planner determinism is what the det stream of
   the check samples on the implementation). *)
From Gv Require Import lib.Bytes lib.Json lib.Gql C09.Model C09.Spec.
From Coq Require Import List Arith Bool NArith Lia.
Import ListNotations.

Section CacheKeySound.
  Variable print : document -> bytes.
  Variable hash : bytes -> N.
  Variable Plan : Type.
  Variable planner : document -> Plan.
  Variable docs : list document.            (* the normalised operations the engine ever sees *)

  Hypothesis print_injective : forall d1 d2, In d1 docs -> In d2 docs -> print d1 = print d2 -> d1 = d2.
  Hypothesis hash_collision_free :
    forall d1 d2, In d1 docs -> In d2 docs -> hash (print d1) = hash (print d2) -> print d1 = print d2.

  Theorem cache_key_sound_proof : forall d1 d2, In d1 docs -> In d2 docs ->
    cache_key print hash d1 = cache_key print hash d2 ->
    print d1 = print d2 /\ d1 = d2 /\ planner d1 = planner d2.
  Proof.
    intros d1 d2 H1 H2 Hk. unfold cache_key in Hk.
    assert (Hp : print d1 = print d2) by now apply hash_collision_free.
    assert (Hd : d1 = d2) by now apply print_injective.
    repeat split; auto. now rewrite Hd.
  Qed.

  Lemma cache_get_in (c : cache Plan) k p : cache_get Plan c k = Some p -> In (k, p) c.
  Proof.
    induction c as [| [k' p'] c IH]; simpl; [discriminate |].
    destruct (k =? k')%N eqn:E.
    - intros H. injection H as ->. apply N.eqb_eq in E. subst. now left.
    - intros H. right. now apply IH.
  Qed.

  Lemma run_history_fresh : forall h c,
    (forall d, In d h -> In d docs) -> cache_wf print hash Plan planner docs c ->
    run_history print hash Plan planner c h = map planner h.
  Proof.
    induction h as [| d r IH]; intros c Hin Hwf; simpl; [reflexivity |].
    unfold get_cached_plan.
    destruct (cache_get Plan c (cache_key print hash d)) as [p |] eqn:E.
    - apply cache_get_in in E. destruct (Hwf _ _ E) as [d0 [Hd0 [Hk ->]]].
      destruct (cache_key_sound_proof d0 d Hd0 (Hin d (or_introl eq_refl)) Hk) as [_ [-> _]].
      f_equal. apply IH; [intros; apply Hin; now right | exact Hwf].
    - f_equal. apply IH; [intros; apply Hin; now right |].
      intros k p [H | H].
      + injection H as <- <-. exists d. split; [apply Hin; now left | split; reflexivity].
      + now apply Hwf.
  Qed.

  (* every plan the engine uses over a history -- cache hits included -- is the fresh plan *)
  Theorem cache_transparent_proof : forall h, (forall d, In d h -> In d docs) ->
    run_history print hash Plan planner [] h = map planner h.
  Proof.
    intros h Hin. apply run_history_fresh; [exact Hin |]. intros k p [].
  Qed.
End CacheKeySound.

(* the hypotheses are satisfiable and the theorem is not about an empty cache only *)
Example cache_example :
  let print (d : document) : bytes := [N.of_nat (length d)] in
  let hash (b : bytes) : N := match b with x :: _ => x | [] => 0%N end in
  let planner (d : document) : nat := length d in
  let d1 : document := [] in
  let d2 : document := [DFrag {| fr_name := []; fr_type := []; fr_dirs := []; fr_sels := [] |}] in
  run_history print hash nat planner [] [d1; d2; d1; d2; d2] = [0; 1; 0; 1; 1]%nat /\
  cache_get nat (snd (get_cached_plan print hash nat planner [] d1)) (cache_key print hash d1) = Some 0%nat.
Proof. vm_compute. split; reflexivity. Qed.
