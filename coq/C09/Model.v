(* C09: executable models of the plan optimisations and of the variable canonicalisation whose
   transparency the property states.
     v2/pkg/engine/postprocess/deduplicate_single_fetches.go         [dedup]
     v2/pkg/engine/resolve/fetch.go EqualSingleFetch                 [equal_single_fetch]
     v2/pkg/astnormalization/variables_mapping.go                    [map_variables]
     v2/pkg/engine/resolve/variables_view.go VariablesView.Get       [view_get, view_vars]
   and the renaming algebra on lib/Gql documents that the theorems about lib/Exec are stated
   with [rename_doc, rename_keys].  No proofs here. *)
From Gv Require Import lib.Bytes lib.Json lib.Gql lib.Exec C08.Model.
From Coq Require Import List Arith Bool NArith.
Import ListNotations.

(* ------------------------------------------------------------------ A. de-duplication *)

(* resolve.FetchItemPathElement *)
Record pel := { pe_kind : N; pe_path : list bytes; pe_types : list bytes }.

(* a single fetch as the stage sees it: the C08 fetch (id, dependencies) plus what
   EqualSingleFetch compares, abstracted to labels: the data source, the request (input
   template, variables, post-processing, entity flags: one label), the fetch path *)
Record lfetch := { lf_id : nat; lf_deps : list nat; lf_ds : N; lf_req : N; lf_path : list pel }.

Definition strip (f : lfetch) : fetch := mkf (lf_id f) (lf_deps f).
Definition lids (l : list lfetch) : list nat := map lf_id l.

Fixpoint list_bytes_eqb (a b : list bytes) : bool :=
  match a, b with
  | [], [] => true
  | x :: a', y :: b' => bytes_eqb x y && list_bytes_eqb a' b'
  | _, _ => false
  end.

(* the FetchPath loop of EqualSingleFetch: same length, same Kind and Path; TypeNames ignored *)
Fixpoint path_eqb (a b : list pel) : bool :=
  match a, b with
  | [], [] => true
  | x :: a', y :: b' => (pe_kind x =? pe_kind y)%N && list_bytes_eqb (pe_path x) (pe_path y) && path_eqb a' b'
  | _, _ => false
  end.

Definition equal_single_fetch (a b : lfetch) : bool :=
  (lf_ds a =? lf_ds b)%N && (lf_req a =? lf_req b)%N && path_eqb (lf_path a) (lf_path b).

(* strings.Compare order on byte strings *)
Fixpoint bytes_leb (a b : bytes) : bool :=
  match a, b with
  | [], _ => true
  | _ :: _, [] => false
  | x :: a', y :: b' => if (x <? y)%N then true else if (y <? x)%N then false else bytes_leb a' b'
  end.
Fixpoint insert_bytes (x : bytes) (l : list bytes) : list bytes :=
  match l with
  | [] => [x]
  | y :: r => if bytes_leb x y then x :: l else y :: insert_bytes x r
  end.
Definition sort_bytes (l : list bytes) : list bytes := fold_right insert_bytes [] l.
Fixpoint compact_bytes (l : list bytes) : list bytes :=
  match l with
  | [] => []
  | x :: r =>
    match r with
    | [] => [x]
    | y :: _ => if bytes_eqb x y then compact_bytes r else x :: compact_bytes r
    end
  end.

(* mergeTypeNames *)
Definition merge_type_names (left right : list bytes) : list bytes :=
  match left, right with
  | [], _ => []
  | _, [] => []
  | _, _ => compact_bytes (sort_bytes (left ++ right))
  end.
(* mergeFetchPath: element-wise over the left path (both have the same length when called) *)
Fixpoint merge_fetch_path (left right : list pel) : list pel :=
  match left, right with
  | x :: l', y :: r' =>
    {| pe_kind := pe_kind x; pe_path := pe_path x; pe_types := merge_type_names (pe_types x) (pe_types y) |}
      :: merge_fetch_path l' r'
  | _, _ => left
  end.
Definition merge_path (x y : lfetch) : lfetch :=
  {| lf_id := lf_id x; lf_deps := lf_deps x; lf_ds := lf_ds x; lf_req := lf_req x;
     lf_path := merge_fetch_path (lf_path x) (lf_path y) |}.

(* replaceDependsOnFetchID on one node *)
Definition redirect (old new : nat) (f : lfetch) : lfetch :=
  {| lf_id := lf_id f; lf_deps := map (fun d => if (d =? old)%nat then new else d) (lf_deps f);
     lf_ds := lf_ds f; lf_req := lf_req f; lf_path := lf_path f |}.
Definition redirect_all (olds : list nat) (new : nat) (f : lfetch) : lfetch :=
  fold_left (fun g old => redirect old new g) olds f.

(* the inner loop for a fixed i: x = ChildNodes[i] (its path grows by merging), [tail] the nodes
   after it.  Returns x, the surviving tail and the ids of the removed nodes in removal order.
   (Go rewrites the dependencies of all nodes right after each removal; nothing the loop tests
   reads dependencies, so the rewrites are applied after the scan, in the same order.) *)
Fixpoint scan (x : lfetch) (tail : list lfetch) : lfetch * list lfetch * list nat :=
  match tail with
  | [] => (x, [], [])
  | y :: r =>
    if equal_single_fetch x y then
      let '(x', r', olds) := scan (merge_path x y) r in (x', r', lf_id y :: olds)
    else
      let '(x', r', olds) := scan x r in (x', y :: r', olds)
  end.

(* the outer loop; [pre] = ChildNodes[:i] *)
Fixpoint dedup_loop (fuel : nat) (pre todo : list lfetch) : list lfetch :=
  match fuel with
  | O => pre ++ todo
  | S k =>
    match todo with
    | [] => pre
    | x :: tail =>
      let '(x', tail', olds) := scan x tail in
      let r := redirect_all olds (lf_id x) in
      dedup_loop k (map r pre ++ [r x']) (map r tail')
    end
  end.
Definition dedup (l : list lfetch) : list lfetch := dedup_loop (length l) [] l.

(* ------------------------------------------------------------------ B. renaming algebra *)

Section Rename.
  Variable sg : name -> name.

  Fixpoint rename_value (v : value) : value :=
    match v with
    | VVar n => VVar (sg n)
    | VList items => VList (map rename_value items)
    | VObj fields => VObj (map (fun kv => let '(k, x) := kv in (k, rename_value x)) fields)
    | _ => v
    end.
  Definition rename_args (args : list argument) : list argument :=
    map (fun kv : argument => let '(k, x) := kv in (k, rename_value x)) args.
  Definition rename_dir (d : directive) : directive :=
    {| d_name := d_name d; d_args := rename_args (d_args d) |}.
  Definition rename_dirs (ds : list directive) : list directive := map rename_dir ds.
  Fixpoint rename_sel (s : selection) : selection :=
    match s with
    | SField a n args dirs sels => SField a n (rename_args args) (rename_dirs dirs) (map rename_sel sels)
    | SInline c dirs sels => SInline c (rename_dirs dirs) (map rename_sel sels)
    | SSpread f dirs => SSpread f (rename_dirs dirs)
    end.
  Definition rename_sels (l : list selection) : list selection := map rename_sel l.
  Definition rename_vardef (vd : vardef) : vardef :=
    {| vd_name := sg (vd_name vd); vd_type := vd_type vd;
       vd_default := option_map rename_value (vd_default vd); vd_dirs := rename_dirs (vd_dirs vd) |}.
  Definition rename_op (o : operation) : operation :=
    {| op_kind := op_kind o; op_name := op_name o; op_vars := map rename_vardef (op_vars o);
       op_dirs := rename_dirs (op_dirs o); op_sels := rename_sels (op_sels o) |}.
  Definition rename_frag (f : fragment) : fragment :=
    {| fr_name := fr_name f; fr_type := fr_type f; fr_dirs := rename_dirs (fr_dirs f);
       fr_sels := rename_sels (fr_sels f) |}.
  Definition rename_def (d : definition) : definition :=
    match d with DOp o => DOp (rename_op o) | DFrag f => DFrag (rename_frag f) end.
  Definition rename_doc (d : document) : document := map rename_def d.

  (* the variables object with its keys renamed *)
  Definition rename_keys (m : list (bytes * json)) : list (bytes * json) :=
    map (fun kv : bytes * json => let '(k, v) := kv in (sg k, v)) m.
  Definition rename_supplied (j : json) : json :=
    match j with JObj m => JObj (rename_keys m) | _ => j end.
End Rename.

(* ------------------------------------------------------------------ C. the variables mapper *)

Definition s_upload : bytes := [85;112;108;111;97;100].

(* generateUnusedVariableMappingName: candidates a..z, aa..zz, aaa.. in this order; the first
   one that is not a key of the mapping built so far *)
Definition gen_name (k : nat) : bytes := repeat (97 + N.of_nat (k mod 26)%nat)%N (S (k / 26)%nat).
Fixpoint first_unused (keys : list bytes) (k fuel : nat) : bytes :=
  match fuel with
  | O => gen_name k
  | S f => if mem_bytes (gen_name k) keys then first_unused keys (S k) f else gen_name k
  end.
Definition fresh_name (keys : list bytes) : bytes := first_unused keys 0 (S (length keys)).

Definition find_vardef (vars : list vardef) (n : name) : option vardef :=
  find (fun vd => bytes_eqb (vd_name vd) n) vars.

(* EnterArgument: only an argument whose value IS a variable, defined in the operation and not
   of (innermost) type Upload, is recorded; variables are kept in first-visit order *)
Definition collectable (vars : list vardef) (n : name) : bool :=
  match find_vardef vars n with
  | Some vd => negb (bytes_eqb (named_of (vd_type vd)) s_upload)
  | None => false
  end.
Definition collect_args (vars : list vardef) (acc : list name) (args : list argument) : list name :=
  fold_left (fun acc (kv : argument) =>
               match snd kv with
               | VVar n => if collectable vars n && negb (mem_bytes n acc) then acc ++ [n] else acc
               | _ => acc
               end) args acc.
Definition collect_dirs (vars : list vardef) (acc : list name) (dirs : list directive) : list name :=
  fold_left (fun acc d => collect_args vars acc (d_args d)) dirs acc.
(* walker order inside a field: arguments, directives, selection set *)
Fixpoint collect_sel (vars : list vardef) (acc : list name) (s : selection) : list name :=
  match s with
  | SField _ _ args dirs sels =>
    fold_left (fun a x => collect_sel vars a x) sels (collect_dirs vars (collect_args vars acc args) dirs)
  | SInline _ dirs sels => fold_left (fun a x => collect_sel vars a x) sels (collect_dirs vars acc dirs)
  | SSpread _ dirs => collect_dirs vars acc dirs
  end.
Definition collect_op (o : operation) : list name :=
  fold_left (fun a x => collect_sel (op_vars o) a x) (op_sels o) (collect_dirs (op_vars o) [] (op_dirs o)).

(* LeaveDocument.  [fx] = true: the code as repaired (fix of finding mapper-name-collision): the
   names of variable definitions that are NOT recorded -- and so keep their name -- are reserved.
   [fx] = false: the historical code, which reserved nothing. *)
Definition reserved_names (fx : bool) (vars : list vardef) (olds : list name) : list name :=
  if fx then filter (fun n => negb (mem_bytes n olds)) (map vd_name vars) else [].
(* first loop: one fresh name per recorded variable (not a key of the mapping so far, not
   reserved); the mapping (new, old) *)
Fixpoint assign_names (avoid : list name) (olds : list name) (mapping : list (name * name)) : list (name * name) :=
  match olds with
  | [] => mapping
  | o :: r => assign_names avoid r (mapping ++ [(fresh_name (map fst mapping ++ avoid), o)])
  end.
Definition new_of (mapping : list (name * name)) (old : name) : name :=
  match find (fun p => bytes_eqb (snd p) old) mapping with
  | Some p => fst p
  | None => old
  end.

(* the recorded occurrences are exactly the direct argument values *)
Definition map_direct_args (mp : list (name * name)) (args : list argument) : list argument :=
  map (fun kv : argument => let '(k, x) := kv in
         (k, match x with VVar n => VVar (new_of mp n) | _ => x end)) args.
Definition map_direct_dirs (mp : list (name * name)) (dirs : list directive) : list directive :=
  map (fun d => {| d_name := d_name d; d_args := map_direct_args mp (d_args d) |}) dirs.
Fixpoint map_direct_sel (mp : list (name * name)) (s : selection) : selection :=
  match s with
  | SField a n args dirs sels =>
    SField a n (map_direct_args mp args) (map_direct_dirs mp dirs) (map (map_direct_sel mp) sels)
  | SInline c dirs sels => SInline c (map_direct_dirs mp dirs) (map (map_direct_sel mp) sels)
  | SSpread f dirs => SSpread f (map_direct_dirs mp dirs)
  end.
(* the definition found by name (the first one with that name) is renamed *)
Fixpoint map_vardefs (mp : list (name * name)) (done : list name) (vars : list vardef) : list vardef :=
  match vars with
  | [] => []
  | vd :: r =>
    if mem_bytes (vd_name vd) (map snd mp) && negb (mem_bytes (vd_name vd) done) then
      {| vd_name := new_of mp (vd_name vd); vd_type := vd_type vd; vd_default := vd_default vd; vd_dirs := vd_dirs vd |}
        :: map_vardefs mp (vd_name vd :: done) r
    else vd :: map_vardefs mp done r
  end.
(* slices.SortFunc by name, modelled as a stable insertion sort (names are distinct unless two
   variables ended up with one name) *)
Fixpoint insert_vardef (x : vardef) (l : list vardef) : list vardef :=
  match l with
  | [] => [x]
  | y :: r => if bytes_leb (vd_name x) (vd_name y) then x :: l else y :: insert_vardef x r
  end.
Definition sort_vardefs (l : list vardef) : list vardef := fold_right insert_vardef [] l.

Definition map_variables_gen (fx : bool) (o : operation) : operation * list (name * name) :=
  let olds := collect_op o in
  let mp := assign_names (reserved_names fx (op_vars o) olds) olds [] in
  ({| op_kind := op_kind o; op_name := op_name o;
      op_vars := sort_vardefs (map_vardefs mp [] (op_vars o));
      op_dirs := map_direct_dirs mp (op_dirs o);
      op_sels := map (map_direct_sel mp) (op_sels o) |}, mp).
(* the code as it is now *)
Definition map_variables (o : operation) : operation * list (name * name) := map_variables_gen true o.

(* VariablesView.Get on the first path element: a name that is a key of the remap (new -> old)
   is read under the old name, any other name under itself *)
Definition view_name (remap : list (name * name)) (n : name) : name :=
  match assoc n remap with Some old => old | None => n end.
Definition view_get (remap : list (name * name)) (supplied : list (bytes * json)) (n : name) : option json :=
  assoc (view_name remap n) supplied.
(* the variables as the resolver sees them for an operation after the mapper *)
Definition view_vars (remap : list (name * name)) (o : operation) (supplied : list (bytes * json)) : list (bytes * json) :=
  flat_map (fun vd => match view_get remap supplied (vd_name vd) with
                      | Some j => [(vd_name vd, j)]
                      | None => []
                      end) (op_vars o).

(* ------------------------------------------------------------------ D. names of a document *)

Fixpoint value_vars (v : value) : list name :=
  match v with
  | VVar n => [n]
  | VList items => flat_map value_vars items
  | VObj fields => flat_map (fun kv => value_vars (snd kv)) fields
  | _ => []
  end.
Definition args_vars (args : list argument) : list name := flat_map (fun kv => value_vars (snd kv)) args.
Definition dirs_vars (dirs : list directive) : list name := flat_map (fun d => args_vars (d_args d)) dirs.
Fixpoint sel_vars (s : selection) : list name :=
  match s with
  | SField _ _ args dirs sels => args_vars args ++ dirs_vars dirs ++ flat_map sel_vars sels
  | SInline _ dirs sels => dirs_vars dirs ++ flat_map sel_vars sels
  | SSpread _ dirs => dirs_vars dirs
  end.
Definition op_var_names (o : operation) : list name := map vd_name (op_vars o).
Definition op_var_uses (o : operation) : list name := dirs_vars (op_dirs o) ++ flat_map sel_vars (op_sels o).
