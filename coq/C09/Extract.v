From Gv Require Import lib.Bytes lib.Json lib.Gql lib.Exec lib.ExtractAnchor C08.Model C08.Spec C09.Model C09.Spec.
From Coq Require Import NArith ZArith.
Require Import ExtrOcamlBasic.
Extraction Language OCaml.
Extraction "model.ml" extraction_anchor
  dedup dedup_spec_b dups_agree_b lfetch_eqb keys_distinct_b unique_ids_b acyclic_b strip
  map_variables mapper_spec_b mapper_no_collision_b uses_defined_b mapping_one_to_one_b
  plan_deterministic_b history_transparent_b cache_hit_same_plan_b requests_semantically_covered_b
  spelling_transparent_b mono_agrees_b json_eqb rename_op sort_vardefs execute_default N.of_nat Z.of_nat.
