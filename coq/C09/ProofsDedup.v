(* C09 (i): de-duplication of single fetches.
   Factorisation of the stage: [dedup l = map (D (sigma l)) (nub l)] -- which nodes survive (and
   with which merged path) does not depend on dependencies, and every survivor's dependencies go
   through one substitution; with unique ids that substitution is [rep l] (the first fetch with
   the same key). *)
From Gv Require Import lib.Bytes C08.Model C08.Spec C08.ProofsSpec C09.Model C09.Spec C09.ProofsBase.
From Coq Require Import List Arith Bool NArith Permutation Lia.
Import ListNotations.
Local Open Scope nat_scope.

(* ---- the key EqualSingleFetch compares ---- *)
Definition pkey (e : pel) : N * list bytes := (pe_kind e, pe_path e).
Definition key (f : lfetch) : N * N * list (N * list bytes) := (lf_ds f, lf_req f, map pkey (lf_path f)).

Lemma path_eqb_eq a b : path_eqb a b = true <-> map pkey a = map pkey b.
Proof.
  revert b. induction a as [| x a IH]; intros [| y b]; simpl; try (split; [discriminate | discriminate]).
  - split; reflexivity.
  - rewrite !andb_true_iff, N.eqb_eq, list_bytes_eqb_eq, IH. unfold pkey. split.
    + intros [[H1 H2] H3]. now rewrite H1, H2, H3.
    + intros H. injection H as H1 H2 H3. auto.
Qed.

Lemma esf_key a b : equal_single_fetch a b = true <-> key a = key b.
Proof.
  unfold equal_single_fetch, key. rewrite !andb_true_iff, !N.eqb_eq, path_eqb_eq. split.
  - intros [[H1 H2] H3]. now rewrite H1, H2, H3.
  - intros H. injection H as H1 H2 H3. auto.
Qed.

Lemma esf_refl a : equal_single_fetch a a = true.
Proof. now apply esf_key. Qed.
Lemma esf_sym a b : equal_single_fetch a b = equal_single_fetch b a.
Proof.
  destruct (equal_single_fetch a b) eqn:E1, (equal_single_fetch b a) eqn:E2; try reflexivity.
  - apply esf_key in E1. symmetry in E1. apply esf_key in E1. congruence.
  - apply esf_key in E2. symmetry in E2. apply esf_key in E2. congruence.
Qed.
Lemma esf_congr a a' z : key a = key a' -> equal_single_fetch a z = equal_single_fetch a' z.
Proof.
  intros H. destruct (equal_single_fetch a z) eqn:E1, (equal_single_fetch a' z) eqn:E2; try reflexivity.
  - apply esf_key in E1. rewrite H in E1. apply esf_key in E1. congruence.
  - apply esf_key in E2. rewrite <- H in E2. apply esf_key in E2. congruence.
Qed.
Lemma esf_congr_r a z z' : key z = key z' -> equal_single_fetch a z = equal_single_fetch a z'.
Proof. intros H. rewrite (esf_sym a z), (esf_sym a z'). now apply esf_congr. Qed.

Lemma merge_fetch_path_key l : forall r, map pkey (merge_fetch_path l r) = map pkey l.
Proof.
  induction l as [| x l IH]; intros [| y r]; simpl; try reflexivity. now rewrite IH.
Qed.
Lemma key_merge x y : key (merge_path x y) = key x.
Proof. unfold key, merge_path. simpl. now rewrite merge_fetch_path_key. Qed.

(* ---- substitution on dependencies ---- *)
Definition D (sg : nat -> nat) (f : lfetch) : lfetch :=
  {| lf_id := lf_id f; lf_deps := map sg (lf_deps f); lf_ds := lf_ds f; lf_req := lf_req f; lf_path := lf_path f |}.
Definition sub (olds : list nat) (new d : nat) : nat := if memb d olds then new else d.

Lemma D_id f : D (fun d => d) f = f.
Proof. destruct f. unfold D. simpl. now rewrite map_id. Qed.
Lemma D_D s1 s2 f : D s1 (D s2 f) = D (fun d => s1 (s2 d)) f.
Proof. unfold D. simpl. now rewrite map_map. Qed.
Lemma D_ext s1 s2 f : (forall d, s1 d = s2 d) -> D s1 f = D s2 f.
Proof. intros H. unfold D. f_equal. now apply map_ext. Qed.
Lemma key_D s f : key (D s f) = key f.
Proof. reflexivity. Qed.

Lemma redirect_D old new f : redirect old new f = D (fun d => if d =? old then new else d) f.
Proof. reflexivity. Qed.

Lemma redirect_all_D olds new : forall f, redirect_all olds new f = D (sub olds new) f.
Proof.
  induction olds as [| o olds IH]; intros f.
  - unfold redirect_all. simpl. symmetry. unfold sub. simpl. apply D_id.
  - unfold redirect_all in *. simpl. rewrite IH, redirect_D, D_D. apply D_ext. intros d.
    unfold sub. simpl. destruct (d =? o) eqn:E.
    + apply Nat.eqb_eq in E. subst. rewrite Nat.eqb_refl. simpl. now destruct (memb new olds).
    + rewrite Nat.eqb_sym in E. rewrite E. reflexivity.
Qed.

(* ---- the inner loop ---- *)
Lemma scan_spec : forall tail x,
  let '(x', tail', olds) := scan x tail in
  tail' = filter (fun y => negb (equal_single_fetch x y)) tail /\
  olds = map lf_id (filter (equal_single_fetch x) tail) /\
  key x' = key x /\ lf_id x' = lf_id x /\ lf_deps x' = lf_deps x.
Proof.
  induction tail as [| y r IH]; intros x; simpl.
  - repeat split.
  - destruct (equal_single_fetch x y) eqn:E; simpl.
    + specialize (IH (merge_path x y)). destruct (scan (merge_path x y) r) as [[x' r'] olds].
      destruct IH as [H1 [H2 [H3 [H4 H5]]]].
      assert (Hk : forall z, equal_single_fetch (merge_path x y) z = equal_single_fetch x z).
      { intros z. apply esf_congr. apply key_merge. }
      repeat split.
      * rewrite H1. apply filter_ext. intros z. now rewrite Hk.
      * rewrite H2. f_equal. f_equal. apply filter_ext. intros z. now rewrite Hk.
      * rewrite H3. apply key_merge.
      * rewrite H4. reflexivity.
      * rewrite H5. reflexivity.
    + specialize (IH x). destruct (scan x r) as [[x' r'] olds].
      destruct IH as [H1 [H2 [H3 [H4 H5]]]]. repeat split; try assumption. now rewrite H1.
Qed.

Lemma scan_D s : forall tail x,
  scan (D s x) (map (D s) tail) = let '(x', tail', olds) := scan x tail in (D s x', map (D s) tail', olds).
Proof.
  induction tail as [| y r IH]; intros x; simpl.
  - reflexivity.
  - change (equal_single_fetch (D s x) (D s y)) with (equal_single_fetch x y).
    destruct (equal_single_fetch x y).
    + change (merge_path (D s x) (D s y)) with (D s (merge_path x y)). rewrite IH.
      destruct (scan (merge_path x y) r) as [[x' r'] olds]. reflexivity.
    + rewrite IH. destruct (scan x r) as [[x' r'] olds]. reflexivity.
Qed.

Lemma scan_length x tail : length (snd (fst (scan x tail))) <= length tail.
Proof.
  pose proof (scan_spec tail x) as H. destruct (scan x tail) as [[x' r'] olds]. destruct H as [-> _].
  simpl. apply filter_length_le.
Qed.

(* ---- the skeleton: survivors and the composite substitution ---- *)
Fixpoint nub (fuel : nat) (l : list lfetch) : list lfetch :=
  match fuel with
  | O => l
  | S k => match l with
           | [] => []
           | x :: tail => let '(x', tail', _) := scan x tail in x' :: nub k tail'
           end
  end.
Fixpoint sigma (fuel : nat) (l : list lfetch) : nat -> nat :=
  match fuel with
  | O => fun d => d
  | S k => match l with
           | [] => fun d => d
           | x :: tail => let '(_, tail', olds) := scan x tail in fun d => sigma k tail' (sub olds (lf_id x) d)
           end
  end.

Lemma nub_D s : forall fuel l, nub fuel (map (D s) l) = map (D s) (nub fuel l).
Proof.
  induction fuel as [| k IH]; intros l; simpl; [reflexivity |].
  destruct l as [| x tail]; simpl; [reflexivity |].
  rewrite scan_D. destruct (scan x tail) as [[x' r'] olds]. simpl. now rewrite IH.
Qed.
Lemma sigma_D s : forall fuel l d, sigma fuel (map (D s) l) d = sigma fuel l d.
Proof.
  induction fuel as [| k IH]; intros l d; simpl; [reflexivity |].
  destruct l as [| x tail]; simpl; [reflexivity |].
  rewrite scan_D. destruct (scan x tail) as [[x' r'] olds]. simpl. now rewrite IH.
Qed.

Lemma loop_fact : forall fuel pre todo, length todo <= fuel ->
  dedup_loop fuel pre todo = map (D (sigma fuel todo)) (pre ++ nub fuel todo).
Proof.
  induction fuel as [| k IH]; intros pre todo Hlen.
  - destruct todo; [| simpl in Hlen; lia]. simpl. rewrite app_nil_r.
    rewrite (map_ext _ (fun f => f)); [now rewrite map_id | apply D_id].
  - destruct todo as [| x tail].
    + simpl. rewrite app_nil_r. rewrite (map_ext _ (fun f => f)); [now rewrite map_id | apply D_id].
    + simpl. pose proof (scan_length x tail) as Hl.
      destruct (scan x tail) as [[x' tail'] olds] eqn:Es. simpl in Hl.
      simpl in Hlen.
      rewrite (map_ext _ (D (sub olds (lf_id x)))) by (intros; apply redirect_all_D).
      rewrite (map_ext (redirect_all olds (lf_id x)) (D (sub olds (lf_id x)))) by (intros; apply redirect_all_D).
      rewrite redirect_all_D.
      rewrite IH by (rewrite map_length; lia).
      rewrite nub_D.
      rewrite <- app_assoc. simpl.
      rewrite !map_app. simpl. rewrite !map_map.
      f_equal; [| f_equal].
      * apply map_ext. intros f. rewrite D_D. apply D_ext. intros d. now rewrite sigma_D.
      * rewrite D_D. apply D_ext. intros d. now rewrite sigma_D.
      * apply map_ext. intros f. rewrite D_D. apply D_ext. intros d. now rewrite sigma_D.
Qed.

Theorem dedup_fact l : dedup l = map (D (sigma (length l) l)) (nub (length l) l).
Proof. unfold dedup. now rewrite loop_fact by lia. Qed.
