(* C09 (i): de-duplication of single fetches.
   Factorisation of the stage: [dedup l = map (D (sigma l)) (nub l)] -- which nodes survive (and
   with which merged path) does not depend on dependencies, and every survivor's dependencies go
   through one substitution; with unique ids that substitution is [rep l] (the first fetch with
   the same key). *)
From Gv Require Import lib.Bytes C08.Model C08.Spec C08.ProofsSpec C08.ProofsOrganize C09.Model C09.Spec C09.ProofsBase.
From Coq Require Import List Arith Bool NArith Permutation Lia.
Import ListNotations.
Local Open Scope nat_scope.

(* ---- the key EqualSingleFetch compares ---- *)
Definition pkey (e : pel) : N * list bytes := (pe_kind e, pe_path e).
Definition key (f : lfetch) : N * N * list (N * list bytes) := (lf_ds f, lf_req f, map pkey (lf_path f)).

Lemma path_eqb_eq a b : path_eqb a b = true <-> map pkey a = map pkey b.
Proof.
  revert b. induction a as [| x a IH]; intros [| y b]; simpl; try (split; [discriminate | discriminate]).
  - split; reflexivity.
  - rewrite !andb_true_iff, N.eqb_eq, list_bytes_eqb_eq, IH. unfold pkey. split.
    + intros [[H1 H2] H3]. now rewrite H1, H2, H3.
    + intros H. injection H as H1 H2 H3. auto.
Qed.

Lemma esf_key a b : equal_single_fetch a b = true <-> key a = key b.
Proof.
  unfold equal_single_fetch, key. rewrite !andb_true_iff, !N.eqb_eq, path_eqb_eq. split.
  - intros [[H1 H2] H3]. now rewrite H1, H2, H3.
  - intros H. injection H as H1 H2 H3. auto.
Qed.

Lemma esf_refl a : equal_single_fetch a a = true.
Proof. now apply esf_key. Qed.
Lemma esf_sym a b : equal_single_fetch a b = equal_single_fetch b a.
Proof.
  destruct (equal_single_fetch a b) eqn:E1, (equal_single_fetch b a) eqn:E2; try reflexivity.
  - apply esf_key in E1. symmetry in E1. apply esf_key in E1. congruence.
  - apply esf_key in E2. symmetry in E2. apply esf_key in E2. congruence.
Qed.
Lemma esf_congr a a' z : key a = key a' -> equal_single_fetch a z = equal_single_fetch a' z.
Proof.
  intros H. destruct (equal_single_fetch a z) eqn:E1, (equal_single_fetch a' z) eqn:E2; try reflexivity.
  - apply esf_key in E1. rewrite H in E1. apply esf_key in E1. congruence.
  - apply esf_key in E2. rewrite <- H in E2. apply esf_key in E2. congruence.
Qed.
Lemma esf_congr_r a z z' : key z = key z' -> equal_single_fetch a z = equal_single_fetch a z'.
Proof. intros H. rewrite (esf_sym a z), (esf_sym a z'). now apply esf_congr. Qed.

Lemma merge_fetch_path_key l : forall r, map pkey (merge_fetch_path l r) = map pkey l.
Proof.
  induction l as [| x l IH]; intros [| y r]; simpl; try reflexivity. now rewrite IH.
Qed.
Lemma key_merge x y : key (merge_path x y) = key x.
Proof. unfold key, merge_path. simpl. now rewrite merge_fetch_path_key. Qed.

(* ---- substitution on dependencies ---- *)
Definition D (sg : nat -> nat) (f : lfetch) : lfetch :=
  {| lf_id := lf_id f; lf_deps := map sg (lf_deps f); lf_ds := lf_ds f; lf_req := lf_req f; lf_path := lf_path f |}.
Definition sub (olds : list nat) (new d : nat) : nat := if memb d olds then new else d.

Lemma D_id f : D (fun d => d) f = f.
Proof. destruct f. unfold D. simpl. now rewrite map_id. Qed.
Lemma D_D s1 s2 f : D s1 (D s2 f) = D (fun d => s1 (s2 d)) f.
Proof. unfold D. simpl. now rewrite map_map. Qed.
Lemma D_ext s1 s2 f : (forall d, s1 d = s2 d) -> D s1 f = D s2 f.
Proof. intros H. unfold D. f_equal. now apply map_ext. Qed.
Lemma key_D s f : key (D s f) = key f.
Proof. reflexivity. Qed.

Lemma redirect_D old new f : redirect old new f = D (fun d => if d =? old then new else d) f.
Proof. reflexivity. Qed.

Lemma redirect_all_D olds new : forall f, redirect_all olds new f = D (sub olds new) f.
Proof.
  induction olds as [| o olds IH]; intros f.
  - unfold redirect_all. simpl. symmetry. unfold sub. simpl. apply D_id.
  - unfold redirect_all in *. simpl. rewrite IH, redirect_D, D_D. apply D_ext. intros d.
    unfold sub, memb. simpl. destruct (d =? o) eqn:E; simpl.
    + now destruct (existsb (Nat.eqb new) olds).
    + reflexivity.
Qed.

(* ---- the inner loop ---- *)
Lemma scan_spec : forall tail x,
  let '(x', tail', olds) := scan x tail in
  tail' = filter (fun y => negb (equal_single_fetch x y)) tail /\
  olds = map lf_id (filter (equal_single_fetch x) tail) /\
  key x' = key x /\ lf_id x' = lf_id x /\ lf_deps x' = lf_deps x.
Proof.
  induction tail as [| y r IH]; intros x; simpl.
  - repeat split.
  - destruct (equal_single_fetch x y) eqn:E; simpl.
    + specialize (IH (merge_path x y)). destruct (scan (merge_path x y) r) as [[x' r'] olds].
      destruct IH as [H1 [H2 [H3 [H4 H5]]]].
      assert (Hk : forall z, equal_single_fetch (merge_path x y) z = equal_single_fetch x z).
      { intros z. apply esf_congr. apply key_merge. }
      repeat split.
      * rewrite H1. apply filter_ext. intros z. now rewrite Hk.
      * rewrite H2. f_equal. f_equal. apply filter_ext. intros z. now rewrite Hk.
      * rewrite H3. apply key_merge.
      * rewrite H4. reflexivity.
      * rewrite H5. reflexivity.
    + specialize (IH x). destruct (scan x r) as [[x' r'] olds].
      destruct IH as [H1 [H2 [H3 [H4 H5]]]]. repeat split; try assumption. now rewrite H1.
Qed.

Lemma scan_D s : forall tail x,
  scan (D s x) (map (D s) tail) = let '(x', tail', olds) := scan x tail in (D s x', map (D s) tail', olds).
Proof.
  induction tail as [| y r IH]; intros x; simpl.
  - reflexivity.
  - change (equal_single_fetch (D s x) (D s y)) with (equal_single_fetch x y).
    destruct (equal_single_fetch x y).
    + change (merge_path (D s x) (D s y)) with (D s (merge_path x y)). rewrite IH.
      destruct (scan (merge_path x y) r) as [[x' r'] olds]. reflexivity.
    + rewrite IH. destruct (scan x r) as [[x' r'] olds]. reflexivity.
Qed.

Lemma filter_len {A} (f : A -> bool) l : length (filter f l) <= length l.
Proof. induction l as [| x l IH]; simpl; [lia |]. destruct (f x); simpl; lia. Qed.

Lemma scan_length x tail : length (snd (fst (scan x tail))) <= length tail.
Proof.
  pose proof (scan_spec tail x) as H. destruct (scan x tail) as [[x' r'] olds]. destruct H as [-> _].
  simpl. apply filter_len.
Qed.

(* ---- the skeleton: survivors and the composite substitution ---- *)
Fixpoint nub (fuel : nat) (l : list lfetch) : list lfetch :=
  match fuel with
  | O => l
  | S k => match l with
           | [] => []
           | x :: tail => let '(x', tail', _) := scan x tail in x' :: nub k tail'
           end
  end.
Fixpoint sigma (fuel : nat) (l : list lfetch) : nat -> nat :=
  match fuel with
  | O => fun d => d
  | S k => match l with
           | [] => fun d => d
           | x :: tail => let '(_, tail', olds) := scan x tail in fun d => sigma k tail' (sub olds (lf_id x) d)
           end
  end.

Lemma nub_D s : forall fuel l, nub fuel (map (D s) l) = map (D s) (nub fuel l).
Proof.
  induction fuel as [| k IH]; intros l; simpl; [reflexivity |].
  destruct l as [| x tail]; simpl; [reflexivity |].
  rewrite scan_D. destruct (scan x tail) as [[x' r'] olds]. simpl. now rewrite IH.
Qed.
Lemma sigma_D s : forall fuel l d, sigma fuel (map (D s) l) d = sigma fuel l d.
Proof.
  induction fuel as [| k IH]; intros l d; simpl; [reflexivity |].
  destruct l as [| x tail]; simpl; [reflexivity |].
  rewrite scan_D. destruct (scan x tail) as [[x' r'] olds]. simpl. now rewrite IH.
Qed.

Lemma loop_fact : forall fuel pre todo, length todo <= fuel ->
  dedup_loop fuel pre todo = map (D (sigma fuel todo)) (pre ++ nub fuel todo).
Proof.
  induction fuel as [| k IH]; intros pre todo Hlen.
  - destruct todo; [| simpl in Hlen; lia]. simpl. rewrite app_nil_r.
    rewrite (map_ext _ (fun f => f)); [now rewrite map_id | apply D_id].
  - destruct todo as [| x tail].
    + simpl. rewrite app_nil_r. rewrite (map_ext _ (fun f => f)); [now rewrite map_id | apply D_id].
    + simpl. pose proof (scan_length x tail) as Hl.
      destruct (scan x tail) as [[x' tail'] olds] eqn:Es. simpl in Hl.
      simpl in Hlen.
      rewrite (map_ext _ (D (sub olds (lf_id x)))) by (intros; apply redirect_all_D).
      rewrite (map_ext (redirect_all olds (lf_id x)) (D (sub olds (lf_id x)))) by (intros; apply redirect_all_D).
      rewrite redirect_all_D.
      rewrite IH by (rewrite map_length; lia).
      rewrite nub_D.
      rewrite <- app_assoc. simpl.
      rewrite !map_app. simpl. rewrite !map_map.
      f_equal; [| f_equal].
      * apply map_ext. intros f. rewrite D_D. apply D_ext. intros d. now rewrite sigma_D.
      * rewrite D_D. apply D_ext. intros d. now rewrite sigma_D.
      * apply map_ext. intros f. rewrite D_D. apply D_ext. intros d. now rewrite sigma_D.
Qed.

Theorem dedup_fact l : dedup l = map (D (sigma (length l) l)) (nub (length l) l).
Proof. unfold dedup. now rewrite loop_fact by lia. Qed.

(* ---- facts about find / filter ---- *)
Lemma find_filter {A} (p q : A -> bool) : forall l,
  (forall z, In z l -> p z = true -> q z = true) -> find p (filter q l) = find p l.
Proof.
  induction l as [| x l IH]; intros H; simpl; [reflexivity |].
  destruct (q x) eqn:Eq; simpl.
  - destruct (p x); [reflexivity |]. apply IH. intros z Hz. apply H. now right.
  - destruct (p x) eqn:Ep.
    + rewrite (H x (or_introl eq_refl) Ep) in Eq. discriminate.
    + apply IH. intros z Hz. apply H. now right.
Qed.

Lemma find_filter_some {A} (p q : A -> bool) y : forall l,
  find p l = Some y -> q y = true -> find p (filter q l) = Some y.
Proof.
  induction l as [| x l IH]; intros H Hq; simpl in *; [discriminate |].
  destruct (p x) eqn:Ep.
  - injection H as ->. rewrite Hq. simpl. now rewrite Ep.
  - destruct (q x); simpl; [rewrite Ep |]; now apply IH.
Qed.

Lemma find_id_none l d : find_id l d = None <-> ~ In d (lids l).
Proof.
  unfold find_id, lids. induction l as [| x l IH]; simpl.
  - tauto.
  - destruct (lf_id x =? d) eqn:E.
    + apply Nat.eqb_eq in E. split; [discriminate | intros H; exfalso; apply H; now left].
    + apply Nat.eqb_neq in E. rewrite IH. tauto.
Qed.

Lemma find_id_some l d y : find_id l d = Some y -> In y l /\ lf_id y = d.
Proof.
  unfold find_id. intros H. apply find_some in H. destruct H as [H1 H2]. apply Nat.eqb_eq in H2. now split.
Qed.

Lemma find_id_in l f : NoDup (lids l) -> In f l -> find_id l (lf_id f) = Some f.
Proof.
  unfold find_id, lids. induction l as [| x l IH]; intros Hnd Hin; simpl in *; [contradiction |].
  inversion Hnd as [| ? ? Hn Hnd']; subst. destruct Hin as [-> | Hin].
  - now rewrite Nat.eqb_refl.
  - destruct (lf_id x =? lf_id f) eqn:E.
    + apply Nat.eqb_eq in E. exfalso. apply Hn. rewrite E. now apply in_map.
    + now apply IH.
Qed.

Lemma lids_filter_incl q l : incl (lids (filter q l)) (lids l).
Proof. unfold lids. intros d H. apply in_map_iff in H. destruct H as [f [<- Hf]]. apply filter_In in Hf. apply in_map. tauto. Qed.

Lemma NoDup_lids_filter q l : NoDup (lids l) -> NoDup (lids (filter q l)).
Proof.
  unfold lids. induction l as [| x l IH]; intros H; simpl; [constructor |].
  inversion H as [| ? ? Hn Hnd]; subst. destruct (q x); simpl.
  - constructor; [| now apply IH]. intros Hin. apply Hn. now apply (lids_filter_incl q l).
  - now apply IH.
Qed.

(* ---- survivors ---- *)
Lemma nub_cons k x tail :
  exists x', nub (S k) (x :: tail) = x' :: nub k (filter (fun y => negb (equal_single_fetch x y)) tail) /\
             key x' = key x /\ lf_id x' = lf_id x /\ lf_deps x' = lf_deps x.
Proof.
  simpl. pose proof (scan_spec tail x) as H. destruct (scan x tail) as [[x' r'] olds].
  destruct H as [-> [_ [H3 [H4 H5]]]]. exists x'. auto.
Qed.

Lemma sigma_cons k x tail d :
  sigma (S k) (x :: tail) d =
  sigma k (filter (fun y => negb (equal_single_fetch x y)) tail)
        (sub (map lf_id (filter (equal_single_fetch x) tail)) (lf_id x) d).
Proof.
  simpl. pose proof (scan_spec tail x) as H. destruct (scan x tail) as [[x' r'] olds].
  destruct H as [-> [-> _]]. reflexivity.
Qed.

Lemma esf_trans_false x z f :
  equal_single_fetch x f = false -> equal_single_fetch z f = true -> negb (equal_single_fetch x z) = true.
Proof.
  intros H1 H2. apply negb_true_iff. destruct (equal_single_fetch x z) eqn:E; [| reflexivity].
  apply esf_key in E. apply esf_key in H2. assert (key x = key f) by congruence.
  apply esf_key in H. congruence.
Qed.

Lemma nub_origin : forall fuel l, length l <= fuel ->
  forall g, In g (nub fuel l) ->
  exists f, In f l /\ lf_id g = lf_id f /\ lf_deps g = lf_deps f /\ key g = key f /\ first_with_key l f = Some f.
Proof.
  induction fuel as [| k IH]; intros l Hlen g Hg.
  - destruct l; [contradiction | simpl in Hlen; lia].
  - destruct l as [| x tail]; [contradiction |].
    destruct (nub_cons k x tail) as [x' [Hn [Hk [Hi Hd]]]]. rewrite Hn in Hg. destruct Hg as [<- | Hg].
    + exists x. repeat split; auto; [now left |]. unfold first_with_key. simpl. now rewrite esf_refl.
    + assert (Hl : length (filter (fun y => negb (equal_single_fetch x y)) tail) <= k).
      { pose proof (filter_len (fun y => negb (equal_single_fetch x y)) tail). simpl in Hlen. lia. }
      destruct (IH _ Hl g Hg) as [f [Hf [H1 [H2 [H3 H4]]]]].
      apply filter_In in Hf. destruct Hf as [Hf Hxf]. apply negb_true_iff in Hxf.
      exists f. repeat split; auto; [now right |].
      unfold first_with_key in *. simpl. rewrite Hxf.
      rewrite <- H4. symmetry. apply find_filter. intros z _ Hz. now apply (esf_trans_false x z f).
Qed.

Lemma nub_covers : forall fuel l, length l <= fuel ->
  forall f, In f l -> exists g, In g (nub fuel l) /\ key g = key f.
Proof.
  induction fuel as [| k IH]; intros l Hlen f Hf.
  - destruct l; [contradiction | simpl in Hlen; lia].
  - destruct l as [| x tail]; [contradiction |].
    destruct (nub_cons k x tail) as [x' [Hn [Hk [Hi Hd]]]]. rewrite Hn.
    destruct (equal_single_fetch x f) eqn:E.
    + exists x'. split; [now left |]. apply esf_key in E. congruence.
    + destruct Hf as [-> | Hf]; [rewrite esf_refl in E; discriminate |].
      assert (Hl : length (filter (fun y => negb (equal_single_fetch x y)) tail) <= k).
      { pose proof (filter_len (fun y => negb (equal_single_fetch x y)) tail). simpl in Hlen. lia. }
      destruct (IH _ Hl f) as [g [Hg Hkg]].
      { apply filter_In. split; [exact Hf | now rewrite E]. }
      exists g. split; [now right | exact Hkg].
Qed.

Lemma nub_keys_nodup : forall fuel l, length l <= fuel -> NoDup (map key (nub fuel l)).
Proof.
  induction fuel as [| k IH]; intros l Hlen.
  - destruct l; [constructor | simpl in Hlen; lia].
  - destruct l as [| x tail]; [constructor |].
    destruct (nub_cons k x tail) as [x' [Hn [Hk [Hi Hd]]]]. rewrite Hn. simpl.
    assert (Hl : length (filter (fun y => negb (equal_single_fetch x y)) tail) <= k).
    { pose proof (filter_len (fun y => negb (equal_single_fetch x y)) tail). simpl in Hlen. lia. }
    constructor; [| now apply IH].
    intros Hin. apply in_map_iff in Hin. destruct Hin as [g [Hkg Hg]].
    destruct (nub_origin k _ Hl g Hg) as [f [Hf [_ [_ [Hkf _]]]]].
    apply filter_In in Hf. destruct Hf as [_ Hxf]. apply negb_true_iff in Hxf.
    assert (key x = key f) by congruence. apply esf_key in H. congruence.
Qed.

Lemma nub_ids_incl : forall fuel l, length l <= fuel -> incl (lids (nub fuel l)) (lids l).
Proof.
  intros fuel l Hlen d Hd. unfold lids in Hd. apply in_map_iff in Hd. destruct Hd as [g [<- Hg]].
  destruct (nub_origin fuel l Hlen g Hg) as [f [Hf [Hi _]]]. rewrite Hi. unfold lids. now apply in_map.
Qed.

Lemma nub_ids_nodup : forall fuel l, length l <= fuel -> NoDup (lids l) -> NoDup (lids (nub fuel l)).
Proof.
  induction fuel as [| k IH]; intros l Hlen Hnd.
  - destruct l; [constructor | simpl in Hlen; lia].
  - destruct l as [| x tail]; [constructor |].
    destruct (nub_cons k x tail) as [x' [Hn [Hk [Hi Hd]]]]. rewrite Hn. unfold lids in *. simpl.
    assert (Hl : length (filter (fun y => negb (equal_single_fetch x y)) tail) <= k).
    { pose proof (filter_len (fun y => negb (equal_single_fetch x y)) tail). simpl in Hlen. lia. }
    simpl in Hnd. inversion Hnd as [| ? ? Hnx Hnt]; subst.
    constructor.
    + rewrite Hi. intros Hin. apply Hnx.
      apply (lids_filter_incl (fun y => negb (equal_single_fetch x y)) tail).
      now apply (nub_ids_incl k _ Hl).
    + apply IH; [exact Hl |]. now apply NoDup_lids_filter.
Qed.

(* ---- with unique ids the composite substitution is [rep] ---- *)
Lemma lids_inj l a b : NoDup (lids l) -> In a l -> In b l -> lf_id a = lf_id b -> a = b.
Proof.
  intros Hnd Ha Hb E. pose proof (find_id_in l a Hnd Ha) as H1. pose proof (find_id_in l b Hnd Hb) as H2.
  rewrite E in H1. congruence.
Qed.

Lemma sigma_rep : forall fuel l, length l <= fuel -> NoDup (lids l) -> forall d, sigma fuel l d = rep l d.
Proof.
  induction fuel as [| k IH]; intros l Hlen Hnd d.
  - destruct l; [reflexivity | simpl in Hlen; lia].
  - destruct l as [| x tail]; [reflexivity |].
    rewrite sigma_cons.
    set (tail' := filter (fun y => negb (equal_single_fetch x y)) tail).
    set (olds := map lf_id (filter (equal_single_fetch x) tail)).
    assert (Hl : length tail' <= k).
    { pose proof (filter_len (fun y => negb (equal_single_fetch x y)) tail). simpl in Hlen. unfold tail'. lia. }
    assert (Hnd' : NoDup (lids tail')).
    { unfold tail'. apply NoDup_lids_filter. unfold lids in *. simpl in Hnd. now inversion Hnd. }
    assert (Hnx : ~ In (lf_id x) (lids tail)).
    { unfold lids in *. simpl in Hnd. now inversion Hnd. }
    assert (Hndt : NoDup (lids tail)).
    { unfold lids in *. simpl in Hnd. now inversion Hnd. }
    assert (Hx_fix : sigma k tail' (lf_id x) = lf_id x).
    { rewrite IH by assumption. unfold rep.
      assert (find_id tail' (lf_id x) = None) as ->; [| reflexivity].
      apply find_id_none. intros Hin. apply Hnx. unfold tail' in Hin. now apply lids_filter_incl in Hin. }
    unfold rep. unfold find_id at 1. simpl.
    destruct (lf_id x =? d) eqn:Exd.
    + (* d is the id of x *)
      apply Nat.eqb_eq in Exd. subst d.
      unfold first_with_key. simpl. rewrite esf_refl.
      unfold sub. assert (memb (lf_id x) olds = false) as ->.
      { apply memb_false. intros Hin. apply Hnx. unfold olds in Hin.
        now apply (lids_filter_incl (equal_single_fetch x) tail). }
      exact Hx_fix.
    + fold (find_id tail d). destruct (find_id tail d) as [y |] eqn:Ey.
      * apply find_id_some in Ey as Hy. destruct Hy as [Hy Hid].
        unfold first_with_key. simpl. destruct (equal_single_fetch x y) eqn:Exy.
        -- (* y is a duplicate of x *)
           unfold sub. assert (memb d olds = true) as ->.
           { apply memb_In. unfold olds. rewrite <- Hid. apply in_map. apply filter_In. now split. }
           exact Hx_fix.
        -- unfold sub. assert (memb d olds = false) as ->.
           { apply memb_false. intros Hin. unfold olds in Hin. apply in_map_iff in Hin.
             destruct Hin as [z [Hz Hzf]]. apply filter_In in Hzf. destruct Hzf as [Hzt Hxz].
             assert (z = y) by (apply (lids_inj tail); auto; congruence). subst z. congruence. }
           rewrite IH by assumption. unfold rep.
           assert (find_id tail' d = Some y) as ->.
           { unfold find_id, tail'. apply find_filter_some; [exact Ey | now rewrite Exy]. }
           unfold first_with_key, tail'.
           rewrite find_filter; [reflexivity |].
           intros z _ Hz. now apply (esf_trans_false x z y).
      * (* d is not an id of the list *)
        apply find_id_none in Ey as Hno.
        unfold sub. assert (memb d olds = false) as ->.
        { apply memb_false. intros Hin. apply Hno. unfold olds in Hin.
          now apply (lids_filter_incl (equal_single_fetch x) tail). }
        rewrite IH by assumption. unfold rep.
        assert (find_id tail' d = None) as ->; [| reflexivity].
        apply find_id_none. intros Hin. apply Hno. unfold tail' in Hin. now apply lids_filter_incl in Hin.
Qed.

(* ---- the stage in closed form ---- *)
Theorem dedup_closed l : NoDup (lids l) -> dedup l = map (D (rep l)) (nub (length l) l).
Proof.
  intros Hnd. rewrite dedup_fact. apply map_ext. intros f. apply D_ext. intros d.
  now apply sigma_rep.
Qed.

(* ---- what the stage guarantees, relative to its input ---- *)
Lemma first_with_key_some l f : In f l -> exists h, first_with_key l f = Some h /\ In h l /\ equal_single_fetch h f = true.
Proof.
  intros Hf. unfold first_with_key. destruct (find (fun g => equal_single_fetch g f) l) as [h |] eqn:E.
  - exists h. apply find_some in E. tauto.
  - exfalso. apply (find_none _ _ E f) in Hf. rewrite esf_refl in Hf. discriminate.
Qed.

Lemma first_with_key_congr l f f' : key f = key f' -> first_with_key l f = first_with_key l f'.
Proof.
  intros H. unfold first_with_key. induction l as [| x l IH]; simpl; [reflexivity |].
  rewrite (esf_congr_r x f f' H). destruct (equal_single_fetch x f'); [reflexivity | exact IH].
Qed.

Lemma ids_strip l : ids (map strip l) = lids l.
Proof. unfold ids, lids. rewrite map_map. reflexivity. Qed.

Section DedupFacts.
  Variable l : list lfetch.
  Hypothesis Hnd : NoDup (lids l).

  Lemma dedup_origin g : In g (dedup l) ->
    exists f, In f l /\ lf_id g = lf_id f /\ lf_deps g = map (rep l) (lf_deps f) /\ key g = key f /\
              first_with_key l f = Some f.
  Proof.
    rewrite (dedup_closed l Hnd). intros Hg. apply in_map_iff in Hg. destruct Hg as [g0 [<- Hg0]].
    destruct (nub_origin (length l) l (le_n _) g0 Hg0) as [f [Hf [H1 [H2 [H3 H4]]]]].
    exists f. simpl. repeat split; auto. now rewrite H2.
  Qed.

  Lemma dedup_lids : lids (dedup l) = lids (nub (length l) l).
  Proof. rewrite (dedup_closed l Hnd). unfold lids. rewrite map_map. reflexivity. Qed.

  Lemma dedup_ids_nodup : NoDup (lids (dedup l)).
  Proof. rewrite dedup_lids. now apply nub_ids_nodup. Qed.

  Lemma dedup_ids_incl : incl (lids (dedup l)) (lids l).
  Proof. rewrite dedup_lids. now apply nub_ids_incl. Qed.

  Lemma dedup_keys_nodup : NoDup (map key (dedup l)).
  Proof.
    rewrite (dedup_closed l Hnd), map_map. rewrite (map_ext _ key) by (intros; apply key_D).
    now apply nub_keys_nodup.
  Qed.

  Lemma dedup_covers f : In f l -> exists g, In g (dedup l) /\ key g = key f.
  Proof.
    intros Hf. destruct (nub_covers (length l) l (le_n _) f Hf) as [g [Hg Hk]].
    exists (D (rep l) g). split; [| exact Hk]. rewrite (dedup_closed l Hnd). now apply in_map.
  Qed.

  (* the survivor of a key is the first fetch with that key *)
  Lemma survivor_of_first h : In h l -> first_with_key l h = Some h -> In (lf_id h) (lids (dedup l)).
  Proof.
    intros Hh Hfirst. destruct (dedup_covers h Hh) as [g [Hg Hk]].
    destruct (dedup_origin g Hg) as [f [Hf [Hi [_ [Hkf Hff]]]]].
    assert (E : first_with_key l f = first_with_key l h) by (apply first_with_key_congr; congruence).
    rewrite Hff, Hfirst in E. injection E as ->. rewrite <- Hi. unfold lids. now apply in_map.
  Qed.

  Lemma rep_spec d : In d (lids l) ->
    exists f h, In f l /\ lf_id f = d /\ In h l /\ equal_single_fetch h f = true /\
                first_with_key l h = Some h /\ rep l d = lf_id h.
  Proof.
    intros Hd. unfold rep. destruct (find_id l d) as [f |] eqn:Ef.
    - apply find_id_some in Ef as Hf. destruct Hf as [Hf Hid].
      destruct (first_with_key_some l f Hf) as [h [Hh [Hhl Hhf]]]. rewrite Hh.
      exists f, h. repeat split; auto.
      rewrite <- Hh. apply first_with_key_congr. now apply esf_key.
    - apply find_id_none in Ef. contradiction.
  Qed.

  Lemma rep_in_dedup d : In d (lids l) -> In (rep l d) (lids (dedup l)).
  Proof.
    intros Hd. destruct (rep_spec d Hd) as [f [h [_ [_ [Hh [_ [Hfirst ->]]]]]]]. now apply survivor_of_first.
  Qed.

  Lemma rep_outside d : ~ In d (lids l) -> rep l d = d.
  Proof. intros H. unfold rep. apply find_id_none in H. now rewrite H. Qed.

  Lemma dedup_keys_distinct : keys_distinct (dedup l).
  Proof.
    intros pre f mid g post E. pose proof dedup_keys_nodup as H. rewrite E in H.
    rewrite map_app in H. simpl in H. apply NoDup_remove_2 in H.
    destruct (equal_single_fetch f g) eqn:Efg; [| reflexivity]. exfalso. apply H.
    apply in_or_app. right. rewrite map_app. apply in_or_app. right. simpl. left.
    symmetry. now apply esf_key.
  Qed.

  Lemma dedup_same_requests : same_requests l (dedup l).
  Proof.
    split.
    - intros f Hf. destruct (dedup_covers f Hf) as [g [Hg Hk]]. exists g. split; [exact Hg | now apply esf_key].
    - intros g Hg. destruct (dedup_origin g Hg) as [f [Hf [_ [_ [Hk _]]]]]. exists f. split; [exact Hf | now apply esf_key].
  Qed.

  Lemma dedup_acyclic : dup_rank_compatible l -> acyclic (map strip (dedup l)).
  Proof.
    intros [rank [Hr1 Hr2]]. exists rank. intros f' d' Hf' Hd' Hin.
    apply in_map_iff in Hf'. destruct Hf' as [g [<- Hg]]. simpl in *.
    destruct (dedup_origin g Hg) as [f [Hf [Hi [Hdeps _]]]].
    rewrite Hdeps in Hd'. apply in_map_iff in Hd'. destruct Hd' as [d [<- Hd]].
    rewrite ids_strip in Hin. rewrite Hi.
    destruct (in_dec Nat.eq_dec d (lids l)) as [Hdl | Hdl].
    - destruct (rep_spec d Hdl) as [fd [h [Hfd [Hid [Hh [Hhf [_ ->]]]]]]].
      rewrite (Hr2 h fd Hh Hfd Hhf), Hid. now apply Hr1.
    - rewrite (rep_outside d Hdl) in *. exfalso. apply Hdl. now apply dedup_ids_incl.
  Qed.

  (* the original dependency constraints, read through [rep], hold in every tree that respects the
     dependencies of the de-duplicated list *)
  Lemma dedup_respects_modulo t :
    dups_agree l -> plan_respects t (map strip (dedup l)) ->
    forall s, lin t s -> forall f d, In f l -> In d (lf_deps f) -> In d (lids l) ->
    before (Merge (rep l d)) (Prepare (rep l (lf_id f))) s.
  Proof.
    intros Hagree Hpr s Hlin f d Hf Hd Hdl.
    destruct (first_with_key_some l f Hf) as [f0 [Hf0 [Hf0l Hesf]]].
    assert (Hfirst : first_with_key l f0 = Some f0).
    { rewrite <- Hf0. apply first_with_key_congr. now apply esf_key. }
    assert (Hrepf : rep l (lf_id f) = lf_id f0).
    { unfold rep. rewrite (find_id_in l f Hnd Hf). now rewrite Hf0. }
    (* the survivor g of f0 *)
    destruct (dedup_covers f0 Hf0l) as [g [Hg Hkg]].
    destruct (dedup_origin g Hg) as [f1 [Hf1 [Hi [Hdeps [Hk1 Hfirst1]]]]].
    assert (f1 = f0).
    { assert (E : first_with_key l f1 = first_with_key l f0) by (apply first_with_key_congr; congruence).
      rewrite Hfirst1, Hfirst in E. congruence. }
    subst f1.
    destruct (Hagree f0 f Hf0l Hf Hesf d Hd Hdl) as [d' [Hd' Hrep]].
    rewrite Hrepf, <- Hi, <- Hrep.
    apply (Hpr s Hlin (strip g) (rep l d')).
    + now apply in_map.
    + simpl. rewrite Hdeps. now apply in_map.
    + rewrite ids_strip, Hrep. now apply rep_in_dedup.
  Qed.

  Theorem dedup_transparent_proof :
    dup_rank_compatible l ->
    NoDup (lids (dedup l)) /\ acyclic (map strip (dedup l)) /\ keys_distinct (dedup l) /\ same_requests l (dedup l) /\
    forall sched trigger t, organize sched false trigger (map strip (dedup l)) = Done t ->
      plan_respects t (map strip (dedup l)) /\ exactly_once t (map strip (dedup l)) /\
      (dups_agree l -> forall s, lin t s -> forall f d, In f l -> In d (lf_deps f) -> In d (lids l) ->
         before (Merge (rep l d)) (Prepare (rep l (lf_id f))) s).
  Proof.
    intros Hrank.
    pose proof dedup_ids_nodup as Hnd'. pose proof (dedup_acyclic Hrank) as Hac.
    split; [exact Hnd' |]. split; [exact Hac |]. split; [apply dedup_keys_distinct |].
    split; [apply dedup_same_requests |].
    intros sched trigger t Ht.
    assert (Hu : unique_ids (map strip (dedup l))) by (unfold unique_ids; now rewrite ids_strip).
    destruct (C08.ProofsOrganize.organize_respects_deps_proof sched trigger _ t Hac Hu Ht) as [_ [Hpr Heo]].
    split; [exact Hpr |]. split; [exact Heo |].
    intros Hagree. now apply dedup_respects_modulo.
  Qed.
End DedupFacts.
