(* C09 (i): the hypotheses of dedup_transparent are satisfiable by a non-trivial plan, and each of
   them is needed (witnesses computed on the model; they are not plans the planner produces). *)
From Gv Require Import lib.Bytes C08.Model C08.Spec C08.ProofsSpec C09.Model C09.Spec C09.ProofsBase C09.ProofsDedup.
From Coq Require Import List Arith Bool NArith Permutation Lia.
Import ListNotations.
Local Open Scope nat_scope.

Definition mk (id : nat) (deps : list nat) (req : N) : lfetch :=
  {| lf_id := id; lf_deps := deps; lf_ds := 0%N; lf_req := req; lf_path := [] |}.

(* root 0; 1 and 2 are duplicates (same request), both depend on 0; 3 depends on the duplicate
   that goes away; 4 joins both *)
Definition ex_plan : list lfetch := [mk 0 [] 0; mk 1 [0] 7; mk 2 [0] 7; mk 3 [2] 8; mk 4 [1; 2] 9].

Example ex_dedup : dedup ex_plan = [mk 0 [] 0; mk 1 [0] 7; mk 3 [1] 8; mk 4 [1; 1] 9].
Proof. vm_compute. reflexivity. Qed.

Example ex_unique : NoDup (lids ex_plan).
Proof. apply has_dup_false. vm_compute. reflexivity. Qed.

Definition ex_rank (n : nat) : nat := match n with 0 => 0 | 1 => 1 | 2 => 1 | _ => 2 end.

Example ex_rank_compatible : dup_rank_compatible ex_plan.
Proof.
  exists ex_rank. split.
  - intros f d Hf Hd _. simpl in Hf.
    repeat (destruct Hf as [<- | Hf]; [simpl in Hd; repeat (destruct Hd as [<- | Hd]; [simpl; lia |]); contradiction |]).
    contradiction.
  - intros f g Hf Hg E. simpl in Hf, Hg.
    repeat (destruct Hf as [<- | Hf]; [repeat (destruct Hg as [<- | Hg]; [first [reflexivity | discriminate E] |]); contradiction |]).
    contradiction.
Qed.

Example ex_dups_agree : dups_agree_b ex_plan = true.
Proof. vm_compute. reflexivity. Qed.

(* without the rank condition: fetch 0 depends on 1, 1 depends on 2, and 2 is a duplicate of 0;
   redirecting 1's dependency to the survivor 0 closes a cycle *)
Definition cyc_plan : list lfetch := [mk 0 [1] 7; mk 1 [2] 8; mk 2 [] 7].

Lemma dedup_acyclic_refuted_proof :
  exists l, NoDup (lids l) /\ acyclic (map strip l) /\ ~ acyclic (map strip (dedup l)).
Proof.
  exists cyc_plan. split; [| split].
  - apply has_dup_false. vm_compute. reflexivity.
  - exists (fun n => match n with 0 => 2 | 1 => 1 | _ => 0 end).
    intros f d Hf Hd _. simpl in Hf.
    repeat (destruct Hf as [<- | Hf]; [simpl in Hd; repeat (destruct Hd as [<- | Hd]; [simpl; lia |]); contradiction |]).
    contradiction.
  - intros [rank H].
    assert (E : map strip (dedup cyc_plan) = [mkf 0 [1]; mkf 1 [0]]) by (vm_compute; reflexivity).
    rewrite E in H.
    pose proof (H (mkf 0 [1]) 1 (or_introl eq_refl) (or_introl eq_refl)) as H1.
    pose proof (H (mkf 1 [0]) 0 (or_intror (or_introl eq_refl)) (or_introl eq_refl)) as H2.
    simpl in H1, H2. assert (rank 1 < rank 0) by (apply H1; right; left; reflexivity).
    assert (rank 0 < rank 1) by (apply H2; left; reflexivity). lia.
Qed.

(* without dups_agree: the duplicate 2 of fetch 1 depends on fetch 5, the survivor 1 does not; the
   stage keeps the survivor's dependencies only, and the tree may prepare 1 before 5 is merged *)
Definition drop_plan : list lfetch := [mk 5 [] 9; mk 1 [] 7; mk 2 [5] 7].

Lemma dedup_drops_dependency_refuted_proof :
  exists l f d t s,
    NoDup (lids l) /\ dup_rank_compatible l /\ In f l /\ In d (lf_deps f) /\ In d (lids l) /\
    organize false false false (map strip (dedup l)) = Done t /\ lin t s /\
    ~ before (Merge (rep l d)) (Prepare (rep l (lf_id f))) s.
Proof.
  exists drop_plan, (mk 2 [5] 7), 5.
  exists (Sequence [Parallel [Single (mkf 1 []); Single (mkf 5 [])]]).
  exists [Prepare 1; Merge 1; Prepare 5; Merge 5].
  split; [apply has_dup_false; vm_compute; reflexivity |].
  split.
  { exists (fun n => match n with 5 => 0 | _ => 1 end). split.
    - intros f d Hf Hd _. simpl in Hf.
      repeat (destruct Hf as [<- | Hf]; [simpl in Hd; repeat (destruct Hd as [<- | Hd]; [simpl; lia |]); contradiction |]).
      contradiction.
    - intros f g Hf Hg E. simpl in Hf, Hg.
      repeat (destruct Hf as [<- | Hf]; [repeat (destruct Hg as [<- | Hg]; [first [reflexivity | discriminate E] |]); contradiction |]).
      contradiction. }
  split; [simpl; tauto |]. split; [simpl; tauto |]. split; [simpl; tauto |].
  split; [vm_compute; reflexivity |].
  split.
  { change [Prepare 1; Merge 1; Prepare 5; Merge 5] with
      (run_lr (Sequence [Parallel [Single (mkf 1 []); Single (mkf 5 [])]])).
    apply run_lr_lin. }
  assert (E1 : rep drop_plan 5 = 5) by (vm_compute; reflexivity).
  assert (E2 : rep drop_plan (lf_id (mk 2 [5] 7)) = 1) by (vm_compute; reflexivity).
  rewrite E1, E2. intros H. apply bef_before in H.
  repeat match goal with
         | H : bef _ _ (_ :: _) |- _ => inversion H; clear H; subst
         | H : bef _ _ [] |- _ => inversion H
         | H : In _ _ |- _ => simpl in H; decompose [or] H; try discriminate; try contradiction; clear H
         end.
Qed.
