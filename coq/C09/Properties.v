(* C09 property theorems: statements only; every proof is [exact lemma]. *)
From Gv Require Import lib.Bytes lib.Json lib.Gql lib.Exec C08.Model C08.Spec
  C09.Model C09.Spec C09.ProofsBase C09.ProofsSpec C09.ProofsCommute C09.ProofsSchedule
  C09.ProofsDedup C09.ProofsDedupExamples C09.ProofsRename C09.ProofsCache C09.ProofsMapper.
From Coq Require Import List Arith Bool NArith Permutation Relations.
Import ListNotations.

(* (ii-a) completion order is irrelevant: events [U] with a precedence [ord]; if events that are
   unordered by the transitive closure of the precedence (within U) commute under [step], every
   two linearisations of U that respect the precedence fold to the same state. *)
Theorem c09_linearization_independent :
  forall (E St : Type) (step : St -> E -> St) (U : list E) (ord : E -> E -> Prop),
  (forall s a b, In a U -> In b U -> a <> b -> indep E U ord a b -> step (step s a) b = step (step s b) a) ->
  forall l1 l2 s, NoDup U -> Permutation l1 U -> Permutation l2 U ->
  respects E ord l1 -> respects E ord l2 ->
  run E St step s l1 = run E St step s l2.
Proof. exact linearization_independent. Qed.
Print Assumptions c09_linearization_independent.

(* (ii-b) schedule_transparent: any two fetch trees that respect the dependencies of a plan and
   run every fetch once give the same result under every schedule (Parallel = any interleaving
   of Prepare/Merge events), for every [step] whose unordered events commute. *)
Theorem c09_schedule_transparent :
  forall (St : Type) (step : St -> event -> St) (l : list fetch),
  (forall s a b, In a (events_of l) -> In b (events_of l) -> a <> b ->
     indep event (events_of l) (event_ord l) a b -> step (step s a) b = step (step s b) a) ->
  unique_ids l -> forall t1 t2,
  plan_respects t1 l -> exactly_once t1 l -> plan_respects t2 l -> exactly_once t2 l ->
  forall s1 s2, lin t1 s1 -> lin t2 s2 ->
  forall st, fold_left step s1 st = fold_left step s2 st.
Proof. exact tree_runs_agree. Qed.
Print Assumptions c09_schedule_transparent.

(* ... in particular the scheduler's tree against the legacy waves (DAG scheduling on/off), and *)
Theorem c09_schedule_option_transparent :
  forall (St : Type) (step : St -> event -> St) (l : list fetch),
  (forall s a b, In a (events_of l) -> In b (events_of l) -> a <> b ->
     indep event (events_of l) (event_ord l) a b -> step (step s a) b = step (step s b) a) ->
  acyclic l -> unique_ids l ->
  forall sched trigger t1 sched' trigger' t2,
  organize sched false trigger l = Done t1 -> organize sched' false trigger' l = Done t2 ->
  forall s1 s2, lin t1 s1 -> lin t2 s2 ->
  forall st, fold_left step s1 st = fold_left step s2 st.
Proof. exact organize_runs_agree. Qed.
Print Assumptions c09_schedule_option_transparent.

(* ... any tree over the plan's fetches that validateSchedule accepts, against the wave tree *)
Theorem c09_validated_schedule_transparent :
  forall (St : Type) (step : St -> event -> St) (l : list fetch),
  (forall s a b, In a (events_of l) -> In b (events_of l) -> a <> b ->
     indep event (events_of l) (event_ord l) a b -> step (step s a) b = step (step s b) a) ->
  acyclic l -> unique_ids l ->
  forall tw, organize_in_waves l = Some tw ->
  forall t, Permutation (tree_fetches t) l -> validate_schedule l (Some t) = true ->
  forall s1 s2, lin tw s1 -> lin t s2 ->
  forall st, fold_left step s1 st = fold_left step s2 st.
Proof. exact validated_runs_agree. Qed.
Print Assumptions c09_validated_schedule_transparent.

(* (i) dedup_transparent: with unique ids, and duplicates at the same level of the dependency
   order, the de-duplicated list is again a plan (unique ids, acyclic) with pairwise distinct
   requests and the same set of requests; every tree built from it respects its dependencies and
   runs every fetch once (C08), and -- when duplicates agree on their dependencies -- every
   dependency of the ORIGINAL list holds between the representatives. *)
Theorem c09_dedup_transparent :
  forall l, NoDup (lids l) -> dup_rank_compatible l ->
  NoDup (lids (dedup l)) /\ acyclic (map strip (dedup l)) /\ keys_distinct (dedup l) /\ same_requests l (dedup l) /\
  forall sched trigger t, organize sched false trigger (map strip (dedup l)) = Done t ->
    plan_respects t (map strip (dedup l)) /\ exactly_once t (map strip (dedup l)) /\
    (dups_agree l -> forall s, lin t s -> forall f d, In f l -> In d (lf_deps f) -> In d (lids l) ->
       before (Merge (rep l d)) (Prepare (rep l (lf_id f))) s).
Proof. exact dedup_transparent_proof. Qed.
Print Assumptions c09_dedup_transparent.

(* the stage in closed form: the first fetch of every key survives (with merged type names), and
   every dependency goes through [rep] *)
Theorem c09_dedup_closed_form :
  forall l, NoDup (lids l) -> dedup l = map (D (rep l)) (nub (length l) l).
Proof. exact dedup_closed. Qed.
Print Assumptions c09_dedup_closed_form.

(* the two side conditions are needed: without the rank condition redirecting can close a cycle *)
Theorem c09_dedup_acyclic_refuted :
  exists l, NoDup (lids l) /\ acyclic (map strip l) /\ ~ acyclic (map strip (dedup l)).
Proof. exact dedup_acyclic_refuted_proof. Qed.
Print Assumptions c09_dedup_acyclic_refuted.

(* ... and when a removed duplicate depends on a fetch its survivor does not depend on, that
   dependency is dropped *)
Theorem c09_dedup_drops_dependency_refuted :
  exists l f d t s,
    NoDup (lids l) /\ dup_rank_compatible l /\ In f l /\ In d (lf_deps f) /\ In d (lids l) /\
    organize false false false (map strip (dedup l)) = Done t /\ lin t s /\
    ~ before (Merge (rep l d)) (Prepare (rep l (lf_id f))) s.
Proof. exact dedup_drops_dependency_refuted_proof. Qed.
Print Assumptions c09_dedup_drops_dependency_refuted.

(* (iii) rename_transparent: executing the renamed document with the renamed variables object is
   executing the document -- for every injective renaming, schema without variables in default
   values, universe, mode, document, operation name, variables and fuel. *)
Theorem c09_rename_transparent :
  forall sg, injective sg -> forall S, schema_closed S = true ->
  forall fuel U md d opname supplied,
  execute fuel S U md (rename_doc sg d) opname (rename_supplied sg supplied) = execute fuel S U md d opname supplied.
Proof. exact rename_transparent_proof. Qed.
Print Assumptions c09_rename_transparent.

Theorem c09_rename_transparent_default_fuel :
  forall sg, injective sg -> forall S, schema_closed S = true ->
  forall U md d opname supplied,
  execute_default S U md (rename_doc sg d) opname (rename_supplied sg supplied) = execute_default S U md d opname supplied.
Proof. exact rename_transparent_default. Qed.
Print Assumptions c09_rename_transparent_default_fuel.

(* the variables mapper of the implementation (as repaired: names of definitions that keep their
   name are reserved): no two definitions of the result share a name, and the names it hands out
   are pairwise distinct -- the renaming is one-to-one, which is what c09_rename_transparent needs *)
Theorem c09_mapper_no_collision :
  forall o, NoDup (op_var_names o) ->
  NoDup (op_var_names (fst (map_variables o))) /\ NoDup (map fst (snd (map_variables o))).
Proof. exact mapper_no_collision_proof. Qed.
Print Assumptions c09_mapper_no_collision.

(* historical (before the repair, [map_variables_gen false]): a variable that was NOT renamed
   (Upload-typed; or used only inside a list / object literal) could collide with a handed-out
   name: two definitions, one name *)
Theorem c09_mapper_collision_historical_refuted :
  exists o, NoDup (op_var_names o) /\ uses_defined_b o = true /\
            ~ NoDup (op_var_names (fst (map_variables_gen false o))).
Proof. exact mapper_collision_historical_refuted_proof. Qed.
Print Assumptions c09_mapper_collision_historical_refuted.

(* (iv) cache_key_sound: equal keys => equal printed operation => equal normalised operation =>
   equal plans; and over any history the plans served (cache hits included) are the fresh plans.
   The two assumptions are named hypotheses of the statement. *)
Theorem c09_cache_key_sound :
  forall (print : document -> bytes) (hash : bytes -> N) (Plan : Type) (planner : document -> Plan) (docs : list document),
  (forall d1 d2, In d1 docs -> In d2 docs -> print d1 = print d2 -> d1 = d2) ->                      (* print_injective *)
  (forall d1 d2, In d1 docs -> In d2 docs -> hash (print d1) = hash (print d2) -> print d1 = print d2) ->  (* hash_collision_free *)
  forall d1 d2, In d1 docs -> In d2 docs ->
  cache_key print hash d1 = cache_key print hash d2 ->
  print d1 = print d2 /\ d1 = d2 /\ planner d1 = planner d2.
Proof. exact cache_key_sound_proof. Qed.
Print Assumptions c09_cache_key_sound.

Theorem c09_cache_transparent :
  forall (print : document -> bytes) (hash : bytes -> N) (Plan : Type) (planner : document -> Plan) (docs : list document),
  (forall d1 d2, In d1 docs -> In d2 docs -> print d1 = print d2 -> d1 = d2) ->
  (forall d1 d2, In d1 docs -> In d2 docs -> hash (print d1) = hash (print d2) -> print d1 = print d2) ->
  forall h, (forall d, In d h -> In d docs) ->
  run_history print hash Plan planner [] h = map planner h.
Proof. exact cache_transparent_proof. Qed.
Print Assumptions c09_cache_transparent.

(* the checkers that the driver runs on the implementation's outputs are sound *)
Theorem c09_checkers_sound :
  (forall runs, plan_deterministic_b runs = true -> plan_deterministic runs) /\
  (forall base run, history_transparent_b base run = true -> history_transparent base run) /\
  (forall run, cache_hit_same_plan_b run = true -> cache_hit_same_plan run) /\
  (forall base run, requests_semantically_covered_b base run = true -> requests_semantically_covered base run) /\
  (forall base, spelling_transparent_b base = true -> spelling_transparent base) /\
  (forall base, mono_agrees_b base = true -> mono_agrees base) /\
  (forall l, keys_distinct_b l = true -> keys_distinct l) /\
  (forall l l', same_requests_b l l' = true -> same_requests l l') /\
  (forall l, dups_agree_b l = true -> dups_agree l) /\
  (forall o, mapper_no_collision_b o = true <-> NoDup (op_var_names o)).
Proof.
  exact (conj plan_deterministic_b_sound (conj history_transparent_b_sound (conj cache_hit_same_plan_b_sound
        (conj requests_semantically_covered_b_sound (conj spelling_transparent_b_sound (conj mono_agrees_b_sound
        (conj keys_distinct_b_sound (conj same_requests_b_sound (conj dups_agree_b_sound mapper_no_collision_b_spec))))))))).
Qed.
Print Assumptions c09_checkers_sound.
