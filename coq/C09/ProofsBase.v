(* C09: equality tests decide equality; small list facts. *)
From Gv Require Import lib.Bytes lib.Json lib.Gql lib.Exec C08.Model C08.Spec C09.Model C09.Spec.
From Coq Require Import List Arith Bool NArith Lia.
Import ListNotations.

Lemma bytes_eqb_refl a : bytes_eqb a a = true.
Proof. induction a as [| x a IH]; simpl; [reflexivity |]. now rewrite N.eqb_refl, IH. Qed.

Lemma bytes_eqb_eq a b : bytes_eqb a b = true <-> a = b.
Proof.
  split.
  - revert b. induction a as [| x a IH]; intros [| y b] H; simpl in H; try discriminate; [reflexivity |].
    apply andb_true_iff in H. destruct H as [H1 H2]. apply N.eqb_eq in H1. subst. f_equal. now apply IH.
  - intros ->. apply bytes_eqb_refl.
Qed.

Lemma bytes_eqb_neq a b : bytes_eqb a b = false <-> a <> b.
Proof.
  split.
  - intros H E. apply bytes_eqb_eq in E. congruence.
  - intros H. destruct (bytes_eqb a b) eqn:E; [| reflexivity]. apply bytes_eqb_eq in E. contradiction.
Qed.

Lemma bytes_eqb_sym a b : bytes_eqb a b = bytes_eqb b a.
Proof.
  destruct (bytes_eqb a b) eqn:E.
  - apply bytes_eqb_eq in E. subst. symmetry. apply bytes_eqb_refl.
  - destruct (bytes_eqb b a) eqn:E2; [| reflexivity]. apply bytes_eqb_eq in E2. subst.
    rewrite bytes_eqb_refl in E. discriminate.
Qed.

Lemma list_bytes_eqb_eq a b : list_bytes_eqb a b = true <-> a = b.
Proof.
  split.
  - revert b. induction a as [| x a IH]; intros [| y b] H; simpl in H; try discriminate; [reflexivity |].
    apply andb_true_iff in H. destruct H as [H1 H2]. apply bytes_eqb_eq in H1. subst. f_equal. now apply IH.
  - intros ->. induction b as [| y b IH]; simpl; [reflexivity |]. now rewrite bytes_eqb_refl, IH.
Qed.

Lemma mem_bytes_In x l : mem_bytes x l = true <-> In x l.
Proof.
  induction l as [| y l IH]; simpl.
  - split; [discriminate | tauto].
  - rewrite orb_true_iff, IH, bytes_eqb_eq. split; intros [H | H]; auto.
Qed.

Lemma mem_bytes_false x l : mem_bytes x l = false <-> ~ In x l.
Proof.
  split.
  - intros H Hin. apply mem_bytes_In in Hin. congruence.
  - intros H. destruct (mem_bytes x l) eqn:E; [| reflexivity]. apply mem_bytes_In in E. contradiction.
Qed.

Lemma json_eqb_eq : forall a b, json_eqb a b = true -> a = b.
Proof.
  induction a as [| x | r | s | l IH | m IH] using json_ind'; intros [| y | r' | s' | l' | m'] H; simpl in H; try discriminate.
  - reflexivity.
  - f_equal. now apply Bool.eqb_prop.
  - f_equal. now apply bytes_eqb_eq.
  - f_equal. now apply bytes_eqb_eq.
  - f_equal. revert l' H. induction IH as [| x l Hx _ IHl]; intros [| y l'] H; try discriminate; [reflexivity |].
    apply andb_true_iff in H. destruct H as [H1 H2]. f_equal; [now apply Hx | now apply IHl].
  - f_equal. revert m' H. induction IH as [| [k v] m Hv _ IHm]; intros [| [k' v'] m'] H; try discriminate; [reflexivity |].
    apply andb_true_iff in H. destruct H as [H1 H2]. apply andb_true_iff in H1. destruct H1 as [Hk Hv'].
    apply bytes_eqb_eq in Hk. subst. f_equal; [f_equal; now apply Hv | now apply IHm].
Qed.

Lemma json_eqb_refl : forall a, json_eqb a a = true.
Proof.
  induction a as [| x | r | s | l IH | m IH] using json_ind'; simpl.
  - reflexivity.
  - apply Bool.eqb_reflx.
  - apply bytes_eqb_refl.
  - apply bytes_eqb_refl.
  - induction IH as [| x l Hx _ IHl]; [reflexivity |]. now rewrite Hx, IHl.
  - induction IH as [| [k v] m Hv _ IHm]; [reflexivity |]. simpl in Hv. now rewrite bytes_eqb_refl, Hv, IHm.
Qed.

Lemma forall2b_Forall2 {A B} (p : A -> B -> bool) (P : A -> B -> Prop) :
  (forall a b, p a b = true -> P a b) ->
  forall la lb, forall2b p la lb = true -> Forall2 P la lb.
Proof.
  intros Hp. induction la as [| a la IH]; intros [| b lb] H; simpl in H; try discriminate; constructor.
  - apply andb_true_iff in H. now apply Hp.
  - apply andb_true_iff in H. now apply IH.
Qed.

Lemma incl_bytes_b_incl a b : incl_bytes_b a b = true -> incl a b.
Proof.
  unfold incl_bytes_b. intros H x Hx. rewrite forallb_forall in H. apply mem_bytes_In. now apply H.
Qed.

Lemma nodup_bytes_b_NoDup l : nodup_bytes_b l = true <-> NoDup l.
Proof.
  induction l as [| x l IH]; simpl.
  - split; [constructor | reflexivity].
  - rewrite andb_true_iff, negb_true_iff, mem_bytes_false, IH. split.
    + intros [H1 H2]. now constructor.
    + intros H. inversion H. now split.
Qed.

Lemma assoc_app_none {A} k (a b : list (bytes * A)) : assoc k a = None -> assoc k (a ++ b) = assoc k b.
Proof.
  induction a as [| [k' v] a IH]; simpl; [reflexivity |]. destruct (bytes_eqb k k'); [discriminate | exact IH].
Qed.
