(* "Completion order is irrelevant": the general lemma.

   Events with a precedence relation [ord]; a run folds a [step] function over a list of events.
   If events that are unordered by the (transitive closure of the) precedence relation commute,
   then ALL linearisations of the event set that respect the precedence give the same result.
   The commutation requirement is an explicit Section hypothesis on the abstract [step]; nothing
   is assumed about what a step does.

   [linearization_independent] is the clean statement; C08 instantiates it with the Prepare/Merge
   events of a fetch tree (see [tree_runs_agree] below, used by C09 for schedule_transparent). *)
From Coq Require Import List Relations Relation_Operators Operators_Properties Permutation Arith Lia.
Import ListNotations.

Lemma in_app_or_split {A} : forall (p q p' : list A) (y : A) (q' : list A),
  p ++ q = p' ++ y :: q' ->
  (exists r, p = p' ++ y :: r /\ q' = r ++ q) \/ (exists r, p' = p ++ r /\ q = r ++ y :: q').
Proof.
  induction p as [| a p IH]; intros q p' y q' H.
  - right. exists p'. simpl in H. split; [reflexivity | exact H].
  - destruct p' as [| b p'].
    + simpl in H. injection H as -> H. left. exists p. split; [reflexivity | now rewrite H].
    + simpl in H. injection H as -> H. destruct (IH q p' y q' H) as [[r [-> ->]] | [r [-> ->]]].
      * left. exists r. split; reflexivity.
      * right. exists r. split; reflexivity.
Qed.

Section Commute.
  Variables E St : Type.
  Variable step : St -> E -> St.
  Variable U : list E.                      (* the events of the plan *)
  Variable ord : E -> E -> Prop.            (* [ord a b]: a must happen before b *)

  Definition ordU (a b : E) : Prop := ord a b /\ In a U /\ In b U.
  Definition dep : E -> E -> Prop := clos_trans E ordU.
  Definition indep (a b : E) : Prop := ~ dep a b /\ ~ dep b a.

  (* THE hypothesis: unordered events commute, in every state *)
  Hypothesis commute :
    forall s a b, In a U -> In b U -> a <> b -> indep a b -> step (step s a) b = step (step s b) a.

  Definition run (s : St) (l : list E) : St := fold_left step l s.

  (* a linearisation respects the precedence: no later event must precede an earlier one *)
  Definition respects (l : list E) : Prop :=
    forall p x q, l = p ++ x :: q -> forall y, In y q -> ~ ord y x.

  Definition up_closed (R : list E) : Prop := forall a b, In a R -> ordU a b -> In b R.

  Lemma respects_tail x l : respects (x :: l) -> respects l.
  Proof. intros H p y q -> z Hz. apply (H (x :: p) y q eq_refl z Hz). Qed.

  Lemma respects_remove p x q : respects (p ++ x :: q) -> respects (p ++ q).
  Proof.
    intros H p' y q' Heq z Hz.
    (* locate y in p ++ q *)
    destruct (in_app_or_split p q p' y q' Heq) as [[r [Hp Hq']] | [r [Hp' Hq]]].
    - (* y in p: p = p' ++ y :: r, q' = r ++ q *)
      subst p q'. apply (H p' y (r ++ x :: q)).
      + now rewrite <- app_assoc.
      + apply in_app_or in Hz. apply in_or_app. destruct Hz; [left | right; right]; assumption.
    - (* y in q: p' = p ++ r, q = r ++ y :: q' *)
      subst p' q. apply (H (p ++ x :: r) y q').
      + rewrite <- app_assoc. reflexivity.
      + assumption.
  Qed.

  Lemma chain_in R a b : up_closed R -> In a R -> dep a b -> In b R.
  Proof.
    intros HR Ha Hd. induction Hd as [a b H | a c b _ IH1 _ IH2]; eauto.
  Qed.

  (* x at position |p| of a respecting list: nothing at or after x must (transitively) precede an
     element of p *)
  Lemma no_dep_backwards p x q :
    respects (p ++ x :: q) -> up_closed (p ++ x :: q) ->
    forall z y, In z (x :: q) -> In y p -> ~ dep z y.
  Proof.
    intros Hr Hup z y Hz Hy Hd.
    apply clos_trans_t1n in Hd.
    induction Hd as [z y Hzy | z c y Hzc Hcy IH].
    - (* ordU z y with y before z *)
      destruct Hzy as [Ho _].
      apply in_split in Hy. destruct Hy as [p1 [p2 ->]].
      refine (Hr p1 y (p2 ++ x :: q) _ z _ Ho).
      + now rewrite <- app_assoc.
      + apply in_or_app. now right.
    - assert (Hc : In c (p ++ x :: q)).
      { apply (Hup z c); [apply in_or_app; now right | exact Hzc]. }
      apply in_app_or in Hc. destruct Hc as [Hc | Hc].
      + (* c in p: z (later) must precede c (earlier) *)
        destruct Hzc as [Ho _].
        apply in_split in Hc. destruct Hc as [p1 [p2 ->]].
        refine (Hr p1 c (p2 ++ x :: q) _ z _ Ho).
        * now rewrite <- app_assoc.
        * apply in_or_app. now right.
      + apply IH; assumption.
  Qed.

  (* x is the first event of a respecting list over R: nothing else of R must precede x *)
  Lemma no_dep_on_first x l :
    respects (x :: l) -> up_closed (x :: l) -> forall y, In y l -> ~ dep y x.
  Proof.
    intros Hr Hup y Hy Hd.
    apply clos_trans_tn1 in Hd.
    assert (G : forall z, clos_trans_n1 E ordU y z -> z = x -> False).
    { intros z Hz. induction Hz as [z Hyz | c z Hcz Hyc IH]; intros ->.
      - destruct Hyz as [Ho _]. exact (Hr [] x l eq_refl y Hy Ho).
      - assert (Hc : In c (x :: l)).
        { apply clos_tn1_trans in Hyc. apply (chain_in (x :: l) y c Hup); [now right | exact Hyc]. }
        destruct Hc as [Hc | Hc].
        + subst c. apply IH. reflexivity.
        + destruct Hcz as [Ho _]. exact (Hr [] x l eq_refl c Hc Ho). }
    exact (G x Hd eq_refl).
  Qed.

  Lemma run_app s a b : run s (a ++ b) = run (run s a) b.
  Proof. unfold run. apply fold_left_app. Qed.

  Lemma bubble_left p : forall x q s,
    (forall y, In y p -> forall s', step (step s' y) x = step (step s' x) y) ->
    run s (p ++ x :: q) = run (step s x) (p ++ q).
  Proof.
    induction p as [| y p IH]; intros x q s Hc; simpl.
    - reflexivity.
    - unfold run in *. simpl. rewrite IH.
      + rewrite (Hc y (or_introl eq_refl)). reflexivity.
      + intros y' Hy' s'. apply Hc. now right.
  Qed.

  Lemma lin_indep_gen : forall l2 l1 s,
    Permutation l1 l2 -> NoDup l2 -> incl l2 U -> up_closed l2 ->
    respects l1 -> respects l2 -> run s l1 = run s l2.
  Proof.
    induction l2 as [| x l2 IH]; intros l1 s Hp Hnd Hin Hup Hr1 Hr2.
    - apply Permutation_sym, Permutation_nil in Hp. now subst.
    - assert (Hx : In x l1) by (apply (Permutation_in x (Permutation_sym Hp)); now left).
      apply in_split in Hx. destruct Hx as [p [q ->]].
      assert (Hnd1 : NoDup (p ++ x :: q)) by (apply (Permutation_NoDup (Permutation_sym Hp)); exact Hnd).
      assert (Hup1 : up_closed (p ++ x :: q)).
      { intros a b Ha Hab. apply (Permutation_in b (Permutation_sym Hp)).
        apply (Hup a b); [apply (Permutation_in a Hp Ha) | exact Hab]. }
      (* every y of p is independent of x *)
      assert (Hind : forall y, In y p -> forall s', step (step s' y) x = step (step s' x) y).
      { intros y Hy s'.
        assert (Hyl2 : In y l2).
        { assert (In y (x :: l2)) by (apply (Permutation_in y Hp); apply in_or_app; now left).
          destruct H as [H | H]; [| exact H]. subst y.
          exfalso. apply NoDup_remove_2 in Hnd1. apply Hnd1. apply in_or_app. now left. }
        apply commute.
        - apply Hin. now right.
        - apply Hin. now left.
        - intros ->. inversion Hnd; subst. contradiction.
        - split.
          + apply (no_dep_on_first x l2 Hr2 Hup y Hyl2).
          + apply (no_dep_backwards p x q Hr1 Hup1 x y); [now left | exact Hy]. }
      rewrite (bubble_left p x q s Hind).
      change (run s (x :: l2)) with (run (step s x) l2).
      apply IH.
      + apply Permutation_sym. apply Permutation_cons_app_inv with (a := x). apply Permutation_sym. exact Hp.
      + now inversion Hnd.
      + intros a Ha. apply Hin. now right.
      + intros a b Ha Hab.
        assert (Hb : In b (x :: l2)) by (apply (Hup a b); [now right | exact Hab]).
        destruct Hb as [Hb | Hb]; [| exact Hb]. subst b.
        exfalso. destruct Hab as [Ho _]. apply (Hr2 [] x l2 eq_refl a Ha Ho).
      + apply respects_remove with (x := x). exact Hr1.
      + apply respects_tail with (x := x). exact Hr2.
  Qed.

  (* the clean statement *)
  Theorem linearization_independent : forall l1 l2 s,
    NoDup U -> Permutation l1 U -> Permutation l2 U -> respects l1 -> respects l2 ->
    run s l1 = run s l2.
  Proof.
    intros l1 l2 s Hnd H1 H2 Hr1 Hr2.
    apply lin_indep_gen; try assumption.
    - apply (Permutation_trans H1 (Permutation_sym H2)).
    - apply (Permutation_NoDup (Permutation_sym H2) Hnd).
    - intros a Ha. apply (Permutation_in a H2 Ha).
    - intros a b Ha [_ [_ Hb]]. apply (Permutation_in b (Permutation_sym H2) Hb).
  Qed.
End Commute.
