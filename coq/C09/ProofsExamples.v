(* C09: the hypotheses of the theorems are satisfiable by non-trivial values. *)
From Gv Require Import lib.Bytes lib.Json lib.Gql lib.Exec C08.Model C08.Spec C08.ProofsSpec
  C09.Model C09.Spec C09.ProofsBase C09.ProofsCommute C09.ProofsSchedule C09.ProofsRename.
From Coq Require Import List Arith Bool NArith Permutation Lia.
Import ListNotations.

(* ---- an injective renaming: prefix every name with 'v' ---- *)
Definition sg_v (n : name) : name := (118 :: n)%N.
Lemma sg_v_injective : injective sg_v.
Proof. intros a b H. now injection H. Qed.

(* type Query { me: U }  type U { id: ID  greet(p: String = "hi"): String } *)
Definition ex_schema : schema :=
  {| s_query := [81]%N; s_mutation := None; s_subscription := None;
     s_types := [
       {| td_kind := KObject; td_name := [81]%N; td_implements := [];
          td_fields := [ {| fd_name := [109;101]%N; fd_args := []; fd_type := TNamed [85]%N; fd_dirs := [] |} ];
          td_members := []; td_enum_values := []; td_input_fields := []; td_dirs := [] |};
       {| td_kind := KObject; td_name := [85]%N; td_implements := [];
          td_fields := [ {| fd_name := [105;100]%N; fd_args := []; fd_type := TNamed [73;68]%N; fd_dirs := [] |};
                         {| fd_name := [103]%N;
                            fd_args := [ {| iv_name := [112]%N; iv_type := TNamed [83;116;114;105;110;103]%N;
                                            iv_default := Some (VStr [104;105]%N false); iv_dirs := [] |} ];
                            fd_type := TNamed [83;116;114;105;110;103]%N; fd_dirs := [] |} ];
          td_members := []; td_enum_values := []; td_input_fields := []; td_dirs := [] |} ];
     s_directives := [] |}.
Definition ex_universe : universe :=
  [ {| en_type := [81]%N; en_key := []; en_fields := [([109;101]%N, FRef [85]%N [49]%N)] |};
    {| en_type := [85]%N; en_key := [49]%N; en_fields := [([105;100]%N, FSc (JStr [49]%N)); ([103]%N, FEcho)] |} ].
(* query($x: String, $s: Boolean!) { me { id @skip(if: $s) g(p: $x) } } *)
Definition ex_doc : document :=
  [ DOp {| op_kind := OpQuery; op_name := None;
           op_vars := [ {| vd_name := [120]%N; vd_type := TNamed [83;116;114;105;110;103]%N; vd_default := None; vd_dirs := [] |};
                        {| vd_name := [115]%N; vd_type := TNonNull (TNamed [66]%N); vd_default := None; vd_dirs := [] |} ];
           op_dirs := [];
           op_sels := [ SField None [109;101]%N [] []
                          [ SField None [105;100]%N [] [ {| d_name := s_skip; d_args := [(s_if, VVar [115]%N)] |} ] [];
                            SField None [103]%N [([112]%N, VVar [120]%N)] [] [] ] ] |} ].
Definition ex_vars : json := JObj [([120]%N, JStr [121;111]%N); ([115]%N, JBool false)].

Example ex_schema_closed : schema_closed ex_schema = true.
Proof. vm_compute. reflexivity. Qed.

(* the renamed request computes the same, non-trivial answer: {"me":{"id":"1","g":"g({\"p\":\"yo\"})@1"}} *)
Example ex_rename_runs :
  execute 40 ex_schema ex_universe Mono (rename_doc sg_v ex_doc) None (rename_supplied sg_v ex_vars) =
  execute 40 ex_schema ex_universe Mono ex_doc None ex_vars /\
  rs_errs (execute 40 ex_schema ex_universe Mono ex_doc None ex_vars) = [] /\
  jget_path [[109;101]%N; [105;100]%N] (rs_data (execute 40 ex_schema ex_universe Mono ex_doc None ex_vars)) = Some (JStr [49]%N) /\
  rename_doc sg_v ex_doc <> ex_doc.
Proof. vm_compute. repeat split; try reflexivity. discriminate. Qed.

(* ---- a step function whose unordered events commute: counting merges per fetch ---- *)
Definition count_step (st : list nat) (e : event) : list nat :=
  match e with Merge d => insert_nat d st | Prepare _ => st end.

Lemma insert_nat_comm a b st : insert_nat a (insert_nat b st) = insert_nat b (insert_nat a st).
Proof.
  induction st as [| x st IH]; simpl.
  - destruct (a <=? b)%nat eqn:E1, (b <=? a)%nat eqn:E2; try reflexivity.
    + apply Nat.leb_le in E1, E2. assert (a = b) by lia. now subst.
    + apply Nat.leb_gt in E1, E2. lia.
  - destruct (b <=? x)%nat eqn:Eb, (a <=? x)%nat eqn:Ea; simpl; rewrite ?Ea, ?Eb.
    + destruct (a <=? b)%nat eqn:E1, (b <=? a)%nat eqn:E2; simpl; rewrite ?Ea, ?Eb; try reflexivity.
      * apply Nat.leb_le in E1, E2. assert (a = b) by lia. now subst.
      * apply Nat.leb_gt in E1, E2. lia.
    + apply Nat.leb_le in Eb. apply Nat.leb_gt in Ea.
      assert (E : (a <=? b)%nat = false) by (apply Nat.leb_gt; lia). rewrite E.
      assert (E' : (b <=? a)%nat = true) by (apply Nat.leb_le; lia). rewrite ?E'. simpl. rewrite ?Eb, ?Ea. reflexivity.
    + apply Nat.leb_gt in Eb. apply Nat.leb_le in Ea.
      assert (E : (a <=? b)%nat = true) by (apply Nat.leb_le; lia). rewrite ?E.
      assert (E' : (b <=? a)%nat = false) by (apply Nat.leb_gt; lia). rewrite ?E'. simpl. rewrite ?Eb, ?Ea. reflexivity.
    + now rewrite IH.
Qed.

Example count_step_commutes : forall st a b, count_step (count_step st a) b = count_step (count_step st b) a.
Proof. intros st [x | x] [y | y]; simpl; try reflexivity. apply insert_nat_comm. Qed.

Local Open Scope nat_scope.
(* the diamond 0 -> {1, 2} -> 3: the wave tree and a tree that validateSchedule accepts run to the
   same state under every interleaving *)
Definition diamond : list fetch := [mkf 0 []; mkf 1 [0]; mkf 2 [0]; mkf 3 [1; 2]].
Example diamond_trees_agree :
  forall tw, organize_in_waves diamond = Some tw ->
  forall s1 s2, lin tw s1 ->
  lin (Sequence [Single (mkf 0 []); Parallel [Single (mkf 2 [0]); Single (mkf 1 [0])]; Single (mkf 3 [1; 2])]) s2 ->
  fold_left count_step s1 [] = fold_left count_step s2 [].
Proof.
  intros tw Hw s1 s2 H1 H2.
  assert (Hc : forall (s : list nat) (a b : event), In a (events_of diamond) -> In b (events_of diamond) -> a <> b ->
                 indep event (events_of diamond) (event_ord diamond) a b -> count_step (count_step s a) b = count_step (count_step s b) a)
    by (intros; apply count_step_commutes).
  assert (Ha : acyclic diamond).
  { exists (fun n => n). intros f d Hf Hd _. simpl in Hf.
    repeat (destruct Hf as [<- | Hf]; [simpl in Hd; repeat (destruct Hd as [<- | Hd]; [simpl; lia |]); contradiction |]).
    contradiction. }
  assert (Hu : unique_ids diamond) by (apply has_dup_false; vm_compute; reflexivity).
  refine (validated_runs_agree (list nat) count_step diamond Hc Ha Hu tw Hw _ _ _ s1 s2 H1 H2 []).
  - simpl. apply perm_skip. apply perm_swap.
  - vm_compute. reflexivity.
Qed.
