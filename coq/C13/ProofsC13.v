(* C13: counters, cleanup at quiescence, one Start per trigger, sharing by key. *)
From Gv Require Import C12.Model C12.Spec C13.Spec C12.ProofsBase C12.ProofsReg C12.ProofsC12.
From Coq Require Import List Bool Arith PeanoNat Lia.
Import ListNotations.

Definition ninit (st : state) : nat := length (filter (fun p => t_init (trigs st (snd p))) (reg st)).

(* state-only invariants *)
Record CA (st : state) : Prop := {
  ca_sub : sub_inc (log st) = sub_dec (log st) + length (byid st);
  ca_trig : trig_inc (log st) = trig_dec (log st) + ninit st;
  ca_ab : forall s, In s (allsubs st) -> In s (byid st) \/ s_removed (subs st s) = true;
  ca_cancel : forall t, t_cancelled (trigs st t) = true -> In (OCancel t) (log st) }.

Lemma sum_obs_app : forall f a b, sum_obs f (a ++ b) = sum_obs f a + sum_obs f b.
Proof. unfold sum_obs; induction a; simpl; intros; auto. rewrite IHa; lia. Qed.
Lemma sum_obs_rev : forall f l, sum_obs f (rev l) = sum_obs f l.
Proof. induction l; simpl; auto. rewrite sum_obs_app, IHl. simpl. lia. Qed.

(* what a region does to the counters *)
Definition dsub_inc (a : list obs) := sub_inc a.
Lemma sums_app : forall a l,
  sub_inc (a ++ l) = sub_inc a + sub_inc l /\ sub_dec (a ++ l) = sub_dec a + sub_dec l /\
  trig_inc (a ++ l) = trig_inc a + trig_inc l /\ trig_dec (a ++ l) = trig_dec a + trig_dec l.
Proof. unfold sub_inc, sub_dec, trig_inc, trig_dec; intros; rewrite !sum_obs_app; auto. Qed.

Definition nocount (o : obs) : bool :=
  match o with OSubInc _ | OSubDec _ | OTrigInc _ | OTrigDec _ => false | _ => true end.

Lemma filter_nin_length : forall (c l : list nat), NoDup c -> (forall x, In x c -> In x l) -> NoDup l ->
  length (filter (nin c) l) + length c = length l.
Proof.
  induction c; simpl; intros.
  - rewrite filter_id; auto.
  - inversion H; subst.
    assert (E : filter (nin (a :: c)) l = filter (nin c) (rem a l)).
    { unfold rem. rewrite filter_filter. apply filter_ext. intros x. unfold nin, mem. simpl. destruct (x =? a); auto. }
    rewrite E, <- (rem_length_in a l) by auto. specialize (IHc (rem a l)).
    rewrite <- IHc; auto.
    + intros x Hx. apply In_rem. split; auto. intro; subst; tauto.
    + apply NoDup_rem; auto.
Qed.

Definition ca_eq (st st' : state) : Prop :=
  log st' = log st /\ byid st' = byid st /\ reg st' = reg st /\ allsubs st' = allsubs st /\
  (forall s, s_removed (subs st' s) = s_removed (subs st s)) /\
  (forall t, t_init (trigs st' t) = t_init (trigs st t) /\ t_cancelled (trigs st' t) = t_cancelled (trigs st t)).

Lemma ninit_ext : forall st st', reg st' = reg st -> (forall t, t_init (trigs st' t) = t_init (trigs st t)) -> ninit st' = ninit st.
Proof. unfold ninit; intros. rewrite H. f_equal. apply filter_ext. intros; auto. Qed.

Lemma CA_ext : forall st st', ca_eq st st' -> CA st -> CA st'.
Proof.
  intros st st' (Hl & Hb & Hr & Ha & Hsub & Ht) H. destruct H. constructor.
  - rewrite Hl, Hb; auto.
  - rewrite Hl, (ninit_ext st st'); auto. intros; apply Ht.
  - intros s. rewrite Ha, Hb, Hsub; auto.
  - intros t. destruct (Ht t) as [_ ->]. rewrite Hl; auto.
Qed.

Ltac ca_eq_tac :=
  unfold ca_eq; simpl; repeat split; auto; intros;
  unfold upd; repeat (match goal with |- context [Nat.eqb ?a ?b] => destruct (Nat.eqb_spec a b); subst end); simpl; auto.

(* a region that only logs entries without counters / GLeft / OCancel *)
Lemma sums_nocount : forall a, forallb nocount a = true ->
  sub_inc a = 0 /\ sub_dec a = 0 /\ trig_inc a = 0 /\ trig_dec a = 0.
Proof.
  induction a; simpl; intros; auto. apply andb_true_iff in H. destruct H as [H1 H2].
  destruct (IHa H2) as (A & B & C & D). unfold sub_inc, sub_dec, trig_inc, trig_dec in *. simpl.
  destruct a; simpl in *; try discriminate; auto.
Qed.

Lemma CA_log : forall st a, CA st -> forallb nocount a = true -> CA (st_log st a).
Proof.
  intros st a H Hn. destruct (sums_nocount a Hn) as (A & B & C & D). destruct H. constructor; simpl.
  - destruct (sums_app a (log st)) as (-> & -> & _). lia.
  - destruct (sums_app a (log st)) as (_ & _ & -> & ->). unfold ninit in *. simpl. lia.
  - auto.
  - intros t Ht. apply in_or_app. right. auto.
Qed.

Lemma map_snd_filter : forall (g : nat -> bool) (r : list (key * tid)),
  map snd (filter (fun p => g (snd p)) r) = filter g (map snd r).
Proof. induction r as [|[k t] r]; simpl; auto. destruct (g t); simpl; rewrite IHr; auto. Qed.

Lemma ninit_removal : forall st st0 r, RG st -> RM st st0 r -> ninit st0 + rr_dec r = ninit st.
Proof.
  intros st st0 r HR HM. unfold ninit.
  rewrite <- (map_length snd (filter _ (reg st0))), <- (map_length snd (filter _ (reg st))).
  rewrite (map_snd_filter (fun t => t_init (trigs st0 t))), (map_snd_filter (fun t => t_init (trigs st t))).
  rewrite (rm_reg _ _ _ HM), map_snd_filter, (rm_dec _ _ _ HM).
  set (T := map snd (reg st)). set (c := rr_cancel r). set (f := fun t : nat => t_init (trigs st t)).
  assert (HT : NoDup T).
  { apply (NoDup_tids (fun t => t_key (trigs st t))); [apply (rg_keys _ HR)|]. intros k t Hi. apply (rg_ent _ HR _ _ Hi). }
  assert (E1 : filter (fun t : nat => t_init (trigs st0 t)) (filter (nin c) T) = filter (nin (filter f c)) (filter f T)).
  { rewrite !filter_filter. apply filter_ext. intros x. destruct (rm_tother _ _ _ HM x) as (_ & -> & _). unfold f.
    destruct (t_init (trigs st x)) eqn:E; rewrite ?andb_false_r; simpl; auto. rewrite andb_true_r.
    unfold nin. f_equal. destruct (mem x c) eqn:Em.
    - symmetry. apply mem_In. apply filter_In. split; [apply mem_In; auto|auto].
    - symmetry. apply mem_nIn. intro Hi. apply filter_In in Hi. apply mem_nIn in Em. tauto. }
  rewrite E1. change (filter (fun t : nat => t_init (trigs st t)) T) with (filter f T). apply filter_nin_length.
  - apply NoDup_filter, (rm_cancel_nd _ _ _ HM).
  - intros x Hx. apply filter_In in Hx. destruct Hx as [Hx Hf]. apply filter_In. split; auto.
    apply in_map_iff. exists (t_key (trigs st x), x). split; auto. apply (rm_cancel_in _ _ _ HM); auto.
  - apply NoDup_filter; auto.
Qed.

Lemma dec_obs_sums : forall r,
  sub_inc (rev (dec_obs r)) = 0 /\ sub_dec (rev (dec_obs r)) = rr_n r /\
  trig_inc (rev (dec_obs r)) = 0 /\ trig_dec (rev (dec_obs r)) = rr_dec r.
Proof.
  intros. unfold dec_obs. destruct (Nat.eqb_spec (rr_dec r) 0); simpl; unfold sub_inc, sub_dec, trig_inc, trig_dec; simpl; repeat split; lia.
Qed.

Lemma CA_removal : forall stp st0 r, RG stp -> CA stp -> RM stp st0 r -> CA (emit st0 (dec_obs r)).
Proof.
  intros stp st0 r HR HC HM. pose proof (dec_obs_sums r) as D.
  assert (Hq : forall f, (forall s, f (GRemoved s) = 0) -> sum_obs f (map GRemoved (rev (rr_close r))) = 0).
  { intros f Hf. induction (rev (rr_close r)); simpl; auto. rewrite Hf. auto. }
  assert (Hd : forall o, In o (rev (dec_obs r)) -> exists n, o = OSubDec n \/ o = OTrigDec n).
  { intros o Hi. apply in_rev in Hi. unfold dec_obs in Hi. destruct (rr_dec r =? 0); simpl in Hi; intuition eauto. }
  unfold emit. remember (rev (dec_obs r)) as d eqn:Ed. clear Ed. destruct D as (D1 & D2 & D3 & D4).
  constructor; simpl.
  - destruct (sums_app d (log st0)) as (-> & -> & _). rewrite D1, D2, (rm_log _ _ _ HM).
    destruct (sums_app (map GRemoved (rev (rr_close r))) (log stp)) as (-> & -> & _).
    unfold sub_inc at 1, sub_dec at 1. rewrite !Hq by auto.
    rewrite (rm_byid _ _ _ HM), (rm_n _ _ _ HM).
    pose proof (filter_nin_length (rr_close r) (byid stp) (rm_close_nd _ _ _ HM)
                  (fun x Hx => proj1 (rm_close_in _ _ _ HM x Hx)) (rg_nd_byid _ HR)).
    pose proof (ca_sub _ HC). simpl. unfold sid, tid, key in *. lia.
  - destruct (sums_app d (log st0)) as (_ & _ & -> & ->). rewrite D3, D4, (rm_log _ _ _ HM).
    destruct (sums_app (map GRemoved (rev (rr_close r))) (log stp)) as (_ & _ & -> & ->).
    unfold trig_inc at 1, trig_dec at 1. rewrite !Hq by auto.
    pose proof (ninit_removal _ _ _ HR HM). pose proof (ca_trig _ HC).
    unfold ninit in *. simpl in *. unfold sid, tid, key in *. lia.
  - destruct (rm_frame _ _ _ HM) as (_ & _ & -> & _). intros s Hs. rewrite (rm_subs _ _ _ HM), (rm_byid _ _ _ HM).
    destruct (mem s (rr_close r)) eqn:E; [right; reflexivity|].
    destruct (ca_ab _ HC s Hs); auto. left. apply filter_In. split; auto. unfold nin. rewrite E. auto.
  - intros t Ht. destruct (rm_tother _ _ _ HM t) as (_ & _ & Hc & _). rewrite Hc in Ht.
    apply in_or_app. right. rewrite (rm_log _ _ _ HM). apply in_or_app. right. apply (ca_cancel _ HC); auto.
Qed.

Lemma CA_quiet : forall st st1 a,
  CA st -> log st1 = a ++ log st -> forallb nocount a = true ->
  byid st1 = byid st -> reg st1 = reg st -> allsubs st1 = allsubs st ->
  (forall s, s_removed (subs st1 s) = s_removed (subs st s)) ->
  (forall t, t_init (trigs st1 t) = t_init (trigs st t) /\ t_cancelled (trigs st1 t) = t_cancelled (trigs st t)) ->
  CA st1.
Proof.
  intros. eapply CA_ext; [|apply (CA_log st a); eauto]. unfold ca_eq; simpl. repeat split; auto; apply H6.
Qed.

Lemma CA_add : forall st st1 s a,
  CA st -> ~ In s (allsubs st) ->
  log st1 = a ++ log st -> sub_inc a = 1 -> sub_dec a = 0 -> trig_inc a = 0 -> trig_dec a = 0 ->
  byid st1 = byid st ++ [s] -> allsubs st1 = s :: allsubs st ->
  (forall s', s' <> s -> s_removed (subs st1 s') = s_removed (subs st s')) ->
  ninit st1 = ninit st ->
  (forall t, t_cancelled (trigs st1 t) = true -> t_cancelled (trigs st t) = true) ->
  CA st1.
Proof.
  intros st st1 s a HC Hf Hl A1 A2 A3 A4 Hb Ha Hr Hn Hc. constructor.
  - rewrite Hl, Hb, app_length. destruct (sums_app a (log st)) as (-> & -> & _). pose proof (ca_sub _ HC). simpl. lia.
  - rewrite Hl, Hn. destruct (sums_app a (log st)) as (_ & _ & -> & ->). pose proof (ca_trig _ HC). lia.
  - intros s'. rewrite Ha, Hb. intros [<-|Hi]; [left; apply in_or_app; simpl; auto|].
    assert (s' <> s) by (intro; subst; tauto). rewrite Hr by auto.
    destruct (ca_ab _ HC s' Hi); auto. left. apply in_or_app; auto.
  - intros t Ht. apply Hc in Ht. rewrite Hl. apply in_or_app. right. apply (ca_cancel _ HC); auto.
Qed.

Lemma filter_flip_one : forall (f f' : nat -> bool) (t : nat) (T : list nat),
  NoDup T -> In t T -> f t = false -> f' t = true -> (forall x, x <> t -> f' x = f x) ->
  length (filter f' T) = S (length (filter f T)).
Proof.
  induction T; simpl; intros Hn Hi Hf Hf' He; [tauto|].
  inversion Hn; subst. destruct (Nat.eq_dec a t) as [->|Hne].
  - rewrite Hf, Hf'. simpl. f_equal. f_equal. apply filter_ext_in. intros x Hx. apply He. intro; subst; tauto.
  - destruct Hi as [?|Hi]; [congruence|]. rewrite (He a Hne). destruct (f a); simpl; rewrite IHT; auto.
Qed.

Lemma ninit_set_init : forall st t st1, RG st -> In (t_key (trigs st t), t) (reg st) -> t_init (trigs st t) = false ->
  reg st1 = reg st -> (forall x, t_init (trigs st1 x) = if x =? t then true else t_init (trigs st x)) ->
  ninit st1 = S (ninit st).
Proof.
  intros st t st1 HR Hi Hf Hr Ht. unfold ninit. rewrite Hr.
  rewrite <- (map_length snd (filter _ (reg st))), <- (map_length snd (filter (fun p => t_init (trigs st (snd p))) (reg st))).
  rewrite (map_snd_filter (fun x => t_init (trigs st1 x))), (map_snd_filter (fun x => t_init (trigs st x))).
  apply (filter_flip_one _ _ t).
  - apply (NoDup_tids (fun t => t_key (trigs st t))); [apply (rg_keys _ HR)|]. intros k x Hx. apply (rg_ent _ HR _ _ Hx).
  - apply in_map_iff. exists (t_key (trigs st t), t); auto.
  - auto.
  - rewrite Ht, Nat.eqb_refl; auto.
  - intros x Hx. rewrite Ht. destruct (Nat.eqb_spec x t); congruence.
Qed.

Section C13Step.
  Variable v : variant.
  Variable flt : sid -> ev -> fres.
  Variable wresf : sid -> ev -> wres.
  Variable ev_bad : ev -> bool.
  Variable hbfail : sid -> bool.
  Notation exec := (exec v flt wresf ev_bad hbfail).
  Notation step := (step v flt wresf ev_bad hbfail).
  Hypothesis Hfb : fix_b v = true.

  Lemma CA_exec : forall st i x st1 push sp,
    RG st -> CA st ->
    (forall t, i = IInit t -> t_init (trigs st t) = false) ->
    (forall t, i <> IInitOldStore t) ->
    exec st i x = Some (st1, push, sp) -> CA st1.
  Proof.
    intros st i x st1 push sp HR HC Hin Hold He.
    exec_cases He;
      try (eapply CA_quiet;
           [exact HC
           |first [ instantiate (1 := []); reflexivity
                  | simpl; match goal with |- ?a :: ?b :: log _ = _ => instantiate (1 := [a; b]); reflexivity end
                  | simpl; match goal with |- ?a :: log _ = _ => instantiate (1 := [a]); reflexivity end
                  | simpl; reflexivity ]
           |try reflexivity
           |simpl; auto|simpl; auto|simpl; auto
           |flags_tac|flags_tac]; fail).
    (* addSubscription *)
    1-2: (eapply (CA_add st _ s [GReg s t; OSubInc 1]);
          [exact HC|apply mem_nIn; auto|simpl; reflexivity|reflexivity|reflexivity|reflexivity|reflexivity
          |reflexivity|reflexivity
          |flags_tac; congruence
          |apply ninit_ext; [reflexivity|flags_tac]
          |intros t0; simpl; unfold upd; destruct (Nat.eqb_spec t0 t); subst; simpl; auto]).
    1-2: (eapply (CA_add st _ s [OSubInc 1; GReg s (ntrig st)]);
          [exact HC|apply mem_nIn; auto|simpl; reflexivity|reflexivity|reflexivity|reflexivity|reflexivity
          |reflexivity|reflexivity
          |flags_tac; congruence
          |unfold ninit; simpl; rewrite filter_app; simpl; rewrite upd_same; simpl; rewrite app_nil_r;
           f_equal; apply filter_ext_in; intros [k' t'] Hi; simpl;
           rewrite upd_other; auto; destruct (rg_ent _ HR _ _ Hi); lia
          |intros t0; simpl; unfold upd; destruct (Nat.eqb_spec t0 (ntrig st)); subst; simpl; auto; congruence]).
    - (* UnsubscribeSubscription *)
      eapply (CA_removal (st_log st (if mem s (allsubs st) then [GLeft s] else [])));
        [eapply RG_ext; [|exact HR]; reg_eq_tac
        |apply CA_log; [exact HC|destruct (mem s (allsubs st)); reflexivity]
        |eapply RM_remove_locked; [|exact Erm]; eapply RG_ext; [|exact HR]; reg_eq_tac].
    - (* removeClient *)
      eapply (CA_removal (st_log st (map GLeft (of_conn st c (allsubs st)))));
        [eapply RG_ext; [|exact HR]; reg_eq_tac
        |apply CA_log; [exact HC|apply forallb_forall; intros o Ho; apply in_map_iff in Ho; destruct Ho as [y [<- _]]; reflexivity]
        |eapply RM_remove_many; [|exact Erm]; eapply RG_ext; [|exact HR]; reg_eq_tac].
    - (* shutdownResolver *)
      assert (HR0 : RG (st_flags st true (rctx st))) by (eapply RG_ext; [|exact HR]; reg_eq_tac).
      assert (HM : RM (st_flags st true (rctx st)) st0 r).
      { eapply RM_detach_many; [exact HR0| | |exact Erm]; simpl; auto.
        apply (NoDup_tids (fun t => t_key (trigs st t))); [apply (rg_keys _ HR)|]. intros k t Hi. apply (rg_ent _ HR _ _ Hi). }
      assert (HC0 : CA (emit st0 (dec_obs r))).
      { eapply (CA_removal (st_flags st true (rctx st))); [exact HR0| |exact HM].
        eapply CA_ext; [|exact HC]. ca_eq_tac. }
      assert (Hreg : reg st0 = []).
      { pose proof (RG_detach_many _ _ _ _ HR0 (fun t Ht => Ht) (NoDup_tids (fun t => t_key (trigs st t)) _ (rg_keys _ HR) (fun k t Hi => proj1 (proj2 (rg_ent _ HR _ _ Hi)))) Erm) as [_ Hsub].
        destruct (reg st0) as [|[k t] l] eqn:E; auto. exfalso.
        destruct (Hsub k t (or_introl eq_refl)) as [Hi Hn]. apply Hn. simpl in Hi. apply in_map_iff. exists (k, t); auto. }
      assert (Hby : byid st0 = []).
      { pose proof (RG_detach_many _ _ _ _ HR0 (fun t Ht => Ht) (NoDup_tids (fun t => t_key (trigs st t)) _ (rg_keys _ HR) (fun k t Hi => proj1 (proj2 (rg_ent _ HR _ _ Hi)))) Erm) as [HR1 _].
        destruct (byid st0) as [|x l] eqn:E; auto. exfalso.
        destruct (rg_byid _ HR1 x) as (_ & Hi & _); [rewrite E; left; auto|]. rewrite Hreg in Hi. inversion Hi. }
      eapply CA_ext; [|exact HC0]. unfold ca_eq, emit; simpl. rewrite Hreg, Hby. repeat split; auto.
    - (* cancel *)
      destruct HC. constructor; simpl.
      + unfold sub_inc, sub_dec in *. simpl. auto.
      + unfold trig_inc, trig_dec in *. simpl. rewrite ca_trig0. f_equal. symmetry. apply ninit_ext; [reflexivity|flags_tac].
      + auto.
      + intros t0. unfold upd. destruct (Nat.eqb_spec t0 t); subst; simpl; auto.
    - (* markTriggerInitialized (repaired): registered, not yet initialised *)
      assert (Hi : In (t_key (trigs st t), t) (reg st)) by (apply is_reg_true; auto).
      assert (Hf : t_init (trigs st t) = false) by (apply Hin; auto).
      destruct HC. constructor; simpl.
      + unfold sub_inc, sub_dec in *. simpl. auto.
      + unfold trig_inc, trig_dec in *. simpl. rewrite ca_trig0.
        assert (En : ninit (st_log (st_trg st t (trg_set_init (trigs st t))) [OTrigInc 1]) = S (ninit st)).
        { apply (ninit_set_init st t); auto. intros x. simpl. unfold upd. destruct (Nat.eqb_spec x t); subst; simpl; auto. }
        rewrite En. lia.
      + auto.
      + intros t0 Ht0. right. apply ca_cancel0. revert Ht0. unfold upd. destruct (Nat.eqb_spec t0 t); subst; simpl; auto.
    - exfalso. eapply Hold; eauto.
    - (* doneTriggerFromUpdater *)
      assert (Hr : In (t_key (trigs st t0), t0) (reg st)).
      { destruct (fix_c v).
        - destruct (is_reg st t) eqn:E; inversion Ec; subst. apply is_reg_true; auto.
        - apply lookup_reg_In in Ec. destruct (rg_ent _ HR _ _ Ec) as (_ & B & _). rewrite B. exact Ec. }
      eapply (CA_removal st); [exact HR|exact HC|eapply RM_detach_locked; eauto].
    - destruct HC. constructor; simpl; auto; unfold sub_inc, sub_dec, trig_inc, trig_dec in *; simpl; try lia; auto.
    - (* fan-out *)
      eapply CA_quiet; [exact HC|simpl; reflexivity| |simpl; auto|simpl; auto|simpl; auto|flags_tac|flags_tac].
      apply forallb_forall. intros o Ho. apply in_map_iff in Ho. destruct Ho as [y [<- _]]. reflexivity.
  Qed.
End C13Step.

(* ---- shutdown flag and GLeft ghost (state only) ---- *)
Record CS (st : state) : Prop := {
  cs_shut : shut st = true -> reg st = [] /\ byid st = [];
  cs_left : forall s, In (GLeft s) (log st) -> In s (allsubs st) /\ ~ In s (byid st) }.

Lemma remove_locked_gone : forall st s st' r, RG st -> remove_locked st s = (st', r) -> ~ In s (byid st').
Proof.
  intros st s st' r HR Hr. destruct (in_dec Nat.eq_dec s (byid st)) as [Hin|Hin].
  - rewrite remove_locked_in in Hr by auto. inversion Hr; subst. unfold rm_state.
    destruct (rem s (t_subs (trigs st (s_tid (subs st s))))); simpl; intro Hx; apply In_rem in Hx; tauto.
  - rewrite remove_locked_out in Hr by auto. inversion Hr; subst; auto.
Qed.

Lemma remove_many_gone : forall l st st' r, RG st -> remove_many st l = (st', r) -> forall s, In s l -> ~ In s (byid st').
Proof.
  induction l; simpl; intros st st' r HR Hr s Hs; [tauto|].
  destruct (remove_locked st a) as [st1 r1] eqn:E1. destruct (remove_many st1 l) as [st2 r2] eqn:E2.
  inversion Hr; subst; clear Hr.
  assert (HR1 : RG st1) by (eapply RG_remove_locked; eauto).
  destruct Hs as [<-|Hs]; [|eapply IHl; eauto].
  pose proof (remove_locked_gone _ _ _ _ HR E1) as Hg.
  pose proof (RM_remove_many _ _ _ _ HR1 E2) as HM. rewrite (rm_byid _ _ _ HM). intro Hx. apply filter_In in Hx. tauto.
Qed.

Section C13State.
  Variable v : variant.
  Variable flt : sid -> ev -> fres.
  Variable wresf : sid -> ev -> wres.
  Variable ev_bad : ev -> bool.
  Variable hbfail : sid -> bool.
  Notation exec := (exec v flt wresf ev_bad hbfail).

  Definition noleft (o : obs) : bool := match o with GLeft _ => false | _ => true end.

  Lemma CS_quiet : forall st st1 a, CS st -> log st1 = a ++ log st -> forallb noleft a = true ->
    byid st1 = byid st -> reg st1 = reg st -> shut st1 = shut st -> allsubs st1 = allsubs st -> CS st1.
  Proof.
    intros st st1 a H Hl Hn Hb Hr Hs Ha. destruct H. constructor.
    - rewrite Hs, Hr, Hb; auto.
    - intros s. rewrite Hl, Ha, Hb. intros Hi. apply in_app_iff in Hi. destruct Hi as [Hi|Hi]; auto.
      rewrite forallb_forall in Hn. apply Hn in Hi. discriminate.
  Qed.

  Lemma CS_removal : forall st stp st0 r d, CS st -> RM stp st0 r -> forallb noleft d = true ->
    reg stp = reg st -> byid stp = byid st -> allsubs stp = allsubs st -> shut stp = shut st ->
    (forall x, In (GLeft x) (log stp) -> In (GLeft x) (log st) \/ (In x (allsubs st) /\ ~ In x (byid st0))) ->
    CS (st_log st0 d).
  Proof.
    intros st stp st0 r d HC HM Hd Er Eb Ea Es Hnew. destruct (rm_frame _ _ _ HM) as (_ & _ & Ha & Hs & _). constructor; simpl.
    - rewrite Hs, Es. intros E. destruct (cs_shut _ HC E) as [E1 E2]. rewrite (rm_reg _ _ _ HM), (rm_byid _ _ _ HM), Er, Eb, E1, E2. auto.
    - intros s Hi. rewrite Ha, Ea.
      assert (Hi' : In (GLeft s) (log stp)).
      { apply in_app_iff in Hi. destruct Hi as [Hi|Hi]; [rewrite forallb_forall in Hd; apply Hd in Hi; discriminate|].
        rewrite (rm_log _ _ _ HM) in Hi. apply in_app_iff in Hi. destruct Hi as [Hi|Hi]; auto.
        apply in_map_iff in Hi. destruct Hi as [x [Hx _]]. discriminate. }
      destruct (Hnew s Hi') as [Ho|[A B]]; [|auto].
      destruct (cs_left _ HC s Ho). split; auto. rewrite (rm_byid _ _ _ HM), Eb. intro Hx. apply filter_In in Hx. tauto.
  Qed.

  Lemma noleft_dec : forall r, forallb noleft (rev (dec_obs r)) = true.
  Proof. intros. unfold dec_obs. destruct (rr_dec r =? 0); reflexivity. Qed.

  Lemma CS_exec : forall st i x st1 push sp, RG st -> CS st -> exec st i x = Some (st1, push, sp) -> CS st1.
  Proof.
    intros st i x st1 push sp HR HC He.
    exec_cases He;
      try (eapply CS_quiet;
           [exact HC
           |first [ instantiate (1 := []); reflexivity
                  | simpl; match goal with |- ?a :: ?b :: log _ = _ => instantiate (1 := [a; b]); reflexivity end
                  | simpl; match goal with |- ?a :: log _ = _ => instantiate (1 := [a]); reflexivity end
                  | simpl; reflexivity ]
           |try reflexivity
           |simpl; auto|simpl; auto|simpl; auto|simpl; auto]; fail).
    (* addSubscription *)
    1-4: (assert (Hf : ~ In s (allsubs st)) by (apply mem_nIn; auto); destruct HC; constructor; simpl;
          [discriminate
          |intros s' [Hx|[Hx|Hi]]; try discriminate; destruct (cs_left0 s' Hi) as [A B]; split; [right; auto|];
           intro Hy; apply in_app_iff in Hy; destruct Hy as [Hy|[<-|[]]]; tauto]).
    - (* UnsubscribeSubscription *)
      assert (HR0 : RG (st_log st (if mem s (allsubs st) then [GLeft s] else []))) by (eapply RG_ext; [|exact HR]; reg_eq_tac).
      eapply (CS_removal st); [exact HC|eapply RM_remove_locked; [exact HR0|exact Erm]|apply noleft_dec|reflexivity|reflexivity|reflexivity|reflexivity|].
      intros x Hi. simpl in Hi. apply in_app_iff in Hi. destruct Hi as [Hi|Hi]; auto. right.
      destruct (mem s (allsubs st)) eqn:E; simpl in Hi; [|tauto]. destruct Hi as [Hi|[]]. inversion Hi; subst.
      split; [apply mem_In; auto|eapply remove_locked_gone; eauto].
    - (* removeClient *)
      assert (HR0 : RG (st_log st (map GLeft (of_conn st c (allsubs st))))) by (eapply RG_ext; [|exact HR]; reg_eq_tac).
      eapply (CS_removal st); [exact HC|eapply RM_remove_many; [exact HR0|exact Erm]|apply noleft_dec|reflexivity|reflexivity|reflexivity|reflexivity|].
      intros x Hi. simpl in Hi. apply in_app_iff in Hi. destruct Hi as [Hi|Hi]; auto. right.
      apply in_map_iff in Hi. destruct Hi as [y [Hy Hi]]. inversion Hy; subst. unfold of_conn in Hi. apply filter_In in Hi. destruct Hi as [Hi Hc].
      split; auto. intro Hb.
      assert (In x (byid st)).
      { pose proof (RM_remove_many _ _ _ _ HR0 Erm) as HM. rewrite (rm_byid _ _ _ HM) in Hb. apply filter_In in Hb. apply Hb. }
      eapply (remove_many_gone _ _ _ _ HR0 Erm x); auto. unfold of_conn. apply filter_In. auto.
    - (* shutdownResolver *)
      constructor; simpl; auto.
      intros s Hi.
      assert (HR0 : RG (st_flags st true (rctx st))) by (eapply RG_ext; [|exact HR]; reg_eq_tac).
      assert (HM : RM (st_flags st true (rctx st)) st0 r).
      { eapply RM_detach_many; [exact HR0| | |exact Erm]; simpl; auto.
        apply (NoDup_tids (fun t => t_key (trigs st t))); [apply (rg_keys _ HR)|]. intros k t Hx. apply (rg_ent _ HR _ _ Hx). }
      destruct (rm_frame _ _ _ HM) as (_ & _ & Ha & _). rewrite Ha. simpl. split; [|tauto].
      apply in_app_iff in Hi. destruct Hi as [Hi|Hi].
      + pose proof (noleft_dec r) as Hn. rewrite forallb_forall in Hn. apply Hn in Hi. discriminate.
      + rewrite (rm_log _ _ _ HM) in Hi. apply in_app_iff in Hi. destruct Hi as [Hi|Hi].
        * apply in_map_iff in Hi. destruct Hi as [y [Hy _]]. discriminate.
        * apply (cs_left _ HC s Hi).
    - (* doneTriggerFromUpdater *)
      assert (Hr : In (t_key (trigs st t0), t0) (reg st)).
      { destruct (fix_c v).
        - destruct (is_reg st t) eqn:E; inversion Ec; subst. apply is_reg_true; auto.
        - apply lookup_reg_In in Ec. destruct (rg_ent _ HR _ _ Ec) as (_ & B & _). rewrite B. exact Ec. }
      eapply (CS_removal st st); [exact HC|eapply RM_detach_locked; eauto|apply noleft_dec|reflexivity|reflexivity|reflexivity|reflexivity|auto].
    - eapply CS_quiet; [exact HC|simpl; reflexivity| |simpl; auto|simpl; auto|simpl; auto|simpl; auto].
      apply forallb_forall. intros o Ho. apply in_map_iff in Ho. destruct Ho as [y [<- _]]. reflexivity.
  Qed.
End C13State.

(* ---- thread-based invariants ---- *)
Definition pi (t : tid) (i : instr) : bool :=
  match i with IHookS _ t' | IStart _ t' | IInit t' | IInitOldStore t' => t' =? t | _ => false end.
Definition ps (t : tid) (i : instr) : bool :=
  match i with IHookS _ t' | IStart _ t' => t' =? t | _ => false end.
Definition is_cancel (t : tid) (i : instr) : bool := match i with ICancel t' => t' =? t | _ => false end.
Definition is_doner (t : tid) (i : instr) : bool := match i with IDoneR t' => t' =? t | _ => false end.
Definition is_initold (i : instr) : bool := match i with IInitOldStore _ => true | _ => false end.
(* instructions that carry a trigger instance and can lead to GEnd / IDoneR / IInit for it *)
Definition gsrc (t : tid) (i : instr) : bool :=
  match i with
  | IHookJ _ t' | IHookS _ t' | IStart _ t' | IFailSnap t' | IULock t' _ | IDoneR t' | IInit t' | IInitOldStore t' => t' =? t
  | _ => false
  end.
Definition is_ostart (t : tid) (o : obs) : bool := match o with OStart t' _ => t' =? t | _ => false end.
Definition nstart (t : tid) (l : list obs) : nat := length (filter (is_ostart t) l).
Definition B (b : bool) : nat := if b then 1 else 0.
Definition registered (st : state) (t : tid) : Prop := In (t_key (trigs st t), t) (reg st).

Record CB (st : state) : Prop := {
  cb_pi : forall t, cnt (pi t) (threads st) + B (t_init (trigs st t)) <= 1;
  cb_ps : forall t, cnt (ps t) (threads st) + t_started (trigs st t) <= 1;
  cb_nstart : forall t, nstart t (log st) = t_started (trigs st t);
  cb_fresh : forall t, ntrig st <= t ->
               cnt (gsrc t) (threads st) = 0 /\ t_init (trigs st t) = false /\ t_started (trigs st t) = 0;
  cb_old : cnt is_initold (threads st) = 0;
  cb_cancel : forall t, t < ntrig st -> registered st t \/ t_cancelled (trigs st t) = true \/ cnt (is_cancel t) (threads st) > 0;
  cb_end : forall t, In (GEnd t) (log st) -> t < ntrig st /\ (~ registered st t \/ cnt (is_doner t) (threads st) > 0) }.

Lemma cntl_cancel_map : forall t l, NoDup l -> cntl (is_cancel t) (map ICancel l) = if mem t l then 1 else 0.
Proof.
  unfold cntl; induction l; simpl; intros; auto. inversion H; subst. rewrite (Nat.eqb_sym t a).
  destruct (Nat.eqb_spec a t); simpl.
  - subst. rewrite IHl by auto. rewrite (proj2 (mem_nIn t l)); auto.
  - apply IHl; auto.
Qed.
Lemma cntl_after_remove_cancel : forall t r, NoDup (rr_cancel r) ->
  cntl (is_cancel t) (after_remove r) = if mem t (rr_cancel r) then 1 else 0.
Proof. intros. unfold after_remove. rewrite cntl_app, cntl_cancel_map by auto. rewrite cntl_map_zero by auto. lia. Qed.
Lemma cntl_after_remove_zero : forall p r, (forall l, p (ICloseLoop l) = false) -> (forall t, p (ICancel t) = false) ->
  cntl p (after_remove r) = 0.
Proof. intros. unfold after_remove. rewrite cntl_app, !cntl_map_zero by auto. auto. Qed.

Lemma registered_RM : forall stp st0 r t, RM stp st0 r ->
  (registered st0 t <-> registered stp t /\ ~ In t (rr_cancel r)).
Proof.
  intros. unfold registered. destruct (rm_tother _ _ _ H t) as (-> & _). rewrite (rm_reg _ _ _ H), filter_In. simpl.
  rewrite nin_true. tauto.
Qed.

Definition CBp (st : state) (thr : list (tname * list instr)) : Prop :=
  (forall t, cnt (pi t) thr + B (t_init (trigs st t)) <= 1) /\
  (forall t, cnt (ps t) thr + t_started (trigs st t) <= 1) /\
  (forall t, nstart t (log st) = t_started (trigs st t)) /\
  (forall t, ntrig st <= t -> cnt (gsrc t) thr = 0 /\ t_init (trigs st t) = false /\ t_started (trigs st t) = 0) /\
  cnt is_initold thr = 0 /\
  (forall t, t < ntrig st -> registered st t \/ t_cancelled (trigs st t) = true \/ cnt (is_cancel t) thr > 0) /\
  (forall t, In (GEnd t) (log st) -> t < ntrig st /\ (~ registered st t \/ cnt (is_doner t) thr > 0)).

Lemma CB_CBp : forall st, CB st <-> CBp st (threads st).
Proof.
  intros; split.
  - intros []. unfold CBp. repeat split; auto; try apply cb_fresh0; auto; apply cb_end0; auto.
  - intros (A & B0 & C & D & E & F & G). constructor; auto.
Qed.

Ltac hq HQ p :=
  let H := fresh "Hq" in pose proof (HQ p) as H; revert H; cnt_simpl; intro H.

Ltac eqb_all :=
  repeat (match goal with
          | |- context [Nat.eqb ?a ?b] => destruct (Nat.eqb_spec a b); subst
          | H : context [Nat.eqb ?a ?b] |- _ => destruct (Nat.eqb_spec a b); subst
          end); simpl in *.

Definition plain (o : obs) : bool := match o with OStart _ _ | GEnd _ => false | _ => true end.
Lemma nstart_plain : forall t a l, forallb plain a = true -> nstart t (a ++ l) = nstart t l.
Proof.
  unfold nstart; intros. rewrite filter_app, app_length.
  assert (filter (is_ostart t) a = []).
  { induction a; simpl in *; auto. apply andb_true_iff in H. destruct H. destruct a; simpl in *; auto; discriminate. }
  rewrite H0. auto.
Qed.
Lemma In_GEnd_plain : forall t a l, forallb plain a = true -> In (GEnd t) (a ++ l) -> In (GEnd t) l.
Proof.
  intros. apply in_app_iff in H0. destruct H0; auto. rewrite forallb_forall in H. apply H in H0. discriminate.
Qed.
Lemma plain_map : forall A (f : A -> obs) l, (forall x, plain (f x) = true) -> forallb plain (map f l) = true.
Proof. induction l; simpl; intros; auto. rewrite H, IHl; auto. Qed.
Lemma plain_dec : forall r, forallb plain (rev (dec_obs r)) = true.
Proof. intros. unfold dec_obs. destruct (rr_dec r =? 0); reflexivity. Qed.

Lemma CBp_removal : forall st stp st0 r d i thr',
  CB st -> RM stp st0 r ->
  reg stp = reg st -> trigs stp = trigs st -> ntrig stp = ntrig st ->
  (exists a, log stp = a ++ log st /\ forallb plain a = true) ->
  forallb plain d = true ->
  (forall p, cnt p thr' + (if p i then 1 else 0) = cnt p (threads st) + cntl p (after_remove r) + 0) ->
  (forall t, pi t i = false) -> (forall t, ps t i = false) -> is_initold i = false -> (forall t, is_cancel t i = false) ->
  (forall t, gsrc t i = is_doner t i) ->
  (forall t, is_doner t i = true -> ~ registered st0 t) ->
  CBp (st_log st0 d) thr'.
Proof.
  intros st stp st0 r d i thr' HC HM Er Et En [a [Ea Hpa]] Hd HQ Hpi Hps Hold Hcan Hg Hdone.
  destruct (rm_frame _ _ _ HM) as (_ & Hn & _).
  assert (Hz : forall p, (forall l, p (ICloseLoop l) = false) -> (forall t, p (ICancel t) = false) -> cnt p thr' + (if p i then 1 else 0) = cnt p (threads st)).
  { intros p H1 H2. rewrite (HQ p), cntl_after_remove_zero by auto. lia. }
  assert (Hti : forall t, t_init (trigs st0 t) = t_init (trigs st t) /\ t_started (trigs st0 t) = t_started (trigs st t) /\
                         t_cancelled (trigs st0 t) = t_cancelled (trigs st t)).
  { intros t. destruct (rm_tother _ _ _ HM t) as (_ & A & B0 & _ & _ & _ & C). rewrite Et in *. auto. }
  assert (Hreg : forall t, registered st0 t <-> registered st t /\ ~ In t (rr_cancel r)).
  { intros t. rewrite (registered_RM _ _ _ t HM). unfold registered. rewrite Er, Et. tauto. }
  assert (Hregd : forall t, registered (st_log st0 d) t <-> registered st0 t) by (intros; unfold registered; simpl; tauto).
  unfold CBp; cbn [trigs log ntrig st_log]. repeat split.
  - intros t. destruct (Hti t) as (-> & _). pose proof (Hz (pi t) (fun _ => eq_refl) (fun _ => eq_refl)). rewrite Hpi in H. pose proof (cb_pi _ HC t). lia.
  - intros t. destruct (Hti t) as (_ & -> & _). pose proof (Hz (ps t) (fun _ => eq_refl) (fun _ => eq_refl)). rewrite Hps in H. pose proof (cb_ps _ HC t). lia.
  - intros t. destruct (Hti t) as (_ & -> & _). rewrite nstart_plain by auto. rewrite (rm_log _ _ _ HM), nstart_plain by (apply plain_map; auto).
    rewrite Ea, nstart_plain by auto. apply (cb_nstart _ HC).
  - rewrite Hn, En in H. destruct (cb_fresh _ HC t H) as (F1 & _). pose proof (Hz (gsrc t) (fun _ => eq_refl) (fun _ => eq_refl)). lia.
  - rewrite Hn, En in H. destruct (Hti t) as (-> & _). apply (cb_fresh _ HC t H).
  - rewrite Hn, En in H. destruct (Hti t) as (_ & -> & _). apply (cb_fresh _ HC t H).
  - pose proof (Hz is_initold (fun _ => eq_refl) (fun _ => eq_refl)). rewrite Hold in H. pose proof (cb_old _ HC). lia.
  - intros t Ht. rewrite Hn, En in Ht. destruct (Hti t) as (_ & _ & ->).
    pose proof (HQ (is_cancel t)) as Hc. rewrite Hcan, cntl_after_remove_cancel in Hc by apply (rm_cancel_nd _ _ _ HM).
    destruct (cb_cancel _ HC t Ht) as [F|[F|F]]; auto.
    + destruct (mem t (rr_cancel r)) eqn:E.
      * right. right. lia.
      * left. apply Hregd. apply Hreg. split; auto. apply mem_nIn; auto.
    + right. right. lia.
  - apply In_GEnd_plain in H; auto. rewrite (rm_log _ _ _ HM) in H. apply In_GEnd_plain in H; [|apply plain_map; auto].
    rewrite Ea in H. apply In_GEnd_plain in H; auto. rewrite Hn, En. apply (cb_end _ HC t H).
  - apply In_GEnd_plain in H; auto. rewrite (rm_log _ _ _ HM) in H. apply In_GEnd_plain in H; [|apply plain_map; auto].
    rewrite Ea in H. apply In_GEnd_plain in H; auto. destruct (cb_end _ HC t H) as [_ [F|F]].
    + left. rewrite Hregd, Hreg. tauto.
    + pose proof (Hz (is_doner t) (fun _ => eq_refl) (fun _ => eq_refl)) as Hc.
      destruct (is_doner t i) eqn:E; [left; rewrite Hregd; apply Hdone; auto|right; lia].
Qed.

Lemma pi_gsrc : forall t i, pi t i = true -> gsrc t i = true.
Proof. destruct i; simpl; intros; auto; discriminate. Qed.
Lemma ps_gsrc : forall t i, ps t i = true -> gsrc t i = true.
Proof. destruct i; simpl; intros; auto; discriminate. Qed.

Lemma CBp_ext : forall st st' thr, trigs st' = trigs st -> log st' = log st -> ntrig st' = ntrig st ->
  (forall t, registered st' t <-> registered st t) -> CBp st thr -> CBp st' thr.
Proof.
  intros st st' thr Ht Hl Hn Hr (A & B0 & C & D & E & F & G). unfold CBp. rewrite Ht, Hl, Hn.
  repeat split; auto; try apply D; auto.
  - intros t Hlt. destruct (F t Hlt) as [X|X]; auto. left. apply Hr; auto.
  - apply G; auto.
  - destruct (G t H) as [_ [X|X]]; auto. left. rewrite Hr. auto.
Qed.

Lemma shutdown_empty : forall st rc st0 r, RG st ->
  detach_many (st_flags st true rc) (map snd (reg st)) = (st0, r) -> reg st0 = [] /\ byid st0 = [].
Proof.
  intros st rc st0 r HR Erm.
  assert (HR0 : RG (st_flags st true rc)) by (eapply RG_ext; [|exact HR]; reg_eq_tac).
  pose proof (RG_detach_many _ _ _ _ HR0 (fun t Ht => Ht)
               (NoDup_tids (fun t => t_key (trigs st t)) _ (rg_keys _ HR) (fun k t Hi => proj1 (proj2 (rg_ent _ HR _ _ Hi)))) Erm) as [HR1 Hsub].
  assert (Hreg : reg st0 = []).
  { destruct (reg st0) as [|[k t] l] eqn:E; auto. exfalso.
    destruct (Hsub k t (or_introl eq_refl)) as [Hi Hn]. apply Hn. simpl in Hi. apply in_map_iff. exists (k, t); auto. }
  split; auto.
  destruct (byid st0) as [|x l] eqn:E; auto. exfalso.
  destruct (rg_byid _ HR1 x) as (_ & Hi & _); [rewrite E; left; auto|]. rewrite Hreg in Hi. inversion Hi.
Qed.

Section C13Thr.
  Variable v : variant.
  Variable flt : sid -> ev -> fres.
  Variable wresf : sid -> ev -> wres.
  Variable ev_bad : ev -> bool.
  Variable hbfail : sid -> bool.
  Notation exec := (exec v flt wresf ev_bad hbfail).
  Notation step := (step v flt wresf ev_bad hbfail).
  Hypothesis Hfb : fix_b v = true.
  Hypothesis Hfc : fix_c v = true.

  Lemma CB_astep : forall st i x st1 push sp thr',
    RG st -> CB st -> exec st i x = Some (st1, push, sp) ->
    (forall p, cnt p thr' + (if p i then 1 else 0) = cnt p (threads st) + cntl p push + cnt p sp) ->
    (forall p, p i = true -> cnt p (threads st) > 0) ->
    CBp st1 thr'.
  Proof.
    intros st i x st1 push sp thr' HR HC He HQ HI.
    assert (Hlt : forall t, gsrc t i = true -> t < ntrig st).
    { intros t Hg. destruct (le_lt_dec (ntrig st) t) as [Hle|]; auto. exfalso.
      destruct (cb_fresh _ HC t Hle) as [F _]. specialize (HI _ Hg). lia. }
    exec_cases He; try congruence; simpl in Hlt;
      repeat match goal with Hlt : forall t, (?a =? t) = true -> _ |- _ => pose proof (Hlt a (Nat.eqb_refl a)); clear Hlt end.
    (* the removal regions *)
    all: try (match goal with
         | HC : CB ?S, HR : RG ?S, E : remove_locked (st_log ?S (if mem ?s _ then _ else _)) ?s = (?st0, ?r) |- _ =>
           eapply (CBp_removal S (st_log S (if mem s (allsubs S) then [GLeft s] else [])));
           [exact HC|eapply RM_remove_locked; [eapply RG_ext; [|exact HR]; reg_eq_tac|exact E]|reflexivity|reflexivity|reflexivity
           |eexists; split; [reflexivity|destruct (mem s (allsubs S)); reflexivity]
           |apply plain_dec|intros p; rewrite (HQ p); simpl; first [reflexivity|lia]|reflexivity|reflexivity|reflexivity|reflexivity|reflexivity|discriminate]
         | HC : CB ?S, HR : RG ?S, E : remove_many (st_log ?S (map GLeft (of_conn ?S ?c _))) _ = (?st0, ?r) |- _ =>
           eapply (CBp_removal S (st_log S (map GLeft (of_conn S c (allsubs S)))));
           [exact HC|eapply RM_remove_many; [eapply RG_ext; [|exact HR]; reg_eq_tac|exact E]|reflexivity|reflexivity|reflexivity
           |eexists; split; [reflexivity|apply plain_map; auto]
           |apply plain_dec|intros p; rewrite (HQ p); simpl; first [reflexivity|lia]|reflexivity|reflexivity|reflexivity|reflexivity|reflexivity|discriminate]
         | HC : CB ?S, HR : RG ?S, E : detach_many (st_flags ?S true _) _ = (?st0, ?r) |- _ =>
           let E1 := fresh "E1" in let E2 := fresh "E2" in
           destruct (shutdown_empty _ _ _ _ HR E) as [E1 E2];
           eapply (CBp_ext (emit st0 (dec_obs r))); [reflexivity|reflexivity|reflexivity|intros t; unfold registered; simpl; rewrite E1; tauto|];
           eapply (CBp_removal S (st_flags S true (rctx S)));
           [exact HC| |reflexivity|reflexivity|reflexivity
           |exists []; split; reflexivity
           |apply plain_dec|intros p; rewrite (HQ p); simpl; first [reflexivity|lia]|reflexivity|reflexivity|reflexivity|reflexivity|reflexivity|discriminate];
           eapply RM_detach_many; [eapply RG_ext; [|exact HR]; reg_eq_tac| | |exact E]; simpl; auto;
           apply (NoDup_tids (fun t => t_key (trigs S t))); [apply (rg_keys _ HR)|]; intros k t Hi; apply (rg_ent _ HR _ _ Hi)
         | HC : CB ?S, HR : RG ?S, E : detach_locked ?S ?t0 = (?st0, ?r), Ec : _ = Some ?t0 |- _ =>
           rewrite Hfc in Ec;
           match type of Ec with (if is_reg S ?t then _ else _) = _ =>
             let Er := fresh "Er" in destruct (is_reg S t) eqn:Er; inversion Ec; subst;
             assert (Hreg0 : In (t_key (trigs S t0), t0) (reg S)) by (apply is_reg_true; auto);
             pose proof (detach_locked_spec _ _ _ _ HR Hreg0 E) as Hsp; simpl in Hsp; destruct Hsp as (Hrr & _);
             pose proof (RM_detach_locked _ _ _ _ HR Hreg0 E) as HM;
             eapply (CBp_removal S S);
             [exact HC|exact HM|reflexivity|reflexivity|reflexivity
             |exists []; split; reflexivity
             |apply plain_dec|intros p; rewrite (HQ p); simpl; first [reflexivity|lia]|reflexivity|reflexivity|reflexivity|reflexivity|reflexivity|];
             intros t' Ht'; simpl in Ht'; apply Nat.eqb_eq in Ht'; subst t';
             rewrite (registered_RM _ _ _ t0 HM), Hrr; simpl; tauto
           end
         end; fail).
    all: unfold CBp.
    all: repeat match goal with |- _ /\ _ => split end.
    all: try (solve [intros t0; hq HQ (pi t0); pose proof (cb_pi _ HC t0); unfold B in *; simpl; unfold upd; eqb_all; lia]).
    all: try (solve [intros t0; hq HQ (ps t0); pose proof (cb_ps _ HC t0); simpl; unfold upd; eqb_all; lia]).
    all: try (solve [intros t0; pose proof (cb_nstart _ HC t0); unfold nstart in *; simpl; unfold upd; eqb_all; auto; lia]).
    all: try (solve [intros t0 Ht0; hq HQ (gsrc t0); destruct (cb_fresh _ HC t0 Ht0) as (F1 & F2 & F3); simpl in *; unfold upd; eqb_all; repeat split; auto; try lia]).
    all: try (solve [hq HQ is_initold; pose proof (cb_old _ HC); lia]).
    all: try (solve [intros t0 Ht0; hq HQ (is_cancel t0); destruct (cb_cancel _ HC t0 Ht0) as [F|[F|F]]; unfold registered in *; simpl; unfold upd; eqb_all; auto; right; right; lia]).
    all: try (solve [intros t0 Ht0; simpl in Ht0; repeat (destruct Ht0 as [Hd|Ht0]; [discriminate Hd|]);
        hq HQ (is_doner t0); destruct (cb_end _ HC t0 Ht0) as [F1 [F|F]]; unfold registered in *; simpl; unfold upd; eqb_all; split; auto; right; lia ]).
    (* addSubscription joining an existing trigger: the hook runner mentions a registered instance *)
    1-2: (apply lookup_reg_In in Ec1; destruct (rg_ent _ HR _ _ Ec1) as (Htn & _);
          intros t0 Ht0; hq HQ (gsrc t0); destruct (cb_fresh _ HC t0 Ht0) as (F1 & F2 & F3); simpl in *; unfold upd; eqb_all;
          repeat split; auto; try lia).
    (* addSubscription creating trigger instance ntrig *)
    1-12: (destruct (cb_fresh _ HC (ntrig st) (le_n _)) as (Fg & Fi & Fs);
           assert (Fpi : cnt (pi (ntrig st)) (threads st) = 0)
             by (pose proof (cnt_le (pi (ntrig st)) (gsrc (ntrig st)) (threads st) (pi_gsrc _)); lia);
           assert (Fps : cnt (ps (ntrig st)) (threads st) = 0)
             by (pose proof (cnt_le (ps (ntrig st)) (gsrc (ntrig st)) (threads st) (ps_gsrc _)); lia)).
    1,7: (intros t0; hq HQ (pi t0); pose proof (cb_pi _ HC t0); unfold B in *; simpl; unfold upd; eqb_all; lia).
    1,6: (intros t0; hq HQ (ps t0); pose proof (cb_ps _ HC t0); simpl; unfold upd; eqb_all; lia).
    1,5: (intros t0; pose proof (cb_nstart _ HC t0); unfold nstart in *; simpl; unfold upd; eqb_all; auto; lia).
    1,4: (intros t0 Ht0; simpl in Ht0; hq HQ (gsrc t0); destruct (cb_fresh _ HC t0 ltac:(lia)) as (F1 & F2 & F3); simpl in *; unfold upd; eqb_all;
          repeat split; auto; try lia).
    1,3: (intros t0 Ht0; simpl in Ht0; hq HQ (is_cancel t0); unfold registered; simpl; unfold upd; destruct (Nat.eqb_spec t0 (ntrig st)) as [->|Hne];
          [left; simpl; apply in_or_app; right; left; reflexivity
          |destruct (cb_cancel _ HC t0 ltac:(lia)) as [F|[F|F]]; [left; apply in_or_app; left; exact F|auto|right; right; lia]]).
    1,2: (intros t0 Ht0; simpl in Ht0; destruct Ht0 as [Hd|[Hd|Ht0]]; try discriminate;
          hq HQ (is_doner t0); destruct (cb_end _ HC t0 Ht0) as [F1 F]; split; [simpl; lia|];
          destruct F as [F|F]; [left|right; lia];
          unfold registered in *; simpl; unfold upd; destruct (Nat.eqb_spec t0 (ntrig st)); [lia|];
          intro Hx; apply in_app_iff in Hx; destruct Hx as [Hx|[Hx|[]]]; [tauto|inversion Hx; lia]).
    - (* start-up failure: GEnd t is logged, doneTriggerFromUpdater is pending *)
      intros t0 [Hd|Ht0].
      + inversion Hd; subst t0. split; [auto|right]. hq HQ (is_doner t); rewrite Nat.eqb_refl in *; simpl in *; lia.
      + destruct (cb_end _ HC t0 Ht0) as [F1 [F|F]]; unfold registered in *; simpl; split; auto. right.
        hq HQ (is_doner t0); destruct (t =? t0); simpl in *; lia.
    - (* doneTriggerFromUpdater of a trigger that is no longer the registered one: nothing happens *)
      rewrite Hfc in Ec. destruct (is_reg st t) eqn:Er; [discriminate|].
      assert (Hnr : ~ registered st t) by (unfold registered; intro Hx; apply (is_reg_true _ _ HR) in Hx; congruence).
      intros t0 [Hd|Ht0]; [discriminate|].
      hq HQ (is_doner t0). destruct (cb_end _ HC t0 Ht0) as [F1 [F|F]]; unfold registered in *; simpl; split; auto.
      destruct (Nat.eqb_spec t t0); subst; simpl in *; [left; auto|right; lia].
    - (* Done(): GEnd t is logged, doneTriggerFromUpdater is pending *)
      intros t0 [Hd|Ht0].
      + inversion Hd; subst t0. split; [auto|right]. hq HQ (is_doner t). rewrite Nat.eqb_refl in *. simpl in *. lia.
      + hq HQ (is_doner t0). destruct (cb_end _ HC t0 Ht0) as [F1 [F|F]]; unfold registered in *; simpl; unfold upd.
        * split; auto. left. destruct (Nat.eqb_spec t0 t); subst; simpl; auto.
        * split; auto. right. destruct (t =? t0); simpl in *; lia.
    - intros t0. simpl. rewrite nstart_plain by (apply plain_map; auto). rewrite (cb_nstart _ HC t0).
      unfold upd. destruct (Nat.eqb_spec t0 t); subst; simpl; auto.
    - intros t0 Ht0. simpl in Ht0. apply In_GEnd_plain in Ht0; [|apply plain_map; auto].
      hq HQ (is_doner t0). destruct (cb_end _ HC t0 Ht0) as [F1 [F|F]]; unfold registered in *; simpl; unfold upd.
      * split; auto. left. destruct (Nat.eqb_spec t0 t); subst; simpl; auto.
      * split; auto. right. lia.
  Qed.
End C13Thr.

(* ---- all invariants along every run of the repaired model ---- *)
Section C13Main.
  Variable flt : sid -> ev -> fres.
  Variable wresf : sid -> ev -> wres.
  Variable ev_bad : ev -> bool.
  Variable hbfail : sid -> bool.
  Notation reach := (reachable fixed flt wresf ev_bad hbfail).
  Notation stepf := (step fixed flt wresf ev_bad hbfail).

  Definition ALL (st : state) : Prop := RG st /\ WC st /\ WT st /\ CA st /\ CS st /\ CB st.

  Lemma ALL_init : ALL init.
  Proof.
    unfold ALL. split; [apply RG_init; assumption|]. split; [apply WC_init; assumption|]. split; [apply WC_init; assumption|].
    split; [constructor; simpl; auto; intros; try tauto; discriminate|].
    split; [constructor; simpl; auto; intros; try tauto; discriminate|].
    constructor; simpl; intros; auto; try tauto; try lia.
  Qed.

  Lemma ALL_step : forall st a st', ALL st -> stepf st a = Some st' -> ALL st'.
  Proof.
    intros st a st' (HR & HC & HT & HA & HS & HB) Hs.
    assert (HR' : RG st') by (eapply RG_step; eauto).
    destruct (WI_step fixed flt wresf ev_bad hbfail eq_refl _ _ _ HR HC HT Hs) as [HC' HT'].
    unfold ALL. split; auto. split; auto. split; auto.
    assert (Hspawn : forall n p,
              cntl is_initold p = 0 -> (forall t, cntl (pi t) p = 0 /\ cntl (ps t) p = 0 /\ cntl (is_cancel t) p = 0 /\ cntl (is_doner t) p = 0) ->
              (forall t, ntrig st <= t -> cntl (gsrc t) p = 0) ->
              spawn st n p = Some st' -> CA st' /\ CS st' /\ CB st').
    { intros n p Ho Hp Hg Hsp. apply spawn_spec in Hsp. destruct Hsp as [->|[_ ->]]; auto.
      split; [eapply CA_ext; [|exact HA]; ca_eq_tac|].
      split; [destruct HS; constructor; simpl; auto|].
      apply CB_CBp. destruct HB. unfold CBp. simpl.
      repeat split; intros; rewrite ?cnt_app; simpl; try (destruct (Hp t) as (P1 & P2 & P3 & P4)); rewrite ?P1, ?P2, ?P3, ?P4, ?Ho; auto.
      - pose proof (cb_pi0 t). lia.
      - pose proof (cb_ps0 t). lia.
      - rewrite (Hg t H). destruct (cb_fresh0 t H) as (-> & _). auto.
      - apply cb_fresh0; auto.
      - apply cb_fresh0; auto.
      - lia.
      - destruct (cb_cancel0 t H) as [F|[F|F]]; auto. right. right. lia.
      - apply cb_end0; auto.
      - destruct (cb_end0 t H) as [_ [F|F]]; auto. right. lia. }
    destruct a; simpl in Hs.
    - eapply Hspawn; [ | | |exact Hs]; try (destruct op; reflexivity); intros; try (destruct op; repeat split; reflexivity).
    - destruct (Nat.ltb_spec t (ntrig st)); [|discriminate].
      eapply Hspawn; [ | | |exact Hs]; try (destruct op; reflexivity); intros; try (destruct op; repeat split; reflexivity).
      unfold uprog, cntl. simpl. destruct (Nat.eqb_spec t t0); [lia|]. destruct op; reflexivity.
    - eapply Hspawn; [ | | |exact Hs]; try reflexivity; intros; repeat split; reflexivity.
    - apply step_AStep in Hs. destruct Hs as (i & rest & st1 & push & sp & Hl & He & Heq).
      assert (HI : forall p, p i = true -> cnt p (threads st) > 0) by (intros p Hp; eapply cnt_lookup_ge; eauto).
      assert (HA1 : CA st1).
      { eapply (CA_exec fixed flt wresf ev_bad hbfail eq_refl); [exact HR|exact HA| | |exact He].
        - intros t ->. pose proof (cb_pi _ HB t). specialize (HI (pi t)). simpl in HI. rewrite Nat.eqb_refl in HI. specialize (HI eq_refl).
          destruct (t_init (trigs st t)); auto. simpl in H. lia.
        - intros t ->. pose proof (cb_old _ HB). specialize (HI is_initold eq_refl). lia. }
      assert (HS1 : CS st1) by (exact (CS_exec fixed flt wresf ev_bad hbfail _ _ _ _ _ _ HR HS He)).
      split; [subst st'; eapply CA_ext; [|exact HA1]; ca_eq_tac|].
      split; [subst st'; destruct HS1; constructor; simpl; auto|].
      apply CB_CBp. subst st'. simpl.
      eapply (CBp_ext st1); [reflexivity|reflexivity|reflexivity|intros; reflexivity|].
      eapply (CB_astep fixed flt wresf ev_bad hbfail eq_refl eq_refl); [exact HR|exact HB|exact He| |exact HI].
      intros p. apply (step_cnt fixed flt wresf ev_bad hbfail p _ _ _ _ _ _ _ _ _ Hl He eq_refl).
  Qed.

  Lemma ALL_reachable : forall st, reach st -> ALL st.
  Proof. apply run_inv; [apply ALL_init|apply ALL_step]. Qed.
End C13Main.

(* ---- the C13 statements ---- *)
Lemma nstart_count : forall t l, nstart t l = count_occ Nat.eq_dec (starts l) t.
Proof.
  unfold nstart. induction l; simpl; auto.
  destruct a; simpl; auto. destruct (Nat.eq_dec t0 t); destruct (Nat.eqb_spec t0 t); try congruence; simpl; auto.
Qed.
Lemma starts_rev : forall l, starts (rev l) = rev (starts l).
Proof.
  unfold starts. induction l; simpl; auto. rewrite flat_map_app, IHl. simpl. rewrite app_nil_r.
  destruct a; simpl; auto using app_nil_r.
Qed.
Lemma cancels_rev_In : forall t l, In (OCancel t) l -> In t (cancels (rev l)).
Proof.
  intros. unfold cancels. apply in_flat_map. exists (OCancel t). split; [apply in_rev; rewrite rev_involutive; auto|simpl; auto].
Qed.

Definition quiescent (st : state) : Prop :=
  threads st = [] /\
  (shut st = true \/
   forall s, In s (allsubs st) -> In (GLeft s) (log st) \/ In (GEnd (s_tid (subs st s))) (log st)).

Section C13Thms.
  Variable flt : sid -> ev -> fres.
  Variable wresf : sid -> ev -> wres.
  Variable ev_bad : ev -> bool.
  Variable hbfail : sid -> bool.
  Notation reach := (reachable fixed flt wresf ev_bad hbfail).

  Lemma one_start_holds : forall st, reach st ->
    one_start (chron st) /\ NoDup (map fst (reg st)) /\ (forall t, t_started (trigs st t) <= 1).
  Proof.
    intros st H. apply ALL_reachable in H. destruct H as (HR & _ & _ & _ & _ & HB). split; [|split].
    - unfold one_start, chron. rewrite starts_rev. apply NoDup_rev. apply (NoDup_count_occ Nat.eq_dec). intros t.
      rewrite <- nstart_count, (cb_nstart _ HB). pose proof (cb_ps _ HB t). lia.
    - apply (rg_keys _ HR).
    - intros t. pose proof (cb_ps _ HB t). lia.
  Qed.

  Lemma shared_iff_same_key_holds : forall st s1 s2, reach st -> In s1 (byid st) -> In s2 (byid st) ->
    (s_tid (subs st s1) = s_tid (subs st s2) <-> s_key (subs st s1) = s_key (subs st s2)).
  Proof.
    intros st s1 s2 H H1 H2. apply ALL_reachable in H. destruct H as (HR & _).
    destruct (rg_byid _ HR s1 H1) as (_ & R1 & _). destruct (rg_byid _ HR s2 H2) as (_ & R2 & _).
    destruct (rg_ent _ HR _ _ R1) as (_ & K1 & _). destruct (rg_ent _ HR _ _ R2) as (_ & K2 & _).
    split; intros E.
    - rewrite <- K1, <- K2, E. auto.
    - rewrite E in R1. eapply reg_key_inj; eauto.
  Qed.

  Lemma registry_empty_holds : forall st, reach st -> quiescent st -> reg st = [] /\ byid st = [].
  Proof.
    intros st H [Hth Hq]. apply ALL_reachable in H. destruct H as (HR & _ & _ & _ & HS & HB).
    destruct Hq as [Hsh|Hall]; [apply (cs_shut _ HS Hsh)|].
    assert (Hb : byid st = []).
    { destruct (byid st) as [|s l] eqn:E; auto. exfalso.
      assert (Hin : In s (byid st)) by (rewrite E; left; auto).
      destruct (rg_byid _ HR s Hin) as (Ha & Hr & _ & _).
      destruct (Hall s Ha) as [Hl|He].
      - destruct (cs_left _ HS s Hl). tauto.
      - destruct (cb_end _ HB _ He) as [_ [F|F]].
        + apply F. unfold registered. destruct (rg_ent _ HR _ _ Hr) as (_ & -> & _). auto.
        + rewrite Hth in F. simpl in F. lia. }
    split; auto.
    destruct (reg st) as [|[k t] l] eqn:E; auto. exfalso.
    assert (Hin : In (k, t) (reg st)) by (rewrite E; left; auto).
    destruct (rg_ent _ HR _ _ Hin) as (_ & _ & Hne).
    destruct (t_subs (trigs st t)) as [|s l'] eqn:Es; [tauto|].
    destruct (rg_tsubs _ HR t s) as (_ & Hbs & _); [rewrite Es; left; auto|]. rewrite Hb in Hbs. inversion Hbs.
  Qed.

  Lemma counters_balanced_holds : forall st, reach st -> quiescent st -> counters_balanced (chron st).
  Proof.
    intros st H Hq. destruct (registry_empty_holds _ H Hq) as [Er Eb].
    apply ALL_reachable in H. destruct H as (_ & _ & _ & HA & _).
    unfold counters_balanced, chron, sub_inc, sub_dec, trig_inc, trig_dec. rewrite !sum_obs_rev.
    pose proof (ca_sub _ HA) as A. pose proof (ca_trig _ HA) as B0. unfold ninit in B0. rewrite Er in B0. rewrite Eb in A. simpl in *.
    unfold sub_inc, sub_dec, trig_inc, trig_dec in *. lia.
  Qed.

  Lemma all_trigger_ctx_cancelled_holds : forall st t, reach st -> quiescent st -> t < ntrig st ->
    t_cancelled (trigs st t) = true /\ In t (cancels (chron st)).
  Proof.
    intros st t H Hq Ht. destruct (registry_empty_holds _ H Hq) as [Er Eb]. destruct Hq as [Hth _].
    apply ALL_reachable in H. destruct H as (_ & _ & _ & HA & _ & HB).
    assert (Hc : t_cancelled (trigs st t) = true).
    { destruct (cb_cancel _ HB t Ht) as [F|[F|F]]; auto.
      - unfold registered in F. rewrite Er in F. inversion F.
      - rewrite Hth in F. simpl in F. lia. }
    split; auto. apply cancels_rev_In. apply (ca_cancel _ HA); auto.
  Qed.

  Lemma every_subscriber_completed_holds : forall st s, reach st -> quiescent st -> In s (allsubs st) ->
    s_closed (subs st s) = 1 /\ In (OClosed s) (chron st).
  Proof.
    intros st s H Hq Hs. destruct (registry_empty_holds _ H Hq) as [Er Eb]. destruct Hq as [Hth _].
    apply ALL_reachable in H. destruct H as (_ & HC & HT & HA & _).
    assert (Hr : s_removed (subs st s) = true).
    { destruct (ca_ab _ HA s Hs) as [F|F]; auto. rewrite Eb in F. inversion F. }
    specialize (HT s). rewrite Hth, Hr in HT. simpl in HT.
    assert (Hc : s_closed (subs st s) = 1) by lia. split; auto.
    pose proof (wc_nclosed _ HC s) as Hn. rewrite Hc in Hn. unfold nclosed in Hn.
    unfold chron. apply in_rev. rewrite rev_involutive.
    destruct (filter (is_oclosed s) (log st)) as [|o l] eqn:E; [discriminate|].
    assert (Hin : In o (filter (is_oclosed s) (log st))) by (rewrite E; left; auto).
    apply filter_In in Hin. destruct Hin as [Hin Ho]. destruct o; simpl in Ho; try discriminate.
    apply Nat.eqb_eq in Ho. subst. auto.
  Qed.
End C13Thms.
