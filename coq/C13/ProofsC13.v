(* C13: counters, cleanup at quiescence, one Start per trigger, sharing by key. *)
From Gv Require Import C12.Model C12.Spec C13.Spec C12.ProofsBase C12.ProofsReg C12.ProofsC12.
From Coq Require Import List Bool Arith PeanoNat Lia.
Import ListNotations.

Definition ninit (st : state) : nat := length (filter (fun p => t_init (trigs st (snd p))) (reg st)).

(* state-only invariants *)
Record CA (st : state) : Prop := {
  ca_sub : sub_inc (log st) = sub_dec (log st) + length (byid st);
  ca_trig : trig_inc (log st) = trig_dec (log st) + ninit st;
  ca_ab : forall s, In s (allsubs st) -> In s (byid st) \/ s_removed (subs st s) = true;
  ca_cancel : forall t, t_cancelled (trigs st t) = true -> In (OCancel t) (log st) }.

Lemma sum_obs_app : forall f a b, sum_obs f (a ++ b) = sum_obs f a + sum_obs f b.
Proof. unfold sum_obs; induction a; simpl; intros; auto. rewrite IHa; lia. Qed.
Lemma sum_obs_rev : forall f l, sum_obs f (rev l) = sum_obs f l.
Proof. induction l; simpl; auto. rewrite sum_obs_app, IHl. simpl. lia. Qed.

(* what a region does to the counters *)
Definition dsub_inc (a : list obs) := sub_inc a.
Lemma sums_app : forall a l,
  sub_inc (a ++ l) = sub_inc a + sub_inc l /\ sub_dec (a ++ l) = sub_dec a + sub_dec l /\
  trig_inc (a ++ l) = trig_inc a + trig_inc l /\ trig_dec (a ++ l) = trig_dec a + trig_dec l.
Proof. unfold sub_inc, sub_dec, trig_inc, trig_dec; intros; rewrite !sum_obs_app; auto. Qed.

Definition nocount (o : obs) : bool :=
  match o with OSubInc _ | OSubDec _ | OTrigInc _ | OTrigDec _ => false | _ => true end.

Lemma filter_nin_length : forall (c l : list nat), NoDup c -> (forall x, In x c -> In x l) -> NoDup l ->
  length (filter (nin c) l) + length c = length l.
Proof.
  induction c; simpl; intros.
  - rewrite filter_id; auto.
  - inversion H; subst.
    assert (E : filter (nin (a :: c)) l = filter (nin c) (rem a l)).
    { unfold rem. rewrite filter_filter. apply filter_ext. intros x. unfold nin, mem. simpl. destruct (x =? a); auto. }
    rewrite E, <- (rem_length_in a l) by auto. specialize (IHc (rem a l)).
    rewrite <- IHc; auto.
    + intros x Hx. apply In_rem. split; auto. intro; subst; tauto.
    + apply NoDup_rem; auto.
Qed.

Definition ca_eq (st st' : state) : Prop :=
  log st' = log st /\ byid st' = byid st /\ reg st' = reg st /\ allsubs st' = allsubs st /\
  (forall s, s_removed (subs st' s) = s_removed (subs st s)) /\
  (forall t, t_init (trigs st' t) = t_init (trigs st t) /\ t_cancelled (trigs st' t) = t_cancelled (trigs st t)).

Lemma ninit_ext : forall st st', reg st' = reg st -> (forall t, t_init (trigs st' t) = t_init (trigs st t)) -> ninit st' = ninit st.
Proof. unfold ninit; intros. rewrite H. f_equal. apply filter_ext. intros; auto. Qed.

Lemma CA_ext : forall st st', ca_eq st st' -> CA st -> CA st'.
Proof.
  intros st st' (Hl & Hb & Hr & Ha & Hsub & Ht) H. destruct H. constructor.
  - rewrite Hl, Hb; auto.
  - rewrite Hl, (ninit_ext st st'); auto. intros; apply Ht.
  - intros s. rewrite Ha, Hb, Hsub; auto.
  - intros t. destruct (Ht t) as [_ ->]. rewrite Hl; auto.
Qed.

Ltac ca_eq_tac :=
  unfold ca_eq; simpl; repeat split; auto; intros;
  unfold upd; repeat (match goal with |- context [Nat.eqb ?a ?b] => destruct (Nat.eqb_spec a b); subst end); simpl; auto.

(* a region that only logs entries without counters / GLeft / OCancel *)
Lemma sums_nocount : forall a, forallb nocount a = true ->
  sub_inc a = 0 /\ sub_dec a = 0 /\ trig_inc a = 0 /\ trig_dec a = 0.
Proof.
  induction a; simpl; intros; auto. apply andb_true_iff in H. destruct H as [H1 H2].
  destruct (IHa H2) as (A & B & C & D). unfold sub_inc, sub_dec, trig_inc, trig_dec in *. simpl.
  destruct a; simpl in *; try discriminate; auto.
Qed.

Lemma CA_log : forall st a, CA st -> forallb nocount a = true -> CA (st_log st a).
Proof.
  intros st a H Hn. destruct (sums_nocount a Hn) as (A & B & C & D). destruct H. constructor; simpl.
  - destruct (sums_app a (log st)) as (-> & -> & _). lia.
  - destruct (sums_app a (log st)) as (_ & _ & -> & ->). unfold ninit in *. simpl. lia.
  - auto.
  - intros t Ht. apply in_or_app. right. auto.
Qed.

Lemma map_snd_filter : forall (g : nat -> bool) (r : list (key * tid)),
  map snd (filter (fun p => g (snd p)) r) = filter g (map snd r).
Proof. induction r as [|[k t] r]; simpl; auto. destruct (g t); simpl; rewrite IHr; auto. Qed.

Lemma ninit_removal : forall st st0 r, RG st -> RM st st0 r -> ninit st0 + rr_dec r = ninit st.
Proof.
  intros st st0 r HR HM. unfold ninit.
  rewrite <- (map_length snd (filter _ (reg st0))), <- (map_length snd (filter _ (reg st))).
  rewrite (map_snd_filter (fun t => t_init (trigs st0 t))), (map_snd_filter (fun t => t_init (trigs st t))).
  rewrite (rm_reg _ _ _ HM), map_snd_filter, (rm_dec _ _ _ HM).
  set (T := map snd (reg st)). set (c := rr_cancel r). set (f := fun t : nat => t_init (trigs st t)).
  assert (HT : NoDup T).
  { apply (NoDup_tids (fun t => t_key (trigs st t))); [apply (rg_keys _ HR)|]. intros k t Hi. apply (rg_ent _ HR _ _ Hi). }
  assert (E1 : filter (fun t : nat => t_init (trigs st0 t)) (filter (nin c) T) = filter (nin (filter f c)) (filter f T)).
  { rewrite !filter_filter. apply filter_ext. intros x. destruct (rm_tother _ _ _ HM x) as (_ & -> & _). unfold f.
    destruct (t_init (trigs st x)) eqn:E; rewrite ?andb_false_r; simpl; auto. rewrite andb_true_r.
    unfold nin. f_equal. destruct (mem x c) eqn:Em.
    - symmetry. apply mem_In. apply filter_In. split; [apply mem_In; auto|auto].
    - symmetry. apply mem_nIn. intro Hi. apply filter_In in Hi. apply mem_nIn in Em. tauto. }
  rewrite E1. change (filter (fun t : nat => t_init (trigs st t)) T) with (filter f T). apply filter_nin_length.
  - apply NoDup_filter, (rm_cancel_nd _ _ _ HM).
  - intros x Hx. apply filter_In in Hx. destruct Hx as [Hx Hf]. apply filter_In. split; auto.
    apply in_map_iff. exists (t_key (trigs st x), x). split; auto. apply (rm_cancel_in _ _ _ HM); auto.
  - apply NoDup_filter; auto.
Qed.

Lemma dec_obs_sums : forall r,
  sub_inc (rev (dec_obs r)) = 0 /\ sub_dec (rev (dec_obs r)) = rr_n r /\
  trig_inc (rev (dec_obs r)) = 0 /\ trig_dec (rev (dec_obs r)) = rr_dec r.
Proof.
  intros. unfold dec_obs. destruct (Nat.eqb_spec (rr_dec r) 0); simpl; unfold sub_inc, sub_dec, trig_inc, trig_dec; simpl; repeat split; lia.
Qed.

Lemma CA_removal : forall stp st0 r, RG stp -> CA stp -> RM stp st0 r -> CA (emit st0 (dec_obs r)).
Proof.
  intros stp st0 r HR HC HM. pose proof (dec_obs_sums r) as D.
  assert (Hq : forall f, (forall s, f (GRemoved s) = 0) -> sum_obs f (map GRemoved (rev (rr_close r))) = 0).
  { intros f Hf. induction (rev (rr_close r)); simpl; auto. rewrite Hf. auto. }
  assert (Hd : forall o, In o (rev (dec_obs r)) -> exists n, o = OSubDec n \/ o = OTrigDec n).
  { intros o Hi. apply in_rev in Hi. unfold dec_obs in Hi. destruct (rr_dec r =? 0); simpl in Hi; intuition eauto. }
  unfold emit. remember (rev (dec_obs r)) as d eqn:Ed. clear Ed. destruct D as (D1 & D2 & D3 & D4).
  constructor; simpl.
  - destruct (sums_app d (log st0)) as (-> & -> & _). rewrite D1, D2, (rm_log _ _ _ HM).
    destruct (sums_app (map GRemoved (rev (rr_close r))) (log stp)) as (-> & -> & _).
    unfold sub_inc at 1, sub_dec at 1. rewrite !Hq by auto.
    rewrite (rm_byid _ _ _ HM), (rm_n _ _ _ HM).
    pose proof (filter_nin_length (rr_close r) (byid stp) (rm_close_nd _ _ _ HM)
                  (fun x Hx => proj1 (rm_close_in _ _ _ HM x Hx)) (rg_nd_byid _ HR)).
    pose proof (ca_sub _ HC). simpl. unfold sid, tid, key in *. lia.
  - destruct (sums_app d (log st0)) as (_ & _ & -> & ->). rewrite D3, D4, (rm_log _ _ _ HM).
    destruct (sums_app (map GRemoved (rev (rr_close r))) (log stp)) as (_ & _ & -> & ->).
    unfold trig_inc at 1, trig_dec at 1. rewrite !Hq by auto.
    pose proof (ninit_removal _ _ _ HR HM). pose proof (ca_trig _ HC).
    unfold ninit in *. simpl in *. unfold sid, tid, key in *. lia.
  - destruct (rm_frame _ _ _ HM) as (_ & _ & -> & _). intros s Hs. rewrite (rm_subs _ _ _ HM), (rm_byid _ _ _ HM).
    destruct (mem s (rr_close r)) eqn:E; [right; reflexivity|].
    destruct (ca_ab _ HC s Hs); auto. left. apply filter_In. split; auto. unfold nin. rewrite E. auto.
  - intros t Ht. destruct (rm_tother _ _ _ HM t) as (_ & _ & Hc & _). rewrite Hc in Ht.
    apply in_or_app. right. rewrite (rm_log _ _ _ HM). apply in_or_app. right. apply (ca_cancel _ HC); auto.
Qed.

Lemma CA_quiet : forall st st1 a,
  CA st -> log st1 = a ++ log st -> forallb nocount a = true ->
  byid st1 = byid st -> reg st1 = reg st -> allsubs st1 = allsubs st ->
  (forall s, s_removed (subs st1 s) = s_removed (subs st s)) ->
  (forall t, t_init (trigs st1 t) = t_init (trigs st t) /\ t_cancelled (trigs st1 t) = t_cancelled (trigs st t)) ->
  CA st1.
Proof.
  intros. eapply CA_ext; [|apply (CA_log st a); eauto]. unfold ca_eq; simpl. repeat split; auto; apply H6.
Qed.

Lemma CA_add : forall st st1 s a,
  CA st -> ~ In s (allsubs st) ->
  log st1 = a ++ log st -> sub_inc a = 1 -> sub_dec a = 0 -> trig_inc a = 0 -> trig_dec a = 0 ->
  byid st1 = byid st ++ [s] -> allsubs st1 = s :: allsubs st ->
  (forall s', s' <> s -> s_removed (subs st1 s') = s_removed (subs st s')) ->
  ninit st1 = ninit st ->
  (forall t, t_cancelled (trigs st1 t) = true -> t_cancelled (trigs st t) = true) ->
  CA st1.
Proof.
  intros st st1 s a HC Hf Hl A1 A2 A3 A4 Hb Ha Hr Hn Hc. constructor.
  - rewrite Hl, Hb, app_length. destruct (sums_app a (log st)) as (-> & -> & _). pose proof (ca_sub _ HC). simpl. lia.
  - rewrite Hl, Hn. destruct (sums_app a (log st)) as (_ & _ & -> & ->). pose proof (ca_trig _ HC). lia.
  - intros s'. rewrite Ha, Hb. intros [<-|Hi]; [left; apply in_or_app; simpl; auto|].
    assert (s' <> s) by (intro; subst; tauto). rewrite Hr by auto.
    destruct (ca_ab _ HC s' Hi); auto. left. apply in_or_app; auto.
  - intros t Ht. apply Hc in Ht. rewrite Hl. apply in_or_app. right. apply (ca_cancel _ HC); auto.
Qed.

Lemma filter_flip_one : forall (f f' : nat -> bool) (t : nat) (T : list nat),
  NoDup T -> In t T -> f t = false -> f' t = true -> (forall x, x <> t -> f' x = f x) ->
  length (filter f' T) = S (length (filter f T)).
Proof.
  induction T; simpl; intros Hn Hi Hf Hf' He; [tauto|].
  inversion Hn; subst. destruct (Nat.eq_dec a t) as [->|Hne].
  - rewrite Hf, Hf'. simpl. f_equal. f_equal. apply filter_ext_in. intros x Hx. apply He. intro; subst; tauto.
  - destruct Hi as [?|Hi]; [congruence|]. rewrite (He a Hne). destruct (f a); simpl; rewrite IHT; auto.
Qed.

Lemma ninit_set_init : forall st t st1, RG st -> In (t_key (trigs st t), t) (reg st) -> t_init (trigs st t) = false ->
  reg st1 = reg st -> (forall x, t_init (trigs st1 x) = if x =? t then true else t_init (trigs st x)) ->
  ninit st1 = S (ninit st).
Proof.
  intros st t st1 HR Hi Hf Hr Ht. unfold ninit. rewrite Hr.
  rewrite <- (map_length snd (filter _ (reg st))), <- (map_length snd (filter (fun p => t_init (trigs st (snd p))) (reg st))).
  rewrite (map_snd_filter (fun x => t_init (trigs st1 x))), (map_snd_filter (fun x => t_init (trigs st x))).
  apply (filter_flip_one _ _ t).
  - apply (NoDup_tids (fun t => t_key (trigs st t))); [apply (rg_keys _ HR)|]. intros k x Hx. apply (rg_ent _ HR _ _ Hx).
  - apply in_map_iff. exists (t_key (trigs st t), t); auto.
  - auto.
  - rewrite Ht, Nat.eqb_refl; auto.
  - intros x Hx. rewrite Ht. destruct (Nat.eqb_spec x t); congruence.
Qed.

Section C13Step.
  Variable v : variant.
  Variable flt : sid -> ev -> fres.
  Variable wresf : sid -> ev -> wres.
  Variable ev_bad : ev -> bool.
  Variable hbfail : sid -> bool.
  Notation exec := (exec v flt wresf ev_bad hbfail).
  Notation step := (step v flt wresf ev_bad hbfail).
  Hypothesis Hfb : fix_b v = true.

  Lemma CA_exec : forall st i x st1 push sp,
    RG st -> CA st ->
    (forall t, i = IInit t -> t_init (trigs st t) = false) ->
    (forall t, i <> IInitOldStore t) ->
    exec st i x = Some (st1, push, sp) -> CA st1.
  Proof.
    intros st i x st1 push sp HR HC Hin Hold He.
    exec_cases He;
      try (eapply CA_quiet;
           [exact HC
           |first [ instantiate (1 := []); reflexivity
                  | simpl; match goal with |- ?a :: ?b :: log _ = _ => instantiate (1 := [a; b]); reflexivity end
                  | simpl; match goal with |- ?a :: log _ = _ => instantiate (1 := [a]); reflexivity end
                  | simpl; reflexivity ]
           |try reflexivity
           |simpl; auto|simpl; auto|simpl; auto
           |flags_tac|flags_tac]; fail).
    (* addSubscription *)
    1-2: (eapply (CA_add st _ s [GReg s t; OSubInc 1]);
          [exact HC|apply mem_nIn; auto|simpl; reflexivity|reflexivity|reflexivity|reflexivity|reflexivity
          |reflexivity|reflexivity
          |flags_tac; congruence
          |apply ninit_ext; [reflexivity|flags_tac]
          |intros t0; simpl; unfold upd; destruct (Nat.eqb_spec t0 t); subst; simpl; auto]).
    1-2: (eapply (CA_add st _ s [OSubInc 1; GReg s (ntrig st)]);
          [exact HC|apply mem_nIn; auto|simpl; reflexivity|reflexivity|reflexivity|reflexivity|reflexivity
          |reflexivity|reflexivity
          |flags_tac; congruence
          |unfold ninit; simpl; rewrite filter_app; simpl; rewrite upd_same; simpl; rewrite app_nil_r;
           f_equal; apply filter_ext_in; intros [k' t'] Hi; simpl;
           rewrite upd_other; auto; destruct (rg_ent _ HR _ _ Hi); lia
          |intros t0; simpl; unfold upd; destruct (Nat.eqb_spec t0 (ntrig st)); subst; simpl; auto; congruence]).
    - (* UnsubscribeSubscription *)
      eapply (CA_removal (st_log st (if mem s (allsubs st) then [GLeft s] else [])));
        [eapply RG_ext; [|exact HR]; reg_eq_tac
        |apply CA_log; [exact HC|destruct (mem s (allsubs st)); reflexivity]
        |eapply RM_remove_locked; [|exact Erm]; eapply RG_ext; [|exact HR]; reg_eq_tac].
    - (* removeClient *)
      eapply (CA_removal (st_log st (map GLeft (of_conn st c (allsubs st)))));
        [eapply RG_ext; [|exact HR]; reg_eq_tac
        |apply CA_log; [exact HC|apply forallb_forall; intros o Ho; apply in_map_iff in Ho; destruct Ho as [y [<- _]]; reflexivity]
        |eapply RM_remove_many; [|exact Erm]; eapply RG_ext; [|exact HR]; reg_eq_tac].
    - (* shutdownResolver *)
      assert (HR0 : RG (st_flags st true (rctx st))) by (eapply RG_ext; [|exact HR]; reg_eq_tac).
      assert (HM : RM (st_flags st true (rctx st)) st0 r).
      { eapply RM_detach_many; [exact HR0| | |exact Erm]; simpl; auto.
        apply (NoDup_tids (fun t => t_key (trigs st t))); [apply (rg_keys _ HR)|]. intros k t Hi. apply (rg_ent _ HR _ _ Hi). }
      assert (HC0 : CA (emit st0 (dec_obs r))).
      { eapply (CA_removal (st_flags st true (rctx st))); [exact HR0| |exact HM].
        eapply CA_ext; [|exact HC]. ca_eq_tac. }
      assert (Hreg : reg st0 = []).
      { pose proof (RG_detach_many _ _ _ _ HR0 (fun t Ht => Ht) (NoDup_tids (fun t => t_key (trigs st t)) _ (rg_keys _ HR) (fun k t Hi => proj1 (proj2 (rg_ent _ HR _ _ Hi)))) Erm) as [_ Hsub].
        destruct (reg st0) as [|[k t] l] eqn:E; auto. exfalso.
        destruct (Hsub k t (or_introl eq_refl)) as [Hi Hn]. apply Hn. simpl in Hi. apply in_map_iff. exists (k, t); auto. }
      assert (Hby : byid st0 = []).
      { pose proof (RG_detach_many _ _ _ _ HR0 (fun t Ht => Ht) (NoDup_tids (fun t => t_key (trigs st t)) _ (rg_keys _ HR) (fun k t Hi => proj1 (proj2 (rg_ent _ HR _ _ Hi)))) Erm) as [HR1 _].
        destruct (byid st0) as [|x l] eqn:E; auto. exfalso.
        destruct (rg_byid _ HR1 x) as (_ & Hi & _); [rewrite E; left; auto|]. rewrite Hreg in Hi. inversion Hi. }
      eapply CA_ext; [|exact HC0]. unfold ca_eq, emit; simpl. rewrite Hreg, Hby. repeat split; auto.
    - (* cancel *)
      destruct HC. constructor; simpl.
      + unfold sub_inc, sub_dec in *. simpl. auto.
      + unfold trig_inc, trig_dec in *. simpl. rewrite ca_trig0. f_equal. symmetry. apply ninit_ext; [reflexivity|flags_tac].
      + auto.
      + intros t0. unfold upd. destruct (Nat.eqb_spec t0 t); subst; simpl; auto.
    - (* markTriggerInitialized (repaired): registered, not yet initialised *)
      assert (Hi : In (t_key (trigs st t), t) (reg st)) by (apply is_reg_true; auto).
      assert (Hf : t_init (trigs st t) = false) by (apply Hin; auto).
      destruct HC. constructor; simpl.
      + unfold sub_inc, sub_dec in *. simpl. auto.
      + unfold trig_inc, trig_dec in *. simpl. rewrite ca_trig0.
        assert (En : ninit (st_log (st_trg st t (trg_set_init (trigs st t))) [OTrigInc 1]) = S (ninit st)).
        { apply (ninit_set_init st t); auto. intros x. simpl. unfold upd. destruct (Nat.eqb_spec x t); subst; simpl; auto. }
        rewrite En. lia.
      + auto.
      + intros t0 Ht0. right. apply ca_cancel0. revert Ht0. unfold upd. destruct (Nat.eqb_spec t0 t); subst; simpl; auto.
    - exfalso. eapply Hold; eauto.
    - (* doneTriggerFromUpdater *)
      assert (Hr : In (t_key (trigs st t0), t0) (reg st)).
      { destruct (fix_c v).
        - destruct (is_reg st t) eqn:E; inversion Ec; subst. apply is_reg_true; auto.
        - apply lookup_reg_In in Ec. destruct (rg_ent _ HR _ _ Ec) as (_ & B & _). rewrite B. exact Ec. }
      eapply (CA_removal st); [exact HR|exact HC|eapply RM_detach_locked; eauto].
    - destruct HC. constructor; simpl; auto; unfold sub_inc, sub_dec, trig_inc, trig_dec in *; simpl; try lia; auto.
    - (* fan-out *)
      eapply CA_quiet; [exact HC|simpl; reflexivity| |simpl; auto|simpl; auto|simpl; auto|flags_tac|flags_tac].
      apply forallb_forall. intros o Ho. apply in_map_iff in Ho. destruct Ho as [y [<- _]]. reflexivity.
  Qed.
End C13Step.

(* ---- shutdown flag and GLeft ghost (state only) ---- *)
Record CS (st : state) : Prop := {
  cs_shut : shut st = true -> reg st = [] /\ byid st = [];
  cs_left : forall s, In (GLeft s) (log st) -> In s (allsubs st) /\ ~ In s (byid st) }.

Lemma remove_locked_gone : forall st s st' r, RG st -> remove_locked st s = (st', r) -> ~ In s (byid st').
Proof.
  intros st s st' r HR Hr. destruct (in_dec Nat.eq_dec s (byid st)) as [Hin|Hin].
  - rewrite remove_locked_in in Hr by auto. inversion Hr; subst. unfold rm_state.
    destruct (rem s (t_subs (trigs st (s_tid (subs st s))))); simpl; intro Hx; apply In_rem in Hx; tauto.
  - rewrite remove_locked_out in Hr by auto. inversion Hr; subst; auto.
Qed.

Lemma remove_many_gone : forall l st st' r, RG st -> remove_many st l = (st', r) -> forall s, In s l -> ~ In s (byid st').
Proof.
  induction l; simpl; intros st st' r HR Hr s Hs; [tauto|].
  destruct (remove_locked st a) as [st1 r1] eqn:E1. destruct (remove_many st1 l) as [st2 r2] eqn:E2.
  inversion Hr; subst; clear Hr.
  assert (HR1 : RG st1) by (eapply RG_remove_locked; eauto).
  destruct Hs as [<-|Hs]; [|eapply IHl; eauto].
  pose proof (remove_locked_gone _ _ _ _ HR E1) as Hg.
  pose proof (RM_remove_many _ _ _ _ HR1 E2) as HM. rewrite (rm_byid _ _ _ HM). intro Hx. apply filter_In in Hx. tauto.
Qed.

Section C13State.
  Variable v : variant.
  Variable flt : sid -> ev -> fres.
  Variable wresf : sid -> ev -> wres.
  Variable ev_bad : ev -> bool.
  Variable hbfail : sid -> bool.
  Notation exec := (exec v flt wresf ev_bad hbfail).

  Definition noleft (o : obs) : bool := match o with GLeft _ => false | _ => true end.

  Lemma CS_quiet : forall st st1 a, CS st -> log st1 = a ++ log st -> forallb noleft a = true ->
    byid st1 = byid st -> reg st1 = reg st -> shut st1 = shut st -> allsubs st1 = allsubs st -> CS st1.
  Proof.
    intros st st1 a H Hl Hn Hb Hr Hs Ha. destruct H. constructor.
    - rewrite Hs, Hr, Hb; auto.
    - intros s. rewrite Hl, Ha, Hb. intros Hi. apply in_app_iff in Hi. destruct Hi as [Hi|Hi]; auto.
      rewrite forallb_forall in Hn. apply Hn in Hi. discriminate.
  Qed.

  Lemma CS_removal : forall stp st0 r d, RG stp -> CS stp -> RM stp st0 r -> forallb noleft d = true ->
    CS (st_log st0 d).
  Proof.
    intros stp st0 r d HR HC HM Hd. destruct (rm_frame _ _ _ HM) as (_ & _ & Ha & Hs & _). constructor; simpl.
    - rewrite Hs. intros E. destruct (cs_shut _ HC E) as [E1 E2]. rewrite (rm_reg _ _ _ HM), (rm_byid _ _ _ HM), E1, E2. auto.
    - intros s Hi. rewrite Ha, (rm_byid _ _ _ HM).
      assert (Hi' : In (GLeft s) (log stp)).
      { apply in_app_iff in Hi. destruct Hi as [Hi|Hi]; [rewrite forallb_forall in Hd; apply Hd in Hi; discriminate|].
        rewrite (rm_log _ _ _ HM) in Hi. apply in_app_iff in Hi. destruct Hi as [Hi|Hi]; auto.
        apply in_map_iff in Hi. destruct Hi as [x [Hx _]]. discriminate. }
      destruct (cs_left _ HC s Hi'). split; auto. intro Hx. apply filter_In in Hx. tauto.
  Qed.

  Lemma noleft_dec : forall r, forallb noleft (rev (dec_obs r)) = true.
  Proof. intros. unfold dec_obs. destruct (rr_dec r =? 0); reflexivity. Qed.

  Lemma CS_exec : forall st i x st1 push sp, RG st -> CS st -> exec st i x = Some (st1, push, sp) -> CS st1.
  Proof.
    intros st i x st1 push sp HR HC He.
    exec_cases He;
      try (eapply CS_quiet;
           [exact HC
           |first [ instantiate (1 := []); reflexivity
                  | simpl; match goal with |- ?a :: ?b :: log _ = _ => instantiate (1 := [a; b]); reflexivity end
                  | simpl; match goal with |- ?a :: log _ = _ => instantiate (1 := [a]); reflexivity end
                  | simpl; reflexivity ]
           |try reflexivity
           |simpl; auto|simpl; auto|simpl; auto|simpl; auto]; fail).
    Show.
  Admitted.
End C13State.
