(* C13 property theorems: statements only; every proof is [exact lemma].
   Same LTS as C12 (Gv.C12.Model, repaired code = variant [fixed]); all action lists, all oracles. *)
From Gv Require Import C12.Model C12.Spec C13.Spec C12.ProofsBase C12.ProofsC12 C13.ProofsC13 C13.ProofsCause C13.ProofsIdent C13.ProofsFinal C12.Witness.
From Gv Require C13.ProofsDetach.
From Coq Require Import List Bool Arith PeanoNat.
Import ListNotations.

(* Source.Start is called at most once per trigger instance, and at any time at most one trigger
   instance is registered (live) per trigger id (input, headers) *)
Theorem c13_one_start_per_live_trigger :
  forall flt wresf ev_bad hbfail acts st,
    run fixed flt wresf ev_bad hbfail init acts = Some st ->
    one_start (chron st) /\ NoDup (map fst (reg st)) /\ (forall t, t_started (trigs st t) <= 1).
Proof. exact final_one_start. Qed.
Print Assumptions c13_one_start_per_live_trigger.

(* two registered subscribers share a trigger instance iff their trigger ids are equal *)
Theorem c13_shared_iff_same_key :
  forall flt wresf ev_bad hbfail acts st s1 s2,
    run fixed flt wresf ev_bad hbfail init acts = Some st -> In s1 (byid st) -> In s2 (byid st) ->
    (s_tid (subs st s1) = s_tid (subs st s2) <-> s_key (subs st s1) = s_key (subs st s2)).
Proof. exact final_shared_iff_same_key. Qed.
Print Assumptions c13_shared_iff_same_key.

(* the same with the key spelled out: the trigger id is a function [keyof] of the WHOLE rendered
   upstream input (url, header, body.query / variables / extensions, transport options, forwarded-header
   rules, initial_payload) and of the hash of the forwarded client headers.  Two registered subscribers
   share a trigger instance iff their rendered inputs AND their header hashes are equal -- provided
   [keyof] is injective.  That hypothesis (no xxhash64 collision, and HashTriggerInput hashing every byte
   of the input) is an assumption about the implementation, not a theorem; it is what the "ident"
   stream of the check tests on the real graphql_datasource.SubscriptionSource and prepareTrigger. *)
Theorem c13_shared_iff_same_input :
  forall flt wresf ev_bad hbfail (input hhash : Type) (keyof : input -> hhash -> key),
    (forall i h i' h', keyof i h = keyof i' h' -> i = i' /\ h = h') ->
    forall (inp : sid -> input) (hdr : sid -> hhash) acts st s1 s2,
    run fixed flt wresf ev_bad hbfail init acts = Some st ->
    (* every subscribe action names its subscriber under the key of its own rendered input and headers hash *)
    (forall n s k c hb sy, In (AClient n (CSub s k c hb sy)) acts -> k = keyof (inp s) (hdr s)) ->
    In s1 (byid st) -> In s2 (byid st) ->
    (s_tid (subs st s1) = s_tid (subs st s2) <-> inp s1 = inp s2 /\ hdr s1 = hdr s2).
Proof. exact final_shared_iff_same_input. Qed.
Print Assumptions c13_shared_iff_same_input.

(* ... and the hypothesis is needed: with a key function that ignores one component of the input
   (here the second component of a pair) two subscribers with different inputs share one upstream
   subscription and Start is called once *)
Theorem c13_sharing_needs_injective_key :
  exists (keyof : nat * nat -> nat -> key) (inp : sid -> nat * nat) (hdr : sid -> nat) st,
    run fixed flt0 wres0 bad0 hb0 init ex_collide = Some st /\
    (forall n s k c hb sy, In (AClient n (CSub s k c hb sy)) ex_collide -> k = keyof (inp s) (hdr s)) /\
    In 1 (byid st) /\ In 2 (byid st) /\
    inp 1 <> inp 2 /\ s_tid (subs st 1) = s_tid (subs st 2) /\ starts (chron st) = [0].
Proof. exact sharing_needs_injective_key_proof. Qed.
Print Assumptions c13_sharing_needs_injective_key.

(* quiescent: no thread has a step left, and the resolver was shut down or every subscriber was asked
   to leave by its client or the source of its trigger said Done / failed to start *)
Theorem c13_registry_empty :
  forall flt wresf ev_bad hbfail acts st,
    run fixed flt wresf ev_bad hbfail init acts = Some st -> quiescent st -> reg st = [] /\ byid st = [].
Proof. exact final_registry_empty. Qed.
Print Assumptions c13_registry_empty.

Theorem c13_counters_balanced :
  forall flt wresf ev_bad hbfail acts st,
    run fixed flt wresf ev_bad hbfail init acts = Some st -> quiescent st -> counters_balanced (chron st).
Proof. exact final_counters_balanced. Qed.
Print Assumptions c13_counters_balanced.

Theorem c13_all_trigger_ctx_cancelled :
  forall flt wresf ev_bad hbfail acts st t,
    run fixed flt wresf ev_bad hbfail init acts = Some st -> quiescent st -> t < ntrig st ->
    t_cancelled (trigs st t) = true /\ In t (cancels (chron st)).
Proof. exact final_all_trigger_ctx_cancelled. Qed.
Print Assumptions c13_all_trigger_ctx_cancelled.

Theorem c13_every_subscriber_completed :
  forall flt wresf ev_bad hbfail acts st s,
    run fixed flt wresf ev_bad hbfail init acts = Some st -> quiescent st -> In s (allsubs st) ->
    s_closed (subs st s) = 1 /\ In (OClosed s) (chron st).
Proof. exact final_every_subscriber_completed. Qed.
Print Assumptions c13_every_subscriber_completed.

(* a subscriber is removed only for a cause of its own (client request incl. write / flush /
   heartbeat / hook failure paths, Done or start failure of ITS trigger instance, shutdown) *)
Theorem c13_teardown_has_cause :
  forall flt wresf ev_bad hbfail acts st s,
    run fixed flt wresf ev_bad hbfail init acts = Some st -> s_removed (subs st s) = true -> cause st s.
Proof. exact final_teardown_has_cause. Qed.
Print Assumptions c13_teardown_has_cause.

(* The trigger context is DETACHED from every subscriber's request context: as long as a subscriber is registered,
   the context of its trigger is live - not cancelled, and no teardown in progress is about to cancel it - after ANY
   history, in particular after histories in which the request contexts of the other subscribers of that trigger
   (the one that created it included) were cancelled and those subscribers left.  Does not follow from
   c13_teardown_has_cause (which is about the removal of subscribers, not about the cancel func of the trigger): it
   needs the invariant of C13/ProofsDetach.v - a trigger whose cancel func was called or is pending is unregistered. *)
Theorem c13_live_subscriber_trigger_ctx_live :
  forall flt wresf ev_bad hbfail acts st s,
    run fixed flt wresf ev_bad hbfail init acts = Some st -> In s (byid st) ->
    t_cancelled (trigs st (s_tid (subs st s))) = false /\
    cnt (is_cancel (s_tid (subs st s))) (threads st) = 0.
Proof. exact ProofsDetach.live_subscriber_trigger_ctx_live. Qed.
Print Assumptions c13_live_subscriber_trigger_ctx_live.

(* ... and the cancellation of a subscriber's request context is a step that changes nothing but that subscriber's
   own flag (read by its own threads only: the select of a synchronous subscriber, its fan-out child, its heartbeat) *)
Theorem c13_ctx_cancel_is_local :
  forall flt wresf ev_bad hbfail st s,
    exec fixed flt wresf ev_bad hbfail st (ICancelCtx s) XNone = Some (st_sub st s (sub_set_ctxc (subs st s)), [], []).
Proof. exact ProofsDetach.ctx_cancel_step_local. Qed.
Print Assumptions c13_ctx_cancel_is_local.

Example c13_example_creator_ctx_cancelled :
  exists st, run fixed flt0 wres0 bad0 hb0 init ProofsDetach.ex_creator_ctx_cancelled = Some st /\
    s_ctxc (subs st 1) = true /\ s_removed (subs st 1) = true /\ byid st = [2] /\ s_tid (subs st 2) = 0 /\
    t_cancelled (trigs st 0) = false /\ In (OW 2 (CWrite 8)) (log st) /\ ~ In (OCancel 0) (log st).
Proof. exact ProofsDetach.ex_creator_ctx_cancelled_proof. Qed.

(* HISTORICAL (variant hist_b: markTriggerInitialized stores and reports outside Resolver.mu):
   a removal between lookup and store leaves TriggerCount at +1 at quiescence. *)
Theorem c13_counters_balanced_refuted :
  exists acts st, run hist_b flt0 wres0 bad0 hb0 init acts = Some st /\ quiescent st /\ ~ counters_balanced (chron st).
Proof. exact counters_balanced_refuted_proof. Qed.
Print Assumptions c13_counters_balanced_refuted.

(* HISTORICAL (variant hist_c: updater callbacks look the trigger up by id only): the late Done() of
   an old source detaches a newer trigger registered under the same id. *)
Theorem c13_teardown_has_cause_refuted :
  exists acts st s, run hist_c flt0 wres0 bad0 hb0 init acts = Some st /\ s_removed (subs st s) = true /\ ~ cause st s.
Proof. exact teardown_has_cause_refuted_proof. Qed.
Print Assumptions c13_teardown_has_cause_refuted.

Example c13_example_quiescent :
  exists st, run fixed flt0 wres0 bad0 hb0 init ex_run = Some st /\ quiescent st /\
    length (allsubs st) = 2 /\ ntrig st = 1 /\ starts (chron st) = [0] /\ sub_inc (chron st) = 2 /\ trig_inc (chron st) = 1.
Proof. exact example_quiescent_proof. Qed.
