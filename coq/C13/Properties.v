(* C13 property theorems: statements only; every proof is [exact lemma]. (under construction) *)
From Gv Require Import C12.Model C13.Spec.
