(* C13: final forms (explicit action lists), historical refutations, example. *)
From Gv Require Import C12.Model C12.Spec C13.Spec C12.ProofsBase C12.ProofsReg C12.ProofsC12 C13.ProofsC13 C13.ProofsCause C13.ProofsIdent C12.Witness.
From Coq Require Import List Bool Arith PeanoNat Lia.
Import ListNotations.

Lemma counters_balanced_b_ok : forall l, counters_balanced_b l = true <-> counters_balanced l.
Proof. intros. unfold counters_balanced_b, counters_balanced. rewrite andb_true_iff, !Nat.eqb_eq. tauto. Qed.

Section Final.
  Variable flt : sid -> ev -> fres.
  Variable wresf : sid -> ev -> wres.
  Variable ev_bad : ev -> bool.
  Variable hbfail : sid -> bool.
  Notation runf := (run fixed flt wresf ev_bad hbfail init).

  Lemma reach_of_run : forall acts st, runf acts = Some st -> reachable fixed flt wresf ev_bad hbfail st.
  Proof. intros. exists acts. auto. Qed.

  Lemma final_one_start : forall acts st, runf acts = Some st ->
    one_start (chron st) /\ NoDup (map fst (reg st)) /\ (forall t, t_started (trigs st t) <= 1).
  Proof. intros. eapply one_start_holds, reach_of_run; eauto. Qed.

  Lemma final_shared_iff_same_key : forall acts st s1 s2, runf acts = Some st -> In s1 (byid st) -> In s2 (byid st) ->
    (s_tid (subs st s1) = s_tid (subs st s2) <-> s_key (subs st s1) = s_key (subs st s2)).
  Proof. intros. eapply shared_iff_same_key_holds; eauto. eapply reach_of_run; eauto. Qed.

  (* Trigger identity made explicit.  In the implementation the trigger id of a subscription is
       xxhash64( SubscriptionDataSource.HashTriggerInput(rendered input) ++ headers hash )
     (Resolver.prepareTrigger) where the rendered input is the whole upstream input: url, header, body
     (query, variables, extensions), transport options (use_sse, sse_method_post, ws_sub_protocol),
     forwarded-header rules and the connection-init payload (initial_payload) -- and the headers hash
     is the hash of the forwarded client headers.  [keyof] is that function; its injectivity
     (collision-freedom of the 64-bit hash, and HashTriggerInput feeding EVERY byte of the input) is an
     ASSUMPTION of the statement, checked on the implementation by the ident stream of the harness. *)
  Section Identity.
    Variable input : Type.
    Variable hhash : Type.
    Variable keyof : input -> hhash -> key.
    Hypothesis keyof_inj : forall i h i' h', keyof i h = keyof i' h' -> i = i' /\ h = h'.
    Variable inp : sid -> input.
    Variable hdr : sid -> hhash.

    (* every subscribe action of the history names its subscriber under the key of its own (input, headers) *)
    Definition keyed (acts : list action) : Prop :=
      forall n s k c hb sy, In (AClient n (CSub s k c hb sy)) acts -> k = keyof (inp s) (hdr s).

    Lemma final_shared_iff_same_input : forall acts st s1 s2, runf acts = Some st -> keyed acts ->
      In s1 (byid st) -> In s2 (byid st) ->
      (s_tid (subs st s1) = s_tid (subs st s2) <-> inp s1 = inp s2 /\ hdr s1 = hdr s2).
    Proof.
      intros acts st s1 s2 Hr Hk H1 H2.
      assert (HR : RG st) by (eapply RG_reachable, reach_of_run; eauto).
      assert (Hkey : forall s, In s (allsubs st) -> s_key (subs st s) = keyof (inp s) (hdr s)).
      { apply (key_of_run fixed flt wresf ev_bad hbfail (fun s => keyof (inp s) (hdr s)) acts st); [|exact Hr].
        intros a Ha n s k c hb sy ->. eapply Hk; eauto. }
      rewrite (final_shared_iff_same_key acts st s1 s2 Hr H1 H2).
      rewrite (Hkey s1) by apply (rg_byid _ HR s1 H1). rewrite (Hkey s2) by apply (rg_byid _ HR s2 H2).
      split; [apply keyof_inj|intros [-> ->]; reflexivity].
    Qed.
  End Identity.

  Lemma final_registry_empty : forall acts st, runf acts = Some st -> quiescent st -> reg st = [] /\ byid st = [].
  Proof. intros. eapply registry_empty_holds; eauto. eapply reach_of_run; eauto. Qed.

  Lemma final_counters_balanced : forall acts st, runf acts = Some st -> quiescent st -> counters_balanced (chron st).
  Proof. intros. eapply counters_balanced_holds; eauto. eapply reach_of_run; eauto. Qed.

  Lemma final_all_trigger_ctx_cancelled : forall acts st t, runf acts = Some st -> quiescent st -> t < ntrig st ->
    t_cancelled (trigs st t) = true /\ In t (cancels (chron st)).
  Proof. intros. eapply all_trigger_ctx_cancelled_holds; eauto. eapply reach_of_run; eauto. Qed.

  Lemma final_every_subscriber_completed : forall acts st s, runf acts = Some st -> quiescent st -> In s (allsubs st) ->
    s_closed (subs st s) = 1 /\ In (OClosed s) (chron st).
  Proof. intros. eapply every_subscriber_completed_holds; eauto. eapply reach_of_run; eauto. Qed.

  Lemma final_teardown_has_cause : forall acts st s, runf acts = Some st -> s_removed (subs st s) = true -> cause st s.
  Proof. intros. eapply teardown_has_cause_holds; eauto. eapply reach_of_run; eauto. Qed.
End Final.

(* a key function that forgets a component of the input makes different inputs share one upstream *)
Definition ex_collide : list action :=
  sub_started 1 1 0 ++ [AClient 2 (CSub 2 0 2 false false)] ++ n 2 (TCl 2).
Lemma sharing_needs_injective_key_proof :
  exists (keyof : nat * nat -> nat -> key) (inp : sid -> nat * nat) (hdr : sid -> nat) st,
    run fixed flt0 wres0 bad0 hb0 init ex_collide = Some st /\
    (forall n s k c hb sy, In (AClient n (CSub s k c hb sy)) ex_collide -> k = keyof (inp s) (hdr s)) /\
    In 1 (byid st) /\ In 2 (byid st) /\
    inp 1 <> inp 2 /\ s_tid (subs st 1) = s_tid (subs st 2) /\ starts (chron st) = [0].
Proof.
  exists (fun i _ => fst i), (fun s => (0, s)), (fun _ => 0). eexists. split; [vm_compute; reflexivity|].
  split.
  { intros n s k c hb sy Hi. unfold ex_collide, sub_started in Hi. simpl in Hi.
    repeat (destruct Hi as [Hi|Hi]; [inversion Hi; subst; reflexivity|]). destruct Hi. }
  repeat split; try (vm_compute; tauto); try (vm_compute; reflexivity). intro H; discriminate.
Qed.

(* ---- historical (pre-repair) transitions ---- *)
Definition quiescent_b (st : state) : bool :=
  match threads st with [] => true | _ => false end &&
  (shut st || forallb (fun s => existsb (fun o => match o with GLeft s' => s' =? s | GEnd t => t =? s_tid (subs st s) | _ => false end) (log st)) (allsubs st)).

Lemma quiescent_b_ok : forall st, quiescent_b st = true -> quiescent st.
Proof.
  unfold quiescent_b, quiescent. intros st H. apply andb_true_iff in H. destruct H as [H1 H2].
  split; [destruct (threads st); [auto|discriminate]|].
  apply orb_true_iff in H2. destruct H2 as [H2|H2]; [left; auto|right].
  intros s Hs. rewrite forallb_forall in H2. specialize (H2 s Hs). apply existsb_exists in H2. destruct H2 as (o & Ho & Hm).
  destruct o; try discriminate; apply Nat.eqb_eq in Hm; subst; auto.
Qed.

Lemma counters_balanced_refuted_proof :
  exists acts st, run hist_b flt0 wres0 bad0 hb0 init acts = Some st /\ quiescent st /\ ~ counters_balanced (chron st).
Proof.
  assert (H : exists st, run hist_b flt0 wres0 bad0 hb0 init wit_b = Some st /\ quiescent_b st = true /\ counters_balanced_b (chron st) = false).
  { eexists. split; [vm_compute; reflexivity|split; vm_compute; reflexivity]. }
  destruct H as [st (H1 & H2 & H3)]. exists wit_b, st. split; auto. split; [apply quiescent_b_ok; auto|].
  intros H. apply counters_balanced_b_ok in H. congruence.
Qed.

Definition cause_b (st : state) (s : sid) : bool :=
  existsb (fun o => match o with GLeft s' => s' =? s | GEnd t => t =? s_tid (subs st s) | _ => false end) (log st) || shut st.
Lemma cause_b_complete : forall st s, cause st s -> cause_b st s = true.
Proof.
  unfold cause, cause_b. intros st s [H|[H|H]]; apply orb_true_iff; [left|left|right; auto];
    apply existsb_exists; eexists; (split; [exact H|simpl; apply Nat.eqb_refl]).
Qed.

Lemma teardown_has_cause_refuted_proof :
  exists acts st s, run hist_c flt0 wres0 bad0 hb0 init acts = Some st /\ s_removed (subs st s) = true /\ ~ cause st s.
Proof.
  assert (H : exists st, run hist_c flt0 wres0 bad0 hb0 init wit_c = Some st /\ s_removed (subs st 2) = true /\ cause_b st 2 = false).
  { eexists. split; [vm_compute; reflexivity|split; vm_compute; reflexivity]. }
  destruct H as [st (H1 & H2 & H3)]. exists wit_c, st, 2. split; auto. split; auto.
  intros H. apply cause_b_complete in H. congruence.
Qed.

(* ---- example: a quiescent run of the repaired model ---- *)
Lemma example_quiescent_proof :
  exists st, run fixed flt0 wres0 bad0 hb0 init ex_run = Some st /\ quiescent st /\
    length (allsubs st) = 2 /\ ntrig st = 1 /\ starts (chron st) = [0] /\ sub_inc (chron st) = 2 /\ trig_inc (chron st) = 1.
Proof.
  assert (H : exists st, run fixed flt0 wres0 bad0 hb0 init ex_run = Some st /\ quiescent_b st = true /\
    length (allsubs st) = 2 /\ ntrig st = 1 /\ starts (chron st) = [0] /\ sub_inc (chron st) = 2 /\ trig_inc (chron st) = 1).
  { eexists. split; [vm_compute; reflexivity|]. repeat split; vm_compute; reflexivity. }
  destruct H as [st (H1 & H2 & H3)]. exists st. split; auto. split; [apply quiescent_b_ok; auto|auto].
Qed.
