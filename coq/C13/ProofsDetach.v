(* C13: the trigger context is detached from every subscriber's request context.
   NC: a trigger whose cancel func has been called, or is about to be called by a teardown in progress (ICancel t
   pending), is no longer registered - and trigger instances are never re-registered.  With RG (a subscriber in
   subscriptionsByID sits in a registered trigger) this gives: as long as a subscriber is registered, the context of
   its trigger is live, whatever happened to the OTHER subscribers of that trigger - in particular the cancellation of
   another subscriber's request context ([ICancelCtx s'] only sets [s_ctxc s'], which only the threads of s' read). *)
From Gv Require Import C12.Model C12.Spec C13.Spec C12.ProofsBase C12.ProofsReg C12.ProofsC12 C13.ProofsC13 C12.Witness.
From Coq Require Import List Bool Arith PeanoNat Lia.
Import ListNotations.

Definition NCp (st : state) (thr : list (tname * list instr)) : Prop :=
  forall t, (cnt (is_cancel t) thr > 0 \/ t_cancelled (trigs st t) = true) -> t < ntrig st /\ ~ registered st t.
Definition NC (st : state) : Prop := NCp st (threads st).

Lemma NCp_ext : forall st st' thr, trigs st' = trigs st -> ntrig st' = ntrig st ->
  (forall t, registered st' t -> registered st t) -> NCp st thr -> NCp st' thr.
Proof.
  intros st st' thr Ht Hn Hr H t Hc. rewrite Ht in Hc. destruct (H t Hc). rewrite Hn. split; auto.
Qed.

Lemma NCp_removal : forall st stp st0 r d i thr',
  RG stp -> NC st -> RM stp st0 r ->
  reg stp = reg st -> trigs stp = trigs st -> ntrig stp = ntrig st ->
  (forall p, cnt p thr' + (if p i then 1 else 0) = cnt p (threads st) + cntl p (after_remove r) + 0) ->
  NCp (st_log st0 d) thr'.
Proof.
  intros st stp st0 r d i thr' HR HN HM Er Et En HQ t Hc.
  destruct (rm_frame _ _ _ HM) as (_ & Hn & _).
  assert (Hcan : t_cancelled (trigs st0 t) = t_cancelled (trigs st t)).
  { destruct (rm_tother _ _ _ HM t) as (_ & _ & C & _). rewrite Et in *. auto. }
  assert (Hreg : registered st0 t <-> registered st t /\ ~ In t (rr_cancel r)).
  { rewrite (registered_RM _ _ _ t HM). unfold registered. rewrite Er, Et. tauto. }
  cbn [trigs ntrig st_log] in *. unfold registered in *. cbn [reg trigs st_log] in *.
  pose proof (HQ (is_cancel t)) as Hq. rewrite cntl_after_remove_cancel in Hq by apply (rm_cancel_nd _ _ _ HM).
  rewrite Hn, En.
  destruct (mem t (rr_cancel r)) eqn:E.
  - apply mem_In in E. pose proof (rm_cancel_in _ _ _ HM t E) as Hin.
    destruct (rg_ent _ HR _ _ Hin) as (Hlt & _). rewrite En in Hlt. split; auto.
    intro Hx. apply Hreg in Hx. tauto.
  - assert (Hold : cnt (is_cancel t) (threads st) > 0 \/ t_cancelled (trigs st t) = true).
    { destruct Hc as [Hc|Hc]; [left; destruct (is_cancel t i); lia | right; rewrite <- Hcan; auto]. }
    destruct (HN t Hold) as [Hlt Hnr]. split; auto. intro Hx. apply Hreg in Hx. tauto.
Qed.

Section DetachThr.
  Variable v : variant.
  Variable flt : sid -> ev -> fres.
  Variable wresf : sid -> ev -> wres.
  Variable ev_bad : ev -> bool.
  Variable hbfail : sid -> bool.
  Notation exec := (exec v flt wresf ev_bad hbfail).
  Hypothesis Hfc : fix_c v = true.

  Lemma NC_astep : forall st i x st1 push sp thr',
    RG st -> CB st -> NC st -> exec st i x = Some (st1, push, sp) ->
    (forall p, cnt p thr' + (if p i then 1 else 0) = cnt p (threads st) + cntl p push + cnt p sp) ->
    (forall p, p i = true -> cnt p (threads st) > 0) ->
    NCp st1 thr'.
  Proof.
    intros st i x st1 push sp thr' HR HC HN He HQ HI.
    assert (Hfresh : forall t, ntrig st <= t -> cnt (is_cancel t) (threads st) = 0 /\ t_cancelled (trigs st t) = false).
    { intros t Hle. split.
      - destruct (cnt (is_cancel t) (threads st)) eqn:E; auto. exfalso.
        destruct (HN t) as [Hlt _]; [left; lia|lia].
      - destruct (t_cancelled (trigs st t)) eqn:E; auto. exfalso. destruct (HN t) as [Hlt _]; [right; auto|lia]. }
    exec_cases He; try congruence.
    all: try (match goal with
         | HR : RG ?S, E : remove_locked (st_log ?S (if mem ?s _ then _ else _)) ?s = (?st0, ?r) |- _ =>
           eapply (NCp_removal S (st_log S (if mem s (allsubs S) then [GLeft s] else [])));
           [eapply RG_ext; [|exact HR]; reg_eq_tac|exact HN|eapply RM_remove_locked; [eapply RG_ext; [|exact HR]; reg_eq_tac|exact E]
           |reflexivity|reflexivity|reflexivity|intros p; rewrite (HQ p); simpl; first [reflexivity|lia]]
         | HR : RG ?S, E : remove_many (st_log ?S (map GLeft (of_conn ?S ?c _))) _ = (?st0, ?r) |- _ =>
           eapply (NCp_removal S (st_log S (map GLeft (of_conn S c (allsubs S)))));
           [eapply RG_ext; [|exact HR]; reg_eq_tac|exact HN|eapply RM_remove_many; [eapply RG_ext; [|exact HR]; reg_eq_tac|exact E]
           |reflexivity|reflexivity|reflexivity|intros p; rewrite (HQ p); simpl; first [reflexivity|lia]]
         end; fail).
    all: unfold NCp.
    all: try (solve [intros tq Htq; hq HQ (is_cancel tq); pose proof (HN tq) as HN0; unfold registered in *; simpl in *; unfold upd in *; eqb_all;
                     (apply HN0; (destruct Htq as [Htq|Htq]; [left; lia|right; auto]))]).
    (* addSubscription creating trigger instance ntrig: fresh, never cancelled, no cancel pending *)
    1-2: (intros t0 Ht0; hq HQ (is_cancel t0); destruct (Hfresh (ntrig st) (le_n _)) as [F1 F2]; pose proof (HN t0) as HN0;
          unfold registered in *; simpl in *; unfold upd in *; eqb_all;
          first [ solve [exfalso; destruct Ht0 as [Hx|Hx]; [lia|discriminate]]
                | (destruct HN0 as [A B0]; [destruct Ht0; [left; lia|right; auto]|];
                   split; [lia|intro Hx; apply in_app_iff in Hx; destruct Hx as [Hx|[Hx|[]]]; [tauto|inversion Hx; lia]]) ]).
    (* shutdown: everything is detached, the registry is empty afterwards *)
    1: (destruct (shutdown_empty _ _ _ _ HR Erm) as [E1 E2];
        eapply (NCp_ext (emit st0 (dec_obs r))); [reflexivity|reflexivity|intros t; unfold registered; simpl; rewrite E1; intros []|];
        eapply (NCp_removal st (st_flags st true (rctx st)));
        [eapply RG_ext; [|exact HR]; reg_eq_tac|exact HN| |reflexivity|reflexivity|reflexivity|intros p; rewrite (HQ p); simpl; first [reflexivity|lia]];
        eapply RM_detach_many; [eapply RG_ext; [|exact HR]; reg_eq_tac| | |exact Erm]; simpl; auto;
        apply (NoDup_tids (fun t => t_key (trigs st t))); [apply (rg_keys _ HR)|]; intros k t Hi; apply (rg_ent _ HR _ _ Hi)).
    (* the cancel itself: it was pending, so the trigger is already unregistered *)
    1: (intros t0 Ht0; hq HQ (is_cancel t0); pose proof (HN t0) as HN0; pose proof (HI (is_cancel t)) as HI0; simpl in HI0;
        rewrite Nat.eqb_refl in HI0; specialize (HI0 eq_refl); unfold registered in *; simpl in *; unfold upd in *; eqb_all;
        (apply HN0; first [left; exact HI0 | (destruct Ht0 as [Ht0|Ht0]; [left; lia|right; auto])])).
    (* doneTriggerFromUpdater of the registered instance *)
    rewrite Hfc in Ec. destruct (is_reg st t) eqn:Er; inversion Ec; subst.
    assert (Hreg0 : In (t_key (trigs st t0), t0) (reg st)) by (apply is_reg_true; auto).
    pose proof (RM_detach_locked _ _ _ _ HR Hreg0 Erm) as HM.
    eapply (NCp_removal st st); [exact HR|exact HN|exact HM|reflexivity|reflexivity|reflexivity|].
    intros p; rewrite (HQ p); simpl; first [reflexivity|lia].
  Qed.
End DetachThr.

Section DetachMain.
  Variable flt : sid -> ev -> fres.
  Variable wresf : sid -> ev -> wres.
  Variable ev_bad : ev -> bool.
  Variable hbfail : sid -> bool.
  Notation reach := (reachable fixed flt wresf ev_bad hbfail).
  Notation stepf := (step fixed flt wresf ev_bad hbfail).

  Definition ALLN (st : state) : Prop := ALL st /\ NC st.

  Lemma ALLN_init : ALLN init.
  Proof.
    split.
    - apply ALL_init; assumption.
    - unfold NC, NCp. intros t Hc. simpl in Hc. destruct Hc as [Hc|Hc]; [lia|discriminate].
  Qed.

  Lemma ALLN_step : forall st a st', ALLN st -> stepf st a = Some st' -> ALLN st'.
  Proof.
    intros st a st' [HA HN] Hs. split; [eapply ALL_step; eauto|].
    destruct HA as (HR & _ & _ & _ & _ & HB).
    assert (Hspawn : forall n p, (forall t, cntl (is_cancel t) p = 0) -> spawn st n p = Some st' -> NC st').
    { intros n p Hp Hsp. apply spawn_spec in Hsp. destruct Hsp as [->|[_ ->]]; auto.
      intros t Hc. unfold registered in *. simpl in *. rewrite ?cnt_app in Hc. simpl in Hc. rewrite ?(Hp t) in Hc.
      apply (HN t). destruct Hc as [Hc|Hc]; [left; lia|right; auto]. }
    destruct a; simpl in Hs.
    - eapply Hspawn; [|exact Hs]. intros; destruct op; reflexivity.
    - destruct (Nat.ltb_spec t (ntrig st)); [|discriminate].
      eapply Hspawn; [|exact Hs]. intros; destruct op; reflexivity.
    - eapply Hspawn; [|exact Hs]. intros; reflexivity.
    - apply step_AStep in Hs. destruct Hs as (i & rest & st1 & push & sp & Hl & He & Heq).
      assert (HI : forall p, p i = true -> cnt p (threads st) > 0) by (intros p Hp; eapply cnt_lookup_ge; eauto).
      subst st'. unfold NC. simpl.
      eapply (NCp_ext st1); [reflexivity|reflexivity|intros t Hx; exact Hx|].
      eapply (NC_astep fixed flt wresf ev_bad hbfail eq_refl); [exact HR|exact HB|exact HN|exact He| |exact HI].
      intros p. apply (step_cnt fixed flt wresf ev_bad hbfail p _ _ _ _ _ _ _ _ _ Hl He eq_refl).
  Qed.

  Lemma ALLN_reachable : forall st, reach st -> ALLN st.
  Proof. apply run_inv; [apply ALLN_init|apply ALLN_step]. Qed.

  (* a registered subscriber's trigger context is live: not cancelled, and no teardown is about to cancel it *)
  Lemma live_subscriber_trigger_ctx_live : forall acts st s,
    run fixed flt wresf ev_bad hbfail init acts = Some st -> In s (byid st) ->
    t_cancelled (trigs st (s_tid (subs st s))) = false /\ cnt (is_cancel (s_tid (subs st s))) (threads st) = 0.
  Proof.
    intros acts st s Hr Hin.
    destruct (ALLN_reachable st (ex_intro _ acts Hr)) as [(HR & _) HN].
    destruct (rg_byid _ HR s Hin) as (_ & Hreg & _).
    assert (Hk : t_key (trigs st (s_tid (subs st s))) = s_key (subs st s))
      by (destruct (rg_ent _ HR _ _ Hreg) as (_ & Hk & _); exact Hk).
    assert (Hregd : registered st (s_tid (subs st s))) by (unfold registered; rewrite Hk; exact Hreg).
    split.
    - destruct (t_cancelled (trigs st (s_tid (subs st s)))) eqn:E; auto. exfalso.
      destruct (HN (s_tid (subs st s)) (or_intror E)) as [_ Hn]. tauto.
    - destruct (cnt (is_cancel (s_tid (subs st s))) (threads st)) eqn:E; auto. exfalso.
      destruct (HN (s_tid (subs st s))) as [_ Hn]; [left; lia|tauto].
  Qed.

  (* the step that cancels a subscriber's request context touches that subscriber's flag only *)
  Lemma ctx_cancel_step_local : forall st s,
    exec fixed flt wresf ev_bad hbfail st (ICancelCtx s) XNone =
      Some (st_sub st s (sub_set_ctxc (subs st s)), [], []).
  Proof. reflexivity. Qed.
End DetachMain.

(* two subscribers share trigger 0; the request context of subscriber 1 - the one that created the trigger - is
   cancelled and 1 is removed; subscriber 2 stays registered on trigger 0, whose context is not cancelled, and the
   next event is still written to it *)
Definition ex_creator_ctx_cancelled : list action :=
  sub_started 1 1 0 ++
  [AClient 2 (CSub 2 0 2 false false)] ++ n 2 (TCl 2) ++ [AStep (TSt 2) XNone; AStep (TSt 2) XOk] ++
  [AClient 3 (CCancelCtx 1)] ++ n 1 (TCl 3) ++
  [AClient 4 (CUnsub 1)] ++ unsub_steps 4 1 false ++
  [ASrc 5 0 (UUpdate 8)] ++ n 6 (TSrc 5) ++ n 9 (TCh 2) ++ n 2 (TSrc 5).

Lemma ex_creator_ctx_cancelled_proof :
  exists st, run fixed flt0 wres0 bad0 hb0 init ex_creator_ctx_cancelled = Some st /\
    s_ctxc (subs st 1) = true /\ s_removed (subs st 1) = true /\ byid st = [2] /\ s_tid (subs st 2) = 0 /\
    t_cancelled (trigs st 0) = false /\ In (OW 2 (CWrite 8)) (log st) /\ ~ In (OCancel 0) (log st).
Proof.
  eexists. split; [vm_compute; reflexivity|]. vm_compute.
  repeat split; auto 20. intro H. repeat (destruct H as [H|H]; [discriminate H|]). exact H.
Qed.
