(* C13: a subscriber is only ever removed for a cause of its own: a client asked for it
   (unsubscribe / removeClient / write, flush or heartbeat failure / hook failure), the source of ITS
   trigger instance said Done or its start-up failed, or the resolver shut down.  This is what the
   identity check of the updater callbacks (repair c) buys; it fails for the historical transitions. *)
From Gv Require Import C12.Model C12.ProofsBase C12.ProofsReg C12.ProofsC12 C13.Spec C13.ProofsC13.
From Coq Require Import List Bool Arith PeanoNat Lia.
Import ListNotations.

Definition cause (st : state) (s : sid) : Prop :=
  In (GLeft s) (log st) \/ In (GEnd (s_tid (subs st s))) (log st) \/ shut st = true.

Definition TCp (st : state) (thr : list (tname * list instr)) : Prop :=
  (forall s, s_removed (subs st s) = true -> cause st s) /\
  (forall t, cnt (is_doner t) thr > 0 -> In (GEnd t) (log st)).

Lemma remove_locked_close_sub : forall st s st' r, RG st -> remove_locked st s = (st', r) -> forall x, In x (rr_close r) -> x = s /\ In s (byid st).
Proof.
  intros st s st' r HR Hr x Hx. destruct (in_dec Nat.eq_dec s (byid st)) as [Hin|Hin].
  - rewrite remove_locked_in in Hr by auto. inversion Hr; subst. unfold rm_res in Hx.
    destruct (rem s (t_subs (trigs st (s_tid (subs st s))))); simpl in Hx; destruct Hx as [<-|[]]; auto.
  - rewrite remove_locked_out in Hr by auto. inversion Hr; subst. inversion Hx.
Qed.

Lemma remove_many_close_sub : forall l st st' r, RG st -> remove_many st l = (st', r) -> forall x, In x (rr_close r) -> In x l.
Proof.
  induction l; simpl; intros st st' r HR Hr x Hx.
  - inversion Hr; subst. inversion Hx.
  - destruct (remove_locked st a) as [st1 r1] eqn:E1. destruct (remove_many st1 l) as [st2 r2] eqn:E2.
    inversion Hr; subst; clear Hr. simpl in Hx. apply in_app_iff in Hx. destruct Hx as [Hx|Hx].
    + left. symmetry. eapply remove_locked_close_sub; eauto.
    + right. eapply IHl; [|exact E2|exact Hx]. eapply RG_remove_locked; eauto.
Qed.

Lemma TC_removal : forall st stp st0 r stF d thr thr',
  TCp st thr -> RM stp st0 r ->
  (forall o, In o (log st) -> In o (log stp)) -> (forall x, subs stp x = subs st x) ->
  log stF = d ++ log st0 -> subs stF = subs st0 -> (shut st = true -> shut stF = true) ->
  (forall sq, In sq (rr_close r) -> cause stF sq) ->
  (forall t, cnt (is_doner t) thr' <= cnt (is_doner t) thr) ->
  TCp stF thr'.
Proof.
  intros st stp st0 r stF d thr thr' [T1 T2] HM Hlog Hsub HlF HsF Hsh Hcl Hcnt.
  assert (Hgrow : forall o, In o (log st) -> In o (log stF)).
  { intros o Ho. rewrite HlF. apply in_or_app. right. rewrite (rm_log _ _ _ HM). apply in_or_app. right. auto. }
  split.
  - intros sq Hr. rewrite HsF, (rm_subs _ _ _ HM) in Hr. destruct (mem sq (rr_close r)) eqn:Em.
    + apply Hcl. apply mem_In; auto.
    + rewrite Hsub in Hr. specialize (T1 sq Hr). unfold cause in *. rewrite HsF, (rm_subs _ _ _ HM), Em, Hsub.
      destruct T1 as [H|[H|H]]; auto.
  - intros t Hc. apply Hgrow. apply T2. specialize (Hcnt t). lia.
Qed.

Section CauseStep.
  Variable flt : sid -> ev -> fres.
  Variable wresf : sid -> ev -> wres.
  Variable ev_bad : ev -> bool.
  Variable hbfail : sid -> bool.
  Notation execf := (exec fixed flt wresf ev_bad hbfail).
  Notation stepf := (step fixed flt wresf ev_bad hbfail).
  Notation reach := (reachable fixed flt wresf ev_bad hbfail).

  (* causes persist *)
  Lemma cause_mono : forall st st1 s, cause st s ->
    (forall o, In o (log st) -> In o (log st1)) -> s_tid (subs st1 s) = s_tid (subs st s) -> (shut st = true -> shut st1 = true) ->
    cause st1 s.
  Proof. unfold cause; intros st st1 s [H|[H|H]] Hl Ht Hs; [left|right; left; rewrite Ht|right; right]; auto. Qed.

  Lemma TC_astep : forall st th i rest x st1 push sp,
    RG st -> TCp st (threads st) ->
    lookup_thr th (threads st) = Some (i :: rest) ->
    execf st i x = Some (st1, push, sp) ->
    TCp st1 (set_thr th (push ++ rest) (threads st) ++ sp).
  Proof.
    intros st th i rest x st1 push sp HR [T1 T2] Hl He.
    assert (HQ : forall p, cnt p (set_thr th (push ++ rest) (threads st) ++ sp) + (if p i then 1 else 0)
                          = cnt p (threads st) + cntl p push + cnt p sp).
    { intros p. rewrite cnt_app. pose proof (cnt_set_thr p th i rest push (threads st) Hl). lia. }
    assert (HI : forall p, p i = true -> cnt p (threads st) > 0) by (intros p Hp; eapply cnt_lookup_ge; eauto).
    set (thr' := set_thr th (push ++ rest) (threads st) ++ sp) in *.
    exec_cases He; unfold TCp;
      try (solve [match goal with HR : RG ?S |- _ => split;
        [intros sq Hr; eapply (cause_mono S);
           [apply T1; revert Hr; simpl; unfold upd; repeat (match goal with |- context [Nat.eqb ?a ?b] => destruct (Nat.eqb_spec a b); subst end); simpl; auto
           |simpl; intros; auto
           |simpl; unfold upd; repeat (match goal with |- context [Nat.eqb ?a ?b] => destruct (Nat.eqb_spec a b); subst end); simpl; auto
           |simpl; auto]
        |intros tq Hc; hq HQ (is_doner tq);
         assert (Hc0 : cnt (is_doner tq) (threads S) > 0)
           by (repeat (match goal with H : context [Nat.eqb ?a ?b] |- _ => destruct (Nat.eqb_spec a b); subst end); simpl in *; lia);
         pose proof (T2 tq Hc0) as Hin; simpl; repeat (first [exact Hin | right | apply in_or_app; right])] end]).
    (* addSubscription *)
    1-4: (split;
          [intros sq Hr; simpl in Hr; unfold upd in Hr; destruct (Nat.eqb_spec sq s); [discriminate|];
           eapply (cause_mono st); [apply T1; auto|simpl; intros; auto|simpl; unfold upd; destruct (Nat.eqb_spec sq s); [congruence|reflexivity]|simpl; congruence]
          |intros tq Hc; hq HQ (is_doner tq); assert (Hc0 : cnt (is_doner tq) (threads st) > 0) by lia;
           pose proof (T2 tq Hc0) as Hin; simpl; repeat (first [exact Hin | right | apply in_or_app; right])]).
    - (* UnsubscribeSubscription *)
      assert (HR0 : RG (st_log st (if mem s (allsubs st) then [GLeft s] else []))) by (eapply RG_ext; [|exact HR]; reg_eq_tac).
      eapply (TC_removal st (st_log st (if mem s (allsubs st) then [GLeft s] else [])) st0 r);
        [split; [exact T1|exact T2]|eapply RM_remove_locked; [exact HR0|exact Erm]
        |simpl; intros; apply in_or_app; auto|reflexivity|reflexivity|reflexivity|simpl; pose proof (remove_locked_frame _ _ _ _ Erm) as (_ & _ & _ & Hs & _); simpl in Hs; congruence| |].
      + intros sq Hq. destruct (remove_locked_close_sub _ _ _ _ HR0 Erm sq Hq) as [-> Hb]. simpl in Hb.
        left. unfold emit. simpl. apply in_or_app. right.
        pose proof (RM_remove_locked _ _ _ _ HR0 Erm) as HM. rewrite (rm_log _ _ _ HM). apply in_or_app. right. simpl.
        rewrite (proj2 (mem_In s (allsubs st))) by apply (rg_byid _ HR s Hb). left. reflexivity.
      + intros t. pose proof (HQ (is_doner t)) as Hq. unfold after_remove in Hq. rewrite cntl_app, !cntl_map_zero in Hq by auto. simpl in Hq. fold thr'. lia.
    - (* removeClient *)
      assert (HR0 : RG (st_log st (map GLeft (of_conn st c (allsubs st))))) by (eapply RG_ext; [|exact HR]; reg_eq_tac).
      eapply (TC_removal st (st_log st (map GLeft (of_conn st c (allsubs st)))) st0 r);
        [split; [exact T1|exact T2]|eapply RM_remove_many; [exact HR0|exact Erm]
        |simpl; intros; apply in_or_app; auto|reflexivity|reflexivity|reflexivity|simpl; pose proof (remove_many_frame _ _ _ _ Erm) as (_ & _ & _ & Hs & _); simpl in Hs; congruence| |].
      + intros sq Hq. pose proof (remove_many_close_sub _ _ _ _ HR0 Erm sq Hq) as Hin. simpl in Hin. unfold of_conn in Hin. apply filter_In in Hin. destruct Hin as [Hb Hc].
        left. unfold emit. simpl. apply in_or_app. right.
        pose proof (RM_remove_many _ _ _ _ HR0 Erm) as HM. rewrite (rm_log _ _ _ HM). apply in_or_app. right. simpl.
        apply in_or_app. left. apply in_map. unfold of_conn. apply filter_In. split; auto. apply (rg_byid _ HR sq Hb).
      + intros t. pose proof (HQ (is_doner t)) as Hq. unfold after_remove in Hq. rewrite cntl_app, !cntl_map_zero in Hq by auto. simpl in Hq. fold thr'. lia.
    - (* shutdownResolver *)
      assert (HM : RM (st_flags st true (rctx st)) st0 r).
      { eapply RM_detach_many; [eapply RG_ext; [|exact HR]; reg_eq_tac| | |exact Erm]; simpl; auto.
        apply (NoDup_tids (fun t => t_key (trigs st t))); [apply (rg_keys _ HR)|]. intros k t Hi. apply (rg_ent _ HR _ _ Hi). }
      eapply (TC_removal st (st_flags st true (rctx st)) st0 r);
        [split; [exact T1|exact T2]|exact HM|simpl; auto|reflexivity|reflexivity|reflexivity
        |simpl; pose proof (detach_many_frame _ _ _ _ Erm) as (_ & _ & _ & Hs & _); simpl in Hs; auto| |].
      + intros sq Hq. right. right. simpl. pose proof (detach_many_frame _ _ _ _ Erm) as (_ & _ & _ & Hs & _). simpl in Hs. auto.
      + intros t. pose proof (HQ (is_doner t)) as Hq. unfold after_remove in Hq. rewrite cntl_app, !cntl_map_zero in Hq by auto. simpl in Hq. fold thr'. lia.
    - (* start-up failure *)
      split.
      + intros sq Hr. eapply (cause_mono st); [apply T1; auto|simpl; auto|reflexivity|auto].
      + intros tq Hc. simpl. destruct (Nat.eq_dec t tq) as [Heq|Hne]; [left; subst; reflexivity|].
        right. apply T2. hq HQ (is_doner tq); (destruct (Nat.eqb_spec t tq); [congruence|]); simpl in Hq; lia.
    - (* doneTriggerFromUpdater: only the updater's own trigger *)
      simpl in Ec. destruct (is_reg st t) eqn:Er; inversion Ec; subst t0.
      assert (Hreg0 : In (t_key (trigs st t), t) (reg st)) by (apply is_reg_true; auto).
      pose proof (detach_locked_spec _ _ _ _ HR Hreg0 Erm) as Hsp. simpl in Hsp. destruct Hsp as (Hrr & _).
      assert (Hge : In (GEnd t) (log st)).
      { apply T2. pose proof (HI (is_doner t)) as Hh. simpl in Hh. rewrite Nat.eqb_refl in Hh. auto. }
      pose proof (RM_detach_locked _ _ _ _ HR Hreg0 Erm) as HM.
      eapply (TC_removal st st st0 r);
        [split; [exact T1|exact T2]|exact HM|auto|reflexivity|reflexivity|reflexivity
        |simpl; pose proof (detach_locked_frame _ _ _ _ Erm) as (_ & _ & _ & Hs & _); congruence| |].
      + intros sq Hq. rewrite Hrr in Hq. simpl in Hq. destruct (rg_tsubs _ HR _ _ Hq) as (_ & _ & Ht).
        right. left. unfold emit. simpl. rewrite (rm_subs _ _ _ HM).
        assert (Et : s_tid (if mem sq (rr_close r) then sub_set_removed (subs st sq) else subs st sq) = t) by (destruct (mem sq (rr_close r)); simpl; auto).
        rewrite Et. apply in_or_app. right. rewrite (rm_log _ _ _ HM). apply in_or_app. right. auto.
      + intros t1. pose proof (HQ (is_doner t1)) as Hq. unfold after_remove in Hq. rewrite cntl_app, !cntl_map_zero in Hq by auto. simpl in Hq. fold thr'.
        destruct (t =? t1); lia.
    - (* Done() *)
      split.
      + intros sq Hr. eapply (cause_mono st); [apply T1; auto|simpl; auto|reflexivity|auto].
      + intros tq Hc. simpl. destruct (Nat.eq_dec t tq) as [Heq|Hne]; [left; subst; reflexivity|].
        right. apply T2. hq HQ (is_doner tq); (destruct (Nat.eqb_spec t tq); [congruence|]); simpl in Hq; lia.
    - (* fan-out *)
      split.
      + intros sq Hr. eapply (cause_mono st); [apply T1; auto|simpl; intros; apply in_or_app; auto|reflexivity|auto].
      + intros tq Hc. pose proof (HQ (is_doner tq)) as Hq. rewrite cnt_map_zero in Hq by (intros; reflexivity). unfold cntl in Hq. simpl in Hq.
        simpl. apply in_or_app. right. apply T2. fold thr' in Hq. lia.
  Qed.
End CauseStep.

Section CauseMain.
  Variable flt : sid -> ev -> fres.
  Variable wresf : sid -> ev -> wres.
  Variable ev_bad : ev -> bool.
  Variable hbfail : sid -> bool.
  Notation reach := (reachable fixed flt wresf ev_bad hbfail).
  Notation stepf := (step fixed flt wresf ev_bad hbfail).

  Lemma TC_reachable : forall st, reach st -> RG st /\ TCp st (threads st).
  Proof.
    apply run_inv.
    - split; [apply RG_init; assumption|]. split; [intros s; simpl; discriminate|simpl; intros; lia].
    - intros st a st' [HR HT] Hs. split; [exact (RG_step fixed flt wresf ev_bad hbfail _ _ _ HR Hs)|].
      assert (Hspawn : forall n p, (forall t, cntl (is_doner t) p = 0) -> spawn st n p = Some st' -> TCp st' (threads st')).
      { intros n p Hp Hsp. apply spawn_spec in Hsp. destruct Hsp as [->|[_ ->]]; auto.
        destruct HT as [T1 T2]. split; [exact T1|]. intros t. simpl. rewrite cnt_app. simpl. rewrite Hp. intros Hc. apply T2. lia. }
      destruct a; simpl in Hs.
      + eapply Hspawn; [|exact Hs]. intros; destruct op; reflexivity.
      + destruct (t <? ntrig st); [|discriminate]. eapply Hspawn; [|exact Hs]. intros; destruct op; reflexivity.
      + eapply Hspawn; [|exact Hs]. intros; reflexivity.
      + apply step_AStep in Hs. destruct Hs as (i & rest & st1 & push & sp & Hl & He & ->). simpl.
        pose proof (TC_astep flt wresf ev_bad hbfail _ _ _ _ _ _ _ _ HR HT Hl He) as [A C]. split; auto.
  Qed.

  Lemma teardown_has_cause_holds : forall st s, reach st -> s_removed (subs st s) = true -> cause st s.
  Proof. intros st s H. apply TC_reachable in H. destruct H as [_ [T1 _]]. apply T1. Qed.
End CauseMain.
