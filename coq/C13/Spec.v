(* C13: predicates over the chronological observable log and registry, with boolean checkers. *)
From Gv Require Import C12.Model.
From Coq Require Import List Bool Arith PeanoNat.
Import ListNotations.

Definition sum_obs (f : obs -> nat) (l : list obs) : nat := fold_right (fun o a => f o + a) 0 l.
Definition sub_inc (l : list obs) := sum_obs (fun o => match o with OSubInc n => n | _ => 0 end) l.
Definition sub_dec (l : list obs) := sum_obs (fun o => match o with OSubDec n => n | _ => 0 end) l.
Definition trig_inc (l : list obs) := sum_obs (fun o => match o with OTrigInc n => n | _ => 0 end) l.
Definition trig_dec (l : list obs) := sum_obs (fun o => match o with OTrigDec n => n | _ => 0 end) l.

Definition counters_balanced (l : list obs) : Prop := sub_inc l = sub_dec l /\ trig_inc l = trig_dec l.
Definition counters_balanced_b (l : list obs) : bool :=
  (sub_inc l =? sub_dec l) && (trig_inc l =? trig_dec l).

Definition starts (l : list obs) : list tid := flat_map (fun o => match o with OStart t _ => [t] | _ => [] end) l.
Definition cancels (l : list obs) : list tid := flat_map (fun o => match o with OCancel t => [t] | _ => [] end) l.

(* Start is called at most once per trigger instance *)
Definition one_start (l : list obs) : Prop := NoDup (starts l).
Fixpoint nodup_b (l : list nat) : bool :=
  match l with [] => true | x :: r => negb (mem x r) && nodup_b r end.
Definition one_start_b (l : list obs) : bool := nodup_b (starts l).

(* every started trigger had its context cancelled *)
Definition all_started_cancelled_b (l : list obs) : bool := forallb (fun t => mem t (cancels l)) (starts l).

(* at quiescence: registry empty, counters balanced, every started trigger cancelled *)
Definition quiescent_ok_b (sizes : nat * nat * nat) (l : list obs) : bool :=
  match sizes with (a, b, c) => (a =? 0) && (b =? 0) && (c =? 0) end
  && counters_balanced_b l && all_started_cancelled_b l.

(* implementation-side reading of c13_teardown_has_cause: per schedule step, the trigger instances
   whose context was cancelled while a call of the updater of instance [owner] was running (both named
   by the subscriber that started them) must be that instance *)
Definition teardown_own_b (steps : list (option nat * list nat)) : bool :=
  forallb (fun oc => match fst oc with Some a => forallb (Nat.eqb a) (snd oc) | None => true end) steps.

(* every subscriber in [ss] (the subscribers that were registered and, by the end of the history, asked
   to leave / whose trigger ended / resolver shut down) has had its completed channel closed *)
Definition closes13 (l : list obs) : list sid := flat_map (fun o => match o with OClosed s => [s] | _ => [] end) l.
Definition all_completed_b (ss : list sid) (l : list obs) : bool := forallb (fun s => mem s (closes13 l)) ss.

(* trigger identity on the implementation: observations (rendered input class, header-hash class,
   trigger id class) -- byte strings interned to numbers by equality; two observations have the same
   id iff they have the same input and the same header hash *)
Definition ident_ok (l : list (nat * nat * nat)) : Prop :=
  forall a b, In a l -> In b l ->
    (snd a = snd b <-> fst (fst a) = fst (fst b) /\ snd (fst a) = snd (fst b)).
Definition ident_pair_b (a b : nat * nat * nat) : bool :=
  Bool.eqb (snd a =? snd b) ((fst (fst a) =? fst (fst b)) && (snd (fst a) =? snd (fst b))).
Definition ident_ok_b (l : list (nat * nat * nat)) : bool := forallb (fun a => forallb (ident_pair_b a) l) l.

Lemma ident_ok_b_ok : forall l, ident_ok_b l = true <-> ident_ok l.
Proof.
  intros l. unfold ident_ok_b, ident_ok. rewrite forallb_forall. split.
  - intros H a b Ha Hb. specialize (H a Ha). rewrite forallb_forall in H. specialize (H b Hb).
    unfold ident_pair_b in H. apply Bool.eqb_prop in H.
    rewrite <- Nat.eqb_eq, H, andb_true_iff, !Nat.eqb_eq. tauto.
  - intros H a Ha. apply forallb_forall. intros b Hb. specialize (H a b Ha Hb).
    unfold ident_pair_b. apply Bool.eqb_true_iff.
    destruct (Nat.eqb_spec (snd a) (snd b)) as [E|E].
    + symmetry. apply andb_true_iff. rewrite !Nat.eqb_eq. tauto.
    + symmetry. apply andb_false_iff. destruct (Nat.eqb_spec (fst (fst a)) (fst (fst b))); auto.
      destruct (Nat.eqb_spec (snd (fst a)) (snd (fst b))); auto. exfalso. tauto.
Qed.
