(* C13: predicates over the chronological observable log and registry, with boolean checkers. *)
From Gv Require Import C12.Model.
From Coq Require Import List Bool Arith PeanoNat.
Import ListNotations.

Definition sum_obs (f : obs -> nat) (l : list obs) : nat := fold_right (fun o a => f o + a) 0 l.
Definition sub_inc (l : list obs) := sum_obs (fun o => match o with OSubInc n => n | _ => 0 end) l.
Definition sub_dec (l : list obs) := sum_obs (fun o => match o with OSubDec n => n | _ => 0 end) l.
Definition trig_inc (l : list obs) := sum_obs (fun o => match o with OTrigInc n => n | _ => 0 end) l.
Definition trig_dec (l : list obs) := sum_obs (fun o => match o with OTrigDec n => n | _ => 0 end) l.

Definition counters_balanced (l : list obs) : Prop := sub_inc l = sub_dec l /\ trig_inc l = trig_dec l.
Definition counters_balanced_b (l : list obs) : bool :=
  (sub_inc l =? sub_dec l) && (trig_inc l =? trig_dec l).

Definition starts (l : list obs) : list tid := flat_map (fun o => match o with OStart t _ => [t] | _ => [] end) l.
Definition cancels (l : list obs) : list tid := flat_map (fun o => match o with OCancel t => [t] | _ => [] end) l.

(* Start is called at most once per trigger instance *)
Definition one_start (l : list obs) : Prop := NoDup (starts l).
Fixpoint nodup_b (l : list nat) : bool :=
  match l with [] => true | x :: r => negb (mem x r) && nodup_b r end.
Definition one_start_b (l : list obs) : bool := nodup_b (starts l).

(* every started trigger had its context cancelled *)
Definition all_started_cancelled_b (l : list obs) : bool := forallb (fun t => mem t (cancels l)) (starts l).

(* at quiescence: registry empty, counters balanced, every started trigger cancelled *)
Definition quiescent_ok_b (sizes : nat * nat * nat) (l : list obs) : bool :=
  match sizes with (a, b, c) => (a =? 0) && (b =? 0) && (c =? 0) end
  && counters_balanced_b l && all_started_cancelled_b l.

(* implementation-side reading of c13_teardown_has_cause: per schedule step, the trigger instances
   whose context was cancelled while a call of the updater of instance [owner] was running (both named
   by the subscriber that started them) must be that instance *)
Definition teardown_own_b (steps : list (option nat * list nat)) : bool :=
  forallb (fun oc => match fst oc with Some a => forallb (Nat.eqb a) (snd oc) | None => true end) steps.
