(* C13, trigger identity: the key a subscription is registered under is the key its subscribe action
   named; if every subscribe action names its subscriber under keyof (input, headers) then every
   registered subscriber carries exactly that key. *)
From Gv Require Import C12.Model C12.Spec C12.ProofsBase C12.ProofsReg C12.ProofsC12.
From Coq Require Import List Bool Arith PeanoNat Lia.
Import ListNotations.

(* registry regions never touch the key of a subscription *)
Definition key_stable (st st' : state) : Prop := forall s, s_key (subs st' s) = s_key (subs st s).
Lemma cas_key : forall st s st' c, cas_removed st s = (st', c) -> key_stable st st'.
Proof.
  unfold cas_removed, key_stable; intros. destruct (s_removed (subs st s)); inversion H; subst; simpl; auto.
  unfold upd. destruct (Nat.eqb_spec s0 s); subst; auto.
Qed.
Lemma remove_locked_key : forall st s st' r, remove_locked st s = (st', r) -> key_stable st st'.
Proof.
  unfold remove_locked; intros.
  destruct (negb (mem s (byid st))); [inversion H; subst; intros x; reflexivity|].
  destruct (lookup_reg _ _); [|inversion H; subst; intros x; reflexivity].
  destruct (negb (mem s _)); [inversion H; subst; intros x; reflexivity|].
  destruct (cas_removed st s) as [st1 cl] eqn:E. apply cas_key in E.
  destruct (rem s _); inversion H; subst; intros x; simpl; apply E.
Qed.
Lemma detach_subs_key : forall l st st' c, detach_subs st l = (st', c) -> key_stable st st'.
Proof.
  induction l; simpl; intros.
  - inversion H; subst. intros x; reflexivity.
  - destruct (cas_removed st a) as [st1 c1] eqn:E1.
    destruct (detach_subs (unregister st1 a) l) as [st2 c2] eqn:E2.
    inversion H; subst. apply cas_key in E1. apply IHl in E2. intros x. rewrite (E2 x). simpl. apply E1.
Qed.
Lemma detach_locked_key : forall st t st' r, detach_locked st t = (st', r) -> key_stable st st'.
Proof.
  unfold detach_locked; intros.
  destruct (detach_subs st (t_subs (trigs st t))) as [st1 cl] eqn:E.
  apply detach_subs_key in E. inversion H; subst. intros x. simpl. apply E.
Qed.
Lemma remove_many_key : forall l st st' r, remove_many st l = (st', r) -> key_stable st st'.
Proof.
  induction l; simpl; intros.
  - inversion H; subst. intros x; reflexivity.
  - destruct (remove_locked st a) as [st1 r1] eqn:E1. destruct (remove_many st1 l) as [st2 r2] eqn:E2.
    inversion H; subst. apply remove_locked_key in E1. apply IHl in E2. intros x. rewrite (E2 x). apply E1.
Qed.
Lemma detach_many_key : forall l st st' r, detach_many st l = (st', r) -> key_stable st st'.
Proof.
  induction l; simpl; intros.
  - inversion H; subst. intros x; reflexivity.
  - destruct (detach_locked st a) as [st1 r1] eqn:E1. destruct (detach_many st1 l) as [st2 r2] eqn:E2.
    inversion H; subst. apply detach_locked_key in E1. apply IHl in E2. intros x. rewrite (E2 x). apply E1.
Qed.

(* a subscribe instruction that names its subscriber under another key than [kf] *)
Definition add_bad (kf : sid -> key) (i : instr) : bool :=
  match i with IAddR s k _ _ _ => negb (k =? kf s) | _ => false end.

Section IdentStep.
  Variable v : variant.
  Variable flt : sid -> ev -> fres.
  Variable wresf : sid -> ev -> wres.
  Variable ev_bad : ev -> bool.
  Variable hbfail : sid -> bool.
  Notation exec := (exec v flt wresf ev_bad hbfail).
  Notation step := (step v flt wresf ev_bad hbfail).
  Notation run := (run v flt wresf ev_bad hbfail).
  Variable kf : sid -> key.

  (* every subscription known after a step was known before with the same key, or was registered by
     this very instruction under the key the instruction names *)
  Lemma exec_key : forall st i x st1 push sp, exec st i x = Some (st1, push, sp) ->
    forall s, In s (allsubs st1) ->
      (In s (allsubs st) /\ s_key (subs st1 s) = s_key (subs st s)) \/
      (exists k c hb sy, i = IAddR s k c hb sy /\ s_key (subs st1 s) = k).
  Proof.
    intros st i x st1 push sp He.
    exec_cases He;
      try (solve [intros s0 Hs0; left; simpl in *; split; [exact Hs0|]; unfold upd;
                  repeat (match goal with |- context [Nat.eqb ?a ?b] => destruct (Nat.eqb_spec a b); subst end); simpl; auto]).
    (* addSubscription *)
    1-4: (intros s0 Hs0; simpl in Hs0; destruct Hs0 as [<-|Hs0];
          [right; do 4 eexists; split; [reflexivity|simpl; unfold upd; rewrite Nat.eqb_refl; reflexivity]
          |left; split; [exact Hs0|simpl; unfold upd; destruct (Nat.eqb_spec s0 s); [subst; apply mem_nIn in Ec; tauto|reflexivity]]]).
    - (* UnsubscribeSubscription *)
      pose proof (remove_locked_key _ _ _ _ Erm) as Hk. pose proof (remove_locked_frame _ _ _ _ Erm) as (_ & _ & Ha & _).
      intros s0 Hs0. left. unfold emit in *. simpl in *. rewrite Ha in Hs0. split; [exact Hs0|apply (Hk s0)].
    - pose proof (remove_many_key _ _ _ _ Erm) as Hk. pose proof (remove_many_frame _ _ _ _ Erm) as (_ & _ & Ha & _).
      intros s0 Hs0. left. unfold emit in *. simpl in *. rewrite Ha in Hs0. split; [exact Hs0|apply (Hk s0)].
    - pose proof (detach_many_key _ _ _ _ Erm) as Hk. pose proof (detach_many_frame _ _ _ _ Erm) as (_ & _ & Ha & _).
      intros s0 Hs0. left. unfold emit in *. simpl in *. rewrite Ha in Hs0. split; [exact Hs0|apply (Hk s0)].
    - pose proof (detach_locked_key _ _ _ _ Erm) as Hk. pose proof (detach_locked_frame _ _ _ _ Erm) as (_ & _ & Ha & _).
      intros s0 Hs0. left. unfold emit in *. simpl in *. rewrite Ha in Hs0. split; [exact Hs0|apply (Hk s0)].
  Qed.

  Definition KJ (st : state) : Prop :=
    cnt (add_bad kf) (threads st) = 0 /\ forall s, In s (allsubs st) -> s_key (subs st s) = kf s.

  Definition keyed_action (a : action) : Prop :=
    forall n s k c hb sy, a = AClient n (CSub s k c hb sy) -> k = kf s.

  Lemma KJ_step : forall st a st', KJ st -> keyed_action a -> step st a = Some st' -> KJ st'.
  Proof.
    intros st a st' [H0 HK] Ha Hs.
    assert (Hspawn : forall n p, cntl (add_bad kf) p = 0 -> spawn st n p = Some st' -> KJ st').
    { intros n p Hp Hsp. apply spawn_spec in Hsp. destruct Hsp as [->|[_ ->]]; [split; auto|].
      split; [simpl; rewrite cnt_app; simpl; rewrite Hp, H0; reflexivity|exact HK]. }
    destruct a; simpl in Hs.
    - eapply Hspawn; [|exact Hs]. destruct op; try reflexivity.
      unfold cntl. simpl. rewrite (Ha n s k c hb sync eq_refl), Nat.eqb_refl. reflexivity.
    - destruct (t <? ntrig st); [|discriminate]. eapply Hspawn; [|exact Hs]. destruct op; reflexivity.
    - eapply Hspawn; [|exact Hs]. reflexivity.
    - apply step_AStep in Hs. destruct Hs as (i & rest & st1 & push & sp & Hl & He & ->). simpl.
      assert (HI : add_bad kf i = false).
      { destruct (add_bad kf i) eqn:E; auto. pose proof (cnt_lookup_ge (add_bad kf) _ _ _ _ Hl E). lia. }
      split.
      + assert (HQ : cnt (add_bad kf) (set_thr th (push ++ rest) (threads st) ++ sp) + (if add_bad kf i then 1 else 0)
                     = cnt (add_bad kf) (threads st) + cntl (add_bad kf) push + cnt (add_bad kf) sp).
        { rewrite cnt_app. pose proof (cnt_set_thr (add_bad kf) th i rest push (threads st) Hl). lia. }
        assert (Hp : cntl (add_bad kf) push + cnt (add_bad kf) sp = 0); [|rewrite HI in HQ; simpl; lia].
        clear HQ. exec_cases He; simpl in *; cnt_simpl; auto; try (rewrite ?Ec; reflexivity).
        all: unfold after_remove;
             match goal with |- length (filter ?p (?a ++ ?b)) + 0 = 0 =>
               change (cntl p (a ++ b) + 0 = 0); rewrite cntl_app, !cntl_map_zero by auto; reflexivity end.
      + intros s Hs. change (In s (allsubs st1)) in Hs. change (s_key (subs st1 s) = kf s).
        destruct (exec_key _ _ _ _ _ _ He s Hs) as [[Hin Hk]|(k & c & hb & sy & Hi & Hk)]; [rewrite Hk; apply HK; exact Hin|].
        subst i. rewrite Hk. simpl in HI. apply negb_false_iff in HI. apply Nat.eqb_eq in HI. exact HI.
  Qed.

  Lemma KJ_run : forall acts st st', KJ st -> (forall a, In a acts -> keyed_action a) -> run st acts = Some st' -> KJ st'.
  Proof.
    induction acts as [|a acts IH]; simpl; intros st st' HK Ha Hr.
    - inversion Hr; subst; exact HK.
    - destruct (step st a) as [st1|] eqn:E; [|discriminate].
      eapply (IH st1); [eapply KJ_step; eauto|intros; apply Ha; auto|exact Hr].
  Qed.

  Lemma KJ_init : KJ init.
  Proof. split; [reflexivity|intros s []]. Qed.

  (* the key of a registered subscriber is the key its subscribe action named *)
  Lemma key_of_run : forall acts st, (forall a, In a acts -> keyed_action a) -> run init acts = Some st ->
    forall s, In s (allsubs st) -> s_key (subs st s) = kf s.
  Proof. intros acts st Ha Hr. exact (proj2 (KJ_run acts init st KJ_init Ha Hr)). Qed.
End IdentStep.
