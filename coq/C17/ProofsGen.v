(* C17: the shape of [generate S] for well-formed S outside the generator-side losses. *)
From Coq Require Import Lia Arith PeanoNat String.
From Gv Require Import lib.Bytes lib.Gql C17.Util C17.ValueSyntax C17.Base C17.Model C17.Spec C17.ProofsBase.
Open Scope N_scope.

(* ------------------------------------------------------------------ small list facts *)
Lemma flat_map_map : forall {A B C} (f : B -> list C) (g : A -> B) l, flat_map f (map g l) = flat_map (fun x => f (g x)) l.
Proof. induction l; simpl; auto. rewrite IHl. auto. Qed.

Lemma flat_map_ext_in : forall {A B} (f g : A -> list B) l, (forall x, In x l -> f x = g x) -> flat_map f l = flat_map g l.
Proof. induction l; simpl; intros; auto. rewrite H, IHl; auto. Qed.

Lemma flat_map_singleton : forall {A B} (f : A -> list B) (g : A -> B) l,
  (forall x, In x l -> f x = [g x]) -> flat_map f l = map g l.
Proof. induction l; simpl; intros; auto. rewrite H, IHl; auto. Qed.

Lemma flat_map_nil : forall {A B} (f : A -> list B) l, (forall x, In x l -> f x = []) -> flat_map f l = [].
Proof. induction l; simpl; intros; auto. rewrite H, IHl; auto. Qed.

Lemma flat_map_update_first : forall {B} (f : type_def -> list B) n g l,
  (forall t, f (g t) = f t) -> flat_map f (update_first n g l) = flat_map f l.
Proof.
  induction l; simpl; intros; auto. destruct (bytes_eqb n (td_name a)); simpl.
  - rewrite H. auto.
  - rewrite IHl; auto.
Qed.

Lemma existsb_false_forall : forall {A} (p : A -> bool) l, existsb p l = false <-> (forall x, In x l -> p x = false).
Proof.
  induction l; simpl; split; intros; auto; try contradiction.
  - apply orb_false_iff in H. destruct H. destruct H0; subst; auto. apply IHl; auto.
  - apply orb_false_iff. split; auto. apply IHl. auto.
Qed.

Lemma existsb_false_In : forall {A} (p : A -> bool) l x, existsb p l = false -> In x l -> p x = false.
Proof. intros. eapply existsb_false_forall in H; eauto. Qed.

Lemma find_ext_eq : forall {A} (p q : A -> bool) l, (forall x, p x = q x) -> find p l = find q l.
Proof. induction l; simpl; intros; auto. rewrite H, IHl; auto. Qed.

Lemma find_dir_sp : forall n ds, find_dir n ds = sp_dir n ds.
Proof. intros. unfold find_dir, sp_dir. apply find_ext_eq. intro. apply bytes_eqb_sym. Qed.
Lemma find_arg_sp : forall n d, find_arg n (d_args d) = sp_arg n d.
Proof.
  intros. unfold find_arg, sp_arg. rewrite (find_ext_eq _ (fun a => bytes_eqb n (fst a))); auto.
  intro. apply bytes_eqb_sym.
Qed.

(* ------------------------------------------------------------------ decoration by the merge is invisible *)
Lemma gen_fields_app_uu : forall idx dds fs extra,
  forallb (fun f => starts_uu (fd_name f)) extra = true ->
  gen_fields idx dds (fs ++ extra) = gen_fields idx dds fs.
Proof.
  intros. unfold gen_fields. rewrite filter_app.
  replace (filter (fun f => negb (starts_uu (fd_name f))) extra) with (@nil field_def).
  - rewrite app_nil_r. auto.
  - induction extra; simpl in *; auto. apply andb_true_iff in H. destruct H as [H1 H2].
    rewrite H1. simpl. auto.
Qed.

Lemma gen_type_add_typename : forall idx dds all sub t,
  gen_type idx dds all (add_typename sub t) = gen_type idx dds all t.
Proof.
  intros. unfold add_typename. destruct (td_kind t) eqn:K; auto.
  - destruct (bytes_eqb (td_name t) sub || bytes_eqb (td_name t) #"Subscription"); auto.
    destruct (has_field #"__typename" (td_fields t)); auto.
    unfold gen_type. simpl. rewrite K. rewrite gen_fields_app_uu; auto.
  - destruct (has_field #"__typename" (td_fields t)); auto.
    unfold gen_type. simpl. rewrite K. rewrite gen_fields_app_uu; auto.
  - destruct (has_field #"__typename" (td_fields t)); auto.
    unfold gen_type. simpl. rewrite K. auto.
Qed.

Lemma gen_type_add_intro : forall idx dds all t,
  gen_type idx dds all (add_introspection_fields t) = gen_type idx dds all t.
Proof.
  intros. unfold add_introspection_fields. destruct (is_object t) eqn:O; auto.
  unfold is_object in O. destruct (td_kind t) eqn:K; try discriminate.
  unfold gen_type. simpl. rewrite K.
  rewrite gen_fields_app_uu; auto.
  destruct (has_field #"__schema" (td_fields t)), (has_field #"__type" (td_fields t)); reflexivity.
Qed.

Definition shallow (t : type_def) := (is_object t, td_implements t, td_name t).

Lemma implementers_shallow : forall l l' iface,
  map shallow l = map shallow l' -> implementers l iface = implementers l' iface.
Proof.
  induction l; destruct l'; simpl; intros iface H; try discriminate; auto.
  assert (E1 : is_object a = is_object t) by (unfold shallow in H; congruence).
  assert (E2 : td_implements a = td_implements t) by (unfold shallow in H; congruence).
  assert (E3 : td_name a = td_name t) by (unfold shallow in H; congruence).
  assert (Hl : map shallow l = map shallow l') by congruence.
  change (implementers (a :: l) iface) with
    ((if is_object a && mem_bytes iface (td_implements a) then [named_ref IK_OBJECT (td_name a)] else []) ++ implementers l iface).
  change (implementers (t :: l') iface) with
    ((if is_object t && mem_bytes iface (td_implements t) then [named_ref IK_OBJECT (td_name t)] else []) ++ implementers l' iface).
  rewrite E1, E2, E3. f_equal. apply IHl. auto.
Qed.

Lemma gen_type_all : forall idx dds l l' t,
  map shallow l = map shallow l' -> gen_type idx dds l t = gen_type idx dds l' t.
Proof.
  intros. unfold gen_type. destruct (td_kind t); auto.
  rewrite (implementers_shallow l l'); auto.
Qed.

Lemma shallow_add_typename : forall sub t, shallow (add_typename sub t) = shallow t.
Proof.
  intros. unfold add_typename, shallow, is_object.
  destruct (td_kind t) eqn:K; try (rewrite ?K; reflexivity).
  - destruct (bytes_eqb (td_name t) sub || bytes_eqb (td_name t) #"Subscription"); [rewrite ?K; auto|].
    destruct (has_field #"__typename" (td_fields t)); simpl; rewrite ?K; auto.
  - destruct (has_field #"__typename" (td_fields t)); simpl; rewrite ?K; auto.
  - destruct (has_field #"__typename" (td_fields t)); simpl; rewrite ?K; auto.
Qed.
Lemma shallow_add_intro : forall t, shallow (add_introspection_fields t) = shallow t.
Proof.
  intros. unfold add_introspection_fields. destruct (is_object t) eqn:O; auto.
Qed.
Lemma shallow_update_first : forall n l, map shallow (update_first n add_introspection_fields l) = map shallow l.
Proof.
  induction l; simpl; auto. destruct (bytes_eqb n (td_name a)); simpl.
  - rewrite shallow_add_intro. auto.
  - rewrite IHl. auto.
Qed.

Lemma gen_types_decorated : forall idx dds sub n l,
  let l' := map (add_typename sub) (update_first n add_introspection_fields l) in
  flat_map (gen_type idx dds l') l' = flat_map (gen_type idx dds l) l.
Proof.
  intros. subst l'.
  assert (Sh : map shallow (map (add_typename sub) (update_first n add_introspection_fields l)) = map shallow l).
  { rewrite map_map. rewrite (map_ext _ shallow). apply shallow_update_first. intro. apply shallow_add_typename. }
  rewrite flat_map_map.
  rewrite (flat_map_ext_in _ (fun x => gen_type idx dds l x)).
  - apply flat_map_update_first. intro. apply gen_type_add_intro.
  - intros x _. rewrite gen_type_add_typename. apply gen_type_all. auto.
Qed.

(* ------------------------------------------------------------------ the base part *)
Lemma gen_meta_nil : forall idx dds all, flat_map (gen_type idx dds all) base_meta_types = [].
Proof. reflexivity. Qed.

Definition scalar_itype (n : name) : itype := empty_type IK_SCALAR n.

Lemma gen_base_scalars : forall idx dds all,
  flat_map (gen_type idx dds all) base_scalars = map scalar_itype base_scalar_names.
Proof. reflexivity. Qed.

Lemma implementers_base : forall iface,
  implementers (base_scalars ++ base_meta_types) iface = [].
Proof. reflexivity. Qed.

Lemma implementers_app : forall l1 l2 iface, implementers (l1 ++ l2) iface = implementers l1 iface ++ implementers l2 iface.
Proof. intros. unfold implementers. apply flat_map_app. Qed.

(* ------------------------------------------------------------------ consequences of wf_schema *)
Ltac andb_split H :=
  repeat match type of H with
         | (_ && _ = true) => let H1 := fresh H in apply andb_true_iff in H; destruct H as [H H1]
         end.

Lemma is_nil_eq : forall {A} (l : list A), is_nil l = true -> l = [].
Proof. destruct l; simpl; intros; auto; discriminate. Qed.

Lemma find_type_In : forall n l t, find_type n l = Some t -> In t l /\ td_name t = n.
Proof.
  induction l; simpl; intros t H; try discriminate.
  destruct (bytes_eqb n (td_name a)) eqn:E.
  - inversion H; subst. apply bytes_eqb_eq in E. auto.
  - apply IHl in H. tauto.
Qed.
Lemma find_type_unique : forall l t, NoDup (map td_name l) -> In t l -> find_type (td_name t) l = Some t.
Proof.
  induction l; simpl; intros t ND I; try contradiction. inversion ND; subst.
  destruct I as [I|I].
  - subst. rewrite bytes_eqb_refl. auto.
  - destruct (bytes_eqb (td_name t) (td_name a)) eqn:E.
    + apply bytes_eqb_eq in E. exfalso. apply H1. rewrite <- E. apply in_map. auto.
    + apply IHl; auto.
Qed.
Lemma find_type_app : forall n l1 l2,
  find_type n (l1 ++ l2) = match find_type n l1 with Some t => Some t | None => find_type n l2 end.
Proof. induction l1; simpl; intros; auto. destruct (bytes_eqb n (td_name a)); auto. Qed.
Lemma find_type_none : forall n l, ~ In n (map td_name l) -> find_type n l = None.
Proof.
  induction l; simpl; intros; auto. destruct (bytes_eqb n (td_name a)) eqn:E.
  - apply bytes_eqb_eq in E. exfalso. apply H. auto.
  - apply IHl. tauto.
Qed.

Definition gen_ok (S : schema) : Prop := generate_lossy S = [].

Lemma app_nil_both : forall {A} (a c : list A), a ++ c = [] -> a = [] /\ c = [].
Proof. destruct a; simpl; intros; auto. discriminate. Qed.

Lemma if_nil : forall (c : bool) (x : name), (if c then [x] else []) = [] -> c = false.
Proof. destruct c; intros; auto; discriminate. Qed.

Section Facts.
  Variable S : schema.
  Hypothesis WF : wf_schema S = true.

  Lemma wf_parts :
    NoDup (map td_name (s_types S)) /\ NoDup (map dd_name (s_directives S))
    /\ (forall t, In t (s_types S) -> td_wf S t = true)
    /\ (forall d, In d (s_directives S) -> dd_wf S d = true)
    /\ root_wf S (s_query S) = true /\ opt_root_wf S (s_mutation S) = true
    /\ opt_root_wf S (s_subscription S) = true.
  Proof.
    pose proof WF as W. unfold wf_schema in W. andb_split W.
    split. { apply (proj1 (nodup_b_NoDup _)). exact W. }
    split. { apply (proj1 (nodup_b_NoDup _)). exact W5. }
    rewrite forallb_forall in W4. rewrite forallb_forall in W3.
    split. { exact W4. }
    split. { exact W3. }
    auto.
  Qed.

  Hypothesis GOK : gen_ok S.

  Lemma gen_ok_parts :
    (forall ds, In ds (all_deprecable_dirs S) -> str_special (reason_of ds) = false)
    /\ (forall t, In t (s_types S) -> str_special (url_of (td_dirs t)) = false)
    /\ (forall iv v, In iv (all_input_values S) -> iv_default iv = Some v -> value_ok v = true)
    /\ (s_query S <> #"schema" /\ ~ In (s_query S) (map dd_name (s_directives S)))
    /\ (forall t, In t (s_types S) -> ~ In (td_name t) base_scalar_names)
    /\ (forall d, In d (s_directives S) -> ~ In (dd_name d) (map dd_name base_public_directives)).
  Proof.
    pose proof GOK as G0. unfold gen_ok, generate_lossy in G0.
    apply app_nil_both in G0. destruct G0 as [G1 G]. apply app_nil_both in G. destruct G as [G3 G].
    apply app_nil_both in G. destruct G as [G4 G5].
    apply if_nil in G1. apply if_nil in G3. apply if_nil in G4. apply if_nil in G5.
    apply orb_false_iff in G1. destruct G1 as [G1a G1b].
    apply orb_false_iff in G4. destruct G4 as [G4a G4b].
    apply orb_false_iff in G5. destruct G5 as [G5a G5b].
    split. { intros ds I. apply (existsb_false_In _ _ _ G1a I). }
    split. { intros t I. apply (existsb_false_In _ _ _ G1b I). }
    split. { intros iv v I E. pose proof (existsb_false_In _ _ _ G3 I) as G. cbv beta in G. rewrite E in G.
      apply negb_false_iff in G. auto. }
    split. { split. { apply bytes_eqb_neq. auto. } intro I. apply mem_bytes_In in I. congruence. }
    split. { intros t I M. pose proof (existsb_false_In _ _ _ G5a I) as G. cbv beta in G. apply mem_bytes_In in M. congruence. }
    intros d I M. pose proof (existsb_false_In _ _ _ G5b I) as G. cbv beta in G. apply mem_bytes_In in M. congruence.
  Qed.
End Facts.
