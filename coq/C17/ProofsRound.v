(* C17: convert (generate S) is equivalent to with_base S, for well-formed S outside the losses. *)
From Coq Require Import Lia Arith PeanoNat String.
From Gv Require Import lib.Bytes lib.Gql C17.Util C17.ValueSyntax C17.Base C17.Model C17.Spec
  C17.ProofsBase C17.ProofsValue C17.ProofsGen C17.ProofsShape C17.ProofsExact.
Open Scope N_scope.

Lemma cmap_ok : forall {A B} (f : A -> cres B) (g : A -> B) l, (forall x, In x l -> f x = COk (g x)) -> cmap f l = COk (map g l).
Proof.
  induction l; simpl; intros; auto. rewrite H; auto. simpl. rewrite IHl; auto.
Qed.

Lemma Forall2_map_l : forall {A C} (P : C -> A -> Prop) (f : A -> C) l,
    (forall a, In a l -> P (f a) a) -> Forall2 P (map f l) l.
Proof. induction l; simpl; intros; constructor; auto. Qed.

Definition conv_ok (S : schema) : Prop := convert_lossy S = [].

Lemma conv_ok_parts : forall S, conv_ok S -> forall t, In t (s_types S) -> one_of (td_dirs t) = false.
Proof.
  intros S C t I. unfold conv_ok, convert_lossy in C. apply if_nil in C. apply (existsb_false_In _ _ _ C I).
Qed.

(* plain reasons can be quoted again *)
Lemma plain_run : forall raw acc, existsb special_char raw = false -> contains_byte 10 raw = false ->
  quiet_run (LStr acc false) raw = Some (LStr (rev raw ++ acc) false).
Proof.
  induction raw; intros acc H1 H2; auto.
  simpl in H1. apply orb_false_iff in H1. destruct H1 as [Sa Sr].
  unfold contains_byte in H2. simpl in H2. apply orb_false_iff in H2. destruct H2 as [La Lr].
  unfold special_char in Sa. apply orb_false_iff in Sa. destruct Sa as [Sa S13].
  apply orb_false_iff in Sa. destruct Sa as [S34 S92].
  cbn [quiet_run quiet_step]. rewrite S34, S13, La, S92. cbn [orb].
  destruct ((a =? 32) || (a =? 9)); rewrite IHraw; auto; cbn [rev]; rewrite <- app_assoc; auto.
Qed.
Lemma plain_str_ok : forall raw, existsb special_char raw = false -> contains_byte 10 raw = false -> str_ok raw = true.
Proof. intros. unfold str_ok. rewrite plain_run; auto. Qed.

Lemma dep_of_deprecated_dir : forall raw blk,
  dep_of [{| d_name := #"deprecated"; d_args := [(#"reason", VStr raw blk)] |}]
  = match str_sem raw blk with Some s => Dep (Some s) | None => DepBad end.
Proof. reflexivity. Qed.

Lemma specified_of_dir : forall raw blk,
  specified_of [{| d_name := #"specifiedBy"; d_args := [(#"url", VStr raw blk)] |}]
  = match str_sem raw blk with Some s => Some (Some s) | None => None end.
Proof. reflexivity. Qed.

Section Round.
  Variable S : schema.
  Hypothesis WF : wf_schema S = true.
  Hypothesis GOK : gen_ok S.
  Hypothesis COK : conv_ok S.

  Notation W := (with_base S).
  Notation IDX := (idx S).
  Notation DDS := (dds S).

  Lemma import_type_ok : forall ty, (exists t, find_type (named_of ty) (s_types S ++ base_scalars) = Some t) ->
    import_type (typeref IDX ty) = COk ty.
  Proof.
    induction ty; intros [t F]; cbn [named_of] in F.
    - rewrite (typeref_named S _ _ F). destruct (td_kind t); reflexivity.
    - cbn [typeref import_type]. rewrite IHty; eauto.
    - cbn [typeref import_type]. rewrite IHty; eauto.
  Qed.

  Definition conv_iv (iv : inputvalue_def) : inputvalue_def :=
    {| iv_name := iv_name iv; iv_type := iv_type iv; iv_default := iv_default iv;
       iv_dirs := deprecated_dirs (fst (deprecation DDS (iv_dirs iv))) (snd (deprecation DDS (iv_dirs iv))) |}.

  Lemma import_input_ok : forall iv, iv_good S iv -> import_input (gen_input IDX DDS iv) = COk (conv_iv iv).
  Proof.
    intros iv [R [V D]]. unfold import_input, gen_input. cbn [ii_type ii_default ii_name ii_deprecated ii_reason].
    rewrite import_type_ok; auto. cbn [cbind]. unfold import_default.
    destruct (iv_default iv) as [v|] eqn:E; cbn [option_map cbind].
    - rewrite parse_print; auto. unfold conv_iv. rewrite E. reflexivity.
    - unfold conv_iv. rewrite E. reflexivity.
  Qed.

  Lemma cmap_map_ok : forall {A B C} (f : B -> cres C) (h : A -> B) (g : A -> C) l,
    (forall x, In x l -> f (h x) = COk (g x)) -> cmap f (map h l) = COk (map g l).
  Proof.
    induction l; simpl; intros; auto. rewrite H; auto. simpl. rewrite IHl; auto.
  Qed.

  Lemma import_inputs_ok : forall ivs, (forall iv, In iv ivs -> iv_good S iv) ->
    cmap import_input (map (gen_input IDX DDS) ivs) = COk (map conv_iv ivs).
  Proof. intros. apply cmap_map_ok. intros. apply import_input_ok. auto. Qed.

  (* --- deprecation through both directions --- *)
  Lemma default_text_ok : str_ok default_reason_text = true /\ contains_byte 10 default_reason_text = false
                          /\ unescape default_reason_text = default_reason_text.
  Proof. repeat split; reflexivity. Qed.

  Lemma dep_round : forall ds, dirs_good ds ->
    dep_eqb (dep_of (deprecated_dirs (fst (deprecation DDS ds)) (snd (deprecation DDS ds)))) (dep_of ds) = true.
  Proof.
    intros ds [Wf Sp]. unfold deprecation, dirs_wf, reason_of in *. rewrite find_dir_sp.
    unfold dep_of at 2.
    destruct (sp_dir #"deprecated" ds) as [d|]; [|reflexivity]. rewrite find_arg_sp.
    destruct (sp_arg #"reason" d) as [v|].
    - destruct v; try discriminate.
      2:{ cbn [fst snd]. rewrite (default_reason_base S GOK). reflexivity. }
      cbn [str_special] in Sp. cbn [value_content fst snd deprecated_dirs deprecated_directive].
      assert (Orig : str_sem raw block = Some raw).
      { unfold str_sem. destruct block; auto. rewrite Wf, unescape_id; auto. }
      rewrite Orig.
      assert (Conv : dep_of [{| d_name := #"deprecated"; d_args := [(#"reason", VStr raw (contains_byte 10 raw))] |}] = Dep (Some raw)).
      { rewrite dep_of_deprecated_dir. unfold str_sem. destruct (contains_byte 10 raw) eqn:L; auto.
        rewrite plain_str_ok, unescape_id; auto. }
      unfold deprecated_directive. rewrite Conv. cbn. apply bytes_eqb_refl.
    - cbn [fst snd]. rewrite (default_reason_base S GOK). reflexivity.
  Qed.

  (* --- fields --- *)
  Definition conv_f (f : field_def) : field_def :=
    {| fd_name := fd_name f; fd_args := map conv_iv (fd_args f); fd_type := fd_type f;
       fd_dirs := deprecated_dirs (fst (deprecation DDS (fd_dirs f))) (snd (deprecation DDS (fd_dirs f))) |}.

  Lemma import_field_ok : forall f,
    (exists t, find_type (named_of (fd_type f)) (s_types S ++ base_scalars) = Some t) ->
    (forall iv, In iv (fd_args f) -> iv_good S iv) ->
    import_field (gen_field IDX DDS f) = COk (conv_f f).
  Proof.
    intros f R G. unfold import_field, gen_field. cbn [if_type if_args if_name if_deprecated if_reason].
    rewrite import_type_ok; auto. cbn [cbind]. rewrite import_inputs_ok; auto.
  Qed.

  Lemma iv_equiv_conv : forall iv, dirs_good (iv_dirs iv) -> iv_equiv_b (conv_iv iv) iv = true.
  Proof.
    intros iv H. unfold iv_equiv_b, conv_iv. cbn [iv_type iv_default iv_dirs].
    rewrite ty_eqb_refl. replace (opt_value_eqb (iv_default iv) (iv_default iv)) with true.
    2:{ symmetry. apply opt_value_eqb_eq. auto. }
    rewrite dep_round; auto.
  Qed.

  Lemma ivs_equiv_conv : forall ivs, NoDup (map iv_name ivs) ->
    (forall iv, In iv ivs -> iv_good S iv) ->
    assoc_b iv_name iv_name iv_equiv_b (map conv_iv ivs) ivs = true.
  Proof.
    intros ivs ND H. apply Forall2_assoc_b.
    - rewrite map_map. auto.
    - apply Forall2_map_l. intros iv I. split; [reflexivity|]. apply iv_equiv_conv. apply (H iv I).
  Qed.

  Lemma fields_round : forall t, In t (s_types S) -> fields_wf S (td_fields t) = true ->
    cmap import_field (gen_fields IDX DDS (td_fields t)) = COk (map conv_f (td_fields t))
    /\ assoc_b fd_name fd_name fd_equiv_b (map conv_f (td_fields t)) (td_fields t) = true.
  Proof.
    intros t I FW. destruct (fields_wf_parts _ _ FW) as [_ [ND Ff]].
    rewrite (gen_fields_user S). 2:{ intros f If. destruct (fd_wf_parts _ _ (Ff f If)). auto. }
    split.
    - apply cmap_map_ok. intros f If. destruct (fd_wf_parts _ _ (Ff f If)) as [_ [R [A D]]].
      destruct (ivs_wf_parts _ _ A) as [_ Ai].
      apply import_field_ok. { eapply resolves_find; eauto. }
      intros iv Iv. apply (user_iv_good S GOK); auto. eapply in_all_input_values_arg; eauto.
    - apply Forall2_assoc_b. { rewrite map_map. auto. }
      apply Forall2_map_l. intros f If. split; [reflexivity|].
      destruct (fd_wf_parts _ _ (Ff f If)) as [_ [R [A D]]]. destruct (ivs_wf_parts _ _ A) as [NDa Ai].
      unfold fd_equiv_b, conv_f. cbn [fd_type fd_args fd_dirs]. rewrite ty_eqb_refl.
      rewrite ivs_equiv_conv; auto. 2:{ intros iv Iv. apply (user_iv_good S GOK); auto. eapply in_all_input_values_arg; eauto. }
      rewrite dep_round; auto. apply (user_dirs_good S GOK); auto. eapply in_deprecable_field; eauto.
  Qed.

  (* --- types --- *)
  Definition conv_t (t : type_def) : type_def :=
    match td_kind t with
    | KScalar => {| td_kind := KScalar; td_name := td_name t; td_implements := []; td_fields := []; td_members := [];
                    td_enum_values := []; td_input_fields := []; td_dirs := specified_dirs (specified_by (td_dirs t)) |}
    | KObject => {| td_kind := KObject; td_name := td_name t; td_implements := td_implements t;
                    td_fields := map conv_f (td_fields t); td_members := []; td_enum_values := [];
                    td_input_fields := []; td_dirs := [] |}
    | KInterface => {| td_kind := KInterface; td_name := td_name t; td_implements := td_implements t;
                       td_fields := map conv_f (td_fields t); td_members := []; td_enum_values := [];
                       td_input_fields := []; td_dirs := [] |}
    | KUnion => {| td_kind := KUnion; td_name := td_name t; td_implements := []; td_fields := [];
                   td_members := td_members t; td_enum_values := []; td_input_fields := []; td_dirs := [] |}
    | KEnum => {| td_kind := KEnum; td_name := td_name t; td_implements := []; td_fields := []; td_members := [];
                  td_enum_values := map (fun e => {| ev_name := ev_name e;
                                                     ev_dirs := deprecated_dirs (fst (deprecation DDS (ev_dirs e))) (snd (deprecation DDS (ev_dirs e))) |})
                                        (td_enum_values t);
                  td_input_fields := []; td_dirs := [] |}
    | KInputObject => {| td_kind := KInputObject; td_name := td_name t; td_implements := []; td_fields := [];
                         td_members := []; td_enum_values := []; td_input_fields := map conv_iv (td_input_fields t);
                         td_dirs := [] |}
    end.

  Lemma import_named_refs : forall k ns, k <> IK_LIST -> k <> IK_NON_NULL ->
    cmap import_named (map (named_ref k) ns) = COk ns.
  Proof.
    intros k ns H1 H2. rewrite (cmap_map_ok _ _ (fun n => n)). { rewrite map_id. auto. }
    intros n _. unfold import_named, named_ref. destruct k; try contradiction; reflexivity.
  Qed.

  Lemma conv_t_name : forall t, td_name (conv_t t) = td_name t.
  Proof. intros. unfold conv_t. destruct (td_kind t); reflexivity. Qed.

  Lemma specified_round : forall t, In t (s_types S) -> scalar_dirs_wf (td_dirs t) = true ->
    opt_opt_eqb (specified_of (specified_dirs (specified_by (td_dirs t)))) (specified_of (td_dirs t)) = true.
  Proof.
    intros t I Wf. destruct (gen_ok_parts S GOK) as [_ [Sp _]]. specialize (Sp t I).
    unfold specified_by, scalar_dirs_wf, url_of in *. rewrite find_dir_sp. unfold specified_of at 2.
    destruct (sp_dir #"specifiedBy" (td_dirs t)) as [d|]; [|reflexivity]. rewrite find_arg_sp.
    destruct (sp_arg #"url" d) as [v|]; try discriminate. destruct v; try discriminate.
    cbn [str_special] in Sp. cbn [value_content specified_dirs].
    assert (Orig : str_sem raw block = Some raw).
    { unfold str_sem. destruct block; auto. rewrite Wf, unescape_id; auto. }
    rewrite Orig, specified_of_dir. unfold str_sem. destruct (contains_byte 10 raw) eqn:L.
    - cbn. apply bytes_eqb_refl.
    - rewrite plain_str_ok, unescape_id; auto. cbn. apply bytes_eqb_refl.
  Qed.

  Lemma type_round : forall t, In t (s_types S) ->
    import_full_type (G1 S t) = COk [conv_t t] /\ td_equiv_b (conv_t t) t = true.
  Proof.
    intros t I. destruct (wf_parts S WF) as [_ [_ [T _]]]. specialize (T t I).
    pose proof (user_name_not_uu _ (td_wf_name _ _ T)) as U.
    pose proof (conv_ok_parts S COK) as NoOne.
    apply td_wf_cases in T. unfold G1, g1, gen_type, conv_t, import_full_type, td_equiv_b.
    destruct (td_kind t) eqn:K; rewrite ?U;
      cbn [hd it_kind it_name it_fields it_inputs it_interfaces it_enums it_possible it_specified
           td_kind td_name td_implements td_fields td_members td_enum_values td_input_fields td_dirs kind_eqb negb orb andb].
    - destruct T as [T1 [T2 [T3 [T4 [T5 T6]]]]]. rewrite T1, T2, T3, T4, T5. split; [reflexivity|].
      rewrite specified_round; auto.
    - destruct T as [T1 [T2 [T3 [T4 [T5 T6]]]]]. destruct (fields_round t I T3) as [F1 F2].
      rewrite F1. cbn [cbind]. rewrite import_named_refs; try discriminate. cbn [cbind].
      split; [reflexivity|]. rewrite F2, T4, T5, T6, !same_set_b_refl. reflexivity.
    - destruct T as [T1 [T2 [T3 [T4 [T5 T6]]]]]. destruct (fields_round t I T3) as [F1 F2].
      rewrite F1. cbn [cbind]. rewrite import_named_refs; try discriminate. cbn [cbind].
      split; [reflexivity|]. rewrite F2, T4, T5, T6, !same_set_b_refl. reflexivity.
    - destruct T as [T1 [T2 [T3 [T4 [T5 [T6 T7]]]]]]. rewrite import_named_refs; try discriminate. cbn [cbind].
      split; [reflexivity|]. rewrite T1, T2, T6, T7, !same_set_b_refl. reflexivity.
    - destruct T as [T1 [T2 [T3 [T4 [T5 T6]]]]]. split.
      + rewrite map_map. reflexivity.
      + rewrite T1, T2, T3, T6. cbn.
        replace (assoc_b ev_name ev_name ev_equiv_b _ (td_enum_values t)) with true; [reflexivity|].
        symmetry. apply Forall2_assoc_b. { rewrite map_map. cbn [ev_name]. apply nodup_b_NoDup. auto. }
        apply Forall2_map_l. intros e Ie. split; [reflexivity|]. rewrite forallb_forall in T5. specialize (T5 e Ie).
        unfold ev_wf in T5. andb_split T5. unfold ev_equiv_b. cbn [ev_dirs].
        apply dep_round. apply (user_dirs_good S GOK); auto. eapply in_deprecable_enum; eauto.
    - destruct T as [T1 [T2 [T3 [T4 T5]]]]. destruct (ivs_wf_parts _ _ T5) as [ND Ai].
      rewrite import_inputs_ok. 2:{ intros iv Iv. apply (user_iv_good S GOK); auto. eapply in_all_input_values_input; eauto. }
      cbn [cbind]. split; [reflexivity|]. rewrite T1, T2, T3, T4.
      rewrite ivs_equiv_conv; auto. 2:{ intros iv Iv. apply (user_iv_good S GOK); auto. eapply in_all_input_values_input; eauto. }
      unfold one_of at 1. cbn. rewrite (NoOne t I). reflexivity.
  Qed.

  (* --- directives --- *)
  Definition conv_d (d : directive_def) : directive_def :=
    {| dd_name := dd_name d; dd_args := map conv_iv (dd_args d); dd_locations := import_locations (dd_locations d);
       dd_repeatable := dd_repeatable d |}.

  Lemma directive_round_gen : forall d, NoDup (map iv_name (dd_args d)) -> (forall iv, In iv (dd_args d) -> iv_good S iv) ->
    locations_canonical (dd_locations d) = true ->
    import_directive (GD S d) = COk (conv_d d) /\ dd_equiv_b (conv_d d) d = true.
  Proof.
    intros d ND G LC. unfold import_directive, GD, gd. cbn [id_args id_name id_locations id_repeatable].
    rewrite import_inputs_ok; auto. cbn [cbind]. split; [reflexivity|].
    unfold dd_equiv_b, conv_d. cbn [dd_args dd_locations dd_repeatable]. rewrite ivs_equiv_conv; auto.
    destruct (canonical_locations _ LC) as [E _]. unfold import_locations. rewrite <- E.
    rewrite same_set_b_refl, Bool.eqb_reflx. reflexivity.
  Qed.

  Lemma user_directive_round : forall d, In d (s_directives S) ->
    import_directive (GD S d) = COk (conv_d d) /\ dd_equiv_b (conv_d d) d = true.
  Proof.
    intros d I. destruct (wf_parts S WF) as [_ [_ [_ [D _]]]]. specialize (D d I).
    unfold dd_wf in D. andb_split D. destruct (ivs_wf_parts _ _ D1) as [ND A].
    apply directive_round_gen; auto.
    intros iv Iv. apply (user_iv_good S GOK); auto. eapply in_all_input_values_dir; eauto.
  Qed.

  Lemma base_directive_round : forall d, In d base_public_directives ->
    import_directive (GD S d) = COk (conv_d d) /\ dd_equiv_b (conv_d d) d = true.
  Proof.
    intros d I. simpl in I.
    repeat (destruct I as [I|I]; [subst d; apply directive_round_gen;
      [ apply nodup_b_NoDup; reflexivity
      | intros iv Iv; simpl in Iv;
        repeat (destruct Iv as [Iv|Iv]; [subst iv; split; [apply (base_find S GOK); simpl; auto 10|];
                split; [intros v E; inversion E; reflexivity|]; split; reflexivity|]);
        contradiction
      | reflexivity ] |]).
    contradiction.
  Qed.

  Lemma cmap_app : forall {A B} (f : A -> cres B) l1 l2 r1 r2,
    cmap f l1 = COk r1 -> cmap f l2 = COk r2 -> cmap f (l1 ++ l2) = COk (r1 ++ r2).
  Proof.
    induction l1; simpl; intros.
    - inversion H; subst. auto.
    - destruct (f a); try discriminate. simpl in *. destruct (cmap f l1) eqn:E; try discriminate.
      simpl in H. inversion H; subst. rewrite (IHl1 l2 a1 r2); auto.
  Qed.

  Lemma concat_singletons : forall {A B} (g : A -> B) l, concat (map (fun x => [g x]) l) = map g l.
  Proof. induction l; simpl; auto. rewrite IHl. auto. Qed.

  Theorem roundtrip_ok : exists D C, generate S = Some D /\ convert D = COk C /\ schema_equiv_b C (with_base S) = true.
  Proof.
    destruct (generate_shape S WF GOK) as [tq [Fq Gen]]. eexists. eexists. split; [exact Gen|].
    destruct (wf_parts S WF) as [NDt [NDd [_ [_ [_ [RM RS]]]]]].
    unfold convert. cbn [i_types i_directives i_query i_mutation i_subscription].
    assert (Ty : cmap import_full_type (map (G1 S) (s_types S) ++ map scalar_itype base_scalar_names)
                 = COk (map (fun t => [conv_t t]) (s_types S) ++ map (fun t => [t]) base_scalars)).
    { apply cmap_app.
      - apply cmap_map_ok. intros t I. apply type_round. auto.
      - reflexivity. }
    rewrite Ty. cbn [cbind].
    assert (Di : cmap import_directive (map (GD S) (s_directives S) ++ map (GD S) base_public_directives)
                 = COk (map conv_d (s_directives S) ++ map conv_d base_public_directives)).
    { apply cmap_app; apply cmap_map_ok; intros d I; [apply user_directive_round|apply base_directive_round]; auto. }
    rewrite Di. cbn [cbind]. split; [reflexivity|].
    unfold schema_equiv_b. cbn [s_query s_mutation s_subscription s_types s_directives with_base].
    pose proof (find_type_In _ _ _ Fq) as [Iq Eq].
    assert (Nq : it_name (G1 S tq) = s_query S).
    { unfold G1. rewrite g1_name; auto. apply user_name_not_uu. apply (user_type_name_ok S WF). auto. }
    rewrite Nq, bytes_eqb_refl.
    assert (Root : forall n, opt_root_wf S n = true ->
                   match opt_root S n with Some t => nonempty_name (it_name t) | None => None end = n).
    { intros [n|] R; [|reflexivity]. unfold opt_root_wf, root_wf in R. unfold opt_root.
      destruct (find_type n (s_types S)) as [t|] eqn:F; [|discriminate].
      pose proof (find_type_In _ _ _ F) as [I E]. unfold G1. rewrite g1_name.
      2:{ apply user_name_not_uu. apply (user_type_name_ok S WF). auto. }
      rewrite E. unfold nonempty_name. destruct n; auto. exfalso.
      apply (user_name_nonempty (td_name t)). { apply (user_type_name_ok S WF). auto. } auto. }
    rewrite (Root _ RM), (Root _ RS). unfold opt_name_eqb. rewrite !opt_bytes_eqb_refl. cbn [andb].
    apply andb_true_iff. split.
    - rewrite concat_app, !concat_singletons. rewrite map_id.
      apply Forall2_assoc_b.
      + rewrite map_app, map_map. rewrite (map_ext _ td_name). 2:{ intro. apply conv_t_name. }
        apply (all_names_nodup S WF GOK).
      + apply Forall2_app.
        * apply Forall2_map_l. intros t I. split; [symmetry; apply conv_t_name|]. apply type_round. auto.
        * unfold base_scalars. repeat constructor.
    - rewrite <- map_app. apply Forall2_assoc_b.
      + rewrite map_map. cbn [dd_name conv_d]. rewrite map_app.
        destruct (gen_ok_parts S GOK) as [_ [_ [_ [_ [_ B]]]]].
        apply NoDup_app_intro; auto.
        * apply nodup_b_NoDup. reflexivity.
        * intros n I1 I2. apply in_map_iff in I1. destruct I1 as [d [E I]]. subst n. eapply B; eauto.
      + apply Forall2_map_l. intros d I. split; [reflexivity|]. apply in_app_or in I.
        destruct I; [apply user_directive_round|apply base_directive_round]; auto.
  Qed.
End Round.
