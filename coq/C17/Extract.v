From Gv Require Import lib.Bytes lib.Json lib.Gql C17.Util C17.ValueSyntax C17.Base C17.Model C17.Spec.
From Coq Require Import ZArith.
Require Import ExtrOcamlBasic.
Extraction Language OCaml.
Extraction "model.ml" merge_base_doc generate_doc idata_json convert decode_data
  described wf_schema lossy_clauses with_base schema_equiv_b schema_equiv_diag
  complete_exact_b complete_exact_diag typeref_faithful_b nontrivial_b Z.of_N.
