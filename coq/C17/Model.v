(* C17 model: introspection of a schema and its conversion back.
     merge_base  : asttransform.MergeDefinitionWithBaseSchema on the parsed document
     generate    : introspection.Generator.Generate on the merged document  (None = Go panics)
     idata_json  : encoding/json form of introspection.Data (struct order, omitempty)
     convert     : introspection.JsonConverter.GraphQLDocument on that data
   The input is the type system of the PARSED document (lib/Gql.v [schema]); the document order
   assumed is: schema block, directive definitions, type definitions (the harness prints SDL in
   this order).  A document WITHOUT a schema definition is the [blk = false] case of [merge_base_doc] /
   [generate_doc] (no roots declared; the default root operation type names apply).  Descriptions are out of scope (always "" here).  No proofs in this file. *)
From Coq Require Import String.
From Gv Require Import lib.Bytes lib.Json lib.Gql C17.Util C17.ValueSyntax C17.Base.
Open Scope N_scope.

(* ------------------------------------------------------------------ introspection.Data *)
Inductive ikind := IK_SCALAR | IK_LIST | IK_NON_NULL | IK_OBJECT | IK_ENUM | IK_INTERFACE | IK_UNION | IK_INPUT_OBJECT.
Inductive itref := ITRef (k : ikind) (n : option name) (of : option itref).
Record iinput := { ii_name : name; ii_type : itref; ii_default : option bytes; ii_deprecated : bool; ii_reason : option bytes }.
Record ifield := { if_name : name; if_args : list iinput; if_type : itref; if_deprecated : bool; if_reason : option bytes }.
Record ienum := { ie_name : name; ie_deprecated : bool; ie_reason : option bytes }.
Record itype := {
  it_kind : ikind; it_name : name; it_fields : list ifield; it_inputs : list iinput;
  it_interfaces : list itref; it_enums : list ienum; it_possible : list itref; it_specified : option bytes }.
Record idirective := { id_name : name; id_locations : list name; id_args : list iinput; id_repeatable : bool }.
Record idata := {
  i_query : itype; i_mutation : option itype; i_subscription : option itype;
  i_types : list itype; i_directives : list idirective }.

(* ------------------------------------------------------------------ merge with the base schema *)
Definition typename_field : field_def := Eval vm_compute in mk_fd "__typename" [] (nn (nm "String")).
Definition schema_field : field_def := Eval vm_compute in mk_fd "__schema" [] (nn (nm "__Schema")).
Definition type_field : field_def := Eval vm_compute in mk_fd "__type" [mk_iv "name" (nn (nm "String")) None] (nm "__Type").

Definition has_field (n : bytes) (fs : list field_def) : bool :=
  match find_field n fs with Some _ => true | None => false end.
Definition has_type (n : bytes) (ts : list type_def) : bool :=
  match find_type n ts with Some _ => true | None => false end.
Definition is_object (t : type_def) : bool := match td_kind t with KObject => true | _ => false end.
Definition has_object (n : bytes) (ts : list type_def) : bool :=
  existsb (fun t => is_object t && bytes_eqb (td_name t) n) ts.

Definition set_fields (t : type_def) (fs : list field_def) : type_def :=
  {| td_kind := td_kind t; td_name := td_name t; td_implements := td_implements t; td_fields := fs;
     td_members := td_members t; td_enum_values := td_enum_values t; td_input_fields := td_input_fields t;
     td_dirs := td_dirs t |}.

Definition add_introspection_fields (t : type_def) : type_def :=
  if is_object t then
    set_fields t (td_fields t
                  ++ (if has_field #"__schema" (td_fields t) then [] else [schema_field])
                  ++ (if has_field #"__type" (td_fields t) then [] else [type_field]))
  else t.  (* Go would index ObjectTypeDefinitions with a foreign ref here; outside wf *)

Fixpoint update_first (n : bytes) (f : type_def -> type_def) (ts : list type_def) : list type_def :=
  match ts with
  | [] => []
  | t :: r => if bytes_eqb n (td_name t) then f t :: r else t :: update_first n f r
  end.

Definition add_typename (sub_name : bytes) (t : type_def) : type_def :=
  match td_kind t with
  | KObject =>
    if bytes_eqb (td_name t) sub_name || bytes_eqb (td_name t) #"Subscription" then t
    else if has_field #"__typename" (td_fields t) then t
    else set_fields t (td_fields t ++ [typename_field])
  | KInterface =>
    if has_field #"__typename" (td_fields t) then t else set_fields t (td_fields t ++ [typename_field])
  | KUnion =>
    if has_field #"__typename" (td_fields t) then t else set_fields t [typename_field]
  | _ => t
  end.

(* addMissingRootOperationTypeDefinitions for mutation / subscription.  [blk] = the document has a schema
   definition: the default root operation type names (an object type named Mutation / Subscription) then do not
   apply (fix: root-operation-invented; before it they applied in both cases, i.e. the code behaved as [blk = false]
   on every document) *)
Definition root_or_default (blk : bool) (declared : option name) (def : bytes) (ts : list type_def) : option name :=
  match declared with
  | Some n => Some n
  | None => if blk then None else if has_object def ts then Some def else None
  end.

Definition merge_base_doc (blk : bool) (S : schema) : schema :=
  let ts0 := s_types S ++ base_scalars ++ base_meta_types in
  let target := if has_type (s_query S) ts0 then Some (s_query S)
                else if has_type #"Query" ts0 then Some #"Query" else None in
  let ts1 := match target with Some _ => ts0 | None => ts0 ++ [mk_object #"Query" []] end in
  let tname := match target with Some n => n | None => #"Query" end in
  let q := match s_query S with
           | [] => if has_object #"Query" ts1 then #"Query" else []
           | _ => s_query S
           end in
  let m := root_or_default blk (s_mutation S) #"Mutation" ts1 in
  let s := root_or_default blk (s_subscription S) #"Subscription" ts1 in
  let sub_name := match s with Some n => n | None => [] end in
  {| s_query := q; s_mutation := m; s_subscription := s;
     s_types := map (add_typename sub_name) (update_first tname add_introspection_fields ts1);
     s_directives := s_directives S ++ base_public_directives ++ base_internal_directives |}.
(* a document with a schema definition -- the form every theorem is about (a well-formed [schema] names its query root) *)
Definition merge_base (S : schema) : schema := merge_base_doc true S.

(* ------------------------------------------------------------------ generator *)
Inductive idx_entry := IdxType (k : type_kind) | IdxOther.

Definition dir_entry (d : directive_def) : name * idx_entry := (dd_name d, IdxOther).
Definition type_entry (t : type_def) : name * idx_entry := (td_name t, IdxType (td_kind t)).

(* ast.Index after parsing schema block + user definitions + base schema, plus imported nodes *)
Definition build_index (S M : schema) : list (name * idx_entry) :=
  let n0 := length (s_types S ++ base_scalars ++ base_meta_types) in
  (#"schema", IdxOther)
    :: map dir_entry (s_directives S) ++ map type_entry (s_types S)
    ++ map type_entry base_scalars ++ map dir_entry base_public_directives
    ++ map type_entry base_meta_types ++ map dir_entry base_internal_directives
    ++ map type_entry (skipn n0 (s_types M)).

Fixpoint idx_lookup (n : name) (idx : list (name * idx_entry)) : option idx_entry :=
  match idx with
  | [] => None
  | (k, e) :: r => if bytes_eqb n k then Some e else idx_lookup n r
  end.

Definition ikind_of (k : type_kind) : ikind :=
  match k with
  | KScalar => IK_SCALAR | KObject => IK_OBJECT | KInterface => IK_INTERFACE
  | KUnion => IK_UNION | KEnum => IK_ENUM | KInputObject => IK_INPUT_OBJECT
  end.

(* the kind of the first TYPE definition indexed under the name (namedTypeKind) *)
Fixpoint idx_kind (n : name) (idx : list (name * idx_entry)) : option type_kind :=
  match idx with
  | [] => None
  | (k, IdxType tk) :: r => if bytes_eqb n k then Some tk else idx_kind n r
  | (_, IdxOther) :: r => idx_kind n r
  end.

Fixpoint typeref (idx : list (name * idx_entry)) (t : ty) : itref :=
  match t with
  | TNamed n =>
    match idx_kind n idx with
    | Some k => ITRef (ikind_of k) (Some n) None
    | None =>
      match idx_lookup n idx with
      | Some _ => ITRef IK_SCALAR (Some n) None      (* only non-type nodes: zero value of __TypeKind *)
      | None => ITRef IK_SCALAR None None
      end
    end
  | TList t' => ITRef IK_LIST None (Some (typeref idx t'))
  | TNonNull t' => ITRef IK_NON_NULL None (Some (typeref idx t'))
  end.

Definition find_dir (n : bytes) (ds : list directive) : option directive :=
  find (fun d => bytes_eqb (d_name d) n) ds.
Definition find_arg (n : bytes) (args : list argument) : option value :=
  match find (fun a => bytes_eqb (fst a) n) args with Some a => Some (snd a) | None => None end.

Definition strip_sign (raw : bytes) : bytes := match raw with 45 :: r => r | _ => raw end.
(* ast.Document.ValueContentBytes; None = panic *)
Definition value_content (v : value) : option bytes :=
  match v with
  | VEnum n => Some n
  | VStr raw _ => Some raw
  | VInt raw => Some (strip_sign raw)
  | VFloat raw => Some (strip_sign raw)
  | _ => None
  end.

Definition default_reason (dds : list directive_def) : option bytes :=
  match find (fun iv => bytes_eqb (iv_name iv) #"reason")
             (flat_map (fun d => if bytes_eqb (dd_name d) #"deprecated" then dd_args d else []) dds) with
  | Some iv => match iv_default iv with
               | Some (VStr (c :: raw) _) => Some (c :: raw)
               | _ => None
               end
  | None => None
  end.

Definition deprecation (dds : list directive_def) (ds : list directive) : bool * option bytes :=
  match find_dir #"deprecated" ds with
  | None => (false, None)
  | Some d => (true, match find_arg #"reason" (d_args d) with
                     | Some VNull => default_reason dds   (* a null reason counts as absent *)
                     | Some v => value_content v          (* None here is a panic, see [dirs_panic] *)
                     | None => default_reason dds
                     end)
  end.
Definition dirs_panic (ds : list directive) : bool :=
  match find_dir #"deprecated" ds with
  | None => false
  | Some d => match find_arg #"reason" (d_args d) with
              | Some VNull => false
              | Some v => match value_content v with None => true | Some _ => false end
              | None => false
              end
  end.

Section Gen.
  Variable idx : list (name * idx_entry).
  Variable dds : list directive_def.      (* directive definitions of the merged document *)
  Variable all_types : list type_def.     (* types of the merged document *)

  Definition gen_input (iv : inputvalue_def) : iinput :=
    let d := deprecation dds (iv_dirs iv) in
    {| ii_name := iv_name iv; ii_type := typeref idx (iv_type iv);
       ii_default := option_map print_value (iv_default iv);
       ii_deprecated := fst d; ii_reason := snd d |}.

  Definition gen_field (f : field_def) : ifield :=
    let d := deprecation dds (fd_dirs f) in
    {| if_name := fd_name f; if_args := map gen_input (fd_args f); if_type := typeref idx (fd_type f);
       if_deprecated := fst d; if_reason := snd d |}.

  Definition gen_fields (fs : list field_def) : list ifield :=
    map gen_field (filter (fun f => negb (starts_uu (fd_name f))) fs).

  Definition gen_enum_value (e : enum_value_def) : ienum :=
    let d := deprecation dds (ev_dirs e) in
    {| ie_name := ev_name e; ie_deprecated := fst d; ie_reason := snd d |}.

  Definition named_ref (k : ikind) (n : name) : itref := ITRef k (Some n) None.

  Definition implementers (iface : name) : list itref :=
    flat_map (fun t => if is_object t && mem_bytes iface (td_implements t)
                       then [named_ref IK_OBJECT (td_name t)] else []) all_types.

  Definition specified_by (ds : list directive) : option bytes :=
    match find_dir #"specifiedBy" ds with
    | None => None
    | Some d => match find_arg #"url" (d_args d) with
                | Some v => value_content v
                | None => None
                end
    end.
  Definition specified_panic (ds : list directive) : bool :=
    match find_dir #"specifiedBy" ds with
    | None => false
    | Some d => match find_arg #"url" (d_args d) with
                | Some v => match value_content v with None => true | Some _ => false end
                | None => false
                end
    end.

  Definition empty_type (k : ikind) (n : name) : itype :=
    {| it_kind := k; it_name := n; it_fields := []; it_inputs := []; it_interfaces := [];
       it_enums := []; it_possible := []; it_specified := None |}.

  (* zero or one FullType per definition *)
  Definition gen_type (t : type_def) : list itype :=
    match td_kind t with
    | KScalar =>
      [ {| it_kind := IK_SCALAR; it_name := td_name t; it_fields := []; it_inputs := []; it_interfaces := [];
           it_enums := []; it_possible := []; it_specified := specified_by (td_dirs t) |} ]
    | KObject =>
      if starts_uu (td_name t) then [] else
      [ {| it_kind := IK_OBJECT; it_name := td_name t; it_fields := gen_fields (td_fields t); it_inputs := [];
           it_interfaces := map (named_ref IK_INTERFACE) (td_implements t);
           it_enums := []; it_possible := []; it_specified := None |} ]
    | KInterface =>
      if starts_uu (td_name t) then [] else
      [ {| it_kind := IK_INTERFACE; it_name := td_name t; it_fields := gen_fields (td_fields t); it_inputs := [];
           it_interfaces := map (named_ref IK_INTERFACE) (td_implements t);
           it_enums := []; it_possible := implementers (td_name t); it_specified := None |} ]
    | KUnion =>
      if starts_uu (td_name t) then [] else
      [ {| it_kind := IK_UNION; it_name := td_name t; it_fields := []; it_inputs := []; it_interfaces := [];
           it_enums := []; it_possible := map (named_ref IK_OBJECT) (td_members t); it_specified := None |} ]
    | KEnum =>
      if starts_uu (td_name t) then [] else
      [ {| it_kind := IK_ENUM; it_name := td_name t; it_fields := []; it_inputs := []; it_interfaces := [];
           it_enums := map gen_enum_value (td_enum_values t); it_possible := []; it_specified := None |} ]
    | KInputObject =>
      [ {| it_kind := IK_INPUT_OBJECT; it_name := td_name t; it_fields := []; it_inputs := map gen_input (td_input_fields t);
           it_interfaces := []; it_enums := []; it_possible := []; it_specified := None |} ]
    end.

  Definition gen_directive (d : directive_def) : list idirective :=
    if starts_uu (dd_name d) then [] else
    [ {| id_name := dd_name d; id_locations := dd_locations d; id_args := map gen_input (dd_args d);
         id_repeatable := dd_repeatable d |} ].

  Definition iv_panics (iv : inputvalue_def) : bool := dirs_panic (iv_dirs iv).
  Definition type_panics (t : type_def) : bool :=
    existsb (fun f => dirs_panic (fd_dirs f) || existsb iv_panics (fd_args f)) (td_fields t)
    || existsb iv_panics (td_input_fields t)
    || existsb (fun e => dirs_panic (ev_dirs e)) (td_enum_values t)
    || (match td_kind t with KScalar => specified_panic (td_dirs t) | _ => false end).
End Gen.

Definition type_by_name (n : name) (ts : list itype) : option itype :=
  find_last (fun t => bytes_eqb (it_name t) n) ts.

Definition generate_doc (blk : bool) (S : schema) : option idata :=
  let M := merge_base_doc blk S in
  let idx := build_index S M in
  let dds := s_directives M in
  let ts := flat_map (gen_type idx dds (s_types M)) (s_types M) in
  if existsb type_panics (s_types M) || existsb (fun d => existsb iv_panics (dd_args d)) dds then None else
  match s_query M with
  | [] => None    (* cannot happen after the merge; the zero FullType is not modelled *)
  | qn =>
    match type_by_name qn ts with
    | None => None   (* nil dereference *)
    | Some q =>
      Some {| i_query := q;
              i_mutation := match s_mutation M with Some n => type_by_name n ts | None => None end;
              i_subscription := match s_subscription M with Some n => type_by_name n ts | None => None end;
              i_types := ts;
              i_directives := flat_map (gen_directive idx dds) dds |}
    end
  end.

Definition generate (S : schema) : option idata := generate_doc true S.

(* ------------------------------------------------------------------ JSON form *)
Definition kind_name (k : ikind) : bytes :=
  match k with
  | IK_SCALAR => #"SCALAR" | IK_LIST => #"LIST" | IK_NON_NULL => #"NON_NULL" | IK_OBJECT => #"OBJECT"
  | IK_ENUM => #"ENUM" | IK_INTERFACE => #"INTERFACE" | IK_UNION => #"UNION" | IK_INPUT_OBJECT => #"INPUT_OBJECT"
  end.
Definition jopt (o : option bytes) : json := match o with Some s => JStr s | None => JNull end.

Fixpoint typeref_json (t : itref) : json :=
  match t with
  | ITRef k n o =>
    JObj [ (#"kind", JStr (kind_name k)); (#"name", jopt n);
           (#"ofType", match o with Some t' => typeref_json t' | None => JNull end);
           (#"__typename", JStr #"__Type") ]
  end.
Definition input_json (i : iinput) : json :=
  JObj [ (#"name", JStr (ii_name i)); (#"description", JStr []); (#"type", typeref_json (ii_type i));
         (#"defaultValue", jopt (ii_default i)); (#"isDeprecated", JBool (ii_deprecated i));
         (#"deprecationReason", jopt (ii_reason i)); (#"__typename", JStr #"__InputValue") ].
Definition field_json (f : ifield) : json :=
  JObj [ (#"name", JStr (if_name f)); (#"description", JStr []); (#"args", JArr (map input_json (if_args f)));
         (#"type", typeref_json (if_type f)); (#"isDeprecated", JBool (if_deprecated f));
         (#"deprecationReason", jopt (if_reason f)); (#"__typename", JStr #"__Field") ].
Definition enum_json (e : ienum) : json :=
  JObj [ (#"name", JStr (ie_name e)); (#"description", JStr []); (#"isDeprecated", JBool (ie_deprecated e));
         (#"deprecationReason", jopt (ie_reason e)); (#"__typename", JStr #"__EnumValue") ].
Definition type_json (t : itype) : json :=
  JObj ( [ (#"kind", JStr (kind_name (it_kind t))); (#"name", JStr (it_name t)); (#"description", JStr []) ]
         ++ (match it_fields t with [] => [] | fs => [ (#"fields", JArr (map field_json fs)) ] end)
         ++ [ (#"inputFields", JArr (map input_json (it_inputs t)));
              (#"interfaces", JArr (map typeref_json (it_interfaces t))) ]
         ++ (match it_enums t with [] => [] | es => [ (#"enumValues", JArr (map enum_json es)) ] end)
         ++ [ (#"possibleTypes", JArr (map typeref_json (it_possible t))); (#"__typename", JStr #"__Type") ]
         ++ (match it_specified t with Some u => [ (#"specifiedByURL", JStr u) ] | None => [] end) ).
Definition directive_json (d : idirective) : json :=
  JObj [ (#"name", JStr (id_name d)); (#"description", JStr []);
         (#"locations", JArr (map JStr (id_locations d))); (#"args", JArr (map input_json (id_args d)));
         (#"isRepeatable", JBool (id_repeatable d)); (#"__typename", JStr #"__Directive") ].
Definition idata_json (d : idata) : json :=
  JObj [ (#"__schema",
          JObj [ (#"queryType", type_json (i_query d));
                 (#"mutationType", match i_mutation d with Some t => type_json t | None => JNull end);
                 (#"subscriptionType", match i_subscription d with Some t => type_json t | None => JNull end);
                 (#"types", JArr (map type_json (i_types d)));
                 (#"directives", JArr (map directive_json (i_directives d)));
                 (#"__typename", JStr #"__Schema") ]) ].

(* ------------------------------------------------------------------ converter *)
Inductive cres (A : Type) := COk (a : A) | CErr | CPanic.
Arguments COk {A}. Arguments CErr {A}. Arguments CPanic {A}.
Definition cbind {A B} (x : cres A) (f : A -> cres B) : cres B :=
  match x with COk a => f a | CErr => CErr | CPanic => CPanic end.
Fixpoint cmap {A B} (f : A -> cres B) (l : list A) : cres (list B) :=
  match l with
  | [] => COk []
  | x :: r => cbind (f x) (fun y => cbind (cmap f r) (fun ys => COk (y :: ys)))
  end.

Fixpoint import_type (t : itref) : cres ty :=
  match t with
  | ITRef IK_LIST _ (Some t') => cbind (import_type t') (fun x => COk (TList x))
  | ITRef IK_LIST _ None => CPanic
  | ITRef IK_NON_NULL _ (Some t') => cbind (import_type t') (fun x => COk (TNonNull x))
  | ITRef IK_NON_NULL _ None => CPanic
  | ITRef _ (Some n) _ => COk (TNamed n)
  | ITRef _ None _ => CPanic
  end.

Definition import_default (d : option bytes) : cres (option value) :=
  match d with
  | None => COk None
  | Some s => match parse_text s with
              | POk v _ => COk (Some v)
              | PErr => CErr
              | PFuel => CPanic    (* never: see ProofsFuel.parse_text_fuel *)
              end
  end.

Definition deprecated_directive (reason : option bytes) : directive :=
  {| d_name := #"deprecated";
     d_args := match reason with
               | Some r => [ (#"reason", VStr r (contains_byte 10 r)) ]
               | None => []
               end |}.
Definition deprecated_dirs (dep : bool) (reason : option bytes) : list directive :=
  if dep then [deprecated_directive reason] else [].

Definition import_input (i : iinput) : cres inputvalue_def :=
  cbind (import_type (ii_type i)) (fun t =>
  cbind (import_default (ii_default i)) (fun d =>
  COk {| iv_name := ii_name i; iv_type := t; iv_default := d;
         iv_dirs := deprecated_dirs (ii_deprecated i) (ii_reason i) |})).

Definition import_field (f : ifield) : cres field_def :=
  cbind (import_type (if_type f)) (fun t =>
  cbind (cmap import_input (if_args f)) (fun args =>
  COk {| fd_name := if_name f; fd_args := args; fd_type := t;
         fd_dirs := deprecated_dirs (if_deprecated f) (if_reason f) |})).

Definition import_named (r : itref) : cres name :=
  cbind (import_type r) (fun t =>
    match t with TNamed n => COk n | _ => CErr (* a wrapped type in an implements/member list: not produced by generate *) end).

Definition blank (k : type_kind) (n : name) : type_def :=
  {| td_kind := k; td_name := n; td_implements := []; td_fields := []; td_members := [];
     td_enum_values := []; td_input_fields := []; td_dirs := [] |}.

Definition specified_dirs (url : option bytes) : list directive :=
  match url with
  | Some u => [ {| d_name := #"specifiedBy"; d_args := [ (#"url", VStr u (contains_byte 10 u)) ] |} ]
  | None => []
  end.

(* zero or one definition per FullType *)
Definition import_full_type (t : itype) : cres (list type_def) :=
  match it_kind t with
  | IK_SCALAR =>
    COk [ {| td_kind := KScalar; td_name := it_name t; td_implements := []; td_fields := []; td_members := [];
             td_enum_values := []; td_input_fields := []; td_dirs := specified_dirs (it_specified t) |} ]
  | IK_OBJECT =>
    cbind (cmap import_field (it_fields t)) (fun fs =>
    cbind (cmap import_named (it_interfaces t)) (fun is =>
    COk [ {| td_kind := KObject; td_name := it_name t; td_implements := is; td_fields := fs; td_members := [];
             td_enum_values := []; td_input_fields := []; td_dirs := [] |} ]))
  | IK_ENUM =>
    COk [ {| td_kind := KEnum; td_name := it_name t; td_implements := []; td_fields := []; td_members := [];
             td_enum_values := map (fun e => {| ev_name := ie_name e; ev_dirs := deprecated_dirs (ie_deprecated e) (ie_reason e) |}) (it_enums t);
             td_input_fields := []; td_dirs := [] |} ]
  | IK_INTERFACE =>
    cbind (cmap import_field (it_fields t)) (fun fs =>
    cbind (cmap import_named (it_interfaces t)) (fun is =>
    COk [ {| td_kind := KInterface; td_name := it_name t; td_implements := is; td_fields := fs; td_members := [];
             td_enum_values := []; td_input_fields := []; td_dirs := [] |} ]))
  | IK_UNION =>
    cbind (cmap import_named (it_possible t)) (fun ms =>
    COk [ {| td_kind := KUnion; td_name := it_name t; td_implements := []; td_fields := []; td_members := ms;
             td_enum_values := []; td_input_fields := []; td_dirs := [] |} ])
  | IK_INPUT_OBJECT =>
    cbind (cmap import_input (it_inputs t)) (fun ivs =>
    COk [ {| td_kind := KInputObject; td_name := it_name t; td_implements := []; td_fields := []; td_members := [];
             td_enum_values := []; td_input_fields := ivs; td_dirs := [] |} ])
  | IK_LIST | IK_NON_NULL => COk []
  end.

(* DirectiveLocations.SetFromRaw into a set, iterated in canonical order *)
Definition import_locations (ls : list name) : list name :=
  filter (fun l => mem_bytes l ls) all_locations.

Definition import_directive (d : idirective) : cres directive_def :=
  cbind (cmap import_input (id_args d)) (fun args =>
  COk {| dd_name := id_name d; dd_args := args; dd_locations := import_locations (id_locations d);
         dd_repeatable := id_repeatable d |}).

Definition nonempty_name (n : name) : option name := match n with [] => None | _ => Some n end.

Definition convert (d : idata) : cres schema :=
  cbind (cmap import_full_type (i_types d)) (fun tss =>
  cbind (cmap import_directive (i_directives d)) (fun dds =>
  COk {| s_query := it_name (i_query d);
         s_mutation := match i_mutation d with Some t => nonempty_name (it_name t) | None => None end;
         s_subscription := match i_subscription d with Some t => nonempty_name (it_name t) | None => None end;
         s_types := concat tss; s_directives := dds |})).

Definition roundtrip (S : schema) : option (cres schema) :=
  match generate S with Some d => Some (convert d) | None => None end.

(* ------------------------------------------------------------------ reading the JSON form back
   (json.Decoder into introspection.Data, for well-formed documents; used to run the spec
   checkers on the implementation's JSON; [ProofsJson.decode_encode] shows it inverts [idata_json]) *)
Definition jfield (k : bytes) (j : json) : json := match jget k j with Some v => v | None => JNull end.
Definition jstr_of (j : json) : bytes := match j with JStr s => s | _ => [] end.
Definition jopt_of (j : json) : option bytes := match j with JStr s => Some s | _ => None end.
Definition jbool_of (j : json) : bool := match j with JBool x => x | _ => false end.
Definition jlist_of (j : json) : list json := match j with JArr l => l | _ => [] end.

Definition kind_of_name (s : bytes) : ikind :=
  if bytes_eqb s #"LIST" then IK_LIST else if bytes_eqb s #"NON_NULL" then IK_NON_NULL
  else if bytes_eqb s #"OBJECT" then IK_OBJECT else if bytes_eqb s #"ENUM" then IK_ENUM
  else if bytes_eqb s #"INTERFACE" then IK_INTERFACE else if bytes_eqb s #"UNION" then IK_UNION
  else if bytes_eqb s #"INPUT_OBJECT" then IK_INPUT_OBJECT else IK_SCALAR.

Fixpoint decode_typeref (j : json) : itref :=
  match j with
  | JObj m =>
    ITRef (kind_of_name (jstr_of (jfield #"kind" j))) (jopt_of (jfield #"name" j))
          ((fix find (m : list (bytes * json)) : option itref :=
              match m with
              | [] => None
              | (k, v) :: r =>
                if bytes_eqb #"ofType" k then (match v with JObj _ => Some (decode_typeref v) | _ => None end)
                else find r
              end) m)
  | _ => ITRef IK_SCALAR None None
  end.
Definition decode_input (j : json) : iinput :=
  {| ii_name := jstr_of (jfield #"name" j); ii_type := decode_typeref (jfield #"type" j);
     ii_default := jopt_of (jfield #"defaultValue" j); ii_deprecated := jbool_of (jfield #"isDeprecated" j);
     ii_reason := jopt_of (jfield #"deprecationReason" j) |}.
Definition decode_field (j : json) : ifield :=
  {| if_name := jstr_of (jfield #"name" j); if_args := map decode_input (jlist_of (jfield #"args" j));
     if_type := decode_typeref (jfield #"type" j); if_deprecated := jbool_of (jfield #"isDeprecated" j);
     if_reason := jopt_of (jfield #"deprecationReason" j) |}.
Definition decode_enum (j : json) : ienum :=
  {| ie_name := jstr_of (jfield #"name" j); ie_deprecated := jbool_of (jfield #"isDeprecated" j);
     ie_reason := jopt_of (jfield #"deprecationReason" j) |}.
Definition decode_type (j : json) : itype :=
  {| it_kind := kind_of_name (jstr_of (jfield #"kind" j)); it_name := jstr_of (jfield #"name" j);
     it_fields := map decode_field (jlist_of (jfield #"fields" j));
     it_inputs := map decode_input (jlist_of (jfield #"inputFields" j));
     it_interfaces := map decode_typeref (jlist_of (jfield #"interfaces" j));
     it_enums := map decode_enum (jlist_of (jfield #"enumValues" j));
     it_possible := map decode_typeref (jlist_of (jfield #"possibleTypes" j));
     it_specified := jopt_of (jfield #"specifiedByURL" j) |}.
Definition decode_directive (j : json) : idirective :=
  {| id_name := jstr_of (jfield #"name" j); id_locations := map jstr_of (jlist_of (jfield #"locations" j));
     id_args := map decode_input (jlist_of (jfield #"args" j)); id_repeatable := jbool_of (jfield #"isRepeatable" j) |}.
Definition decode_opt_type (j : json) : option itype := match j with JObj _ => Some (decode_type j) | _ => None end.
Definition decode_data (j : json) : option idata :=
  match jget #"__schema" j with
  | Some (JObj m) =>
    let s := JObj m in
    Some {| i_query := decode_type (jfield #"queryType" s);
            i_mutation := decode_opt_type (jfield #"mutationType" s);
            i_subscription := decode_opt_type (jfield #"subscriptionType" s);
            i_types := map decode_type (jlist_of (jfield #"types" s));
            i_directives := map decode_directive (jlist_of (jfield #"directives" s)) |}
  | _ => None
  end.
