(* C17: example and counter-example schemas (all facts here are closed computations). *)
From Coq Require Import String.
From Gv Require Import lib.Bytes lib.Gql C17.Util C17.ValueSyntax C17.Base C17.Model C17.ModelV0 C17.Spec.
Open Scope N_scope.
Local Open Scope string_scope.

Definition dir0 (n : string) : directive := {| d_name := blit n; d_args := [] |}.
Definition dir1 (n a : string) (v : value) : directive := {| d_name := blit n; d_args := [(blit a, v)] |}.
Definition str (s : string) : value := VStr (blit s) false.
Definition with_dirs_f (f : field_def) (ds : list directive) : field_def :=
  {| fd_name := fd_name f; fd_args := fd_args f; fd_type := fd_type f; fd_dirs := ds |}.
Definition with_dirs_iv (iv : inputvalue_def) (ds : list directive) : inputvalue_def :=
  {| iv_name := iv_name iv; iv_type := iv_type iv; iv_default := iv_default iv; iv_dirs := ds |}.
Definition mk_type (k : type_kind) (n : string) (impl : list string) (fs : list field_def) (mem : list string)
           (evs : list enum_value_def) (ins : list inputvalue_def) (ds : list directive) : type_def :=
  {| td_kind := k; td_name := blit n; td_implements := map blit impl; td_fields := fs; td_members := map blit mem;
     td_enum_values := evs; td_input_fields := ins; td_dirs := ds |}.
Definition ev (n : string) (ds : list directive) : enum_value_def := {| ev_name := blit n; ev_dirs := ds |}.
Definition mk_schema (ts : list type_def) (ds : list directive_def) : schema :=
  {| s_query := blit "Query"; s_mutation := None; s_subscription := None; s_types := ts; s_directives := ds |}.
Definition query_only : type_def := mk_type KObject "Query" [] [mk_fd "x" [] (nm "Int")] [] [] [] [].

(* the non-trivial example: every kind of type, an interface, depth-3 wrapping, defaults of every value kind,
   deprecations with and without reason, a custom directive with two locations *)
Definition ex_clean : schema := Eval vm_compute in
  mk_schema [
    mk_type KScalar "Url" [] [] [] [] [] [];
    mk_type KEnum "E" [] [] [] [ev "A" []; ev "B" [dir0 "deprecated"]; ev "C" [dir1 "deprecated" "reason" (str "use A")]] [] [];
    mk_type KInputObject "In" [] [] [] []
      [ mk_iv "a" (nm "String") (Some (str "x\""y")); mk_iv "b" (ls (nn (nm "Int"))) (Some (VList [VInt (blit "1"); VInt (blit "-2")]));
        mk_iv "c" (nm "E") (Some (VEnum (blit "A"))); mk_iv "d" (nm "Float") (Some (VFloat (blit "-1.5e3")));
        mk_iv "e" (nm "Boolean") (Some (VBool true)); mk_iv "f" (nm "In") (Some VNull);
        mk_iv "g" (nm "String") (Some (VStr (blit "has ""quote"" inside") true)) ] [];
    mk_type KInterface "Node" [] [mk_fd "id" [] (nn (nm "ID"))] [] [] [] [];
    mk_type KObject "Item" ["Node"] [mk_fd "id" [] (nn (nm "ID")); mk_fd "kind" [] (nm "E"); mk_fd "home" [] (nm "Url")] [] [] [] [dir0 "tag"];
    mk_type KUnion "U" [] [] ["Item"; "Query"] [] [] [];
    mk_type KObject "Query" ["Node"]
      [ mk_fd "id" [] (nn (nm "ID"));
        with_dirs_f (mk_fd "items"
           [ mk_iv "first" (nm "Int") (Some (VInt (blit "10")));
             mk_iv "filter" (nm "In") (Some (VObj [(blit "a", str "q"); (blit "b", VList [VInt (blit "1")]); (blit "f", VObj [])])) ]
           (nn (ls (ls (nn (nm "Item")))))) [dir1 "deprecated" "reason" (str "old, see items2")];
        mk_fd "any" [] (nm "U") ] [] [] [] [] ]
    [ mk_dd "tag" [mk_iv "n" (nm "Int") (Some (VInt (blit "3")))] ["OBJECT"; "FIELD_DEFINITION"] false ].

(* --- one witness per construct outside the claims --- *)
Definition w_interface_implements : schema := Eval vm_compute in
  mk_schema [ mk_type KInterface "A" [] [mk_fd "x" [] (nm "Int")] [] [] [] [];
              mk_type KInterface "B" ["A"] [mk_fd "x" [] (nm "Int")] [] [] [] [];
              mk_type KObject "Query" ["B"; "A"] [mk_fd "x" [] (nm "Int")] [] [] [] [] ] [].
Definition w_repeatable : schema := Eval vm_compute in
  mk_schema [query_only] [mk_dd "r" [] ["FIELD_DEFINITION"] true].
Definition w_inputvalue_deprecated : schema := Eval vm_compute in
  mk_schema [ mk_type KObject "Query" [] [mk_fd "f" [with_dirs_iv (mk_iv "a" (nm "Int") None) [dir0 "deprecated"]] (nm "Int")] [] [] [] [] ] [].
Definition w_specified_by : schema := Eval vm_compute in
  mk_schema [ mk_type KScalar "Url" [] [] [] [] [] [dir1 "specifiedBy" "url" (str "https://example.com/url")]; query_only ] [].
Definition w_one_of : schema := Eval vm_compute in
  mk_schema [ mk_type KInputObject "In" [] [] [] [] [mk_iv "a" (nm "Int") None; mk_iv "b" (nm "String") None] [dir0 "oneOf"];
              mk_type KObject "Query" [] [mk_fd "f" [mk_iv "i" (nm "In") None] (nm "Int")] [] [] [] [] ] [].
Definition w_reason_escapes : schema := Eval vm_compute in
  mk_schema [ mk_type KObject "Query" [] [with_dirs_f (mk_fd "x" [] (nm "Int")) [dir1 "deprecated" "reason" (str "use \""y\""")]] [] [] [] [] ] [].
Definition w_reason_block_quote : schema := Eval vm_compute in
  mk_schema [ mk_type KObject "Query" [] [with_dirs_f (mk_fd "x" [] (nm "Int")) [dir1 "deprecated" "reason" (VStr (blit "use ""y"" now") true)]] [] [] [] [] ] [].
Definition w_reason_null : schema := Eval vm_compute in
  mk_schema [ mk_type KObject "Query" [] [with_dirs_f (mk_fd "x" [] (nm "Int")) [dir1 "deprecated" "reason" VNull]] [] [] [] [] ] [].
Definition w_block_trailing_quote : schema := Eval vm_compute in
  mk_schema [ mk_type KObject "Query" [] [mk_fd "f" [mk_iv "a" (nm "String") (Some (VStr (blit "say ""hi""") true))] (nm "Int")] [] [] [] [] ] [].
Definition w_name_collision : schema := Eval vm_compute in
  mk_schema [ mk_type KInterface "Node" [] [mk_fd "id" [] (nm "ID")] [] [] [] [];
              mk_type KObject "Query" ["Node"] [mk_fd "id" [] (nm "ID"); mk_fd "node" [] (nn (ls (nm "Node")))] [] [] [] [] ]
            [mk_dd "Node" [] ["OBJECT"] false].
Definition w_builtin_redeclared : schema := Eval vm_compute in
  mk_schema [ mk_type KScalar "Int" [] [] [] [] [] []; query_only ] [].
Definition w_root_invented : schema := Eval vm_compute in
  mk_schema [ query_only; mk_type KObject "Mutation" [] [mk_fd "m" [] (nm "Int")] [] [] [] [] ] [].

Definition roundtrip_b (S : schema) : bool :=
  match generate S with
  | Some D => match convert D with COk C => schema_equiv_b C (with_base S) | _ => false end
  | None => false
  end.
Definition exact_of_generate_b (S : schema) : bool :=
  match generate S with Some D => complete_exact_b S D | None => false end.
Definition typerefs_of_generate_b (S : schema) : bool :=
  match generate S with Some D => typeref_faithful_b S D | None => false end.

(* the same checks on the functions as they were before the repairs (ModelV0.v) *)
Definition roundtrip_b_v0 (S : schema) : bool :=
  match generate_v0 S with
  | Some D => match convert_v0 D with COk C => schema_equiv_b C (with_base S) | _ => false end
  | None => false
  end.
Definition exact_of_generate_b_v0 (S : schema) : bool :=
  match generate_v0 S with Some D => complete_exact_b S D | None => false end.
Definition typerefs_of_generate_b_v0 (S : schema) : bool :=
  match generate_v0 S with Some D => typeref_faithful_b S D | None => false end.

(* ... and on the merge as it was before fix root-operation-invented (today's generator and converter) *)
Definition roundtrip_b_v1 (S : schema) : bool :=
  match generate_v1 S with
  | Some D => match convert D with COk C => schema_equiv_b C (with_base S) | _ => false end
  | None => false
  end.
Definition exact_of_generate_b_v1 (S : schema) : bool :=
  match generate_v1 S with Some D => complete_exact_b S D | None => false end.

Ltac vm := vm_compute; repeat split; reflexivity.

Lemma ex_clean_ok :
  wf_schema ex_clean = true /\ lossy_clauses ex_clean = [] /\ nontrivial_b ex_clean = true
  /\ roundtrip_b ex_clean = true /\ exact_of_generate_b ex_clean = true /\ typerefs_of_generate_b ex_clean = true.
Proof. vm. Qed.

(* --- repaired: the statement about the pre-fix functions is historical; today the schema is inside the claims --- *)
Lemma w_interface_implements_ok :
  wf_schema w_interface_implements = true /\ roundtrip_b_v0 w_interface_implements = false
  /\ lossy_clauses w_interface_implements = [] /\ roundtrip_b w_interface_implements = true.
Proof. vm. Qed.
Lemma w_repeatable_ok :
  wf_schema w_repeatable = true /\ roundtrip_b_v0 w_repeatable = false
  /\ lossy_clauses w_repeatable = [] /\ roundtrip_b w_repeatable = true.
Proof. vm. Qed.
Lemma w_inputvalue_deprecated_ok :
  wf_schema w_inputvalue_deprecated = true /\ roundtrip_b_v0 w_inputvalue_deprecated = false
  /\ lossy_clauses w_inputvalue_deprecated = [] /\ roundtrip_b w_inputvalue_deprecated = true.
Proof. vm. Qed.
Lemma w_specified_by_ok :
  wf_schema w_specified_by = true /\ roundtrip_b_v0 w_specified_by = false
  /\ lossy_clauses w_specified_by = [] /\ roundtrip_b w_specified_by = true.
Proof. vm. Qed.
Lemma w_one_of_ok :
  wf_schema w_one_of = true /\ lossy_clauses w_one_of = [#"one-of"] /\ roundtrip_b w_one_of = false.
Proof. vm. Qed.
Lemma w_reason_escapes_ok :
  wf_schema w_reason_escapes = true /\ lossy_clauses w_reason_escapes = [#"string-escapes"]
  /\ exact_of_generate_b w_reason_escapes = false /\ roundtrip_b w_reason_escapes = true.
Proof. vm. Qed.
Lemma w_reason_block_quote_ok :
  wf_schema w_reason_block_quote = true /\ lossy_clauses w_reason_block_quote = [#"string-escapes"]
  /\ roundtrip_b w_reason_block_quote = false.
Proof. vm. Qed.
Lemma w_reason_null_ok :
  wf_schema w_reason_null = true /\ generate_v0 w_reason_null = None
  /\ lossy_clauses w_reason_null = [] /\ exact_of_generate_b w_reason_null = true /\ roundtrip_b w_reason_null = true.
Proof. vm. Qed.
(* repaired (ast.Document.PrintValue): historically the printed text of a block string ending in a quote read back
   without that quote; today a line terminator separates the content from the closing delimiter and the schema is
   inside the claims *)
Definition v_block_trailing_quote : value := Eval vm_compute in VStr (blit "say ""hi""") true.
Lemma w_block_trailing_quote_ok :
  parse_text (print_string_v0 (blit "say ""hi""") true) = POk (VStr (blit "say ""hi") true) [TStr [] false]
  /\ value_ok v_block_trailing_quote = true /\ parse_text (print_value v_block_trailing_quote) = POk v_block_trailing_quote []
  /\ wf_schema w_block_trailing_quote = true /\ lossy_clauses w_block_trailing_quote = []
  /\ exact_of_generate_b w_block_trailing_quote = true /\ roundtrip_b w_block_trailing_quote = true.
Proof. vm. Qed.
Lemma w_name_collision_ok :
  wf_schema w_name_collision = true
  /\ typerefs_of_generate_b_v0 w_name_collision = false /\ exact_of_generate_b_v0 w_name_collision = false
  /\ lossy_clauses w_name_collision = [] /\ typerefs_of_generate_b w_name_collision = true
  /\ exact_of_generate_b w_name_collision = true /\ roundtrip_b w_name_collision = true.
Proof. vm. Qed.
Lemma w_builtin_redeclared_ok :
  wf_schema w_builtin_redeclared = true /\ lossy_clauses w_builtin_redeclared = [#"builtin-redeclared"]
  /\ exact_of_generate_b w_builtin_redeclared = false /\ roundtrip_b w_builtin_redeclared = false.
Proof. vm. Qed.
(* repaired: historical statement about the pre-fix merge; today the schema is inside the claims *)
Lemma w_root_invented_ok :
  wf_schema w_root_invented = true
  /\ exact_of_generate_b_v1 w_root_invented = false /\ roundtrip_b_v1 w_root_invented = false
  /\ lossy_clauses w_root_invented = [] /\ exact_of_generate_b w_root_invented = true /\ roundtrip_b w_root_invented = true.
Proof. vm. Qed.

Lemma roundtrip_refuted_proof : exists S, wf_schema S = true /\ roundtrip_b S = false.
Proof. exists w_one_of. split; apply w_one_of_ok. Qed.
Lemma complete_exact_refuted_proof : exists S, wf_schema S = true /\ exact_of_generate_b S = false.
Proof. exists w_builtin_redeclared. split; apply w_builtin_redeclared_ok. Qed.
