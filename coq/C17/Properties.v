(* C17 property theorems: statements only; every proof is [exact lemma]. *)
From Coq Require Import String.
From Gv Require Import lib.Bytes lib.Gql C17.Util C17.ValueSyntax C17.Base C17.Model C17.ModelV0 C17.Spec
  C17.ProofsValue C17.ProofsFuel C17.ProofsJson C17.ProofsSpec C17.ProofsRoots C17.ProofsMain C17.Witness.

(* the theorems' hypotheses are satisfiable by a non-trivial schema (all type kinds, an interface,
   wrapping depth 3, default values of every kind, deprecations), on which both claims hold *)
Theorem c17_example :
  wf_schema ex_clean = true /\ lossy_clauses ex_clean = [] /\ nontrivial_b ex_clean = true
  /\ roundtrip_b ex_clean = true /\ exact_of_generate_b ex_clean = true /\ typerefs_of_generate_b ex_clean = true.
Proof. exact ex_clean_ok. Qed.
Print Assumptions c17_example.

(* ---- round trip: generate, then convert, gives an equivalent schema ---- *)
Theorem c17_roundtrip_partial : forall S, wf_schema S = true -> lossy_clauses S = [] ->
  exists D C, generate S = Some D /\ convert D = COk C /\ schema_equiv C (with_base S).
Proof. exact roundtrip_partial_proof. Qed.
Print Assumptions c17_roundtrip_partial.

(* ... and fails for each excluded construct taken alone (the full statement is false).  The four
   converter losses interface-implements / repeatable / inputvalue-deprecated / specified-by have been repaired:
   their theorems below are HISTORICAL statements about the pre-fix converter (ModelV0.convert_v0) together
   with the fact that the repaired converter round-trips the witness. *)
Theorem c17_roundtrip_refuted : exists S, wf_schema S = true /\ roundtrip_b S = false.
Proof. exact roundtrip_refuted_proof. Qed.
Print Assumptions c17_roundtrip_refuted.

Theorem c17_roundtrip_refuted_interface_implements :
  wf_schema w_interface_implements = true /\ roundtrip_b_v0 w_interface_implements = false
  /\ lossy_clauses w_interface_implements = [] /\ roundtrip_b w_interface_implements = true.
Proof. exact w_interface_implements_ok. Qed.
Print Assumptions c17_roundtrip_refuted_interface_implements.

Theorem c17_roundtrip_refuted_repeatable :
  wf_schema w_repeatable = true /\ roundtrip_b_v0 w_repeatable = false
  /\ lossy_clauses w_repeatable = [] /\ roundtrip_b w_repeatable = true.
Proof. exact w_repeatable_ok. Qed.
Print Assumptions c17_roundtrip_refuted_repeatable.

Theorem c17_roundtrip_refuted_inputvalue_deprecated :
  wf_schema w_inputvalue_deprecated = true /\ roundtrip_b_v0 w_inputvalue_deprecated = false
  /\ lossy_clauses w_inputvalue_deprecated = [] /\ roundtrip_b w_inputvalue_deprecated = true.
Proof. exact w_inputvalue_deprecated_ok. Qed.
Print Assumptions c17_roundtrip_refuted_inputvalue_deprecated.

Theorem c17_roundtrip_refuted_specified_by :
  wf_schema w_specified_by = true /\ roundtrip_b_v0 w_specified_by = false
  /\ lossy_clauses w_specified_by = [] /\ roundtrip_b w_specified_by = true.
Proof. exact w_specified_by_ok. Qed.
Print Assumptions c17_roundtrip_refuted_specified_by.

Theorem c17_roundtrip_refuted_one_of :
  wf_schema w_one_of = true /\ lossy_clauses w_one_of = [#"one-of"] /\ roundtrip_b w_one_of = false.
Proof. exact w_one_of_ok. Qed.
Print Assumptions c17_roundtrip_refuted_one_of.

Theorem c17_roundtrip_refuted_reason_block_quote :
  wf_schema w_reason_block_quote = true /\ lossy_clauses w_reason_block_quote = [#"string-escapes"]
  /\ roundtrip_b w_reason_block_quote = false.
Proof. exact w_reason_block_quote_ok. Qed.
Print Assumptions c17_roundtrip_refuted_reason_block_quote.

(* ---- exactness of the generated introspection data ---- *)
Theorem c17_complete_exact_partial : forall S, wf_schema S = true -> generate_lossy S = [] ->
  exists D, generate S = Some D /\ complete_exact_b S D = true.
Proof. exact complete_exact_partial_proof. Qed.
Print Assumptions c17_complete_exact_partial.

Theorem c17_complete_exact_refuted : exists S, wf_schema S = true /\ exact_of_generate_b S = false.
Proof. exact complete_exact_refuted_proof. Qed.
Print Assumptions c17_complete_exact_refuted.

Theorem c17_complete_exact_refuted_reason_escapes :
  wf_schema w_reason_escapes = true /\ lossy_clauses w_reason_escapes = [#"string-escapes"]
  /\ exact_of_generate_b w_reason_escapes = false /\ roundtrip_b w_reason_escapes = true.
Proof. exact w_reason_escapes_ok. Qed.
Print Assumptions c17_complete_exact_refuted_reason_escapes.

(* HISTORICAL: before ast.Document.PrintValue separated a trailing quote / backslash of a block string from the
   closing delimiter, a block string default ending in a quote (say QUOTE hi QUOTE) was reported as a text which reads
   back as another value, without the last quote (print_string_v0); today it reads back as itself and the witness is
   inside the claims *)
Theorem c17_complete_exact_refuted_block_string_reprint :
  parse_text (print_string_v0 (blit "say ""hi""") true) = POk (VStr (blit "say ""hi") true) [TStr [] false]
  /\ value_ok v_block_trailing_quote = true /\ parse_text (print_value v_block_trailing_quote) = POk v_block_trailing_quote []
  /\ wf_schema w_block_trailing_quote = true /\ lossy_clauses w_block_trailing_quote = []
  /\ exact_of_generate_b w_block_trailing_quote = true /\ roundtrip_b w_block_trailing_quote = true.
Proof. exact w_block_trailing_quote_ok. Qed.
Print Assumptions c17_complete_exact_refuted_block_string_reprint.

Theorem c17_complete_exact_refuted_builtin_redeclared :
  wf_schema w_builtin_redeclared = true /\ lossy_clauses w_builtin_redeclared = [#"builtin-redeclared"]
  /\ exact_of_generate_b w_builtin_redeclared = false /\ roundtrip_b w_builtin_redeclared = false.
Proof. exact w_builtin_redeclared_ok. Qed.
Print Assumptions c17_complete_exact_refuted_builtin_redeclared.

(* HISTORICAL: before fix root-operation-invented the merge named an object type called Mutation / Subscription
   a root although the schema definition did not (generate_v1 = today's generator on that merge) *)
Theorem c17_complete_exact_refuted_root_invented :
  wf_schema w_root_invented = true
  /\ exact_of_generate_b_v1 w_root_invented = false /\ roundtrip_b_v1 w_root_invented = false
  /\ lossy_clauses w_root_invented = [] /\ exact_of_generate_b w_root_invented = true /\ roundtrip_b w_root_invented = true.
Proof. exact w_root_invented_ok. Qed.
Print Assumptions c17_complete_exact_refuted_root_invented.

(* ---- documents WITHOUT a schema definition (they declare no roots): the merge gives them the default root
        operation types (object types named Query / Mutation / Subscription), which is what the GraphQL
        specification says they describe ([described false S]); round trip and exactness follow for them ---- *)
Theorem c17_no_schema_definition_default_roots : forall S,
  s_query S = [] -> s_mutation S = None -> s_subscription S = None ->
  wf_schema (described false S) = true ->
  generate_doc false S = generate (described false S)
  /\ (lossy_clauses (described false S) = [] ->
      exists D C, generate_doc false S = Some D /\ convert D = COk C /\ schema_equiv C (with_base (described false S)))
  /\ (generate_lossy (described false S) = [] ->
      exists D, generate_doc false S = Some D /\ complete_exact_b (described false S) D = true).
Proof. exact no_schema_definition_proof. Qed.
Print Assumptions c17_no_schema_definition_default_roots.

Theorem c17_no_schema_definition_example :
  wf_schema (described false ex_no_schema_definition) = true
  /\ s_mutation (described false ex_no_schema_definition) = Some #"Mutation"
  /\ match generate_doc false ex_no_schema_definition with
     | Some d => complete_exact_b (described false ex_no_schema_definition) d
     | None => false
     end = true.
Proof. exact ex_no_schema_definition_ok. Qed.
Print Assumptions c17_no_schema_definition_example.

(* HISTORICAL: the pre-fix generator was not total on valid schemas: @deprecated(reason: null) *)
Theorem c17_generate_total_refuted :
  wf_schema w_reason_null = true /\ generate_v0 w_reason_null = None
  /\ lossy_clauses w_reason_null = [] /\ exact_of_generate_b w_reason_null = true /\ roundtrip_b w_reason_null = true.
Proof. exact w_reason_null_ok. Qed.
Print Assumptions c17_generate_total_refuted.

(* ---- type references: wrappers of every depth, in order, and the leaf kind ---- *)
Theorem c17_typeref_faithful_partial : forall S t,
  (exists d, find_type (named_of t) (s_types (with_base S)) = Some d) ->
  typeref_matches (with_base S) t (typeref (build_index S (merge_base S)) t).
Proof. exact typeref_faithful_proof. Qed.
Print Assumptions c17_typeref_faithful_partial.

Theorem c17_typeref_faithful_data : forall S, wf_schema S = true -> generate_lossy S = [] ->
  exists D, generate S = Some D /\ typeref_faithful_b S D = true.
Proof. exact typeref_data_proof. Qed.
Print Assumptions c17_typeref_faithful_data.

(* HISTORICAL: the pre-fix generator took the leaf kind from the first node of ANY kind under the name *)
Theorem c17_typeref_faithful_refuted :
  wf_schema w_name_collision = true
  /\ typerefs_of_generate_b_v0 w_name_collision = false /\ exact_of_generate_b_v0 w_name_collision = false
  /\ lossy_clauses w_name_collision = [] /\ typerefs_of_generate_b w_name_collision = true
  /\ exact_of_generate_b w_name_collision = true /\ roundtrip_b w_name_collision = true.
Proof. exact w_name_collision_ok. Qed.
Print Assumptions c17_typeref_faithful_refuted.

(* ---- supporting facts ---- *)
(* a printed default value reads back as the same value (lexer + parser of the converter) *)
Theorem c17_value_text_roundtrip : forall v, value_ok v = true -> parse_text (print_value v) = POk v [].
Proof. exact parse_print. Qed.
Print Assumptions c17_value_text_roundtrip.

(* the extracted checker decides the declarative equivalence *)
Theorem c17_schema_equiv_checker : forall A C, schema_equiv_b A C = true <-> schema_equiv A C.
Proof. exact schema_equiv_b_iff. Qed.
Print Assumptions c17_schema_equiv_checker.

Theorem c17_typeref_checker : forall W t r, typeref_matches_b W t r = true <-> typeref_matches W t r.
Proof. exact typeref_matches_iff. Qed.
Print Assumptions c17_typeref_checker.

(* the converter's value parser never runs out of fuel (its third outcome is unreachable) *)
Theorem c17_parse_text_fuel : forall s, parse_text s <> PFuel.
Proof. exact parse_text_fuel. Qed.
Print Assumptions c17_parse_text_fuel.

(* the reader used to run the checkers on the implementation's JSON inverts the JSON form *)
Theorem c17_decode_encode : forall d, decode_data (idata_json d) = Some d.
Proof. exact decode_encode. Qed.
Print Assumptions c17_decode_encode.
