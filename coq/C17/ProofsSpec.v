(* C17: the boolean checker [schema_equiv_b] decides the relation [schema_equiv]. *)
From Coq Require Import Lia Arith PeanoNat.
From Gv Require Import lib.Bytes lib.Gql C17.Util C17.ValueSyntax C17.Base C17.Model C17.Spec C17.ProofsBase.
Open Scope N_scope.

Lemma assoc_b_iff : forall {A C} (ka : A -> name) (kc : C -> name) (R : A -> C -> Prop) (rb : A -> C -> bool) l1 l2,
  (forall a x, rb a x = true <-> R a x) -> (assoc_b ka kc rb l1 l2 = true <-> assoc ka kc R l1 l2).
Proof.
  intros. split.
  - apply assoc_b_sound. intros. apply H. auto.
  - apply assoc_b_complete. intros. apply H. auto.
Qed.

Lemma iv_equiv_iff : forall a c, iv_equiv_b a c = true <-> iv_equiv a c.
Proof.
  intros. unfold iv_equiv_b, iv_equiv. rewrite !andb_true_iff, ty_eqb_eq, opt_value_eqb_eq. tauto.
Qed.
Lemma fd_equiv_iff : forall a c, fd_equiv_b a c = true <-> fd_equiv a c.
Proof.
  intros. unfold fd_equiv_b, fd_equiv. rewrite !andb_true_iff, ty_eqb_eq.
  rewrite (assoc_b_iff iv_name iv_name iv_equiv iv_equiv_b) by apply iv_equiv_iff. tauto.
Qed.
Lemma ev_equiv_iff : forall a c, ev_equiv_b a c = true <-> ev_equiv a c.
Proof. intros. unfold ev_equiv_b, ev_equiv. tauto. Qed.

Lemma impl_bool : forall (k : bool) (P : Prop) (x : bool), (x = true <-> P) -> (negb k || x = true <-> (k = true -> P)).
Proof. intros k P x H. destruct k; simpl; split; intros; try tauto; try discriminate. Qed.

Lemma td_equiv_iff : forall a c, td_equiv_b a c = true <-> td_equiv a c.
Proof.
  intros. unfold td_equiv_b, td_equiv. rewrite !andb_true_iff.
  rewrite kind_eqb_eq, !same_set_b_spec.
  rewrite (assoc_b_iff fd_name fd_name fd_equiv fd_equiv_b) by apply fd_equiv_iff.
  rewrite (assoc_b_iff ev_name ev_name ev_equiv ev_equiv_b) by apply ev_equiv_iff.
  rewrite (assoc_b_iff iv_name iv_name iv_equiv iv_equiv_b) by apply iv_equiv_iff.
  rewrite (impl_bool (kind_eqb (td_kind a) KScalar) (opt_opt_eqb (specified_of (td_dirs a)) (specified_of (td_dirs c)) = true)) by tauto.
  rewrite (impl_bool (kind_eqb (td_kind a) KInputObject) (one_of (td_dirs a) = one_of (td_dirs c))).
  2:{ split; intro H; [apply Bool.eqb_prop; auto|rewrite H; apply Bool.eqb_reflx]. }
  rewrite !kind_eqb_eq. tauto.
Qed.

Lemma dd_equiv_iff : forall a c, dd_equiv_b a c = true <-> dd_equiv a c.
Proof.
  intros. unfold dd_equiv_b, dd_equiv. rewrite !andb_true_iff, same_set_b_spec.
  rewrite (assoc_b_iff iv_name iv_name iv_equiv iv_equiv_b) by apply iv_equiv_iff.
  assert (Bool.eqb (dd_repeatable a) (dd_repeatable c) = true <-> dd_repeatable a = dd_repeatable c).
  { split; intro H; [apply Bool.eqb_prop; auto|rewrite H; apply Bool.eqb_reflx]. }
  tauto.
Qed.

Theorem schema_equiv_b_iff : forall A C, schema_equiv_b A C = true <-> schema_equiv A C.
Proof.
  intros. unfold schema_equiv_b, schema_equiv, opt_name_eqb. rewrite !andb_true_iff.
  rewrite bytes_eqb_eq, !opt_bytes_eqb_eq.
  rewrite (assoc_b_iff td_name td_name td_equiv td_equiv_b) by apply td_equiv_iff.
  rewrite (assoc_b_iff dd_name dd_name dd_equiv dd_equiv_b) by apply dd_equiv_iff.
  tauto.
Qed.

(* the type-reference checker decides the inductive relation *)
Lemma typeref_matches_iff : forall W t r, typeref_matches_b W t r = true <-> typeref_matches W t r.
Proof.
  intros W. induction t; intros r; split; intro H.
  - destruct r as [k [n'|] [o|]]; simpl in H; try discriminate.
    apply andb_true_iff in H. destruct H as [H1 H2]. apply bytes_eqb_eq in H1. subst n'.
    destruct (kind_in W n) eqn:E; try discriminate. apply ikind_eqb_eq in H2. subst. constructor. auto.
  - inversion H as [n0 k0 K| |]; subst. simpl. rewrite bytes_eqb_refl, K. simpl. apply ikind_eqb_eq. auto.
  - destruct r as [k n' o]. simpl in H. destruct k; try discriminate. destruct n'; try discriminate.
    destruct o; try discriminate. constructor. apply IHt. auto.
  - inversion H; subst. simpl. apply IHt. auto.
  - destruct r as [k n' o]. simpl in H. destruct k; try discriminate. destruct n'; try discriminate.
    destruct o; try discriminate. constructor. apply IHt. auto.
  - inversion H; subst. simpl. apply IHt. auto.
Qed.
