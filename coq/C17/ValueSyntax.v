(* C17: GraphQL value text — the printer (ast.Document.PrintValue), the lexer (lexer.Lexer.Read as
   used by astparser's tokenizer) and the value parser (astparser.Parser.ParseValue), as far as a
   value text needs them.  Definitions only.

   Numbers: [VInt raw]/[VFloat raw] carry the sign in [raw] (Go: Negative flag + unsigned Raw).
   Lexer: a state machine over the bytes (structural recursion, no fuel).  Deviations, all
   outside anything PrintValue can emit between tokens:
     - '#' comments and '.'/'...' are lexed as [TPunct] (the value parser rejects them; Go's
       tokenizer would skip a comment);
     - the adjacency test of '-'/'$' with the following token compares columns in Go; here any
       white space after the sigil yields [TGap] (rejected), so "-\n 5" style coincidences of
       columns are not reproduced. *)
From Coq Require Import String.
From Gv Require Import lib.Bytes lib.Gql C17.Util.
Open Scope N_scope.

(* ------------------------------------------------------------------ printer *)
(* ast.Document.PrintValue, block strings: a trailing quote would merge with the closing delimiter and a trailing
   backslash would escape it, so a line terminator (not part of the content) is written in between
   (fix rt-block-string-edge / default-block-string-reprint; before it nothing was written: [print_value_v0]) *)
Definition block_sep (raw : bytes) : bytes :=
  let c := last raw 0 in if (c =? 34) || (c =? 92) then [10] else [].

Fixpoint print_value (v : value) : bytes :=
  match v with
  | VVar n => 36 :: n
  | VInt raw => raw
  | VFloat raw => raw
  | VStr raw false => 34 :: raw ++ [34]
  | VStr raw true => 34 :: 34 :: 34 :: raw ++ block_sep raw ++ [34; 34; 34]
  | VBool true => #"true"
  | VBool false => #"false"
  | VNull => #"null"
  | VEnum n => n
  | VList items =>
    91 :: (fix go (l : list value) : bytes :=
             match l with
             | [] => []
             | x :: r => print_value x ++ match r with [] => [] | _ => 44 :: go r end
             end) items ++ [93]
  | VObj fs =>
    123 :: (fix go (l : list (name * value)) : bytes :=
              match l with
              | [] => []
              | (k, x) :: r => k ++ 58 :: 32 :: print_value x ++ match r with [] => [] | _ => 44 :: go r end
              end) fs ++ [125]
  end.

(* ------------------------------------------------------------------ lexer *)
Inductive tok :=
| TLBrack | TRBrack | TLBrace | TRBrace | TColon | TDollar | TSub
| TGap                       (* white space directly after '-' or '$' *)
| TPunct (c : byte)          (* any other single-rune token, '#', '.' *)
| TStr (raw : bytes) (block : bool)
| TInt (raw : bytes)
| TFloat (raw : bytes)
| TIdent (raw : bytes).

Inductive lstate :=
| LStart
| LSigil
| LIdent (acc : bytes)                 (* accumulators are reversed *)
| LInt (acc : bytes)
| LFloat1 (acc : bytes) (has_exp : bool)
| LFloat2 (acc : bytes)
| LFloat3 (acc : bytes)
| LQ1 | LQ2
| LStr (acc : bytes) (escaped : bool)
| LBlock (acc : bytes) (escaped : bool) (qc wc : nat) (reached : bool) (lead : nat).

Definition is_ws (c : byte) : bool := (c =? 32) || (c =? 9) || (c =? 13) || (c =? 10) || (c =? 44).
Definition is_ident_char (c : byte) : bool :=
  is_lower c || is_upper c || is_digit c || (c =? 45) || (c =? 95).
Definition is_exp (c : byte) : bool := (c =? 101) || (c =? 69).
Definition is_sign (c : byte) : bool := (c =? 45) || (c =? 43).
Definition is_single_punct (c : byte) : bool :=
  (c =? 124) || (c =? 61) || (c =? 64) || (c =? 33) || (c =? 40) || (c =? 41) || (c =? 38) || (c =? 35) || (c =? 46).

(* content of a finished block string: [acc] holds everything read after the opening quotes,
   reversed, without the closing quotes *)
Definition block_content (acc : bytes) (lead wc : nat) : bytes :=
  let all := rev acc in
  let body := skipn lead all in
  firstn (length body - wc) body.

(* lexer.readBlockString, one byte [c] inside a block string.  Quotes that did not close the string are content:
   like any other character they end the leading white space and restart the trailing white space -- this is
   settled when the next byte that is not a quote arrives ([block_fire]; fix block-quote-next-to-whitespace). *)
Definition block_fire (qc : nat) (c : byte) : bool := match qc with O => false | _ => negb (c =? 34) end.
Definition settled_wc (fire : bool) (wc : nat) : nat := if fire then O else wc.
Definition settled_lead (fire : bool) (wc : nat) (reached : bool) (lead : nat) : nat :=
  if fire && negb reached then wc else lead.
Inductive bstep := BNext (acc : bytes) (escaped : bool) (qc wc : nat) (reached : bool) (lead : nat) | BClose (content : bytes).
Definition block_step (acc : bytes) (esc : bool) (qc wc0 : nat) (reached0 : bool) (lead0 : nat) (c : byte) : bstep :=
  let fire := block_fire qc c in
  let wc := settled_wc fire wc0 in
  let lead := settled_lead fire wc0 reached0 lead0 in
  let reached := fire || reached0 in
  if (c =? 32) || (c =? 9) || (c =? 13) || (c =? 10) then BNext (c :: acc) false 0 (S wc) reached lead
  else if c =? 34 then
    (if esc then BNext (c :: acc) false qc wc reached lead
     else match qc with
          | S (S O) => BClose (block_content (tl (tl acc)) lead wc)
          | _ => BNext (c :: acc) false (S qc) wc reached lead
          end)
  else if c =? 92 then BNext (c :: acc) (negb esc) 0 0 true (if reached then lead else wc)
  else BNext (c :: acc) false 0 0 true (if reached then lead else wc).

(* what to do with byte [c] when no token is in progress; [rec] is the lexer itself *)
Definition lex_dispatch (rec : lstate -> bytes -> list tok) (sigil : bool) (c : byte) (s : bytes) : list tok :=
  if is_ws c then (if sigil then TGap :: rec LStart s else rec LStart s)
  else if c =? 91 then TLBrack :: rec LStart s
  else if c =? 93 then TRBrack :: rec LStart s
  else if c =? 123 then TLBrace :: rec LStart s
  else if c =? 125 then TRBrace :: rec LStart s
  else if c =? 58 then TColon :: rec LStart s
  else if c =? 36 then TDollar :: rec LSigil s
  else if c =? 45 then TSub :: rec LSigil s
  else if is_single_punct c then TPunct c :: rec LStart s
  else if c =? 34 then rec LQ1 s
  else if is_digit c then rec (LInt [c]) s
  else rec (LIdent [c]) s.

Definition str_step (rec : lstate -> bytes -> list tok) (acc : bytes) (esc : bool) (c : byte) (s : bytes) : list tok :=
  if (c =? 32) || (c =? 9) then rec (LStr (c :: acc) false) s
  else if (c =? 34) || (c =? 13) || (c =? 10) then
    (if esc then rec (LStr (c :: acc) false) s else TStr (rev acc) false :: rec LStart s)
  else if c =? 92 then rec (LStr (c :: acc) (negb esc)) s
  else rec (LStr (c :: acc) false) s.

Definition lex_flush (st : lstate) : list tok :=
  match st with
  | LStart | LSigil => []
  | LIdent acc => [TIdent (rev acc)]
  | LInt acc => [TInt (rev acc)]
  | LFloat1 acc _ | LFloat2 acc | LFloat3 acc => [TFloat (rev acc)]
  | LQ1 | LQ2 => [TStr [] false]
  | LStr acc _ => [TStr (rev acc) false]
  | LBlock acc _ qc wc reached lead =>   (* end of input is "not a quote" as well *)
    let fire := match qc with O => false | _ => true end in
    [TStr (block_content acc (settled_lead fire wc reached lead) (settled_wc fire wc)) true]
  end.

Fixpoint lex_go (st : lstate) (s : bytes) {struct s} : list tok :=
  match s with
  | [] => lex_flush st
  | c :: s' =>
    match st with
    | LStart => lex_dispatch lex_go false c s'
    | LSigil => lex_dispatch lex_go true c s'
    | LIdent acc =>
      if is_ident_char c then lex_go (LIdent (c :: acc)) s'
      else TIdent (rev acc) :: lex_dispatch lex_go false c s'
    | LInt acc =>
      if is_digit c then lex_go (LInt (c :: acc)) s'
      else if (c =? 46) || is_exp c then lex_go (LFloat1 (c :: acc) (is_exp c)) s'
      else TInt (rev acc) :: lex_dispatch lex_go false c s'
    | LFloat1 acc true =>
      if is_digit c then lex_go (LFloat1 (c :: acc) true) s'
      else TFloat (rev acc) :: lex_dispatch lex_go false c s'
    | LFloat1 acc false =>
      if is_digit c then lex_go (LFloat1 (c :: acc) false) s'
      else if is_exp c then lex_go (LFloat2 (c :: acc)) s'
      else if is_sign c then lex_go (LFloat3 (c :: acc)) s'
      else TFloat (rev acc) :: lex_dispatch lex_go false c s'
    | LFloat2 acc =>
      if is_sign c || is_digit c then lex_go (LFloat3 (c :: acc)) s'
      else TFloat (rev acc) :: lex_dispatch lex_go false c s'
    | LFloat3 acc =>
      if is_digit c then lex_go (LFloat3 (c :: acc)) s'
      else TFloat (rev acc) :: lex_dispatch lex_go false c s'
    | LQ1 => if c =? 34 then lex_go LQ2 s' else str_step lex_go [] false c s'
    | LQ2 =>
      if c =? 34 then lex_go (LBlock [] false 0 0 false 0) s'
      else TStr [] false :: lex_dispatch lex_go false c s'
    | LStr acc esc => str_step lex_go acc esc c s'
    | LBlock acc esc qc wc reached lead =>
      match block_step acc esc qc wc reached lead c with
      | BNext acc' esc' qc' wc' reached' lead' => lex_go (LBlock acc' esc' qc' wc' reached' lead') s'
      | BClose content => TStr content true :: lex_go LStart s'
      end
    end
  end.

Definition lex (s : bytes) : list tok := lex_go LStart s.

(* ------------------------------------------------------------------ parser *)
Inductive pres (A : Type) :=
| POk (a : A) (rest : list tok)
| PErr
| PFuel.
Arguments POk {A}. Arguments PErr {A}. Arguments PFuel {A}.

Definition ident_value (n : bytes) : value :=
  if bytes_eqb n #"true" then VBool true
  else if bytes_eqb n #"false" then VBool false
  else if bytes_eqb n #"null" then VNull
  else VEnum n.

Fixpoint parse_value (fuel : nat) (ts : list tok) {struct fuel} : pres value :=
  match fuel with
  | O => PFuel
  | S f =>
    match ts with
    | TStr raw blk :: r => POk (VStr raw blk) r
    | TIdent n :: r => POk (ident_value n) r
    | TDollar :: TIdent n :: r => POk (VVar n) r
    | TInt raw :: r => POk (VInt raw) r
    | TFloat raw :: r => POk (VFloat raw) r
    | TSub :: TInt raw :: r => POk (VInt (45 :: raw)) r
    | TSub :: TFloat raw :: r => POk (VFloat (45 :: raw)) r
    | TLBrack :: r => parse_list f r []
    | TLBrace :: r => parse_obj f r []
    | _ => PErr
    end
  end
with parse_list (fuel : nat) (ts : list tok) (acc : list value) {struct fuel} : pres value :=
  match fuel with
  | O => PFuel
  | S f =>
    match ts with
    | TRBrack :: r => POk (VList (rev acc)) r
    | _ => match parse_value f ts with
           | POk v r => parse_list f r (v :: acc)
           | PErr => PErr
           | PFuel => PFuel
           end
    end
  end
with parse_obj (fuel : nat) (ts : list tok) (acc : list (name * value)) {struct fuel} : pres value :=
  match fuel with
  | O => PFuel
  | S f =>
    match ts with
    | TRBrace :: r => POk (VObj (rev acc)) r
    | TIdent k :: TColon :: r =>
      match parse_value f r with
      | POk v r' => parse_obj f r' ((k, v) :: acc)
      | PErr => PErr
      | PFuel => PFuel
      end
    | _ => PErr
    end
  end.

(* The converter: tokenise the whole text, parse ONE value, ignore what follows. *)
Definition parse_text (s : bytes) : pres value :=
  let ts := lex s in parse_value (2 * length ts + 2) ts.
