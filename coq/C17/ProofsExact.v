(* C17: complete_exact and typeref_faithful for [generate S]. *)
From Coq Require Import Lia Arith PeanoNat String.
From Gv Require Import lib.Bytes lib.Gql C17.Util C17.ValueSyntax C17.Base C17.Model C17.Spec
  C17.ProofsBase C17.ProofsValue C17.ProofsGen C17.ProofsShape.
Open Scope N_scope.

Lemma Forall2_assoc_b : forall {A C} (ka : A -> name) (kc : C -> name) (rb : A -> C -> bool) l1 l2,
  NoDup (map ka l1) -> Forall2 (fun a x => kc x = ka a /\ rb a x = true) l1 l2 -> assoc_b ka kc rb l1 l2 = true.
Proof.
  intros. apply (assoc_b_complete ka kc (fun a x => rb a x = true)); auto.
  apply Forall2_assoc; auto.
Qed.

(* ------------------------------------------------------------------ index lookups *)
Lemma idx_kind_dirs : forall n ds r, idx_kind n (map dir_entry ds ++ r) = idx_kind n r.
Proof. induction ds; simpl; intros; auto. Qed.
Lemma idx_kind_types : forall n l r,
  idx_kind n (map type_entry l ++ r) =
  match find_type n l with Some t => Some (td_kind t) | None => idx_kind n r end.
Proof.
  induction l; simpl; intros; auto. destruct (bytes_eqb n (td_name a)); auto.
Qed.

Lemma ikind_sp : forall k, ikind_of k = sp_kind k.
Proof. destruct k; reflexivity. Qed.

Lemma unescape_other : forall c r, c <> 92 -> unescape (c :: r) = c :: unescape r.
Proof.
  intros c r H. destruct c as [|p]; [reflexivity|].
  do 7 (try (destruct p as [p|p|]; try reflexivity)). exfalso. apply H. reflexivity.
Qed.
Lemma unescape_id : forall raw, existsb special_char raw = false -> unescape raw = raw.
Proof.
  induction raw; intro H; auto. simpl in H. apply orb_false_iff in H. destruct H as [H1 H2].
  unfold special_char in H1. apply orb_false_iff in H1. destruct H1 as [H1 _].
  apply orb_false_iff in H1. destruct H1 as [_ H1]. apply N.eqb_neq in H1.
  rewrite unescape_other; auto. rewrite IHraw; auto.
Qed.

Section Exact.
  Variable S : schema.
  Hypothesis WF : wf_schema S = true.
  Hypothesis GOK : gen_ok S.

  Notation W := (with_base S).
  Notation IDX := (idx S).
  Notation DDS := (dds S).

  Lemma idx_unfold :
    IDX = (#"schema", IdxOther) :: map dir_entry (s_directives S)
          ++ map type_entry (s_types S ++ base_scalars)
          ++ (map dir_entry base_public_directives ++ map type_entry base_meta_types
              ++ map dir_entry base_internal_directives
              ++ map type_entry (skipn (length (s_types S ++ base_scalars ++ base_meta_types)) (s_types (M S)))).
  Proof.
    unfold idx, build_index. f_equal. f_equal. rewrite map_app. rewrite <- !app_assoc. reflexivity.
  Qed.

  Lemma typeref_named : forall n t, find_type n (s_types S ++ base_scalars) = Some t ->
    typeref IDX (TNamed n) = ITRef (sp_kind (td_kind t)) (Some n) None.
  Proof.
    intros n t F. cbn [typeref]. rewrite idx_unfold. cbn [idx_kind].
    rewrite idx_kind_dirs, idx_kind_types, F, ikind_sp. auto.
  Qed.

  Lemma kind_in_named : forall n t, find_type n (s_types S ++ base_scalars) = Some t -> kind_in W n = Some (sp_kind (td_kind t)).
  Proof. intros. unfold kind_in. cbn [s_types with_base]. rewrite H. auto. Qed.

  Lemma resolves_find : forall p n, resolves_as S p n = true -> exists t, find_type n (s_types S ++ base_scalars) = Some t.
  Proof.
    intros p n H. unfold resolves_as, kind_of_name_in, all_types in H.
    destruct (find_type n (s_types S ++ base_scalars)) eqn:F; try discriminate. eauto.
  Qed.

  Lemma typeref_ok : forall ty, (exists t, find_type (named_of ty) (s_types S ++ base_scalars) = Some t) ->
    typeref_matches_b W ty (typeref IDX ty) = true.
  Proof.
    induction ty; intros [t F]; cbn [named_of] in F.
    - rewrite (typeref_named _ _ F). cbn [typeref_matches_b]. rewrite bytes_eqb_refl, (kind_in_named _ _ F).
      cbn. destruct (td_kind t); reflexivity.
    - cbn [typeref typeref_matches_b]. apply IHty. eauto.
    - cbn [typeref typeref_matches_b]. apply IHty. eauto.
  Qed.

  (* the Prop form, for every wrapping depth *)
  Lemma typeref_prop : forall ty, (exists t, find_type (named_of ty) (s_types S ++ base_scalars) = Some t) ->
    typeref_matches W ty (typeref IDX ty).
  Proof.
    induction ty; intros [t F]; cbn [named_of] in F.
    - rewrite (typeref_named _ _ F). constructor. apply kind_in_named. auto.
    - cbn [typeref]. constructor. apply IHty. eauto.
    - cbn [typeref]. constructor. apply IHty. eauto.
  Qed.

  (* --- deprecation --- *)
  Lemma default_reason_base : default_reason DDS = Some default_reason_text.
  Proof.
    destruct (gen_ok_parts S GOK) as [_ [_ [_ [_ [_ B]]]]].
    unfold default_reason, dds. rewrite flat_map_app.
    rewrite (flat_map_nil _ (s_directives S)); [reflexivity|].
    intros d I. destruct (bytes_eqb (dd_name d) #"deprecated") eqn:E; auto.
    apply bytes_eqb_eq in E. exfalso. apply (B d I). rewrite E. simpl. auto 10.
  Qed.

  Definition dirs_good (ds : list directive) : Prop :=
    dirs_wf ds = true /\ str_special (reason_of ds) = false.

  Lemma dep_ok : forall ds, dirs_good ds ->
    dep_matches_b (dep_of ds) (fst (deprecation DDS ds)) (snd (deprecation DDS ds)) = true.
  Proof.
    intros ds [Wf Sp]. unfold dep_of, deprecation, dirs_wf, reason_of in *. rewrite find_dir_sp.
    destruct (sp_dir #"deprecated" ds) as [d|]; [|reflexivity]. rewrite find_arg_sp.
    destruct (sp_arg #"reason" d) as [v|].
    - destruct v; try discriminate.
      2:{ cbn [fst snd]. rewrite default_reason_base. cbn. reflexivity. }
      cbn [str_special] in Sp. unfold str_sem. destruct block.
      + cbn. apply bytes_eqb_refl.
      + rewrite Wf. rewrite unescape_id; auto. cbn. apply bytes_eqb_refl.
    - cbn [fst snd]. rewrite default_reason_base. cbn. reflexivity.
  Qed.

  (* --- input values --- *)
  Definition iv_good (iv : inputvalue_def) : Prop :=
    (exists t, find_type (named_of (iv_type iv)) (s_types S ++ base_scalars) = Some t)
    /\ (forall v, iv_default iv = Some v -> value_ok v = true)
    /\ dirs_good (iv_dirs iv).

  Lemma user_iv_good : forall iv, In iv (all_input_values S) -> iv_wf S iv = true -> iv_good iv.
  Proof.
    intros iv I Wf. destruct (iv_wf_parts _ _ Wf) as [_ [R [_ D]]].
    destruct (gen_ok_parts S GOK) as [Sp [_ [Vo _]]].
    split. { eapply resolves_find; eauto. }
    split. { intros v E. eapply Vo; eauto. }
    split; auto. apply Sp. apply in_deprecable_iv; auto.
  Qed.

  Lemma input_ok : forall iv, iv_good iv -> input_matches_b W iv (gen_input IDX DDS iv) = true.
  Proof.
    intros iv [R [V D]]. unfold input_matches_b, gen_input. cbn [ii_type ii_default ii_deprecated ii_reason].
    rewrite typeref_ok; auto. rewrite dep_ok; auto. rewrite andb_true_r. cbn [andb].
    unfold default_matches_b. destruct (iv_default iv) as [v|]; cbn [option_map]; auto.
    rewrite parse_print; auto. apply value_eqb_refl.
  Qed.

  Lemma inputs_ok : forall ivs, NoDup (map iv_name ivs) -> (forall iv, In iv ivs -> iv_good iv) ->
    assoc_b iv_name ii_name (input_matches_b W) ivs (map (gen_input IDX DDS) ivs) = true.
  Proof.
    intros ivs ND G. apply Forall2_assoc_b; auto. apply Forall2_map_r. intros iv I. split; [reflexivity|].
    apply input_ok. auto.
  Qed.

  Lemma user_inputs_ok : forall ivs, (forall iv, In iv ivs -> In iv (all_input_values S)) -> ivs_wf S ivs = true ->
    assoc_b iv_name ii_name (input_matches_b W) ivs (map (gen_input IDX DDS) ivs) = true.
  Proof.
    intros ivs I Wf. destruct (ivs_wf_parts _ _ Wf) as [ND A]. apply inputs_ok; auto.
    intros iv Iv. apply user_iv_good; auto.
  Qed.

  (* --- fields --- *)
  Lemma gen_fields_user : forall fs, (forall f, In f fs -> user_name_ok (fd_name f) = true) ->
    gen_fields IDX DDS fs = map (gen_field IDX DDS) fs.
  Proof.
    intros fs H. unfold gen_fields. f_equal. induction fs; simpl; auto.
    rewrite (user_name_not_uu _ (H a (or_introl eq_refl))). simpl. f_equal. apply IHfs. intros. apply H. simpl. auto.
  Qed.

  Lemma user_dirs_good : forall ds, In ds (all_deprecable_dirs S) -> dirs_wf ds = true -> dirs_good ds.
  Proof.
    intros ds I Wf. destruct (gen_ok_parts S GOK) as [Sp _]. split; auto.
  Qed.

  Lemma fields_ok : forall t, In t (s_types S) -> fields_wf S (td_fields t) = true ->
    assoc_b fd_name if_name (field_matches_b W) (td_fields t) (gen_fields IDX DDS (td_fields t)) = true.
  Proof.
    intros t I FW. destruct (fields_wf_parts _ _ FW) as [_ [ND Ff]].
    rewrite gen_fields_user. 2:{ intros f If. destruct (fd_wf_parts _ _ (Ff f If)). auto. }
    apply Forall2_assoc_b; auto. apply Forall2_map_r. intros f If. split; [reflexivity|].
    destruct (fd_wf_parts _ _ (Ff f If)) as [_ [R [A D]]].
    unfold field_matches_b, gen_field. cbn [if_type if_args if_deprecated if_reason].
    rewrite typeref_ok. 2:{ eapply resolves_find; eauto. }
    rewrite user_inputs_ok; auto. 2:{ intros. eapply in_all_input_values_arg; eauto. }
    rewrite dep_ok; auto. apply user_dirs_good; auto. eapply in_deprecable_field; eauto.
  Qed.

  (* --- references by name --- *)
  Lemma ref_names_map : forall k ns, ref_names k (map (named_ref k) ns) = Some ns.
  Proof.
    induction ns; simpl; auto. rewrite IHns. destruct k; reflexivity.
  Qed.
  Lemma refs_ok : forall k ns, NoDup ns -> refs_are_b k ns (map (named_ref k) ns) = true.
  Proof.
    intros. unfold refs_are_b. rewrite ref_names_map. apply andb_true_iff. split.
    - apply nodup_b_NoDup. auto.
    - apply same_set_b_refl.
  Qed.

  Lemma implementers_names : forall l iface,
    implementers l iface = map (named_ref IK_OBJECT) (map td_name (filter (fun t => kind_eqb (td_kind t) KObject && mem_bytes iface (td_implements t)) l)).
  Proof.
    induction l; intros; auto. unfold implementers in *. simpl. rewrite IHl.
    replace (is_object a) with (kind_eqb (td_kind a) KObject). 2:{ unfold is_object. destruct (td_kind a); auto. }
    destruct (kind_eqb (td_kind a) KObject && mem_bytes iface (td_implements a)); auto.
  Qed.

  Lemma NoDup_map_filter : forall {A} (key : A -> name) p l, NoDup (map key l) -> NoDup (map key (filter p l)).
  Proof.
    induction l; simpl; intros; auto. inversion H; subst. destruct (p a); simpl; auto.
    constructor; auto. intro I. apply H2. apply in_map_iff in I. destruct I as [x [E I]].
    apply filter_In in I. destruct I. rewrite <- E. apply in_map. auto.
  Qed.

  Lemma implementers_ts0 : forall iface,
    implementers (ts0 S) iface = map (named_ref IK_OBJECT) (implementers_of W iface).
  Proof.
    intros. unfold ts0. rewrite implementers_app, implementers_base, app_nil_r, implementers_names.
    unfold implementers_of. cbn [s_types with_base]. rewrite filter_app.
    replace (filter (fun t => kind_eqb (td_kind t) KObject && mem_bytes iface (td_implements t)) base_scalars) with (@nil type_def) by reflexivity.
    rewrite app_nil_r. auto.
  Qed.

  Lemma implementers_of_nodup : forall iface, NoDup (implementers_of W iface).
  Proof.
    intros. unfold implementers_of. apply NoDup_map_filter. cbn [s_types with_base].
    rewrite map_app. apply (all_names_nodup S WF GOK).
  Qed.

  (* --- types --- *)
  Lemma assoc_b_nil : forall {A C} (ka : A -> name) (kc : C -> name) rb, assoc_b ka kc rb [] [] = true.
  Proof. reflexivity. Qed.

  Lemma scalar_specified : forall t, In t (s_types S) -> scalar_dirs_wf (td_dirs t) = true ->
    match specified_of (td_dirs t) with Some u => opt_bytes_eqb (specified_by (td_dirs t)) u | None => false end = true.
  Proof.
    intros t I Wf. destruct (gen_ok_parts S GOK) as [_ [Sp _]]. specialize (Sp t I).
    unfold specified_of, specified_by, scalar_dirs_wf, url_of in *. rewrite find_dir_sp.
    destruct (sp_dir #"specifiedBy" (td_dirs t)) as [d|]; [|reflexivity]. rewrite find_arg_sp.
    destruct (sp_arg #"url" d) as [v|]; try discriminate. destruct v; try discriminate.
    cbn [str_special] in Sp. unfold str_sem. destruct block.
    - cbn. apply bytes_eqb_refl.
    - rewrite Wf, unescape_id; auto. cbn. apply bytes_eqb_refl.
  Qed.

  Lemma type_ok : forall t, In t (s_types S) -> type_matches_b W t (G1 S t) = true.
  Proof.
    intros t I. destruct (wf_parts S WF) as [_ [_ [T _]]]. specialize (T t I).
    pose proof (user_name_not_uu _ (td_wf_name _ _ T)) as U.
    apply td_wf_cases in T. unfold type_matches_b, G1, g1, gen_type, expected_possible.
    destruct (td_kind t) eqn:K; rewrite ?U; cbn [hd it_kind it_fields it_inputs it_interfaces it_enums it_possible it_specified sp_kind ikind_eqb andb].
    - destruct T as [T1 [T2 [T3 [T4 [T5 T6]]]]]. rewrite T1, T2, T4, T5. cbn.
      apply scalar_specified; auto.
    - destruct T as [T1 [T2 [T3 [T4 [T5 T6]]]]]. rewrite T5, T6, fields_ok; auto.
      rewrite refs_ok. 2:{ apply nodup_b_NoDup. auto. } reflexivity.
    - destruct T as [T1 [T2 [T3 [T4 [T5 T6]]]]]. rewrite T5, T6, fields_ok; auto.
      rewrite refs_ok. 2:{ apply nodup_b_NoDup. auto. }
      rewrite implementers_ts0, refs_ok. 2:{ apply implementers_of_nodup. } reflexivity.
    - destruct T as [T1 [T2 [T3 [T4 [T5 [T6 T7]]]]]]. rewrite T1, T2, T6, T7.
      rewrite (refs_ok IK_OBJECT (td_members t)). 2:{ apply nodup_b_NoDup. auto. } reflexivity.
    - destruct T as [T1 [T2 [T3 [T4 [T5 T6]]]]]. rewrite T1, T2, T6. cbn [assoc_b map nodup_b length Nat.eqb forallb refs_are_b ref_names same_set_b subset_b andb].
      replace (assoc_b ev_name ie_name enum_matches_b (td_enum_values t) (map (gen_enum_value DDS) (td_enum_values t))) with true; [reflexivity|].
      symmetry. apply Forall2_assoc_b. { apply nodup_b_NoDup. auto. }
      apply Forall2_map_r. intros e Ie. split; [reflexivity|]. rewrite forallb_forall in T5. specialize (T5 e Ie).
      unfold ev_wf in T5. andb_split T5. unfold enum_matches_b, gen_enum_value. cbn [ie_deprecated ie_reason].
      apply dep_ok. apply user_dirs_good; auto. eapply in_deprecable_enum; eauto.
    - destruct T as [T1 [T2 [T3 [T4 T5]]]]. rewrite T1, T2, T4.
      rewrite user_inputs_ok; auto. intros. eapply in_all_input_values_input; eauto.
  Qed.

  Lemma base_scalar_ok : forall n, type_matches_b W (mk_scalar n) (scalar_itype n) = true.
  Proof. reflexivity. Qed.

  (* --- directives --- *)
  Lemma all_locations_nodup : NoDup all_locations.
  Proof. apply nodup_b_NoDup. reflexivity. Qed.

  Lemma list_eq_fix : forall a c,
    (fix eq (a c : list name) : bool :=
       match a, c with [], [] => true | x :: a', y :: c' => bytes_eqb x y && eq a' c' | _, _ => false end) a c = true -> a = c.
  Proof.
    induction a; destruct c; intro H; try discriminate; auto.
    apply andb_true_iff in H. destruct H as [H1 H2]. apply bytes_eqb_eq in H1. f_equal; auto.
  Qed.

  Lemma canonical_locations : forall l, locations_canonical l = true -> l = filter (fun x => mem_bytes x l) all_locations /\ NoDup l.
  Proof.
    intros l H. unfold locations_canonical in H. apply andb_true_iff in H. destruct H as [_ H].
    apply list_eq_fix in H. split; auto. rewrite H. apply NoDup_filter. apply all_locations_nodup.
  Qed.

  Lemma directive_ok_gen : forall d, NoDup (map iv_name (dd_args d)) -> (forall iv, In iv (dd_args d) -> iv_good iv) ->
    NoDup (dd_locations d) -> directive_matches_b W d (GD S d) = true.
  Proof.
    intros d ND G NL. unfold directive_matches_b, GD, gd. cbn [id_args id_locations id_repeatable].
    rewrite inputs_ok; auto. rewrite same_set_b_refl, Bool.eqb_reflx. cbn [andb]. rewrite !andb_true_r.
    apply nodup_b_NoDup. auto.
  Qed.

  Lemma user_directive_ok : forall d, In d (s_directives S) -> directive_matches_b W d (GD S d) = true.
  Proof.
    intros d I. destruct (wf_parts S WF) as [_ [_ [_ [D _]]]]. specialize (D d I).
    unfold dd_wf in D. andb_split D. destruct (ivs_wf_parts _ _ D1) as [ND A].
    apply directive_ok_gen; auto.
    - intros iv Iv. apply user_iv_good; auto. eapply in_all_input_values_dir; eauto.
    - apply canonical_locations. auto.
  Qed.

  Lemma base_find : forall n, In n base_scalar_names -> exists t, find_type n (s_types S ++ base_scalars) = Some t.
  Proof.
    intros n I. destruct (gen_ok_parts S GOK) as [_ [_ [_ [_ [B _]]]]].
    rewrite find_type_app. rewrite find_type_none.
    - simpl in I. repeat (destruct I as [I|I]; [subst n; eexists; reflexivity|]). contradiction.
    - intro X. apply in_map_iff in X. destruct X as [t [E It]]. apply (B t It). rewrite E. auto.
  Qed.

  Lemma base_directive_ok : forall d, In d base_public_directives -> directive_matches_b W d (GD S d) = true.
  Proof.
    intros d I. simpl in I.
    repeat (destruct I as [I|I]; [subst d; apply directive_ok_gen;
      [ apply nodup_b_NoDup; reflexivity
      | intros iv Iv; simpl in Iv;
        repeat (destruct Iv as [Iv|Iv]; [subst iv; split; [apply base_find; simpl; auto 10|];
                split; [intros v E; inversion E; reflexivity|]; split; reflexivity|]);
        contradiction
      | apply nodup_b_NoDup; reflexivity ] |]).
    contradiction.
  Qed.

  (* --- everything --- *)
  Theorem generate_exact : exists D, generate S = Some D /\ complete_exact_b S D = true /\ typeref_faithful_b S D = true.
  Proof.
    destruct (generate_shape S WF GOK) as [tq [Fq Gen]]. eexists. split; [exact Gen|].
    destruct (wf_parts S WF) as [NDt [NDd [_ [_ [_ [RM RS]]]]]].
    assert (Types : assoc_b td_name it_name (type_matches_b W) (s_types W)
                      (map (G1 S) (s_types S) ++ map scalar_itype base_scalar_names) = true).
    { cbn [s_types with_base]. apply Forall2_assoc_b.
      - rewrite map_app. apply (all_names_nodup S WF GOK).
      - apply Forall2_app.
        + apply Forall2_map_r. intros t I. split.
          * unfold G1. apply g1_name. apply user_name_not_uu. apply (user_type_name_ok S WF). auto.
          * apply type_ok. auto.
        + unfold base_scalars. repeat constructor. }
    assert (Dirs : assoc_b dd_name id_name (directive_matches_b W) (s_directives W)
                     (map (GD S) (s_directives S) ++ map (GD S) base_public_directives) = true).
    { cbn [s_directives with_base]. rewrite <- map_app. apply Forall2_assoc_b.
      - rewrite map_app. destruct (gen_ok_parts S GOK) as [_ [_ [_ [_ [_ B]]]]].
        apply NoDup_app_intro; auto.
        + apply nodup_b_NoDup. reflexivity.
        + intros n I1 I2. apply in_map_iff in I1. destruct I1 as [d [E I]]. subst n. eapply B; eauto.
      - apply Forall2_map_r. intros d I. split; [reflexivity|]. apply in_app_or in I.
        destruct I; [apply user_directive_ok|apply base_directive_ok]; auto. }
    assert (Root : forall n, opt_root_wf S n = true -> root_matches_b W n (opt_root S n) = true).
    { intros [n|] R; [|reflexivity]. unfold opt_root_wf, root_wf in R. unfold opt_root, root_matches_b.
      destruct (find_type n (s_types S)) as [t|] eqn:F; [|discriminate].
      pose proof (find_type_In _ _ _ F) as [I E]. cbn [s_types with_base]. rewrite find_type_app, F.
      unfold G1. rewrite g1_name. 2:{ apply user_name_not_uu. apply (user_type_name_ok S WF). auto. }
      rewrite E, bytes_eqb_refl. apply type_ok. auto. }
    split.
    - unfold complete_exact_b, exact_b. cbn [i_query i_mutation i_subscription i_types i_directives].
      rewrite Types, Dirs. cbn [s_query s_mutation s_subscription with_base].
      rewrite (Root (s_mutation S) RM), (Root (s_subscription S) RS).
      specialize (Root (Some (s_query S))). unfold opt_root in Root. rewrite Fq in Root. rewrite Root; auto.
      unfold opt_root_wf. destruct (wf_parts S WF) as [_ [_ [_ [_ [Q _]]]]]. auto.
    - (* type references only: a consequence of the full matching *)
      unfold typeref_faithful_b, typerefs_b. cbn [i_types i_directives].
      apply andb_true_iff. split.
      + apply forallb_forall. intros t I.
        apply (assoc_b_sound td_name it_name (fun a x => type_matches_b W a x = true)) in Types; [|auto].
        destruct Types as [_ [ND2 [_ A]]]. destruct (A t I) as [x [Ix [Ex Mx]]].
        rewrite <- Ex. rewrite find_by_unique; auto.
        unfold type_matches_b in Mx. andb_split Mx. unfold refs_of_type_b.
        apply andb_true_iff. split.
        * apply forallb_forall. intros f If.
          apply (assoc_b_sound fd_name if_name (fun a y => field_matches_b W a y = true)) in Mx5; [|auto].
          destruct Mx5 as [_ [NDf [_ Af]]]. destruct (Af f If) as [y [Iy [Ey My]]].
          rewrite <- Ey. rewrite find_by_unique; auto. unfold field_matches_b in My. andb_split My.
          rewrite My. cbn [andb]. unfold refs_of_inputs_b. apply forallb_forall. intros iv Iv.
          apply (assoc_b_sound iv_name ii_name (fun a z => input_matches_b W a z = true)) in My1; [|auto].
          destruct My1 as [_ [NDi [_ Ai]]]. destruct (Ai iv Iv) as [z [Iz [Ez Mz]]].
          rewrite <- Ez. rewrite find_by_unique; auto. unfold input_matches_b in Mz. andb_split Mz. auto.
        * unfold refs_of_inputs_b. apply forallb_forall. intros iv Iv.
          apply (assoc_b_sound iv_name ii_name (fun a z => input_matches_b W a z = true)) in Mx4; [|auto].
          destruct Mx4 as [_ [NDi [_ Ai]]]. destruct (Ai iv Iv) as [z [Iz [Ez Mz]]].
          rewrite <- Ez. rewrite find_by_unique; auto. unfold input_matches_b in Mz. andb_split Mz. auto.
      + apply forallb_forall. intros d I.
        apply (assoc_b_sound dd_name id_name (fun a x => directive_matches_b W a x = true)) in Dirs; [|auto].
        destruct Dirs as [_ [ND2 [_ A]]]. destruct (A d I) as [x [Ix [Ex Mx]]].
        rewrite <- Ex. rewrite find_by_unique; auto.
        unfold directive_matches_b in Mx. andb_split Mx.
        unfold refs_of_inputs_b. apply forallb_forall. intros iv Iv.
        apply (assoc_b_sound iv_name ii_name (fun a z => input_matches_b W a z = true)) in Mx; [|auto].
        destruct Mx as [_ [NDi [_ Ai]]]. destruct (Ai iv Iv) as [z [Iz [Ez Mz]]].
        rewrite <- Ez. rewrite find_by_unique; auto. unfold input_matches_b in Mz. andb_split Mz. auto.
  Qed.
End Exact.
