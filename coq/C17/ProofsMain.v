(* C17: the property statements assembled from the pieces. *)
From Gv Require Import lib.Bytes lib.Gql C17.Util C17.ValueSyntax C17.Base C17.Model C17.Spec
  C17.ProofsBase C17.ProofsValue C17.ProofsGen C17.ProofsShape C17.ProofsExact C17.ProofsRound C17.ProofsSpec C17.ProofsRoots C17.Witness.
Open Scope N_scope.

Lemma lossy_split : forall S, lossy_clauses S = [] -> conv_ok S /\ gen_ok S.
Proof. intros S H. unfold lossy_clauses in H. apply app_nil_both in H. auto. Qed.

Lemma roundtrip_partial_proof : forall S, wf_schema S = true -> lossy_clauses S = [] ->
  exists D C, generate S = Some D /\ convert D = COk C /\ schema_equiv C (with_base S).
Proof.
  intros S WF L. destruct (lossy_split S L) as [CO GO].
  destruct (roundtrip_ok S WF GO CO) as [D [C [G [Cv E]]]]. exists D, C. split; [auto|]. split; [auto|].
  apply schema_equiv_b_iff. auto.
Qed.

Lemma complete_exact_partial_proof : forall S, wf_schema S = true -> generate_lossy S = [] ->
  exists D, generate S = Some D /\ complete_exact_b S D = true.
Proof.
  intros S WF G. destruct (generate_exact S WF G) as [D [A [B _]]]. eauto.
Qed.

(* documents without schema definition: the same two claims about the schema they describe *)
Lemma no_schema_definition_proof : forall S,
  s_query S = [] -> s_mutation S = None -> s_subscription S = None ->
  wf_schema (described false S) = true ->
  generate_doc false S = generate (described false S)
  /\ (lossy_clauses (described false S) = [] ->
      exists D C, generate_doc false S = Some D /\ convert D = COk C /\ schema_equiv C (with_base (described false S)))
  /\ (generate_lossy (described false S) = [] ->
      exists D, generate_doc false S = Some D /\ complete_exact_b (described false S) D = true).
Proof.
  intros S NQ NM NS WF. pose proof (generate_no_schema_definition S NQ NM NS WF) as E.
  split; [exact E|]. rewrite E. split; intro L.
  - apply roundtrip_partial_proof; auto.
  - apply complete_exact_partial_proof; auto.
Qed.

(* since the repair of typeref-kind-name-collision this needs no hypothesis on S at all *)
Lemma typeref_faithful_proof : forall S t,
  (exists d, find_type (named_of t) (s_types (with_base S)) = Some d) ->
  typeref_matches (with_base S) t (typeref (build_index S (merge_base S)) t).
Proof. intros S t R. apply (typeref_prop S). auto. Qed.

Lemma typeref_data_proof : forall S, wf_schema S = true -> generate_lossy S = [] ->
  exists D, generate S = Some D /\ typeref_faithful_b S D = true.
Proof.
  intros S WF G. destruct (generate_exact S WF G) as [D [A [_ B]]]. eauto.
Qed.

Lemma depth_preserved : forall W t r, typeref_matches W t r ->
  forall n, ty_depth t = n -> (fix d (r : itref) : nat := match r with ITRef _ _ (Some r') => S (d r') | ITRef _ _ None => O end) r = n.
Proof.
  induction 1; intros m E; simpl in *; auto; rewrite (IHtyperef_matches _ eq_refl); auto.
Qed.
