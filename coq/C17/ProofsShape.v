(* C17: [generate S] computed explicitly for well-formed S outside the generator-side losses. *)
From Coq Require Import Lia Arith PeanoNat String.
From Gv Require Import lib.Bytes lib.Gql C17.Util C17.ValueSyntax C17.Base C17.Model C17.Spec C17.ProofsBase C17.ProofsGen.
Open Scope N_scope.

Lemma NoDup_app_intro : forall {A} (l1 l2 : list A),
  NoDup l1 -> NoDup l2 -> (forall x, In x l1 -> In x l2 -> False) -> NoDup (l1 ++ l2).
Proof.
  induction l1; simpl; intros; auto. inversion H; subst. constructor.
  - intro I. apply in_app_or in I. destruct I; auto. eapply H1; eauto.
  - apply IHl1; auto. intros. eapply H1; eauto.
Qed.

(* ------------------------------------------------------------------ membership *)
Lemma in_all_input_values_arg : forall S t f iv,
  In t (s_types S) -> In f (td_fields t) -> In iv (fd_args f) -> In iv (all_input_values S).
Proof.
  intros. unfold all_input_values. apply in_or_app. left. apply in_flat_map. exists t. split; auto.
  apply in_or_app. left. apply in_flat_map. exists f. auto.
Qed.
Lemma in_all_input_values_input : forall S t iv,
  In t (s_types S) -> In iv (td_input_fields t) -> In iv (all_input_values S).
Proof.
  intros. unfold all_input_values. apply in_or_app. left. apply in_flat_map. exists t. split; auto.
  apply in_or_app. auto.
Qed.
Lemma in_all_input_values_dir : forall S d iv,
  In d (s_directives S) -> In iv (dd_args d) -> In iv (all_input_values S).
Proof.
  intros. unfold all_input_values. apply in_or_app. right. apply in_flat_map. exists d. auto.
Qed.
Lemma in_deprecable_field : forall S t f, In t (s_types S) -> In f (td_fields t) -> In (fd_dirs f) (all_deprecable_dirs S).
Proof.
  intros. unfold all_deprecable_dirs. apply in_or_app. left. apply in_flat_map. exists t. split; auto.
  apply in_or_app. left. apply in_map. auto.
Qed.
Lemma in_deprecable_enum : forall S t e, In t (s_types S) -> In e (td_enum_values t) -> In (ev_dirs e) (all_deprecable_dirs S).
Proof.
  intros. unfold all_deprecable_dirs. apply in_or_app. left. apply in_flat_map. exists t. split; auto.
  apply in_or_app. right. apply in_map. auto.
Qed.
Lemma in_deprecable_iv : forall S iv, In iv (all_input_values S) -> In (iv_dirs iv) (all_deprecable_dirs S).
Proof. intros. unfold all_deprecable_dirs. apply in_or_app. right. apply in_map. auto. Qed.

(* ------------------------------------------------------------------ no panic *)
Lemma dirs_no_panic : forall ds, dirs_wf ds = true -> dirs_panic ds = false.
Proof.
  intros ds W. unfold dirs_panic, dirs_wf in *. rewrite find_dir_sp.
  destruct (sp_dir #"deprecated" ds) as [d|]; auto. rewrite find_arg_sp.
  destruct (sp_arg #"reason" d) as [v|]; auto.
  destruct v; try discriminate; auto.
Qed.

Lemma fields_add_typename_in : forall sub t f, In f (td_fields (add_typename sub t)) -> In f (td_fields t) \/ f = typename_field.
Proof.
  intros sub t f. unfold add_typename. destruct (td_kind t); auto.
  - destruct (bytes_eqb (td_name t) sub || bytes_eqb (td_name t) #"Subscription"); auto.
    destruct (has_field #"__typename" (td_fields t)); auto. simpl. intro I. apply in_app_or in I.
    destruct I as [I|[I|[]]]; auto.
  - destruct (has_field #"__typename" (td_fields t)); auto. simpl. intro I. apply in_app_or in I.
    destruct I as [I|[I|[]]]; auto.
  - destruct (has_field #"__typename" (td_fields t)); auto. simpl. intros [I|[]]; auto.
Qed.
Lemma fields_add_intro_in : forall t f, In f (td_fields (add_introspection_fields t)) ->
  In f (td_fields t) \/ f = schema_field \/ f = type_field.
Proof.
  intros t f. unfold add_introspection_fields. destruct (is_object t); auto. simpl. intro I.
  apply in_app_or in I. destruct I as [I|I]; auto. apply in_app_or in I.
  destruct (has_field #"__schema" (td_fields t)), (has_field #"__type" (td_fields t)); simpl in I; intuition congruence.
Qed.

Definition field_clean (f : field_def) : Prop := dirs_panic (fd_dirs f) = false /\ existsb iv_panics (fd_args f) = false.
Definition type_clean (t : type_def) : Prop :=
  (forall f, In f (td_fields t) -> field_clean f)
  /\ existsb iv_panics (td_input_fields t) = false
  /\ existsb (fun e => dirs_panic (ev_dirs e)) (td_enum_values t) = false
  /\ (td_kind t = KScalar -> specified_panic (td_dirs t) = false).

Lemma type_clean_no_panic : forall t, type_clean t -> type_panics t = false.
Proof.
  intros t [C1 [C2 [C3 C4]]]. unfold type_panics. rewrite C2, C3.
  replace (existsb (fun f => dirs_panic (fd_dirs f) || existsb iv_panics (fd_args f)) (td_fields t)) with false.
  - simpl. destruct (td_kind t); auto.
  - symmetry. apply existsb_false_forall. intros f I. destruct (C1 f I) as [A B]. rewrite A, B. auto.
Qed.

Lemma type_clean_add_typename : forall sub t, type_clean t -> type_clean (add_typename sub t).
Proof.
  intros sub t [C1 [C2 [C3 C4]]].
  assert (E : td_input_fields (add_typename sub t) = td_input_fields t /\ td_enum_values (add_typename sub t) = td_enum_values t
              /\ td_kind (add_typename sub t) = td_kind t /\ td_dirs (add_typename sub t) = td_dirs t).
  { unfold add_typename. destruct (td_kind t) eqn:K; auto.
    - destruct (bytes_eqb (td_name t) sub || bytes_eqb (td_name t) #"Subscription"); auto.
      destruct (has_field #"__typename" (td_fields t)); auto.
    - destruct (has_field #"__typename" (td_fields t)); auto.
    - destruct (has_field #"__typename" (td_fields t)); auto. }
  destruct E as [E1 [E2 [E3 E4]]]. unfold type_clean. rewrite E1, E2, E3, E4. repeat split; auto.
  - apply fields_add_typename_in in H. destruct H as [H|H]; [apply C1; auto|subst; reflexivity].
  - apply fields_add_typename_in in H. destruct H as [H|H]; [apply C1; auto|subst; reflexivity].
Qed.
Lemma type_clean_add_intro : forall t, type_clean t -> type_clean (add_introspection_fields t).
Proof.
  intros t [C1 [C2 [C3 C4]]].
  assert (E : td_input_fields (add_introspection_fields t) = td_input_fields t
              /\ td_enum_values (add_introspection_fields t) = td_enum_values t
              /\ td_kind (add_introspection_fields t) = td_kind t /\ td_dirs (add_introspection_fields t) = td_dirs t).
  { unfold add_introspection_fields. destruct (is_object t); auto. }
  destruct E as [E1 [E2 [E3 E4]]]. unfold type_clean. rewrite E1, E2, E3, E4. repeat split; auto.
  - apply fields_add_intro_in in H. destruct H as [H|[H|H]]; [apply C1; auto|subst; reflexivity|subst; reflexivity].
  - apply fields_add_intro_in in H. destruct H as [H|[H|H]]; [apply C1; auto|subst; reflexivity|subst; reflexivity].
Qed.

Lemma Forall_update_first : forall (P : type_def -> Prop) n g l,
  (forall t, P t -> P (g t)) -> Forall P l -> Forall P (update_first n g l).
Proof.
  induction l; simpl; intros; auto. inversion H0; subst.
  destruct (bytes_eqb n (td_name a)); constructor; auto.
Qed.

Lemma base_types_clean : Forall type_clean (base_scalars ++ base_meta_types).
Proof.
  apply Forall_forall. intros t I. simpl in I.
  repeat (destruct I as [I|I]; [subst t; (split; [|split; [|split]]);
    [ intros f If; simpl in If; repeat (destruct If as [If|If]; [subst f; split; reflexivity|]); contradiction
    | reflexivity | reflexivity | intros; reflexivity ] |]).
  contradiction.
Qed.

(* ------------------------------------------------------------------ object-name helpers *)
Lemma is_object_kind : forall t, is_object t = is_kind KObject t.
Proof. intros. unfold is_object, is_kind. destruct (td_kind t); auto. Qed.
Lemma has_object_app : forall n l1 l2, has_object n (l1 ++ l2) = has_object n l1 || has_object n l2.
Proof. intros. unfold has_object. apply existsb_app. Qed.
Lemma has_object_named_eq : forall n S, has_object n (s_types S) = has_object_named n S.
Proof.
  intros. unfold has_object, has_object_named. induction (s_types S); simpl; auto.
Qed.

Lemma find_last_unique : forall {A} (key : A -> name) l x n,
  NoDup (map key l) -> In x l -> key x = n -> find_last (fun t => bytes_eqb (key t) n) l = Some x.
Proof.
  induction l; simpl; intros x n ND I K; try contradiction. inversion ND; subst.
  destruct I as [I|I].
  - subst a. assert (find_last (fun t => bytes_eqb (key t) (key x)) l = None).
    { clear IHl ND H2. induction l; simpl; auto.
      assert (~ In (key x) (map key l)) by (intro; apply H1; simpl; auto).
      rewrite IHl; auto. destruct (bytes_eqb (key a) (key x)) eqn:E; auto.
      apply bytes_eqb_eq in E. exfalso. apply H1. simpl. auto. }
    rewrite H. rewrite bytes_eqb_refl. auto.
  - rewrite (IHl x (key x)); auto.
Qed.

(* ------------------------------------------------------------------ per-kind content of td_wf *)
Lemma td_wf_name : forall S t, td_wf S t = true -> user_name_ok (td_name t) = true.
Proof. intros S t H. unfold td_wf in H. apply andb_true_iff in H. tauto. Qed.

Lemma user_name_not_uu : forall n, user_name_ok n = true -> starts_uu n = false.
Proof. intros n H. unfold user_name_ok in H. apply andb_true_iff in H. destruct H as [_ H]. apply negb_true_iff in H. auto. Qed.
Lemma user_name_nonempty : forall n, user_name_ok n = true -> n <> [].
Proof. intros n H E. subst. discriminate. Qed.


Lemma td_wf_cases : forall S t, td_wf S t = true ->
  match td_kind t with
  | KScalar => td_implements t = [] /\ td_fields t = [] /\ td_members t = [] /\ td_enum_values t = []
               /\ td_input_fields t = [] /\ scalar_dirs_wf (td_dirs t) = true
  | KObject | KInterface =>
    nodup_b (td_implements t) = true
    /\ forallb (resolves_as S (fun k => kind_eqb k KInterface)) (td_implements t) = true
    /\ fields_wf S (td_fields t) = true /\ td_members t = [] /\ td_enum_values t = [] /\ td_input_fields t = []
  | KUnion => td_implements t = [] /\ td_fields t = [] /\ td_members t <> [] /\ nodup_b (td_members t) = true
              /\ forallb (resolves_as S (fun k => kind_eqb k KObject)) (td_members t) = true
              /\ td_enum_values t = [] /\ td_input_fields t = []
  | KEnum => td_implements t = [] /\ td_fields t = [] /\ td_members t = []
             /\ nodup_b (map ev_name (td_enum_values t)) = true /\ forallb (ev_wf) (td_enum_values t) = true
             /\ td_input_fields t = []
  | KInputObject => td_implements t = [] /\ td_fields t = [] /\ td_members t = [] /\ td_enum_values t = []
                    /\ ivs_wf S (td_input_fields t) = true
  end.
Proof.
  intros S t H. unfold td_wf in H. apply andb_true_iff in H. destruct H as [_ H].
  destruct (td_kind t).
  - apply andb_true_iff in H. destruct H as [H H6]. apply andb_true_iff in H. destruct H as [H H5].
    apply andb_true_iff in H. destruct H as [H H4]. apply andb_true_iff in H. destruct H as [H H3].
    apply andb_true_iff in H. destruct H as [H1 H2].
    repeat split; auto using is_nil_eq.
  - apply andb_true_iff in H. destruct H as [H H6]. apply andb_true_iff in H. destruct H as [H H5].
    apply andb_true_iff in H. destruct H as [H H4]. apply andb_true_iff in H. destruct H as [H H3].
    apply andb_true_iff in H. destruct H as [H1 H2].
    repeat split; auto using is_nil_eq.
  - apply andb_true_iff in H. destruct H as [H H6]. apply andb_true_iff in H. destruct H as [H H5].
    apply andb_true_iff in H. destruct H as [H H4]. apply andb_true_iff in H. destruct H as [H H3].
    apply andb_true_iff in H. destruct H as [H1 H2].
    repeat split; auto using is_nil_eq.
  - apply andb_true_iff in H. destruct H as [H H7]. apply andb_true_iff in H. destruct H as [H H6].
    apply andb_true_iff in H. destruct H as [H H5]. apply andb_true_iff in H. destruct H as [H H4].
    apply andb_true_iff in H. destruct H as [H H3]. apply andb_true_iff in H. destruct H as [H1 H2].
    split; [auto using is_nil_eq|]. split; [auto using is_nil_eq|]. split.
    { intro E. rewrite E in H3. discriminate. }
    repeat split; auto using is_nil_eq.
  - apply andb_true_iff in H. destruct H as [H H7]. apply andb_true_iff in H. destruct H as [H H6].
    apply andb_true_iff in H. destruct H as [H H5]. apply andb_true_iff in H. destruct H as [H H4].
    apply andb_true_iff in H. destruct H as [H H3]. apply andb_true_iff in H. destruct H as [H1 H2].
    repeat split; auto using is_nil_eq.
  - apply andb_true_iff in H. destruct H as [H H6]. apply andb_true_iff in H. destruct H as [H H5].
    apply andb_true_iff in H. destruct H as [H H4]. apply andb_true_iff in H. destruct H as [H H3].
    apply andb_true_iff in H. destruct H as [H1 H2].
    repeat split; auto using is_nil_eq.
Qed.

Lemma fields_wf_parts : forall S fs, fields_wf S fs = true ->
  fs <> [] /\ NoDup (map fd_name fs) /\ (forall f, In f fs -> fd_wf S f = true).
Proof.
  intros S fs H. unfold fields_wf in H. apply andb_true_iff in H. destruct H as [H H3].
  apply andb_true_iff in H. destruct H as [H1 H2]. split.
  { intro E. subst. discriminate. }
  split. { apply nodup_b_NoDup. auto. }
  apply forallb_forall. auto.
Qed.
Lemma fd_wf_parts : forall S f, fd_wf S f = true ->
  user_name_ok (fd_name f) = true /\ resolves_as S is_output_kind (named_of (fd_type f)) = true
  /\ ivs_wf S (fd_args f) = true /\ dirs_wf (fd_dirs f) = true.
Proof. intros S f H. unfold fd_wf in H. andb_split H. auto. Qed.
Lemma ivs_wf_parts : forall S ivs, ivs_wf S ivs = true -> NoDup (map iv_name ivs) /\ (forall iv, In iv ivs -> iv_wf S iv = true).
Proof.
  intros S ivs H. unfold ivs_wf in H. apply andb_true_iff in H. destruct H as [H1 H2]. split.
  { apply nodup_b_NoDup. auto. } apply forallb_forall. auto.
Qed.
Lemma iv_wf_parts : forall S iv, iv_wf S iv = true ->
  user_name_ok (iv_name iv) = true /\ resolves_as S is_input_kind (named_of (iv_type iv)) = true
  /\ (forall v, iv_default iv = Some v -> value_wf v = true) /\ dirs_wf (iv_dirs iv) = true.
Proof.
  intros S iv H. unfold iv_wf in H. andb_split H. repeat split; auto.
  intros v E. rewrite E in H1. auto.
Qed.

Definition g1 (idx : list (name * idx_entry)) (dds : list directive_def) (all : list type_def) (t : type_def) : itype :=
  hd (empty_type IK_SCALAR []) (gen_type idx dds all t).
Definition gd (idx : list (name * idx_entry)) (dds : list directive_def) (d : directive_def) : idirective :=
  {| id_name := dd_name d; id_locations := dd_locations d; id_args := map (gen_input idx dds) (dd_args d);
     id_repeatable := dd_repeatable d |}.

Lemma gen_type_user : forall idx dds all t, starts_uu (td_name t) = false -> gen_type idx dds all t = [g1 idx dds all t].
Proof. intros. unfold g1, gen_type. destruct (td_kind t); rewrite ?H; reflexivity. Qed.
Lemma gen_directive_user : forall idx dds d, starts_uu (dd_name d) = false -> gen_directive idx dds d = [gd idx dds d].
Proof. intros. unfold gen_directive. rewrite H. reflexivity. Qed.
Lemma g1_name : forall idx dds all t, starts_uu (td_name t) = false -> it_name (g1 idx dds all t) = td_name t.
Proof. intros. unfold g1, gen_type. destruct (td_kind t); rewrite ?H; reflexivity. Qed.

Section Shape.
  Variable S : schema.
  Hypothesis WF : wf_schema S = true.
  Hypothesis GOK : gen_ok S.

  Definition ts0 : list type_def := s_types S ++ base_scalars ++ base_meta_types.
  Definition M : schema := merge_base S.
  Definition idx : list (name * idx_entry) := build_index S M.
  Definition dds : list directive_def := s_directives S ++ base_public_directives ++ base_internal_directives.

  Lemma query_root : exists tq, find_type (s_query S) (s_types S) = Some tq /\ td_kind tq = KObject /\ In tq (s_types S).
  Proof.
    destruct (wf_parts S WF) as [_ [_ [_ [_ [Q _]]]]]. unfold root_wf in Q.
    destruct (find_type (s_query S) (s_types S)) as [tq|] eqn:E; try discriminate.
    exists tq. split; auto. split. { apply kind_eqb_eq. auto. } apply find_type_In in E. tauto.
  Qed.

  Lemma user_type_name_ok : forall t, In t (s_types S) -> user_name_ok (td_name t) = true.
  Proof. intros t I. destruct (wf_parts S WF) as [_ [_ [T _]]]. eapply td_wf_name. apply T. auto. Qed.

  Lemma query_nonempty : s_query S <> [].
  Proof.
    destruct query_root as [tq [F [_ I]]]. apply find_type_In in F. destruct F as [_ F]. rewrite <- F.
    apply user_name_nonempty. apply user_type_name_ok. auto.
  Qed.

  Lemma has_query : has_type (s_query S) ts0 = true.
  Proof.
    destruct query_root as [tq [F _]]. unfold has_type, ts0. rewrite find_type_app, F. auto.
  Qed.

  Lemma base_no_root_object : forall n, has_object n (base_scalars ++ base_meta_types) = true -> starts_uu n = true.
  Proof.
    intros n H. unfold has_object in H. apply existsb_exists in H. destruct H as [t [I H]].
    apply andb_true_iff in H. destruct H as [O E]. apply bytes_eqb_eq in E. subst n.
    simpl in I. repeat (destruct I as [I|I]; [subst t; try discriminate; reflexivity|]). contradiction.
  Qed.

  (* with a schema definition no root is added by default name (fix root-operation-invented) *)
  Lemma root_default_same : forall declared def ts, root_or_default true declared def ts = declared.
  Proof. intros declared def ts. unfold root_or_default. destruct declared; auto. Qed.

  Lemma merged_types : s_types M = map (add_typename (match s_subscription S with Some n => n | None => [] end))
                                        (update_first (s_query S) add_introspection_fields ts0).
  Proof.
    unfold M, merge_base, merge_base_doc. fold ts0. rewrite has_query. cbn [s_types].
    rewrite (root_default_same (s_subscription S) #"Subscription"); auto.
  Qed.
  Lemma merged_dirs : s_directives M = dds.
  Proof. reflexivity. Qed.
  Lemma merged_query : s_query M = s_query S.
  Proof.
    unfold M, merge_base, merge_base_doc. fold ts0. rewrite has_query. cbn [s_query].
    destruct (s_query S) eqn:E; auto. exfalso. apply query_nonempty. auto.
  Qed.
  Lemma merged_mutation : s_mutation M = s_mutation S.
  Proof.
    unfold M, merge_base, merge_base_doc. fold ts0. rewrite has_query. cbn [s_mutation].
    apply root_default_same; auto.
  Qed.
  Lemma merged_subscription : s_subscription M = s_subscription S.
  Proof.
    unfold M, merge_base, merge_base_doc. fold ts0. rewrite has_query. cbn [s_subscription].
    apply root_default_same; auto.
  Qed.

  Definition G1 (t : type_def) : itype := g1 idx dds ts0 t.
  Definition GD (d : directive_def) : idirective := gd idx dds d.

  Lemma generated_types :
    flat_map (gen_type idx dds (s_types M)) (s_types M) = map G1 (s_types S) ++ map scalar_itype base_scalar_names.
  Proof.
    rewrite merged_types. rewrite gen_types_decorated. unfold ts0 at 2.
    rewrite !flat_map_app, gen_meta_nil, gen_base_scalars, app_nil_r. f_equal.
    apply flat_map_singleton. intros t I. apply gen_type_user. apply user_name_not_uu. apply user_type_name_ok. auto.
  Qed.

  Lemma user_dir_name_ok : forall d, In d (s_directives S) -> user_name_ok (dd_name d) = true.
  Proof.
    intros d I. destruct (wf_parts S WF) as [_ [_ [_ [D _]]]]. specialize (D d I).
    unfold dd_wf in D. andb_split D. auto.
  Qed.

  Lemma generated_dirs :
    flat_map (gen_directive idx dds) dds = map GD (s_directives S) ++ map GD base_public_directives.
  Proof.
    unfold dds at 2. rewrite !flat_map_app. f_equal; try reflexivity.
    apply flat_map_singleton. intros d I. apply gen_directive_user. apply user_name_not_uu. apply user_dir_name_ok. auto.
  Qed.

  (* --- no panic --- *)
  Lemma user_dirs_no_panic : forall ds, In ds (all_deprecable_dirs S) -> dirs_wf ds = true -> dirs_panic ds = false.
  Proof.
    intros ds I W. apply dirs_no_panic; auto.
  Qed.

  Lemma iv_wf_dirs : forall iv, iv_wf S iv = true -> dirs_wf (iv_dirs iv) = true.
  Proof. intros iv H. unfold iv_wf in H. andb_split H. auto. Qed.

  Lemma ivs_no_panic : forall ivs, (forall iv, In iv ivs -> In iv (all_input_values S)) -> ivs_wf S ivs = true ->
    existsb iv_panics ivs = false.
  Proof.
    intros ivs I W. unfold ivs_wf in W. apply andb_true_iff in W. destruct W as [_ W].
    rewrite forallb_forall in W. apply existsb_false_forall. intros iv Iv. unfold iv_panics.
    apply user_dirs_no_panic. { apply in_deprecable_iv. auto. } apply iv_wf_dirs. auto.
  Qed.

  Lemma fields_clean : forall t, In t (s_types S) -> fields_wf S (td_fields t) = true ->
    forall f, In f (td_fields t) -> field_clean f.
  Proof.
    intros t I FW f If. destruct (fields_wf_parts _ _ FW) as [_ [_ Ff]]. specialize (Ff f If).
    destruct (fd_wf_parts _ _ Ff) as [_ [_ [A D]]]. split.
    - apply user_dirs_no_panic; auto. eapply in_deprecable_field; eauto.
    - apply ivs_no_panic; auto. intros. eapply in_all_input_values_arg; eauto.
  Qed.

  Lemma user_type_clean : forall t, In t (s_types S) -> type_clean t.
  Proof.
    intros t I. destruct (wf_parts S WF) as [_ [_ [T _]]]. specialize (T t I).
    apply td_wf_cases in T. unfold type_clean.
    destruct (td_kind t) eqn:K.
    - destruct T as [T1 [T2 [T3 [T4 [T5 T6]]]]]. rewrite T2, T4, T5.
      repeat split; try (intros; contradiction); auto. intros _.
      unfold specified_panic, scalar_dirs_wf in *. rewrite find_dir_sp.
      destruct (sp_dir #"specifiedBy" (td_dirs t)); auto. rewrite find_arg_sp.
      destruct (sp_arg #"url" d) as [v|]; try discriminate. destruct v; try discriminate. auto.
    - destruct T as [T1 [T2 [T3 [T4 [T5 T6]]]]]. rewrite T5, T6.
      split; [apply fields_clean; auto|]. repeat split; auto. intros; discriminate.
    - destruct T as [T1 [T2 [T3 [T4 [T5 T6]]]]]. rewrite T5, T6.
      split; [apply fields_clean; auto|]. repeat split; auto. intros; discriminate.
    - destruct T as [T1 [T2 [T3 [T4 [T5 [T6 T7]]]]]]. rewrite T2, T6, T7.
      repeat split; try (intros; contradiction); auto. intros; discriminate.
    - destruct T as [T1 [T2 [T3 [T4 [T5 T6]]]]]. rewrite T2, T6.
      repeat split; try (intros; contradiction); auto; try (intros; discriminate).
      apply existsb_false_forall. intros e Ie. rewrite forallb_forall in T5. specialize (T5 e Ie).
      unfold ev_wf in T5. andb_split T5. apply user_dirs_no_panic; auto. eapply in_deprecable_enum; eauto.
    - destruct T as [T1 [T2 [T3 [T4 T5]]]]. rewrite T2, T4.
      repeat split; try (intros; contradiction); auto; try (intros; discriminate).
      apply ivs_no_panic; auto. intros. eapply in_all_input_values_input; eauto.
  Qed.

  Lemma merged_no_type_panic : existsb type_panics (s_types M) = false.
  Proof.
    apply existsb_false_forall. intros t I. apply type_clean_no_panic.
    rewrite merged_types in I. apply in_map_iff in I. destruct I as [t' [E I]]. subst t.
    apply type_clean_add_typename.
    assert (F : Forall type_clean (update_first (s_query S) add_introspection_fields ts0)).
    { apply Forall_update_first. apply type_clean_add_intro. unfold ts0. apply Forall_app. split.
      - apply Forall_forall. apply user_type_clean.
      - apply base_types_clean. }
    rewrite Forall_forall in F. auto.
  Qed.

  Lemma merged_no_dir_panic : existsb (fun d => existsb iv_panics (dd_args d)) dds = false.
  Proof.
    unfold dds. rewrite !existsb_app. apply orb_false_iff. split; [|reflexivity].
    apply existsb_false_forall. intros d I. destruct (wf_parts S WF) as [_ [_ [_ [D _]]]]. specialize (D d I).
    unfold dd_wf in D. andb_split D. apply ivs_no_panic; auto. intros. eapply in_all_input_values_dir; eauto.
  Qed.

  (* --- names of the generated types --- *)
  Lemma generated_names :
    map it_name (map G1 (s_types S) ++ map scalar_itype base_scalar_names) = map td_name (s_types S) ++ base_scalar_names.
  Proof.
    rewrite map_app, !map_map. f_equal; try reflexivity.
    apply map_ext_in. intros t I. apply g1_name. apply user_name_not_uu. apply user_type_name_ok. auto.
  Qed.

  Lemma all_names_nodup : NoDup (map td_name (s_types S) ++ base_scalar_names).
  Proof.
    destruct (wf_parts S WF) as [ND _]. destruct (gen_ok_parts S GOK) as [_ [_ [_ [_ [B _]]]]].
    apply NoDup_app_intro; auto.
    - repeat constructor; simpl; intuition discriminate.
    - intros n I1 I2. apply in_map_iff in I1. destruct I1 as [t [E I]]. subst n. eapply B; eauto.
  Qed.

  Lemma lookup_generated : forall n t, find_type n (s_types S) = Some t ->
    type_by_name n (map G1 (s_types S) ++ map scalar_itype base_scalar_names) = Some (G1 t).
  Proof.
    intros n t F. apply find_type_In in F. destruct F as [I E]. unfold type_by_name.
    apply find_last_unique.
    - rewrite generated_names. apply all_names_nodup.
    - apply in_or_app. left. apply in_map. auto.
    - unfold G1. rewrite g1_name; auto. apply user_name_not_uu. apply user_type_name_ok. auto.
  Qed.

  Definition opt_root (n : option name) : option itype :=
    match n with
    | Some n => match find_type n (s_types S) with Some t => Some (G1 t) | None => None end
    | None => None
    end.

  Lemma opt_root_lookup : forall n, opt_root_wf S n = true ->
    match n with Some n => type_by_name n (map G1 (s_types S) ++ map scalar_itype base_scalar_names) | None => None end = opt_root n.
  Proof.
    intros [n|] H; [|reflexivity]. unfold opt_root_wf, root_wf in H. unfold opt_root.
    destruct (find_type n (s_types S)) eqn:F; [|discriminate]. apply lookup_generated. auto.
  Qed.

  Theorem generate_shape : exists tq,
    find_type (s_query S) (s_types S) = Some tq /\
    generate S = Some {| i_query := G1 tq; i_mutation := opt_root (s_mutation S);
                         i_subscription := opt_root (s_subscription S);
                         i_types := map G1 (s_types S) ++ map scalar_itype base_scalar_names;
                         i_directives := map GD (s_directives S) ++ map GD base_public_directives |}.
  Proof.
    destruct query_root as [tq [F [K I]]]. exists tq. split; auto.
    destruct (wf_parts S WF) as [_ [_ [_ [_ [_ [RM RS]]]]]].
    unfold generate, generate_doc. change (merge_base_doc true S) with M. fold idx. rewrite merged_dirs. fold dds.
    rewrite merged_no_type_panic, merged_no_dir_panic. cbn [orb].
    rewrite generated_types, generated_dirs, merged_query, merged_mutation, merged_subscription.
    destruct (s_query S) eqn:Q. { exfalso. apply query_nonempty. auto. }
    rewrite (lookup_generated _ _ F).
    rewrite (opt_root_lookup _ RM), (opt_root_lookup _ RS). auto.
  Qed.
End Shape.
