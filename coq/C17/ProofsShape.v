(* C17: [generate S] computed explicitly for well-formed S outside the generator-side losses. *)
From Coq Require Import Lia Arith PeanoNat String.
From Gv Require Import lib.Bytes lib.Gql C17.Util C17.ValueSyntax C17.Base C17.Model C17.Spec C17.ProofsBase C17.ProofsGen.
Open Scope N_scope.

(* ------------------------------------------------------------------ membership *)
Lemma in_all_input_values_arg : forall S t f iv,
  In t (s_types S) -> In f (td_fields t) -> In iv (fd_args f) -> In iv (all_input_values S).
Proof.
  intros. unfold all_input_values. apply in_or_app. left. apply in_flat_map. exists t. split; auto.
  apply in_or_app. left. apply in_flat_map. exists f. auto.
Qed.
Lemma in_all_input_values_input : forall S t iv,
  In t (s_types S) -> In iv (td_input_fields t) -> In iv (all_input_values S).
Proof.
  intros. unfold all_input_values. apply in_or_app. left. apply in_flat_map. exists t. split; auto.
  apply in_or_app. auto.
Qed.
Lemma in_all_input_values_dir : forall S d iv,
  In d (s_directives S) -> In iv (dd_args d) -> In iv (all_input_values S).
Proof.
  intros. unfold all_input_values. apply in_or_app. right. apply in_flat_map. exists d. auto.
Qed.
Lemma in_deprecable_field : forall S t f, In t (s_types S) -> In f (td_fields t) -> In (fd_dirs f) (all_deprecable_dirs S).
Proof.
  intros. unfold all_deprecable_dirs. apply in_or_app. left. apply in_flat_map. exists t. split; auto.
  apply in_or_app. left. apply in_map. auto.
Qed.
Lemma in_deprecable_enum : forall S t e, In t (s_types S) -> In e (td_enum_values t) -> In (ev_dirs e) (all_deprecable_dirs S).
Proof.
  intros. unfold all_deprecable_dirs. apply in_or_app. left. apply in_flat_map. exists t. split; auto.
  apply in_or_app. right. apply in_map. auto.
Qed.
Lemma in_deprecable_iv : forall S iv, In iv (all_input_values S) -> In (iv_dirs iv) (all_deprecable_dirs S).
Proof. intros. unfold all_deprecable_dirs. apply in_or_app. right. apply in_map. auto. Qed.

(* ------------------------------------------------------------------ no panic *)
Lemma dirs_no_panic : forall ds, dirs_wf ds = true -> reason_of ds <> Some VNull -> dirs_panic ds = false.
Proof.
  intros ds W R. unfold dirs_panic, dirs_wf, reason_of in *. rewrite find_dir_sp.
  destruct (sp_dir #"deprecated" ds) as [d|]; auto. rewrite find_arg_sp.
  destruct (sp_arg #"reason" d) as [v|]; auto.
  destruct v; try discriminate; auto. congruence.
Qed.

Lemma fields_add_typename_in : forall sub t f, In f (td_fields (add_typename sub t)) -> In f (td_fields t) \/ f = typename_field.
Proof.
  intros sub t f. unfold add_typename. destruct (td_kind t); auto.
  - destruct (bytes_eqb (td_name t) sub || bytes_eqb (td_name t) #"Subscription"); auto.
    destruct (has_field #"__typename" (td_fields t)); auto. simpl. intro I. apply in_app_or in I.
    destruct I as [I|[I|[]]]; auto.
  - destruct (has_field #"__typename" (td_fields t)); auto. simpl. intro I. apply in_app_or in I.
    destruct I as [I|[I|[]]]; auto.
  - destruct (has_field #"__typename" (td_fields t)); auto. simpl. intros [I|[]]; auto.
Qed.
Lemma fields_add_intro_in : forall t f, In f (td_fields (add_introspection_fields t)) ->
  In f (td_fields t) \/ f = schema_field \/ f = type_field.
Proof.
  intros t f. unfold add_introspection_fields. destruct (is_object t); auto. simpl. intro I.
  apply in_app_or in I. destruct I as [I|I]; auto. apply in_app_or in I.
  destruct (has_field #"__schema" (td_fields t)), (has_field #"__type" (td_fields t)); simpl in I; intuition congruence.
Qed.

Definition field_clean (f : field_def) : Prop := dirs_panic (fd_dirs f) = false /\ existsb iv_panics (fd_args f) = false.
Definition type_clean (t : type_def) : Prop :=
  (forall f, In f (td_fields t) -> field_clean f)
  /\ existsb iv_panics (td_input_fields t) = false
  /\ existsb (fun e => dirs_panic (ev_dirs e)) (td_enum_values t) = false
  /\ (td_kind t = KScalar -> specified_panic (td_dirs t) = false).

Lemma type_clean_no_panic : forall t, type_clean t -> type_panics t = false.
Proof.
  intros t [C1 [C2 [C3 C4]]]. unfold type_panics. rewrite C2, C3.
  replace (existsb (fun f => dirs_panic (fd_dirs f) || existsb iv_panics (fd_args f)) (td_fields t)) with false.
  - simpl. destruct (td_kind t); auto.
  - symmetry. apply existsb_false_forall. intros f I. destruct (C1 f I) as [A B]. rewrite A, B. auto.
Qed.

Lemma type_clean_add_typename : forall sub t, type_clean t -> type_clean (add_typename sub t).
Proof.
  intros sub t [C1 [C2 [C3 C4]]].
  assert (E : td_input_fields (add_typename sub t) = td_input_fields t /\ td_enum_values (add_typename sub t) = td_enum_values t
              /\ td_kind (add_typename sub t) = td_kind t /\ td_dirs (add_typename sub t) = td_dirs t).
  { unfold add_typename. destruct (td_kind t) eqn:K; auto.
    - destruct (bytes_eqb (td_name t) sub || bytes_eqb (td_name t) #"Subscription"); auto.
      destruct (has_field #"__typename" (td_fields t)); auto.
    - destruct (has_field #"__typename" (td_fields t)); auto.
    - destruct (has_field #"__typename" (td_fields t)); auto. }
  destruct E as [E1 [E2 [E3 E4]]]. unfold type_clean. rewrite E1, E2, E3, E4. repeat split; auto.
  - apply fields_add_typename_in in H. destruct H as [H|H]; [apply C1; auto|subst; reflexivity].
  - apply fields_add_typename_in in H. destruct H as [H|H]; [apply C1; auto|subst; reflexivity].
Qed.
Lemma type_clean_add_intro : forall t, type_clean t -> type_clean (add_introspection_fields t).
Proof.
  intros t [C1 [C2 [C3 C4]]].
  assert (E : td_input_fields (add_introspection_fields t) = td_input_fields t
              /\ td_enum_values (add_introspection_fields t) = td_enum_values t
              /\ td_kind (add_introspection_fields t) = td_kind t /\ td_dirs (add_introspection_fields t) = td_dirs t).
  { unfold add_introspection_fields. destruct (is_object t); auto. }
  destruct E as [E1 [E2 [E3 E4]]]. unfold type_clean. rewrite E1, E2, E3, E4. repeat split; auto.
  - apply fields_add_intro_in in H. destruct H as [H|[H|H]]; [apply C1; auto|subst; reflexivity|subst; reflexivity].
  - apply fields_add_intro_in in H. destruct H as [H|[H|H]]; [apply C1; auto|subst; reflexivity|subst; reflexivity].
Qed.

Lemma Forall_update_first : forall (P : type_def -> Prop) n g l,
  (forall t, P t -> P (g t)) -> Forall P l -> Forall P (update_first n g l).
Proof.
  induction l; simpl; intros; auto. inversion H0; subst.
  destruct (bytes_eqb n (td_name a)); constructor; auto.
Qed.

Lemma base_types_clean : Forall type_clean (base_scalars ++ base_meta_types).
Proof.
  apply Forall_forall. intros t I. simpl in I.
  repeat (destruct I as [I|I]; [subst t; (split; [|split; [|split]]);
    [ intros f If; simpl in If; repeat (destruct If as [If|If]; [subst f; split; reflexivity|]); contradiction
    | reflexivity | reflexivity | intros; reflexivity ] |]).
  contradiction.
Qed.

(* ------------------------------------------------------------------ object-name helpers *)
Lemma is_object_kind : forall t, is_object t = is_kind KObject t.
Proof. intros. unfold is_object, is_kind. destruct (td_kind t); auto. Qed.
Lemma has_object_app : forall n l1 l2, has_object n (l1 ++ l2) = has_object n l1 || has_object n l2.
Proof. intros. unfold has_object. apply existsb_app. Qed.
Lemma has_object_named_eq : forall n S, has_object n (s_types S) = has_object_named n S.
Proof.
  intros. unfold has_object, has_object_named. induction (s_types S); simpl; auto.
Qed.

Lemma find_last_unique : forall {A} (key : A -> name) l x n,
  NoDup (map key l) -> In x l -> key x = n -> find_last (fun t => bytes_eqb (key t) n) l = Some x.
Proof.
  induction l; simpl; intros x n ND I K; try contradiction. inversion ND; subst.
  destruct I as [I|I].
  - subst a. assert (find_last (fun t => bytes_eqb (key t) (key x)) l = None).
    { clear IHl ND H2. induction l; simpl; auto.
      assert (~ In (key x) (map key l)) by (intro; apply H1; simpl; auto).
      rewrite IHl; auto. destruct (bytes_eqb (key a) (key x)) eqn:E; auto.
      apply bytes_eqb_eq in E. exfalso. apply H1. simpl. auto. }
    rewrite H. rewrite bytes_eqb_refl. auto.
  - rewrite (IHl x (key x)); auto.
Qed.
