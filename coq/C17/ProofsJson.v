(* C17: [decode_data] inverts [idata_json] (the spec checkers see exactly the data that was encoded). *)
From Coq Require Import String.
From Gv Require Import lib.Bytes lib.Json lib.Gql C17.Util C17.ValueSyntax C17.Base C17.Model C17.ProofsBase.
Open Scope N_scope.

Lemma kind_name_inv : forall k, kind_of_name (kind_name k) = k.
Proof. destruct k; reflexivity. Qed.

Lemma jopt_inv : forall o, jopt_of (jopt o) = o.
Proof. destruct o; reflexivity. Qed.

Lemma decode_typeref_inv : forall t, decode_typeref (typeref_json t) = t.
Proof.
  fix IH 1. intros [k n o]. cbn [typeref_json].
  destruct o as [t'|].
  - specialize (IH t'). destruct t' as [k' n' o']. cbn. cbn in IH. rewrite IH.
    rewrite kind_name_inv, jopt_inv. reflexivity.
  - cbn. rewrite kind_name_inv, jopt_inv. reflexivity.
Qed.

Lemma map_inv : forall {A B} (f : A -> B) (g : B -> A) l, (forall x, g (f x) = x) -> map g (map f l) = l.
Proof. intros. rewrite map_map. rewrite (map_ext _ (fun x => x)); auto. apply map_id. Qed.

Lemma decode_input_inv : forall i, decode_input (input_json i) = i.
Proof.
  intros [n t d dep r]. unfold decode_input, input_json. cbn.
  rewrite decode_typeref_inv, !jopt_inv. reflexivity.
Qed.
Lemma decode_field_inv : forall f, decode_field (field_json f) = f.
Proof.
  intros [n a t dep r]. unfold decode_field, field_json. cbn.
  rewrite decode_typeref_inv, jopt_inv, (map_inv input_json decode_input); auto using decode_input_inv.
Qed.
Lemma decode_enum_inv : forall e, decode_enum (enum_json e) = e.
Proof. intros [n dep r]. unfold decode_enum, enum_json. cbn. rewrite jopt_inv. reflexivity. Qed.

Lemma decode_type_inv : forall t, decode_type (type_json t) = t.
Proof.
  intros [k n fs ins ifs es ps sp]. unfold decode_type, type_json.
  cbn [it_kind it_name it_fields it_inputs it_interfaces it_enums it_possible it_specified].
  destruct fs as [|f fs'], es as [|e es'], sp as [u|]; cbn;
    rewrite ?kind_name_inv, ?(map_inv input_json decode_input), ?(map_inv typeref_json decode_typeref),
            ?(map_inv field_json decode_field), ?(map_inv enum_json decode_enum),
            ?decode_field_inv, ?decode_enum_inv;
    auto using decode_input_inv, decode_typeref_inv, decode_field_inv, decode_enum_inv.
Qed.

Lemma decode_directive_inv : forall d, decode_directive (directive_json d) = d.
Proof.
  intros [n ls a r]. unfold decode_directive, directive_json. cbn.
  rewrite (map_inv input_json decode_input); auto using decode_input_inv.
  rewrite (map_inv JStr jstr_of); auto.
Qed.

Theorem decode_encode : forall d, decode_data (idata_json d) = Some d.
Proof.
  intros [q m s ts ds]. unfold decode_data, idata_json. cbn.
  rewrite decode_type_inv, (map_inv type_json decode_type), (map_inv directive_json decode_directive);
    auto using decode_type_inv, decode_directive_inv.
  destruct m as [m|], s as [s|]; cbn; rewrite ?decode_type_inv; try reflexivity.
Qed.
