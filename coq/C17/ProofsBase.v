(* C17: reflection lemmas for the boolean helpers and the generic "same named items" relation. *)
From Coq Require Import Lia Arith PeanoNat.
From Gv Require Import lib.Bytes lib.Gql C17.Util C17.ValueSyntax C17.Base C17.Model C17.Spec.
Open Scope N_scope.

Lemma bytes_eqb_refl : forall a, bytes_eqb a a = true.
Proof. induction a; simpl; auto. rewrite N.eqb_refl. auto. Qed.

Lemma bytes_eqb_eq : forall a c, bytes_eqb a c = true <-> a = c.
Proof.
  induction a; destruct c; simpl; split; intro H; try congruence; auto.
  - apply andb_true_iff in H. destruct H as [H1 H2]. apply N.eqb_eq in H1. apply IHa in H2. congruence.
  - inversion H; subst. rewrite N.eqb_refl. simpl. apply bytes_eqb_refl.
Qed.

Lemma bytes_eqb_neq : forall a c, bytes_eqb a c = false <-> a <> c.
Proof.
  intros. split; intro H.
  - intro E. apply bytes_eqb_eq in E. congruence.
  - destruct (bytes_eqb a c) eqn:E; auto. apply bytes_eqb_eq in E. contradiction.
Qed.

Lemma bytes_eqb_sym : forall a c, bytes_eqb a c = bytes_eqb c a.
Proof.
  intros. destruct (bytes_eqb a c) eqn:E.
  - apply bytes_eqb_eq in E. subst. symmetry. apply bytes_eqb_refl.
  - symmetry. apply bytes_eqb_neq. apply bytes_eqb_neq in E. congruence.
Qed.

Lemma mem_bytes_In : forall x l, mem_bytes x l = true <-> In x l.
Proof.
  induction l; simpl; split; intro H; try congruence; try contradiction.
  - apply orb_true_iff in H. destruct H as [H|H].
    + left. apply bytes_eqb_eq in H. auto.
    + right. apply IHl. auto.
  - apply orb_true_iff. destruct H as [H|H].
    + left. subst. apply bytes_eqb_refl.
    + right. apply IHl. auto.
Qed.

Lemma nodup_b_NoDup : forall l, nodup_b l = true <-> NoDup l.
Proof.
  induction l; simpl; split; intro H.
  - constructor.
  - auto.
  - apply andb_true_iff in H. destruct H as [H1 H2]. constructor.
    + intro I. apply mem_bytes_In in I. rewrite I in H1. discriminate.
    + apply IHl. auto.
  - inversion H; subst. apply andb_true_iff. split.
    + destruct (mem_bytes a l) eqn:E; auto. apply mem_bytes_In in E. contradiction.
    + apply IHl. auto.
Qed.

Lemma subset_b_spec : forall a c, subset_b a c = true <-> (forall x, In x a -> In x c).
Proof.
  intros. unfold subset_b. rewrite forallb_forall. split; intros H x I.
  - apply mem_bytes_In. auto.
  - apply mem_bytes_In. auto.
Qed.

Lemma same_set_b_spec : forall a c, same_set_b a c = true <-> same_set a c.
Proof.
  intros. unfold same_set_b, same_set. rewrite andb_true_iff, !subset_b_spec. split.
  - intros [H1 H2] x. split; auto.
  - intros H. split; intros x I; apply H; auto.
Qed.

Lemma same_set_b_refl : forall a, same_set_b a a = true.
Proof. intros. apply same_set_b_spec. intro x. tauto. Qed.

Lemma opt_bytes_eqb_eq : forall a c, opt_bytes_eqb a c = true <-> a = c.
Proof.
  destruct a, c; simpl; split; intro H; try congruence; auto.
  - apply bytes_eqb_eq in H. congruence.
  - inversion H. apply bytes_eqb_refl.
Qed.
Lemma opt_bytes_eqb_refl : forall a, opt_bytes_eqb a a = true.
Proof. intros. apply opt_bytes_eqb_eq. auto. Qed.

Lemma ty_eqb_eq : forall a c, ty_eqb a c = true <-> a = c.
Proof.
  induction a; destruct c; simpl; split; intro H; try congruence.
  - apply bytes_eqb_eq in H. congruence.
  - inversion H. apply bytes_eqb_refl.
  - apply IHa in H. congruence.
  - inversion H; subst. apply IHa. auto.
  - apply IHa in H. congruence.
  - inversion H; subst. apply IHa. auto.
Qed.
Lemma ty_eqb_refl : forall a, ty_eqb a a = true.
Proof. intros. apply ty_eqb_eq. auto. Qed.

(* ---- nested induction on values ---- *)
Section ValueInd.
  Variable P : value -> Prop.
  Hypothesis Hvar : forall n, P (VVar n).
  Hypothesis Hint : forall r, P (VInt r).
  Hypothesis Hfloat : forall r, P (VFloat r).
  Hypothesis Hstr : forall r bl, P (VStr r bl).
  Hypothesis Hbool : forall x, P (VBool x).
  Hypothesis Hnull : P VNull.
  Hypothesis Henum : forall n, P (VEnum n).
  Hypothesis Hlist : forall l, Forall P l -> P (VList l).
  Hypothesis Hobj : forall fs, Forall (fun kv => P (snd kv)) fs -> P (VObj fs).
  Fixpoint value_ind' (v : value) : P v :=
    match v with
    | VVar n => Hvar n
    | VInt r => Hint r
    | VFloat r => Hfloat r
    | VStr r bl => Hstr r bl
    | VBool x => Hbool x
    | VNull => Hnull
    | VEnum n => Henum n
    | VList l => Hlist l ((fix go (l : list value) : Forall P l :=
                             match l with [] => Forall_nil _ | x :: r => Forall_cons _ (value_ind' x) (go r) end) l)
    | VObj fs => Hobj fs ((fix go (fs : list (name * value)) : Forall (fun kv => P (snd kv)) fs :=
                             match fs with [] => Forall_nil _ | kv :: r => Forall_cons _ (value_ind' (snd kv)) (go r) end) fs)
    end.
End ValueInd.

Lemma value_eqb_eq : forall a c, value_eqb a c = true <-> a = c.
Proof.
  induction a using value_ind'; destruct c; simpl; split; intro E; try congruence;
    try (apply bytes_eqb_eq in E; congruence);
    try (inversion E; subst; apply bytes_eqb_refl).
  - apply andb_true_iff in E. destruct E as [E1 E2]. apply bytes_eqb_eq in E1. apply Bool.eqb_prop in E2. congruence.
  - inversion E; subst. rewrite bytes_eqb_refl. simpl. apply Bool.eqb_reflx.
  - apply Bool.eqb_prop in E. congruence.
  - inversion E. apply Bool.eqb_reflx.
  - f_equal. revert items E. induction H; destruct items; intro E; try congruence; auto.
    apply andb_true_iff in E. destruct E as [E1 E2]. f_equal.
    + apply H. auto.
    + apply IHForall. auto.
  - inversion E; subst. clear E. induction H; auto.
    apply andb_true_iff. split; auto. apply H. auto.
  - f_equal. revert fields E. induction H; destruct fields; intro E; try congruence; auto.
    + destruct x. discriminate.
    + destruct x as [k v], p as [k' v']. apply andb_true_iff in E. destruct E as [E1 E3].
      apply andb_true_iff in E1. destruct E1 as [E1 E2]. f_equal.
      * apply bytes_eqb_eq in E1. simpl in H. apply H in E2. congruence.
      * apply IHForall. auto.
  - inversion E; subst. clear E. induction H; auto. destruct x as [k v].
    rewrite bytes_eqb_refl. simpl. apply andb_true_iff. split; auto. apply H. auto.
Qed.
Lemma value_eqb_refl : forall a, value_eqb a a = true.
Proof. intros. apply value_eqb_eq. auto. Qed.

Lemma opt_value_eqb_eq : forall a c, opt_value_eqb a c = true <-> a = c.
Proof.
  destruct a, c; simpl; split; intro H; try congruence; auto.
  - apply value_eqb_eq in H. congruence.
  - inversion H. apply value_eqb_refl.
Qed.

Lemma kind_eqb_eq : forall a c, kind_eqb a c = true <-> a = c.
Proof. destruct a, c; simpl; split; intro H; congruence. Qed.
Lemma ikind_eqb_eq : forall a c, ikind_eqb a c = true <-> a = c.
Proof. destruct a, c; simpl; split; intro H; congruence. Qed.

(* ---- find by name ---- *)
Section AssocLemmas.
  Context {A C : Type}.
  Variables (ka : A -> name) (kc : C -> name).

  Lemma find_by_In : forall n l x, find_by kc n l = Some x -> In x l /\ kc x = n.
  Proof.
    unfold find_by. intros n l x H. apply find_some in H. destruct H as [H1 H2].
    apply bytes_eqb_eq in H2. auto.
  Qed.

  Lemma find_by_unique : forall l x, NoDup (map kc l) -> In x l -> find_by kc (kc x) l = Some x.
  Proof.
    unfold find_by. induction l; simpl; intros x ND I; try contradiction.
    inversion ND; subst. destruct I as [I|I].
    - subst. rewrite bytes_eqb_refl. auto.
    - destruct (bytes_eqb (kc x) (kc a)) eqn:E.
      + apply bytes_eqb_eq in E. exfalso. apply H1. rewrite <- E. apply in_map. auto.
      + apply IHl; auto.
  Qed.

  Lemma find_by_none : forall n l, find_by kc n l = None -> ~ In n (map kc l).
  Proof.
    unfold find_by. intros n l H I. apply in_map_iff in I. destruct I as [x [E I]].
    eapply find_none in H; eauto. simpl in H. rewrite E, bytes_eqb_refl in H. discriminate.
  Qed.

  Variables (R : A -> C -> Prop) (rb : A -> C -> bool).

  Lemma assoc_b_sound : forall l1 l2,
      (forall a x, In a l1 -> In x l2 -> rb a x = true -> R a x) ->
      assoc_b ka kc rb l1 l2 = true -> assoc ka kc R l1 l2.
  Proof.
    intros l1 l2 HR H. unfold assoc_b in H.
    apply andb_true_iff in H. destruct H as [H H4].
    apply andb_true_iff in H. destruct H as [H H3].
    apply andb_true_iff in H. destruct H as [H1 H2].
    apply nodup_b_NoDup in H1. apply nodup_b_NoDup in H2. apply Nat.eqb_eq in H3.
    repeat split; auto. intros a I. rewrite forallb_forall in H4. specialize (H4 a I).
    destruct (find_by kc (ka a) l2) eqn:F; try discriminate.
    apply find_by_In in F. destruct F as [F1 F2]. exists c. repeat split; auto.
  Qed.

  Lemma assoc_b_complete : forall l1 l2,
      (forall a x, In a l1 -> In x l2 -> R a x -> rb a x = true) ->
      assoc ka kc R l1 l2 -> assoc_b ka kc rb l1 l2 = true.
  Proof.
    intros l1 l2 HR [H1 [H2 [H3 H4]]]. unfold assoc_b.
    apply nodup_b_NoDup in H1. apply nodup_b_NoDup in H2. rewrite H1, H2. simpl.
    rewrite H3, Nat.eqb_refl. simpl. apply forallb_forall. intros a I.
    destruct (H4 a I) as [x [I2 [E Rx]]]. rewrite <- E.
    rewrite find_by_unique; auto. apply nodup_b_NoDup. auto.
  Qed.

  (* position-wise related lists with unique keys are related as sets of named items *)
  Lemma Forall2_assoc : forall l1 l2,
      NoDup (map ka l1) ->
      Forall2 (fun a x => kc x = ka a /\ R a x) l1 l2 -> assoc ka kc R l1 l2.
  Proof.
    intros l1 l2 ND F.
    assert (E : map kc l2 = map ka l1).
    { induction F; simpl; auto. destruct H. inversion ND; subst. f_equal; auto. }
    repeat split; auto.
    - rewrite E. auto.
    - clear ND E. induction F; simpl; auto.
    - intros a I. clear ND E. induction F; simpl in *; try contradiction.
      destruct I as [I|I].
      + subst. exists y. destruct H. auto.
      + destruct (IHF I) as [x' [I' P]]. exists x'. auto.
  Qed.
End AssocLemmas.

Lemma Forall2_map_r : forall {A C} (P : A -> C -> Prop) (f : A -> C) l,
    (forall a, In a l -> P a (f a)) -> Forall2 P l (map f l).
Proof. induction l; simpl; intros; constructor; auto. Qed.

Lemma Forall2_app_both : forall {A C} (P : A -> C -> Prop) l1 l2 m1 m2,
    Forall2 P l1 m1 -> Forall2 P l2 m2 -> Forall2 P (l1 ++ l2) (m1 ++ m2).
Proof. intros. apply Forall2_app; auto. Qed.
