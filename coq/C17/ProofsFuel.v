(* C17: the fuel of [parse_text] always suffices: the out-of-fuel result is unreachable. *)
From Coq Require Import Lia Arith PeanoNat.
From Gv Require Import lib.Bytes lib.Gql C17.Util C17.ValueSyntax.

Definition vgoal (f : nat) : Prop :=
  forall ts, (f >= 2 * length ts + 2)%nat ->
    parse_value f ts <> PFuel /\ forall v r, parse_value f ts = POk v r -> (length r < length ts)%nat.
Definition lgoal (f : nat) : Prop :=
  forall ts acc, (f >= 2 * length ts + 3)%nat ->
    parse_list f ts acc <> PFuel /\ forall v r, parse_list f ts acc = POk v r -> (length r < length ts)%nat.
Definition ogoal (f : nat) : Prop :=
  forall ts acc, (f >= 2 * length ts + 3)%nat ->
    parse_obj f ts acc <> PFuel /\ forall v r, parse_obj f ts acc = POk v r -> (length r < length ts)%nat.

Lemma list_step : forall f, vgoal f -> lgoal f -> forall ts acc, (S f >= 2 * length ts + 3)%nat ->
  (match parse_value f ts with
   | POk v r => parse_list f r (v :: acc)
   | PErr => PErr
   | PFuel => PFuel
   end) <> PFuel /\
  forall v r, (match parse_value f ts with
               | POk v r => parse_list f r (v :: acc)
               | PErr => PErr
               | PFuel => PFuel
               end) = POk v r -> (length r < length ts)%nat.
Proof.
  intros f V L ts acc H. destruct (V ts) as [NF LT]; [lia|].
  destruct (parse_value f ts) as [v r| |] eqn:E; try congruence.
  - specialize (LT v r eq_refl). destruct (L r (v :: acc)) as [NF2 LT2]; [lia|]. split; auto.
    intros v' r' E'. specialize (LT2 v' r' E'). lia.
  - split; [congruence|]. intros; discriminate.
Qed.

Lemma parse_no_fuel : forall f, vgoal f /\ lgoal f /\ ogoal f.
Proof.
  induction f as [|f [V [L O]]].
  - repeat split; intros; simpl in *; lia.
  - split; [|split].
    + (* value *)
      intros ts H. destruct ts as [|t r]; [split; [discriminate|intros; discriminate]|].
      cbn [length] in H.
      destruct t; cbn [parse_value]; try (split; [discriminate|intros v' r' E; inversion E; subst; cbn; lia]).
      * destruct (L r []) as [NF LT]; [lia|]. split; auto. intros v' r' E. specialize (LT v' r' E). cbn. lia.
      * destruct (O r []) as [NF LT]; [lia|]. split; auto. intros v' r' E. specialize (LT v' r' E). cbn. lia.
      * destruct r as [|t2 r2]; [split; [discriminate|intros; discriminate]|].
        destruct t2; split; try discriminate; intros v' r' E; inversion E; subst; cbn; lia.
      * destruct r as [|t2 r2]; [split; [discriminate|intros; discriminate]|].
        destruct t2; split; try discriminate; intros v' r' E; inversion E; subst; cbn; lia.
    + (* list *)
      intros ts acc H. destruct ts as [|t r].
      * apply (list_step f V L [] acc H).
      * destruct t; try apply (list_step f V L _ acc H).
        cbn [parse_list]. split; [discriminate|]. intros v' r' E. inversion E; subst. cbn. lia.
    + (* object *)
      intros ts acc H. destruct ts as [|t r]; [split; [discriminate|intros; discriminate]|].
      cbn [length] in H.
      destruct t; cbn [parse_obj]; try (split; [discriminate|intros; discriminate]).
      * split; [discriminate|]. intros v' r' E. inversion E; subst. cbn. lia.
      * destruct r as [|t2 r2]; [split; [discriminate|intros; discriminate]|].
        destruct t2; try (split; [discriminate|intros; discriminate]).
        cbn [length] in H.
        destruct (V r2) as [NF LT]; [lia|].
        destruct (parse_value f r2) as [v r3| |] eqn:E; try congruence.
        -- specialize (LT v r3 eq_refl). destruct (O r3 ((raw, v) :: acc)) as [NF2 LT2]; [lia|]. split; auto.
           intros v' r' E'. specialize (LT2 v' r' E'). cbn. lia.
        -- split; [congruence|]. intros; discriminate.
Qed.

Theorem parse_text_fuel : forall s, parse_text s <> PFuel.
Proof.
  intros s. unfold parse_text. destruct (parse_no_fuel (2 * length (lex s) + 2)) as [V _].
  apply V. lia.
Qed.
