(* C17: a document WITHOUT schema definition.  The merge applies the default root operation type names
   ([merge_base_doc false]); this is the same as declaring exactly the roots the GraphQL specification gives
   such a document ([Spec.described false]) in a schema definition.  So everything proved about
   [generate] (documents with a schema definition) carries over to documents without one. *)
From Coq Require Import Lia Arith PeanoNat String.
From Gv Require Import lib.Bytes lib.Gql C17.Util C17.ValueSyntax C17.Base C17.Model C17.Spec C17.ProofsBase C17.ProofsGen
  C17.ProofsShape.
Open Scope N_scope.

Lemma has_object_has_type : forall n l r, has_object n l = true -> has_type n (l ++ r) = true.
Proof.
  intros n l r H. unfold has_object in H. apply existsb_exists in H. destruct H as [t [I H]].
  apply andb_true_iff in H. destruct H as [_ E]. apply bytes_eqb_eq in E. subst n.
  unfold has_type. rewrite find_type_app.
  induction l as [|a l IH]; simpl in *; try contradiction.
  destruct (bytes_eqb (td_name t) (td_name a)) eqn:B; auto.
  destruct I as [I|I]. { subst a. rewrite bytes_eqb_refl in B. discriminate. }
  apply IH. auto.
Qed.

Lemma find_type_empty_name : forall l, (forall t, In t l -> td_name t <> []) -> find_type [] l = None.
Proof.
  induction l as [|a l IH]; intros H; [reflexivity|].
  change (find_type [] (a :: l)) with (if bytes_eqb [] (td_name a) then Some a else find_type [] l).
  destruct (bytes_eqb [] (td_name a)) eqn:B.
  - apply bytes_eqb_eq in B. exfalso. apply (H a); simpl; auto.
  - apply IH. intros t I. apply H. simpl. auto.
Qed.

Lemma base_names_nonempty : forall t, In t (base_scalars ++ base_meta_types) -> td_name t <> [].
Proof.
  intros t I. simpl in I. repeat (destruct I as [I|I]; [subst t; discriminate|]). contradiction.
Qed.

Lemma has_object_base : forall n, starts_uu n = false -> has_object n (base_scalars ++ base_meta_types) = false.
Proof.
  intros n U. destruct (has_object n (base_scalars ++ base_meta_types)) eqn:E; auto.
  apply base_no_root_object in E. congruence.
Qed.

Section NoSchemaDefinition.
  Variable S : schema.
  (* the document declares no roots ... *)
  Hypothesis NQ : s_query S = [].
  Hypothesis NM : s_mutation S = None.
  Hypothesis NS : s_subscription S = None.
  (* ... and the schema it describes is well-formed (in particular there is an object type Query) *)
  Hypothesis WF : wf_schema (described false S) = true.

  Let D : schema := described false S.

  Lemma types_same : s_types D = s_types S.  Proof. reflexivity. Qed.
  Lemma dirs_same : s_directives D = s_directives S.  Proof. reflexivity. Qed.

  Lemma query_object : has_object_named #"Query" S = true.
  Proof.
    destruct (wf_parts D WF) as [_ [_ [_ [_ [Q _]]]]]. unfold root_wf in Q.
    destruct (has_object_named #"Query" S) eqn:E; auto. exfalso.
    unfold D, described, default_root in Q. rewrite E in Q. cbn [s_query s_types] in Q.
    destruct (find_type [] (s_types S)) as [t|] eqn:F; try discriminate.
    apply find_type_In in F. destruct F as [I N].
    destruct (wf_parts D WF) as [_ [_ [T _]]]. specialize (T t I). apply td_wf_name in T.
    apply user_name_nonempty in T. congruence.
  Qed.

  Lemma user_names_nonempty : forall t, In t (s_types S) -> td_name t <> [].
  Proof.
    intros t I. destruct (wf_parts D WF) as [_ [_ [T _]]]. specialize (T t I). apply td_wf_name in T.
    apply user_name_nonempty. auto.
  Qed.

  Let ts0 : list type_def := s_types S ++ base_scalars ++ base_meta_types.

  Lemma no_empty_type : has_type [] ts0 = false.
  Proof.
    unfold has_type. rewrite find_type_empty_name; auto.
    intros t I. unfold ts0 in I. apply in_app_or in I. destruct I as [I|I].
    - apply user_names_nonempty. auto.
    - apply base_names_nonempty. auto.
  Qed.
  Lemma query_type : has_type #"Query" ts0 = true.
  Proof. apply has_object_has_type. rewrite has_object_named_eq. apply query_object. Qed.
  Lemma query_obj0 : has_object #"Query" ts0 = true.
  Proof. unfold ts0. rewrite has_object_app, has_object_named_eq, query_object. reflexivity. Qed.
  Lemma default_obj0 : forall n, starts_uu n = false -> has_object n ts0 = has_object_named n S.
  Proof.
    intros n U. unfold ts0. rewrite has_object_app, has_object_named_eq, has_object_base; auto.
    apply orb_false_r.
  Qed.

  Lemma merge_no_schema_definition : merge_base_doc false S = merge_base D.
  Proof.
    unfold merge_base, merge_base_doc.
    rewrite types_same, dirs_same. fold ts0.
    assert (QD : s_query D = #"Query").
    { unfold D, described, default_root. rewrite query_object. reflexivity. }
    assert (MD : s_mutation D = if has_object_named #"Mutation" S then Some #"Mutation" else None) by reflexivity.
    assert (SD : s_subscription D = if has_object_named #"Subscription" S then Some #"Subscription" else None) by reflexivity.
    rewrite QD, MD, SD, NQ, NM, NS.
    rewrite no_empty_type, query_type. cbn iota beta.
    rewrite query_obj0.
    unfold root_or_default.
    rewrite (default_obj0 #"Mutation" eq_refl), (default_obj0 #"Subscription" eq_refl).
    destruct (has_object_named #"Mutation" S), (has_object_named #"Subscription" S); reflexivity.
  Qed.

  Theorem generate_no_schema_definition : generate_doc false S = generate D.
  Proof.
    unfold generate, generate_doc. rewrite merge_no_schema_definition. fold (merge_base D).
    unfold build_index. rewrite types_same, dirs_same. reflexivity.
  Qed.
End NoSchemaDefinition.

(* satisfiable: type Query { x: Int }  type Mutation { m: Int }  without schema definition *)
Definition ex_no_schema_definition : schema := Eval vm_compute in
  {| s_query := []; s_mutation := None; s_subscription := None;
     s_types := [ mk_object #"Query" [mk_fd "x" [] (nm "Int")]; mk_object #"Mutation" [mk_fd "m" [] (nm "Int")] ];
     s_directives := [] |}.
Example ex_no_schema_definition_ok :
  wf_schema (described false ex_no_schema_definition) = true
  /\ s_mutation (described false ex_no_schema_definition) = Some #"Mutation"
  /\ match generate_doc false ex_no_schema_definition with
     | Some d => complete_exact_b (described false ex_no_schema_definition) d
     | None => false
     end = true.
Proof. vm_compute. repeat split; reflexivity. Qed.
