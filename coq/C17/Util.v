(* C17 helpers: byte-string literals, small list functions.  Definitions only. *)
From Gv Require Import lib.Bytes.
From Coq Require Import String Ascii.
Open Scope N_scope.

(* byte string literal *)
Definition blit (s : string) : bytes := map N_of_ascii (list_ascii_of_string s).
Arguments blit s%string.
(* compile-time literal: expands to the list of N, so that Coq [string] never reaches extraction *)
Notation "# s" := (ltac:(let v := eval vm_compute in (blit s) in exact v)) (at level 0, s at level 0, only parsing).

Definition starts_uu (n : bytes) : bool :=
  match n with 95 :: 95 :: _ => true | _ => false end.

Fixpoint nodup_b (l : list bytes) : bool :=
  match l with
  | [] => true
  | x :: r => negb (mem_bytes x r) && nodup_b r
  end.

Definition subset_b (a c : list bytes) : bool := forallb (fun x => mem_bytes x c) a.
Definition same_set_b (a c : list bytes) : bool := subset_b a c && subset_b c a.

Definition opt_bytes_eqb (a c : option bytes) : bool :=
  match a, c with
  | None, None => true
  | Some x, Some y => bytes_eqb x y
  | _, _ => false
  end.

Fixpoint find_last {A} (p : A -> bool) (l : list A) : option A :=
  match l with
  | [] => None
  | x :: r => match find_last p r with Some y => Some y | None => if p x then Some x else None end
  end.

Definition contains_byte (c : byte) (l : bytes) : bool := existsb (fun x => x =? c) l.
