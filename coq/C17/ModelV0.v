(* C17: the generator and the converter AS THEY WERE before the repairs
     fix: convert-drops-interface-implements, convert-drops-repeatable, convert-drops-specified-by,
          convert-drops-inputvalue-deprecation, deprecated-reason-null-panic, typeref-kind-name-collision,
          root-operation-invented (generate_v1: only the merge differs, Model.merge_base_doc false),
          default-block-string-reprint (print_string_v0; repaired in ast.Document.PrintValue)
   (frozen copy of the affected definitions of Model.v at that time; everything else is shared with
   Model.v).  Only the historical *_refuted theorems of Properties.v refer to this file. *)
From Coq Require Import String.
From Gv Require Import lib.Bytes lib.Json lib.Gql C17.Util C17.ValueSyntax C17.Base C17.Model.
Open Scope N_scope.

(* ast.Document.PrintValue before fix rt-block-string-edge (default-block-string-reprint): the content of a block
   string went between the delimiters as it is, a trailing quote merged with the closing delimiter *)
Definition print_string_v0 (raw : bytes) (block : bool) : bytes :=
  if block then 34 :: 34 :: 34 :: raw ++ [34; 34; 34] else 34 :: raw ++ [34].

Fixpoint typeref_v0 (idx : list (name * idx_entry)) (t : ty) : itref :=
  match t with
  | TNamed n =>
    match idx_lookup n idx with
    | None => ITRef IK_SCALAR None None
    | Some IdxOther => ITRef IK_SCALAR (Some n) None       (* zero value of __TypeKind *)
    | Some (IdxType k) => ITRef (ikind_of k) (Some n) None
    end
  | TList t' => ITRef IK_LIST None (Some (typeref_v0 idx t'))
  | TNonNull t' => ITRef IK_NON_NULL None (Some (typeref_v0 idx t'))
  end.

Definition deprecation_v0 (dds : list directive_def) (ds : list directive) : bool * option bytes :=
  match find_dir #"deprecated" ds with
  | None => (false, None)
  | Some d => (true, match find_arg #"reason" (d_args d) with
                     | Some v => value_content v          (* None here is a panic, see [dirs_panic_v0] *)
                     | None => default_reason dds
                     end)
  end.
Definition dirs_panic_v0 (ds : list directive) : bool :=
  match find_dir #"deprecated" ds with
  | None => false
  | Some d => match find_arg #"reason" (d_args d) with
              | Some v => match value_content v with None => true | Some _ => false end
              | None => false
              end
  end.

Section GenV0.
  Variable idx : list (name * idx_entry).
  Variable dds : list directive_def.      (* directive definitions of the merged document *)
  Variable all_types : list type_def.     (* types of the merged document *)

  Definition gen_input_v0 (iv : inputvalue_def) : iinput :=
    let d := deprecation_v0 dds (iv_dirs iv) in
    {| ii_name := iv_name iv; ii_type := typeref_v0 idx (iv_type iv);
       ii_default := option_map print_value (iv_default iv);
       ii_deprecated := fst d; ii_reason := snd d |}.

  Definition gen_field_v0 (f : field_def) : ifield :=
    let d := deprecation_v0 dds (fd_dirs f) in
    {| if_name := fd_name f; if_args := map gen_input_v0 (fd_args f); if_type := typeref_v0 idx (fd_type f);
       if_deprecated := fst d; if_reason := snd d |}.

  Definition gen_fields_v0 (fs : list field_def) : list ifield :=
    map gen_field_v0 (filter (fun f => negb (starts_uu (fd_name f))) fs).

  Definition gen_enum_value_v0 (e : enum_value_def) : ienum :=
    let d := deprecation_v0 dds (ev_dirs e) in
    {| ie_name := ev_name e; ie_deprecated := fst d; ie_reason := snd d |}.

  Definition named_ref_v0 (k : ikind) (n : name) : itref := ITRef k (Some n) None.

  Definition implementers_v0 (iface : name) : list itref :=
    flat_map (fun t => if is_object t && mem_bytes iface (td_implements t)
                       then [named_ref_v0 IK_OBJECT (td_name t)] else []) all_types.

  Definition specified_by_v0 (ds : list directive) : option bytes :=
    match find_dir #"specifiedBy" ds with
    | None => None
    | Some d => match find_arg #"url" (d_args d) with
                | Some v => value_content v
                | None => None
                end
    end.
  Definition specified_panic_v0 (ds : list directive) : bool :=
    match find_dir #"specifiedBy" ds with
    | None => false
    | Some d => match find_arg #"url" (d_args d) with
                | Some v => match value_content v with None => true | Some _ => false end
                | None => false
                end
    end.

  Definition empty_type_v0 (k : ikind) (n : name) : itype :=
    {| it_kind := k; it_name := n; it_fields := []; it_inputs := []; it_interfaces := [];
       it_enums := []; it_possible := []; it_specified := None |}.

  (* zero or one FullType per definition *)
  Definition gen_type_v0 (t : type_def) : list itype :=
    match td_kind t with
    | KScalar =>
      [ {| it_kind := IK_SCALAR; it_name := td_name t; it_fields := []; it_inputs := []; it_interfaces := [];
           it_enums := []; it_possible := []; it_specified := specified_by_v0 (td_dirs t) |} ]
    | KObject =>
      if starts_uu (td_name t) then [] else
      [ {| it_kind := IK_OBJECT; it_name := td_name t; it_fields := gen_fields_v0 (td_fields t); it_inputs := [];
           it_interfaces := map (named_ref_v0 IK_INTERFACE) (td_implements t);
           it_enums := []; it_possible := []; it_specified := None |} ]
    | KInterface =>
      if starts_uu (td_name t) then [] else
      [ {| it_kind := IK_INTERFACE; it_name := td_name t; it_fields := gen_fields_v0 (td_fields t); it_inputs := [];
           it_interfaces := map (named_ref_v0 IK_INTERFACE) (td_implements t);
           it_enums := []; it_possible := implementers_v0 (td_name t); it_specified := None |} ]
    | KUnion =>
      if starts_uu (td_name t) then [] else
      [ {| it_kind := IK_UNION; it_name := td_name t; it_fields := []; it_inputs := []; it_interfaces := [];
           it_enums := []; it_possible := map (named_ref_v0 IK_OBJECT) (td_members t); it_specified := None |} ]
    | KEnum =>
      if starts_uu (td_name t) then [] else
      [ {| it_kind := IK_ENUM; it_name := td_name t; it_fields := []; it_inputs := []; it_interfaces := [];
           it_enums := map gen_enum_value_v0 (td_enum_values t); it_possible := []; it_specified := None |} ]
    | KInputObject =>
      [ {| it_kind := IK_INPUT_OBJECT; it_name := td_name t; it_fields := []; it_inputs := map gen_input_v0 (td_input_fields t);
           it_interfaces := []; it_enums := []; it_possible := []; it_specified := None |} ]
    end.

  Definition gen_directive_v0 (d : directive_def) : list idirective :=
    if starts_uu (dd_name d) then [] else
    [ {| id_name := dd_name d; id_locations := dd_locations d; id_args := map gen_input_v0 (dd_args d);
         id_repeatable := dd_repeatable d |} ].

  Definition iv_panics_v0 (iv : inputvalue_def) : bool := dirs_panic_v0 (iv_dirs iv).
  Definition type_panics_v0 (t : type_def) : bool :=
    existsb (fun f => dirs_panic_v0 (fd_dirs f) || existsb iv_panics_v0 (fd_args f)) (td_fields t)
    || existsb iv_panics_v0 (td_input_fields t)
    || existsb (fun e => dirs_panic_v0 (ev_dirs e)) (td_enum_values t)
    || (match td_kind t with KScalar => specified_panic_v0 (td_dirs t) | _ => false end).
End GenV0.

Definition type_by_name_v0 (n : name) (ts : list itype) : option itype :=
  find_last (fun t => bytes_eqb (it_name t) n) ts.

(* (the merge of that time applied the default root operation type names to documents with a schema definition
   too -- fix root-operation-invented came later -- which is [merge_base_doc false]) *)
Definition generate_v0 (S : schema) : option idata :=
  let M := merge_base_doc false S in
  let idx := build_index S M in
  let dds := s_directives M in
  let ts := flat_map (gen_type_v0 idx dds (s_types M)) (s_types M) in
  if existsb type_panics_v0 (s_types M) || existsb (fun d => existsb iv_panics_v0 (dd_args d)) dds then None else
  match s_query M with
  | [] => None    (* cannot happen after the merge; the zero FullType is not modelled *)
  | qn =>
    match type_by_name_v0 qn ts with
    | None => None   (* nil dereference *)
    | Some q =>
      Some {| i_query := q;
              i_mutation := match s_mutation M with Some n => type_by_name_v0 n ts | None => None end;
              i_subscription := match s_subscription M with Some n => type_by_name_v0 n ts | None => None end;
              i_types := ts;
              i_directives := flat_map (gen_directive_v0 idx dds) dds |}
    end
  end.


(* the generator of today on the merge as it was before fix root-operation-invented *)
Definition generate_v1 (S : schema) : option idata := generate_doc false S.

Definition import_input_v0 (i : iinput) : cres inputvalue_def :=
  cbind (import_type (ii_type i)) (fun t =>
  cbind (import_default (ii_default i)) (fun d =>
  COk {| iv_name := ii_name i; iv_type := t; iv_default := d; iv_dirs := [] |})).

Definition import_field_v0 (f : ifield) : cres field_def :=
  cbind (import_type (if_type f)) (fun t =>
  cbind (cmap import_input_v0 (if_args f)) (fun args =>
  COk {| fd_name := if_name f; fd_args := args; fd_type := t;
         fd_dirs := deprecated_dirs (if_deprecated f) (if_reason f) |})).

(* zero or one definition per FullType *)
Definition import_full_type_v0 (t : itype) : cres (list type_def) :=
  match it_kind t with
  | IK_SCALAR => COk [blank KScalar (it_name t)]
  | IK_OBJECT =>
    cbind (cmap import_field_v0 (it_fields t)) (fun fs =>
    cbind (cmap import_named (it_interfaces t)) (fun is =>
    COk [ {| td_kind := KObject; td_name := it_name t; td_implements := is; td_fields := fs; td_members := [];
             td_enum_values := []; td_input_fields := []; td_dirs := [] |} ]))
  | IK_ENUM =>
    COk [ {| td_kind := KEnum; td_name := it_name t; td_implements := []; td_fields := []; td_members := [];
             td_enum_values := map (fun e => {| ev_name := ie_name e; ev_dirs := deprecated_dirs (ie_deprecated e) (ie_reason e) |}) (it_enums t);
             td_input_fields := []; td_dirs := [] |} ]
  | IK_INTERFACE =>
    cbind (cmap import_field_v0 (it_fields t)) (fun fs =>
    COk [ {| td_kind := KInterface; td_name := it_name t; td_implements := []; td_fields := fs; td_members := [];
             td_enum_values := []; td_input_fields := []; td_dirs := [] |} ])
  | IK_UNION =>
    cbind (cmap import_named (it_possible t)) (fun ms =>
    COk [ {| td_kind := KUnion; td_name := it_name t; td_implements := []; td_fields := []; td_members := ms;
             td_enum_values := []; td_input_fields := []; td_dirs := [] |} ])
  | IK_INPUT_OBJECT =>
    cbind (cmap import_input_v0 (it_inputs t)) (fun ivs =>
    COk [ {| td_kind := KInputObject; td_name := it_name t; td_implements := []; td_fields := []; td_members := [];
             td_enum_values := []; td_input_fields := ivs; td_dirs := [] |} ])
  | IK_LIST | IK_NON_NULL => COk []
  end.

Definition import_directive_v0 (d : idirective) : cres directive_def :=
  cbind (cmap import_input_v0 (id_args d)) (fun args =>
  COk {| dd_name := id_name d; dd_args := args; dd_locations := import_locations (id_locations d);
         dd_repeatable := false |}).

Definition convert_v0 (d : idata) : cres schema :=
  cbind (cmap import_full_type_v0 (i_types d)) (fun tss =>
  cbind (cmap import_directive_v0 (i_directives d)) (fun dds =>
  COk {| s_query := it_name (i_query d);
         s_mutation := match i_mutation d with Some t => nonempty_name (it_name t) | None => None end;
         s_subscription := match i_subscription d with Some t => nonempty_name (it_name t) | None => None end;
         s_types := concat tss; s_directives := dds |})).

