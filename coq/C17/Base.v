(* C17: the base schema that asttransform.MergeDefinitionWithBaseSchema appends
   (v2/pkg/asttransform/base.graphql + internal.graphql), descriptions dropped.  Tied to the Go
   files by the correspondence check corr:C17/merge (the harness dumps the merged document of
   every case, including an empty one, and the driver compares it with [merge_base]). *)
From Coq Require Import String.
From Gv Require Import lib.Bytes lib.Gql C17.Util.
Open Scope N_scope.
Local Open Scope string_scope.

Definition nm (s : string) : ty := TNamed (blit s).
Definition nn (t : ty) : ty := TNonNull t.
Definition ls (t : ty) : ty := TList t.

Definition mk_iv (n : string) (t : ty) (d : option value) : inputvalue_def :=
  {| iv_name := blit n; iv_type := t; iv_default := d; iv_dirs := [] |}.
Definition mk_fd (n : string) (args : list inputvalue_def) (t : ty) : field_def :=
  {| fd_name := blit n; fd_args := args; fd_type := t; fd_dirs := [] |}.
Definition mk_scalar (n : bytes) : type_def :=
  {| td_kind := KScalar; td_name := n; td_implements := []; td_fields := []; td_members := [];
     td_enum_values := []; td_input_fields := []; td_dirs := [] |}.
Definition mk_object (n : bytes) (fs : list field_def) : type_def :=
  {| td_kind := KObject; td_name := n; td_implements := []; td_fields := fs; td_members := [];
     td_enum_values := []; td_input_fields := []; td_dirs := [] |}.
Definition mk_enum (n : string) (vs : list string) : type_def :=
  {| td_kind := KEnum; td_name := blit n; td_implements := []; td_fields := []; td_members := [];
     td_enum_values := map (fun v => {| ev_name := blit v; ev_dirs := [] |}) vs; td_input_fields := []; td_dirs := [] |}.
Definition mk_dd (n : string) (args : list inputvalue_def) (locs : list string) (rep : bool) : directive_def :=
  {| dd_name := blit n; dd_args := args; dd_locations := map blit locs; dd_repeatable := rep |}.

Definition base_scalar_names : list bytes := Eval vm_compute in [blit "Int"; blit "Float"; blit "String"; blit "Boolean"; blit "ID"].
Definition base_scalars : list type_def := Eval vm_compute in map mk_scalar base_scalar_names.

Definition include_deprecated_arg : inputvalue_def := Eval vm_compute in
  mk_iv "includeDeprecated" (nm "Boolean") (Some (VBool false)).

Definition base_meta_types : list type_def := Eval vm_compute in [
  mk_object (blit "__Directive") [
    mk_fd "name" [] (nn (nm "String"));
    mk_fd "description" [] (nm "String");
    mk_fd "locations" [] (nn (ls (nn (nm "__DirectiveLocation"))));
    mk_fd "args" [include_deprecated_arg] (nn (ls (nn (nm "__InputValue"))));
    mk_fd "isRepeatable" [] (nn (nm "Boolean")) ];
  mk_enum "__DirectiveLocation" [
    "QUERY"; "MUTATION"; "SUBSCRIPTION"; "FIELD"; "FRAGMENT_DEFINITION"; "FRAGMENT_SPREAD";
    "INLINE_FRAGMENT"; "VARIABLE_DEFINITION"; "SCHEMA"; "SCALAR"; "OBJECT"; "FIELD_DEFINITION";
    "ARGUMENT_DEFINITION"; "INTERFACE"; "UNION"; "ENUM"; "ENUM_VALUE"; "INPUT_OBJECT";
    "INPUT_FIELD_DEFINITION" ];
  mk_object (blit "__EnumValue") [
    mk_fd "name" [] (nn (nm "String"));
    mk_fd "description" [] (nm "String");
    mk_fd "isDeprecated" [] (nn (nm "Boolean"));
    mk_fd "deprecationReason" [] (nm "String") ];
  mk_object (blit "__Field") [
    mk_fd "name" [] (nn (nm "String"));
    mk_fd "description" [] (nm "String");
    mk_fd "args" [include_deprecated_arg] (nn (ls (nn (nm "__InputValue"))));
    mk_fd "type" [] (nn (nm "__Type"));
    mk_fd "isDeprecated" [] (nn (nm "Boolean"));
    mk_fd "deprecationReason" [] (nm "String") ];
  mk_object (blit "__InputValue") [
    mk_fd "name" [] (nn (nm "String"));
    mk_fd "description" [] (nm "String");
    mk_fd "type" [] (nn (nm "__Type"));
    mk_fd "defaultValue" [] (nm "String");
    mk_fd "isDeprecated" [] (nn (nm "Boolean"));
    mk_fd "deprecationReason" [] (nm "String") ];
  mk_object (blit "__Schema") [
    mk_fd "description" [] (nm "String");
    mk_fd "types" [] (nn (ls (nn (nm "__Type"))));
    mk_fd "queryType" [] (nn (nm "__Type"));
    mk_fd "mutationType" [] (nm "__Type");
    mk_fd "subscriptionType" [] (nm "__Type");
    mk_fd "directives" [] (nn (ls (nn (nm "__Directive")))) ];
  mk_object (blit "__Type") [
    mk_fd "kind" [] (nn (nm "__TypeKind"));
    mk_fd "name" [] (nm "String");
    mk_fd "description" [] (nm "String");
    mk_fd "fields" [include_deprecated_arg] (ls (nn (nm "__Field")));
    mk_fd "interfaces" [] (ls (nn (nm "__Type")));
    mk_fd "possibleTypes" [] (ls (nn (nm "__Type")));
    mk_fd "enumValues" [include_deprecated_arg] (ls (nn (nm "__EnumValue")));
    mk_fd "inputFields" [include_deprecated_arg] (ls (nn (nm "__InputValue")));
    mk_fd "ofType" [] (nm "__Type");
    mk_fd "specifiedByURL" [] (nm "String") ];
  mk_enum "__TypeKind" [
    "SCALAR"; "OBJECT"; "INTERFACE"; "UNION"; "ENUM"; "INPUT_OBJECT"; "LIST"; "NON_NULL" ] ].

(* canonical order of directive locations = iteration order of ast.DirectiveLocations *)
Definition all_locations : list bytes := Eval vm_compute in map blit [
  "QUERY"; "MUTATION"; "SUBSCRIPTION"; "FIELD"; "FRAGMENT_DEFINITION"; "FRAGMENT_SPREAD";
  "INLINE_FRAGMENT"; "VARIABLE_DEFINITION"; "SCHEMA"; "SCALAR"; "OBJECT"; "FIELD_DEFINITION";
  "ARGUMENT_DEFINITION"; "INTERFACE"; "UNION"; "ENUM"; "ENUM_VALUE"; "INPUT_OBJECT";
  "INPUT_FIELD_DEFINITION" ].

Definition default_reason_text : bytes := Eval vm_compute in blit "No longer supported".

(* the directive definitions of base.graphql, in file order; locations in canonical order *)
Definition base_public_directives : list directive_def := Eval vm_compute in [
  mk_dd "include" [mk_iv "if" (nn (nm "Boolean")) None] ["FIELD"; "FRAGMENT_SPREAD"; "INLINE_FRAGMENT"] false;
  mk_dd "skip" [mk_iv "if" (nn (nm "Boolean")) None] ["FIELD"; "FRAGMENT_SPREAD"; "INLINE_FRAGMENT"] false;
  mk_dd "deprecated" [mk_iv "reason" (nm "String") (Some (VStr default_reason_text false))]
        ["FIELD_DEFINITION"; "ARGUMENT_DEFINITION"; "ENUM_VALUE"; "INPUT_FIELD_DEFINITION"] false;
  mk_dd "specifiedBy" [mk_iv "url" (nn (nm "String")) None] ["SCALAR"] false;
  mk_dd "oneOf" [] ["INPUT_OBJECT"] false;
  mk_dd "defer" [mk_iv "label" (nm "String") None; mk_iv "if" (nn (nm "Boolean")) (Some (VBool true))]
        ["FRAGMENT_SPREAD"; "INLINE_FRAGMENT"] false ].

Definition base_internal_directives : list directive_def := Eval vm_compute in [
  mk_dd "__defer_internal" [mk_iv "id" (nn (nm "Int")) None; mk_iv "parentDeferId" (nm "Int") None; mk_iv "label" (nm "String") None]
        ["FIELD"] true ].
