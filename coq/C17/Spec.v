(* C17 specification: what "introspection describes exactly the configured schema" means.
   Written against the schema tree (lib/Gql.v) and the introspection data tree only; it does not
   mention the generator or the converter.  The lexer/parser of C17/ValueSyntax.v is used as the
   definition of GraphQL value text (a default value text denotes the value it parses to).

     wf_schema S          a valid type system (unique names, references resolve with the right
                          kind, lexically valid constant values, canonical directive locations …)
     with_base S          S plus the always-present built-in scalars and directives
     schema_equiv A B     same type system (by NAME, order-insensitive; implements/members/
                          locations as sets; deprecation, @specifiedBy, @oneOf compared by meaning)
     complete_exact S D   introspection data D lists exactly with_base S
     typeref_matches      wrappers (any depth, in order) and leaf kind of a type reference
     lossy_clauses S      the constructs for which the round trip / exactness is NOT claimed
                          (each one is a confirmed loss, see Properties.v *_refuted)          *)
From Coq Require Import String.
From Gv Require Import lib.Bytes lib.Gql C17.Util C17.ValueSyntax C17.Base C17.Model.
Open Scope N_scope.

(* ------------------------------------------------------------------ lexical well-formedness *)
Definition is_name_start (c : byte) : bool := is_lower c || is_upper c || (c =? 95).
Definition is_name_char (c : byte) : bool := is_name_start c || is_digit c.
Definition name_ok (n : bytes) : bool :=
  match n with
  | [] => false
  | c :: r => is_name_start c && forallb is_name_char r
  end.
Definition user_name_ok (n : bytes) : bool := name_ok n && negb (starts_uu n).

(* one step of the lexer that emits no token (mirrors lex_go) *)
Definition quiet_step (st : lstate) (c : byte) : option lstate :=
  match st with
  | LIdent acc => if is_ident_char c then Some (LIdent (c :: acc)) else None
  | LInt acc =>
    if is_digit c then Some (LInt (c :: acc))
    else if (c =? 46) || is_exp c then Some (LFloat1 (c :: acc) (is_exp c)) else None
  | LFloat1 acc true => if is_digit c then Some (LFloat1 (c :: acc) true) else None
  | LFloat1 acc false =>
    if is_digit c then Some (LFloat1 (c :: acc) false)
    else if is_exp c then Some (LFloat2 (c :: acc))
    else if is_sign c then Some (LFloat3 (c :: acc)) else None
  | LFloat2 acc => if is_sign c || is_digit c then Some (LFloat3 (c :: acc)) else None
  | LFloat3 acc => if is_digit c then Some (LFloat3 (c :: acc)) else None
  | LStr acc esc =>
    if (c =? 32) || (c =? 9) then Some (LStr (c :: acc) false)
    else if (c =? 34) || (c =? 13) || (c =? 10) then (if esc then Some (LStr (c :: acc) false) else None)
    else if c =? 92 then Some (LStr (c :: acc) (negb esc))
    else Some (LStr (c :: acc) false)
  | LBlock acc esc qc wc reached lead =>
    match block_step acc esc qc wc reached lead c with
    | BNext acc' esc' qc' wc' reached' lead' => Some (LBlock acc' esc' qc' wc' reached' lead')
    | BClose _ => None
    end
  | _ => None
  end.
Fixpoint quiet_run (st : lstate) (s : bytes) : option lstate :=
  match s with
  | [] => Some st
  | c :: r => match quiet_step st c with Some st' => quiet_run st' r | None => None end
  end.

Definition digits_ok (s : bytes) : bool := match s with [] => false | _ => forallb is_digit s end.
Definition int_ok (raw : bytes) : bool := digits_ok (strip_sign raw).
(* a FLOAT token of the lexer *)
Definition float_ok (raw : bytes) : bool :=
  match strip_sign raw with
  | d :: r => is_digit d &&
              match quiet_run (LInt [d]) r with
              | Some (LFloat1 _ _) | Some (LFloat2 _) | Some (LFloat3 _) => true
              | _ => false
              end
  | [] => false
  end.
(* string contents that survive being quoted again *)
Definition str_ok (raw : bytes) : bool :=
  match quiet_run (LStr [] false) raw with Some (LStr _ false) => true | _ => false end.
(* block string contents that survive being printed again: no unescaped closing delimiter inside, no leading
   and no trailing white space (contents a parsed document can carry are of this form: the lexer cuts both
   off).  A content ending in a quote or a backslash is fine since the printer separates it from the closing
   delimiter (fix rt-block-string-edge); it was excluded before. *)
Definition block_ok (raw : bytes) : bool :=
  match quiet_run (LBlock [] false 0 0 false 0) raw with
  | Some (LBlock _ _ qc wc reached lead) =>
    let fire := match qc with O => false | _ => true end in
    Nat.eqb (settled_lead fire wc reached lead) 0 && Nat.eqb (settled_wc fire wc) 0
  | _ => false
  end.

Definition is_keyword_name (n : bytes) : bool :=
  bytes_eqb n #"true" || bytes_eqb n #"false" || bytes_eqb n #"null".

(* constant values whose text the lexer reads back token by token *)
Fixpoint value_ok (v : value) : bool :=
  match v with
  | VVar _ => false
  | VInt raw => int_ok raw
  | VFloat raw => float_ok raw
  | VStr raw false => str_ok raw
  | VStr raw true => block_ok raw
  | VBool _ | VNull => true
  | VEnum n => name_ok n && negb (is_keyword_name n)
  | VList items => forallb value_ok items
  | VObj fs => (fix go (l : list (name * value)) : bool :=
                  match l with [] => true | (k, x) :: r => name_ok k && value_ok x && go r end) fs
  end.
(* the same without the condition on block strings (what a parsed document can contain) *)
Fixpoint value_wf (v : value) : bool :=
  match v with
  | VVar _ => false
  | VInt raw => int_ok raw
  | VFloat raw => float_ok raw
  | VStr raw false => str_ok raw
  | VStr raw true => true
  | VBool _ | VNull => true
  | VEnum n => name_ok n && negb (is_keyword_name n)
  | VList items => forallb value_wf items
  | VObj fs => (fix go (l : list (name * value)) : bool :=
                  match l with [] => true | (k, x) :: r => name_ok k && value_wf x && go r end) fs
  end.

(* ------------------------------------------------------------------ meaning of directives *)
Definition sp_dir (n : bytes) (ds : list directive) : option directive :=
  find (fun d => bytes_eqb n (d_name d)) ds.
Definition sp_arg (n : bytes) (d : directive) : option value :=
  match find (fun a => bytes_eqb n (fst a)) (d_args d) with Some a => Some (snd a) | None => None end.

Fixpoint unescape (s : bytes) : bytes :=
  match s with
  | 92 :: c :: r =>
    if c =? 34 then 34 :: unescape r else if c =? 92 then 92 :: unescape r
    else if c =? 47 then 47 :: unescape r else if c =? 98 then 8 :: unescape r
    else if c =? 102 then 12 :: unescape r else if c =? 110 then 10 :: unescape r
    else if c =? 114 then 13 :: unescape r else if c =? 116 then 9 :: unescape r
    else 92 :: c :: unescape r       (* \uXXXX and unknown escapes are kept as written *)
  | c :: r => c :: unescape r
  | [] => []
  end.
(* the string a string literal denotes; None = not a lexically valid literal.  Block strings:
   the raw content (indentation and escaped triple quotes are not processed). *)
Definition str_sem (raw : bytes) (block : bool) : option bytes :=
  if block then Some raw else if str_ok raw then Some (unescape raw) else None.

Inductive dep := NotDep | Dep (reason : option bytes) | DepBad.
Definition dep_of (ds : list directive) : dep :=
  match sp_dir #"deprecated" ds with
  | None => NotDep
  | Some d =>
    match sp_arg #"reason" d with
    | None => Dep (Some default_reason_text)
    | Some (VStr raw blk) => match str_sem raw blk with Some s => Dep (Some s) | None => DepBad end
    | Some VNull => Dep (Some default_reason_text)   (* a null reason counts as absent *)
    | Some _ => DepBad
    end
  end.
Definition dep_eqb (a c : dep) : bool :=
  match a, c with
  | NotDep, NotDep => true
  | Dep x, Dep y => opt_bytes_eqb x y
  | _, _ => false      (* DepBad equals nothing, not even itself *)
  end.

Definition specified_of (ds : list directive) : option (option bytes) :=   (* None = malformed *)
  match sp_dir #"specifiedBy" ds with
  | None => Some None
  | Some d => match sp_arg #"url" d with
              | Some (VStr raw blk) => match str_sem raw blk with Some s => Some (Some s) | None => None end
              | _ => None
              end
  end.
Definition one_of (ds : list directive) : bool :=
  match sp_dir #"oneOf" ds with Some _ => true | None => false end.

(* ------------------------------------------------------------------ generic "same named items" *)
Section Assoc.
  Context {A C : Type}.
  Variables (ka : A -> name) (kc : C -> name).
  Definition find_by (n : name) (l : list C) : option C := find (fun x => bytes_eqb n (kc x)) l.
  Definition assoc_b (rb : A -> C -> bool) (l1 : list A) (l2 : list C) : bool :=
    nodup_b (map ka l1) && nodup_b (map kc l2) && Nat.eqb (length l1) (length l2)
    && forallb (fun a => match find_by (ka a) l2 with Some x => rb a x | None => false end) l1.
  Definition assoc (R : A -> C -> Prop) (l1 : list A) (l2 : list C) : Prop :=
    NoDup (map ka l1) /\ NoDup (map kc l2) /\ length l1 = length l2 /\
    forall a, In a l1 -> exists x, In x l2 /\ kc x = ka a /\ R a x.
  (* names of the items of l1 that have no matching partner (diagnostics) *)
  Definition assoc_diag (rb : A -> C -> bool) (l1 : list A) (l2 : list C) : list name :=
    (if nodup_b (map ka l1) && nodup_b (map kc l2) && Nat.eqb (length l1) (length l2) then [] else [#"<names>"])
    ++ map ka (filter (fun a => negb match find_by (ka a) l2 with Some x => rb a x | None => false end) l1).
End Assoc.

Definition same_set (a c : list name) : Prop := forall x, In x a <-> In x c.

Fixpoint ty_eqb (a c : ty) : bool :=
  match a, c with
  | TNamed x, TNamed y => bytes_eqb x y
  | TList x, TList y => ty_eqb x y
  | TNonNull x, TNonNull y => ty_eqb x y
  | _, _ => false
  end.
Fixpoint value_eqb (a c : value) {struct a} : bool :=
  match a, c with
  | VVar x, VVar y | VInt x, VInt y | VFloat x, VFloat y | VEnum x, VEnum y => bytes_eqb x y
  | VStr x bx, VStr y by_ => bytes_eqb x y && Bool.eqb bx by_
  | VBool x, VBool y => Bool.eqb x y
  | VNull, VNull => true
  | VList x, VList y =>
    (fix go (x y : list value) : bool :=
       match x, y with
       | [], [] => true
       | a :: x', c :: y' => value_eqb a c && go x' y'
       | _, _ => false
       end) x y
  | VObj x, VObj y =>
    (fix go (x y : list (name * value)) : bool :=
       match x, y with
       | [], [] => true
       | (ka, a) :: x', (kc, c) :: y' => bytes_eqb ka kc && value_eqb a c && go x' y'
       | _, _ => false
       end) x y
  | _, _ => false
  end.
Definition opt_value_eqb (a c : option value) : bool :=
  match a, c with None, None => true | Some x, Some y => value_eqb x y | _, _ => false end.

(* ------------------------------------------------------------------ schema equivalence *)
Definition iv_equiv_b (a c : inputvalue_def) : bool :=
  ty_eqb (iv_type a) (iv_type c) && opt_value_eqb (iv_default a) (iv_default c)
  && dep_eqb (dep_of (iv_dirs a)) (dep_of (iv_dirs c)).
Definition iv_equiv (a c : inputvalue_def) : Prop :=
  iv_type a = iv_type c /\ iv_default a = iv_default c
  /\ dep_eqb (dep_of (iv_dirs a)) (dep_of (iv_dirs c)) = true.

Definition fd_equiv_b (a c : field_def) : bool :=
  ty_eqb (fd_type a) (fd_type c) && assoc_b iv_name iv_name iv_equiv_b (fd_args a) (fd_args c)
  && dep_eqb (dep_of (fd_dirs a)) (dep_of (fd_dirs c)).
Definition fd_equiv (a c : field_def) : Prop :=
  fd_type a = fd_type c /\ assoc iv_name iv_name iv_equiv (fd_args a) (fd_args c)
  /\ dep_eqb (dep_of (fd_dirs a)) (dep_of (fd_dirs c)) = true.

Definition ev_equiv_b (a c : enum_value_def) : bool := dep_eqb (dep_of (ev_dirs a)) (dep_of (ev_dirs c)).
Definition ev_equiv (a c : enum_value_def) : Prop := dep_eqb (dep_of (ev_dirs a)) (dep_of (ev_dirs c)) = true.

Definition kind_eqb (a c : type_kind) : bool :=
  match a, c with
  | KScalar, KScalar | KObject, KObject | KInterface, KInterface | KUnion, KUnion | KEnum, KEnum
  | KInputObject, KInputObject => true
  | _, _ => false
  end.
Definition opt_opt_eqb (a c : option (option bytes)) : bool :=
  match a, c with Some x, Some y => opt_bytes_eqb x y | _, _ => false end.

Definition td_equiv_b (a c : type_def) : bool :=
  kind_eqb (td_kind a) (td_kind c)
  && same_set_b (td_implements a) (td_implements c)
  && assoc_b fd_name fd_name fd_equiv_b (td_fields a) (td_fields c)
  && same_set_b (td_members a) (td_members c)
  && assoc_b ev_name ev_name ev_equiv_b (td_enum_values a) (td_enum_values c)
  && assoc_b iv_name iv_name iv_equiv_b (td_input_fields a) (td_input_fields c)
  && (negb (kind_eqb (td_kind a) KScalar) || opt_opt_eqb (specified_of (td_dirs a)) (specified_of (td_dirs c)))
  && (negb (kind_eqb (td_kind a) KInputObject) || Bool.eqb (one_of (td_dirs a)) (one_of (td_dirs c))).
Definition td_equiv (a c : type_def) : Prop :=
  td_kind a = td_kind c
  /\ same_set (td_implements a) (td_implements c)
  /\ assoc fd_name fd_name fd_equiv (td_fields a) (td_fields c)
  /\ same_set (td_members a) (td_members c)
  /\ assoc ev_name ev_name ev_equiv (td_enum_values a) (td_enum_values c)
  /\ assoc iv_name iv_name iv_equiv (td_input_fields a) (td_input_fields c)
  /\ (td_kind a = KScalar -> opt_opt_eqb (specified_of (td_dirs a)) (specified_of (td_dirs c)) = true)
  /\ (td_kind a = KInputObject -> one_of (td_dirs a) = one_of (td_dirs c)).

Definition dd_equiv_b (a c : directive_def) : bool :=
  assoc_b iv_name iv_name iv_equiv_b (dd_args a) (dd_args c)
  && same_set_b (dd_locations a) (dd_locations c)
  && Bool.eqb (dd_repeatable a) (dd_repeatable c).
Definition dd_equiv (a c : directive_def) : Prop :=
  assoc iv_name iv_name iv_equiv (dd_args a) (dd_args c)
  /\ same_set (dd_locations a) (dd_locations c)
  /\ dd_repeatable a = dd_repeatable c.

Definition opt_name_eqb (a c : option name) : bool := opt_bytes_eqb a c.

Definition schema_equiv_b (A C : schema) : bool :=
  bytes_eqb (s_query A) (s_query C) && opt_name_eqb (s_mutation A) (s_mutation C)
  && opt_name_eqb (s_subscription A) (s_subscription C)
  && assoc_b td_name td_name td_equiv_b (s_types A) (s_types C)
  && assoc_b dd_name dd_name dd_equiv_b (s_directives A) (s_directives C).
Definition schema_equiv (A C : schema) : Prop :=
  s_query A = s_query C /\ s_mutation A = s_mutation C /\ s_subscription A = s_subscription C
  /\ assoc td_name td_name td_equiv (s_types A) (s_types C)
  /\ assoc dd_name dd_name dd_equiv (s_directives A) (s_directives C).

Definition schema_equiv_diag (A C : schema) : list name :=
  (if bytes_eqb (s_query A) (s_query C) && opt_name_eqb (s_mutation A) (s_mutation C)
      && opt_name_eqb (s_subscription A) (s_subscription C) then [] else [#"<roots>"])
  ++ assoc_diag td_name td_name td_equiv_b (s_types A) (s_types C)
  ++ map (fun n => 64 :: n) (assoc_diag dd_name dd_name dd_equiv_b (s_directives A) (s_directives C)).

(* ------------------------------------------------------------------ the schema introspection must describe *)
Definition with_base (S : schema) : schema :=
  {| s_query := s_query S; s_mutation := s_mutation S; s_subscription := s_subscription S;
     s_types := s_types S ++ base_scalars; s_directives := s_directives S ++ base_public_directives |}.

(* a document WITHOUT schema definition ([blk = false]; it declares no roots): the root operation types are the
   object types named Query, Mutation and Subscription (GraphQL, "Default Root Operation Type Names").  With a
   schema definition the roots are the declared ones and nothing else. *)
Definition has_object_named (n : name) (S : schema) : bool :=
  existsb (fun t => kind_eqb (td_kind t) KObject && bytes_eqb (td_name t) n) (s_types S).
Definition default_root (n : name) (S : schema) : option name := if has_object_named n S then Some n else None.
Definition described (blk : bool) (S : schema) : schema :=
  if blk then S else
  {| s_query := match default_root #"Query" S with Some n => n | None => [] end;
     s_mutation := default_root #"Mutation" S; s_subscription := default_root #"Subscription" S;
     s_types := s_types S; s_directives := s_directives S |}.

(* ------------------------------------------------------------------ exactness of introspection data *)
Definition sp_kind (k : type_kind) : ikind :=
  match k with
  | KScalar => IK_SCALAR | KObject => IK_OBJECT | KInterface => IK_INTERFACE
  | KUnion => IK_UNION | KEnum => IK_ENUM | KInputObject => IK_INPUT_OBJECT
  end.
Definition ikind_eqb (a c : ikind) : bool :=
  match a, c with
  | IK_SCALAR, IK_SCALAR | IK_LIST, IK_LIST | IK_NON_NULL, IK_NON_NULL | IK_OBJECT, IK_OBJECT
  | IK_ENUM, IK_ENUM | IK_INTERFACE, IK_INTERFACE | IK_UNION, IK_UNION | IK_INPUT_OBJECT, IK_INPUT_OBJECT => true
  | _, _ => false
  end.

Section Exact.
  Variable W : schema.   (* with_base S *)

  Definition kind_in (n : name) : option ikind :=
    match find_type n (s_types W) with Some t => Some (sp_kind (td_kind t)) | None => None end.

  Fixpoint typeref_matches_b (t : ty) (r : itref) : bool :=
    match t, r with
    | TNamed n, ITRef k (Some n') None =>
      bytes_eqb n n' && match kind_in n with Some k' => ikind_eqb k k' | None => false end
    | TList t', ITRef IK_LIST None (Some r') => typeref_matches_b t' r'
    | TNonNull t', ITRef IK_NON_NULL None (Some r') => typeref_matches_b t' r'
    | _, _ => false
    end.
  Inductive typeref_matches : ty -> itref -> Prop :=
  | TmNamed n k : kind_in n = Some k -> typeref_matches (TNamed n) (ITRef k (Some n) None)
  | TmList t r : typeref_matches t r -> typeref_matches (TList t) (ITRef IK_LIST None (Some r))
  | TmNonNull t r : typeref_matches t r -> typeref_matches (TNonNull t) (ITRef IK_NON_NULL None (Some r)).

  Definition dep_matches_b (d : dep) (flag : bool) (reason : option bytes) : bool :=
    match d with
    | NotDep => negb flag && opt_bytes_eqb reason None
    | Dep r => flag && opt_bytes_eqb reason r
    | DepBad => false
    end.
  Definition default_matches_b (d : option value) (text : option bytes) : bool :=
    match d, text with
    | None, None => true
    | Some v, Some s => match parse_text s with POk v' _ => value_eqb v v' | _ => false end
    | _, _ => false
    end.
  Definition input_matches_b (iv : inputvalue_def) (i : iinput) : bool :=
    typeref_matches_b (iv_type iv) (ii_type i) && default_matches_b (iv_default iv) (ii_default i)
    && dep_matches_b (dep_of (iv_dirs iv)) (ii_deprecated i) (ii_reason i).
  Definition field_matches_b (f : field_def) (i : ifield) : bool :=
    typeref_matches_b (fd_type f) (if_type i)
    && assoc_b iv_name ii_name input_matches_b (fd_args f) (if_args i)
    && dep_matches_b (dep_of (fd_dirs f)) (if_deprecated i) (if_reason i).
  Definition enum_matches_b (e : enum_value_def) (i : ienum) : bool :=
    dep_matches_b (dep_of (ev_dirs e)) (ie_deprecated i) (ie_reason i).

  (* the names a list of references of one fixed kind carries; None if some reference is not of that shape *)
  Fixpoint ref_names (k : ikind) (rs : list itref) : option (list name) :=
    match rs with
    | [] => Some []
    | ITRef k' (Some n) None :: r =>
      if ikind_eqb k k' then match ref_names k r with Some ns => Some (n :: ns) | None => None end else None
    | _ :: _ => None
    end.
  Definition refs_are_b (k : ikind) (expected : list name) (rs : list itref) : bool :=
    match ref_names k rs with
    | Some ns => nodup_b ns && same_set_b expected ns
    | None => false
    end.

  Definition implementers_of (iface : name) : list name :=
    map td_name (filter (fun t => kind_eqb (td_kind t) KObject && mem_bytes iface (td_implements t)) (s_types W)).
  Definition expected_possible (t : type_def) : list name :=
    match td_kind t with
    | KUnion => td_members t
    | KInterface => implementers_of (td_name t)
    | _ => []
    end.

  Definition type_matches_b (t : type_def) (i : itype) : bool :=
    ikind_eqb (it_kind i) (sp_kind (td_kind t))
    && assoc_b fd_name if_name field_matches_b (td_fields t) (it_fields i)
    && assoc_b iv_name ii_name input_matches_b (td_input_fields t) (it_inputs i)
    && refs_are_b IK_INTERFACE (td_implements t) (it_interfaces i)
    && assoc_b ev_name ie_name enum_matches_b (td_enum_values t) (it_enums i)
    && refs_are_b IK_OBJECT (expected_possible t) (it_possible i)
    && match td_kind t with
       | KScalar => match specified_of (td_dirs t) with Some u => opt_bytes_eqb (it_specified i) u | None => false end
       | _ => opt_bytes_eqb (it_specified i) None
       end.

  Definition directive_matches_b (d : directive_def) (i : idirective) : bool :=
    assoc_b iv_name ii_name input_matches_b (dd_args d) (id_args i)
    && nodup_b (id_locations i) && same_set_b (dd_locations d) (id_locations i)
    && Bool.eqb (dd_repeatable d) (id_repeatable i).

  Definition root_matches_b (n : option name) (i : option itype) : bool :=
    match n, i with
    | None, None => true
    | Some n, Some i =>
      bytes_eqb n (it_name i) && match find_type n (s_types W) with Some t => type_matches_b t i | None => false end
    | _, _ => false
    end.

  Definition exact_b (D : idata) : bool :=
    root_matches_b (Some (s_query W)) (Some (i_query D))
    && root_matches_b (s_mutation W) (i_mutation D)
    && root_matches_b (s_subscription W) (i_subscription D)
    && assoc_b td_name it_name type_matches_b (s_types W) (i_types D)
    && assoc_b dd_name id_name directive_matches_b (s_directives W) (i_directives D).

  Definition exact_diag (D : idata) : list name :=
    (if root_matches_b (Some (s_query W)) (Some (i_query D)) && root_matches_b (s_mutation W) (i_mutation D)
        && root_matches_b (s_subscription W) (i_subscription D) then [] else [#"<roots>"])
    ++ assoc_diag td_name it_name type_matches_b (s_types W) (i_types D)
    ++ map (fun n => 64 :: n) (assoc_diag dd_name id_name directive_matches_b (s_directives W) (i_directives D)).

  (* only the type references: every field / argument / input field found by name carries the
     declared wrappers in the declared order and the right leaf *)
  Definition refs_of_inputs_b (ivs : list inputvalue_def) (is : list iinput) : bool :=
    forallb (fun iv => match find_by ii_name (iv_name iv) is with
                       | Some i => typeref_matches_b (iv_type iv) (ii_type i) | None => false end) ivs.
  Definition refs_of_type_b (t : type_def) (i : itype) : bool :=
    forallb (fun f => match find_by if_name (fd_name f) (it_fields i) with
                      | Some fi => typeref_matches_b (fd_type f) (if_type fi) && refs_of_inputs_b (fd_args f) (if_args fi)
                      | None => false end) (td_fields t)
    && refs_of_inputs_b (td_input_fields t) (it_inputs i).
  Definition typerefs_b (D : idata) : bool :=
    forallb (fun t => match find_by it_name (td_name t) (i_types D) with
                      | Some i => refs_of_type_b t i | None => false end) (s_types W)
    && forallb (fun d => match find_by id_name (dd_name d) (i_directives D) with
                         | Some i => refs_of_inputs_b (dd_args d) (id_args i) | None => false end) (s_directives W).
End Exact.

Definition complete_exact_b (S : schema) (D : idata) : bool := exact_b (with_base S) D.
Definition complete_exact_diag (S : schema) (D : idata) : list name := exact_diag (with_base S) D.
Definition typeref_faithful_b (S : schema) (D : idata) : bool := typerefs_b (with_base S) D.

(* ------------------------------------------------------------------ well-formed schemas *)
Definition is_output_kind (k : type_kind) : bool := match k with KInputObject => false | _ => true end.
Definition is_input_kind (k : type_kind) : bool :=
  match k with KScalar | KEnum | KInputObject => true | _ => false end.

Section Wf.
  Variable S : schema.
  Definition all_types : list type_def := s_types S ++ base_scalars.
  Definition kind_of_name_in (n : name) : option type_kind :=
    match find_type n all_types with Some t => Some (td_kind t) | None => None end.
  Definition resolves_as (p : type_kind -> bool) (n : name) : bool :=
    match kind_of_name_in n with Some k => p k | None => false end.

  Definition dirs_wf (ds : list directive) : bool :=
    match sp_dir #"deprecated" ds with
    | Some d => match sp_arg #"reason" d with
                | None | Some VNull => true
                | Some (VStr raw false) => str_ok raw
                | Some (VStr raw true) => true
                | Some _ => false
                end
    | None => true
    end.
  Definition iv_wf (iv : inputvalue_def) : bool :=
    user_name_ok (iv_name iv) && resolves_as is_input_kind (named_of (iv_type iv))
    && match iv_default iv with Some v => value_wf v | None => true end
    && dirs_wf (iv_dirs iv).
  Definition ivs_wf (ivs : list inputvalue_def) : bool := nodup_b (map iv_name ivs) && forallb iv_wf ivs.
  Definition fd_wf (f : field_def) : bool :=
    user_name_ok (fd_name f) && resolves_as is_output_kind (named_of (fd_type f))
    && ivs_wf (fd_args f) && dirs_wf (fd_dirs f).
  Definition ev_wf (e : enum_value_def) : bool :=
    user_name_ok (ev_name e) && negb (is_keyword_name (ev_name e)) && dirs_wf (ev_dirs e).
  Definition is_nil {A} (l : list A) : bool := match l with [] => true | _ => false end.
  Definition scalar_dirs_wf (ds : list directive) : bool :=
    match sp_dir #"specifiedBy" ds with
    | Some d => match sp_arg #"url" d with
                | Some (VStr raw false) => str_ok raw
                | Some (VStr raw true) => true
                | _ => false
                end
    | None => true
    end.
  Definition fields_wf (fs : list field_def) : bool :=
    negb (is_nil fs) && nodup_b (map fd_name fs) && forallb fd_wf fs.
  Definition td_wf (t : type_def) : bool :=
    user_name_ok (td_name t) &&
    match td_kind t with
    | KScalar =>
      is_nil (td_implements t) && is_nil (td_fields t) && is_nil (td_members t) && is_nil (td_enum_values t)
      && is_nil (td_input_fields t) && scalar_dirs_wf (td_dirs t)
    | KObject | KInterface =>
      nodup_b (td_implements t) && forallb (resolves_as (fun k => kind_eqb k KInterface)) (td_implements t)
      && fields_wf (td_fields t)
      && is_nil (td_members t) && is_nil (td_enum_values t) && is_nil (td_input_fields t)
    | KUnion =>
      is_nil (td_implements t) && is_nil (td_fields t)
      && negb (is_nil (td_members t)) && nodup_b (td_members t)
      && forallb (resolves_as (fun k => kind_eqb k KObject)) (td_members t)
      && is_nil (td_enum_values t) && is_nil (td_input_fields t)
    | KEnum =>
      is_nil (td_implements t) && is_nil (td_fields t) && is_nil (td_members t)
      && negb (is_nil (td_enum_values t)) && nodup_b (map ev_name (td_enum_values t)) && forallb ev_wf (td_enum_values t)
      && is_nil (td_input_fields t)
    | KInputObject =>
      is_nil (td_implements t) && is_nil (td_fields t) && is_nil (td_members t) && is_nil (td_enum_values t)
      && negb (is_nil (td_input_fields t)) && ivs_wf (td_input_fields t)
    end.
  Definition locations_canonical (l : list name) : bool :=
    negb (is_nil l) && (fix eq (a c : list name) : bool :=
                          match a, c with
                          | [], [] => true
                          | x :: a', y :: c' => bytes_eqb x y && eq a' c'
                          | _, _ => false
                          end) l (filter (fun x => mem_bytes x l) all_locations).
  Definition dd_wf (d : directive_def) : bool :=
    user_name_ok (dd_name d) && ivs_wf (dd_args d) && locations_canonical (dd_locations d).
  Definition root_wf (n : name) : bool :=
    match find_type n (s_types S) with Some t => kind_eqb (td_kind t) KObject | None => false end.
  Definition opt_root_wf (n : option name) : bool := match n with Some n => root_wf n | None => true end.
End Wf.

Definition wf_schema (S : schema) : bool :=
  nodup_b (map td_name (s_types S)) && nodup_b (map dd_name (s_directives S))
  && forallb (td_wf S) (s_types S) && forallb (dd_wf S) (s_directives S)
  && root_wf S (s_query S) && opt_root_wf S (s_mutation S) && opt_root_wf S (s_subscription S).

(* ------------------------------------------------------------------ constructs outside the claims *)
Definition all_input_values (S : schema) : list inputvalue_def :=
  flat_map (fun t => flat_map fd_args (td_fields t) ++ td_input_fields t) (s_types S)
  ++ flat_map dd_args (s_directives S).
Definition all_deprecable_dirs (S : schema) : list (list directive) :=
  flat_map (fun t => map fd_dirs (td_fields t) ++ map ev_dirs (td_enum_values t)) (s_types S)
  ++ map iv_dirs (all_input_values S).
Definition special_char (c : byte) : bool := (c =? 34) || (c =? 92) || (c =? 13).
Definition reason_of (ds : list directive) : option value :=
  match sp_dir #"deprecated" ds with Some d => sp_arg #"reason" d | None => None end.
Definition url_of (ds : list directive) : option value :=
  match sp_dir #"specifiedBy" ds with Some d => sp_arg #"url" d | None => None end.
Definition str_special (v : option value) : bool :=
  match v with Some (VStr raw _) => existsb special_char raw | _ => false end.
Definition is_kind (k : type_kind) (t : type_def) : bool := kind_eqb (td_kind t) k.

(* what the converter cannot represent.  (interface-implements, repeatable, inputvalue-deprecated and
   specified-by were here until the converter was repaired; see ModelV0.v and the historical
   *_refuted theorems) *)
Definition convert_lossy (S : schema) : list name :=
  (if existsb (fun t => one_of (td_dirs t)) (s_types S) then [#"one-of"] else []).
(* what the generator (or the merge before it) gets wrong.  (reason-null, name-collision and root-invented were
   here until the generator / the merge were repaired) *)
Definition generate_lossy (S : schema) : list name :=
  (if existsb (fun ds => str_special (reason_of ds)) (all_deprecable_dirs S)
      || existsb (fun t => str_special (url_of (td_dirs t))) (s_types S) then [#"string-escapes"] else [])
  ++ (if existsb (fun iv => match iv_default iv with Some v => negb (value_ok v) | None => false end) (all_input_values S)
      then [#"block-string-reprint"] else [])
  ++ (if bytes_eqb (s_query S) #"schema" || mem_bytes (s_query S) (map dd_name (s_directives S))
      then [#"query-name-collision"] else [])   (* asttransform.findQueryNode takes the first node of any kind: not modelled *)
  ++ (if existsb (fun t => mem_bytes (td_name t) base_scalar_names) (s_types S)
         || existsb (fun d => mem_bytes (dd_name d) (map dd_name base_public_directives)) (s_directives S)
      then [#"builtin-redeclared"] else []).
(* (root-invented -- an object type named Mutation / Subscription that the schema definition does not name as a
   root -- was here until asttransform was repaired: fix root-operation-invented) *)
Definition lossy_clauses (S : schema) : list name := convert_lossy S ++ generate_lossy S.

(* ------------------------------------------------------------------ non-trivial cases of the check *)
Fixpoint ty_depth (t : ty) : nat :=
  match t with TNamed _ => O | TList t' => S (ty_depth t') | TNonNull t' => S (ty_depth t') end.
Definition nontrivial_b (S : schema) : bool :=
  existsb (is_kind KInterface) (s_types S)
  && (existsb (fun t => existsb (fun f => Nat.leb 2 (ty_depth (fd_type f))) (td_fields t)) (s_types S)
      || existsb (fun iv => Nat.leb 2 (ty_depth (iv_type iv))) (all_input_values S))
  && existsb (fun iv => match iv_default iv with Some _ => true | None => false end) (all_input_values S).
