(* C17: printing a lexically valid constant value and reading the text back (lexer + parser)
   yields the value:  value_ok v -> parse_text (print_value v) = POk v []. *)
From Coq Require Import Lia Arith PeanoNat ZifyN ZifyNat ZifyBool String.
From Gv Require Import lib.Bytes lib.Gql C17.Util C17.ValueSyntax C17.Base C17.Model C17.Spec C17.ProofsBase.
Open Scope N_scope.

(* ------------------------------------------------------------------ quiet steps *)
Lemma quiet_step_ok : forall st c st', quiet_step st c = Some st' -> forall s, lex_go st (c :: s) = lex_go st' s.
Proof.
  intros st c st' H s. destruct st; simpl in H; try discriminate.
  - destruct (is_ident_char c) eqn:E; inversion H; subst. simpl. rewrite E. auto.
  - simpl. destruct (is_digit c) eqn:E.
    + inversion H; subst. auto.
    + destruct ((c =? 46) || is_exp c) eqn:E2; inversion H; subst. auto.
  - destruct has_exp; simpl.
    + destruct (is_digit c) eqn:E; inversion H; subst. auto.
    + destruct (is_digit c) eqn:E. { inversion H; subst. auto. }
      destruct (is_exp c) eqn:E2. { inversion H; subst. auto. }
      destruct (is_sign c) eqn:E3; inversion H; subst. auto.
  - simpl. destruct (is_sign c || is_digit c) eqn:E; inversion H; subst. auto.
  - simpl. destruct (is_digit c) eqn:E; inversion H; subst. auto.
  - simpl. unfold str_step. destruct ((c =? 32) || (c =? 9)) eqn:E1. { inversion H; subst. auto. }
    destruct ((c =? 34) || (c =? 13) || (c =? 10)) eqn:E2.
    { destruct escaped; inversion H; subst. auto. }
    destruct (c =? 92) eqn:E3; inversion H; subst; auto.
  - simpl. destruct (block_step acc escaped qc wc reached lead c); inversion H; subst; auto.
Qed.

Lemma quiet_run_ok : forall s1 st st', quiet_run st s1 = Some st' -> forall s2, lex_go st (s1 ++ s2) = lex_go st' s2.
Proof.
  induction s1; intros st st' H s2.
  - simpl in H. inversion H; subst. auto.
  - simpl in H. destruct (quiet_step st a) eqn:E; try discriminate.
    rewrite <- app_comm_cons. rewrite (quiet_step_ok _ _ _ E). apply IHs1. auto.
Qed.

Definition st_acc (st : lstate) : option bytes :=
  match st with
  | LIdent a | LInt a | LFloat1 a _ | LFloat2 a | LFloat3 a | LStr a _ | LBlock a _ _ _ _ _ => Some a
  | _ => None
  end.

Lemma quiet_step_acc : forall st c st' a, quiet_step st c = Some st' -> st_acc st = Some a -> st_acc st' = Some (c :: a).
Proof.
  intros st c st' a H A. destruct st; simpl in *; try discriminate; inversion A; subst; clear A.
  - destruct (is_ident_char c); inversion H; subst; auto.
  - destruct (is_digit c). { inversion H; subst; auto. }
    destruct ((c =? 46) || is_exp c); inversion H; subst; auto.
  - destruct has_exp.
    + destruct (is_digit c); inversion H; subst; auto.
    + destruct (is_digit c). { inversion H; subst; auto. }
      destruct (is_exp c). { inversion H; subst; auto. }
      destruct (is_sign c); inversion H; subst; auto.
  - destruct (is_sign c || is_digit c); inversion H; subst; auto.
  - destruct (is_digit c); inversion H; subst; auto.
  - destruct ((c =? 32) || (c =? 9)). { inversion H; subst; auto. }
    destruct ((c =? 34) || (c =? 13) || (c =? 10)). { destruct escaped; inversion H; subst; auto. }
    destruct (c =? 92); inversion H; subst; auto.
  - unfold block_step in H.
    destruct ((c =? 32) || (c =? 9) || (c =? 13) || (c =? 10)). { inversion H; subst; auto. }
    destruct (c =? 34).
    { destruct escaped. { inversion H; subst; auto. }
      destruct qc as [|[|[|q]]]; inversion H; subst; auto. }
    destruct (c =? 92); inversion H; subst; auto.
Qed.

Lemma quiet_run_acc : forall s st st' a, quiet_run st s = Some st' -> st_acc st = Some a -> st_acc st' = Some (rev s ++ a).
Proof.
  induction s; simpl; intros st st' a0 H A.
  - inversion H; subst. auto.
  - destruct (quiet_step st a) eqn:E; try discriminate.
    rewrite <- app_assoc. simpl. eapply IHs; eauto. eapply quiet_step_acc; eauto.
Qed.

(* ------------------------------------------------------------------ token ends *)
Definition is_tok_state (st : lstate) : bool :=
  match st with LIdent _ | LInt _ | LFloat1 _ _ | LFloat2 _ | LFloat3 _ => true | _ => false end.

Definition ends_token (st : lstate) (rest : bytes) : Prop :=
  match rest with [] => True | c :: _ => quiet_step st c = None end.

Lemma emit_ok : forall st rest, is_tok_state st = true -> ends_token st rest ->
  lex_go st rest = lex_flush st ++ lex_go LStart rest.
Proof.
  intros st rest T E. destruct rest as [|c s].
  - simpl. rewrite app_nil_r. auto.
  - simpl in E. destruct st; simpl in T; try discriminate; simpl in E; simpl.
    + destruct (is_ident_char c); try discriminate. auto.
    + destruct (is_digit c); try discriminate. destruct ((c =? 46) || is_exp c); try discriminate. auto.
    + destruct has_exp.
      * destruct (is_digit c); try discriminate. auto.
      * destruct (is_digit c); try discriminate. destruct (is_exp c); try discriminate.
        destruct (is_sign c); try discriminate. auto.
    + destruct (is_sign c || is_digit c); try discriminate. auto.
    + destruct (is_digit c); try discriminate. auto.
Qed.

(* the bytes that may follow a printed value: nothing, ',' , ']' , '}' *)
Definition follow_ok (rest : bytes) : Prop :=
  match rest with [] => True | c :: _ => c = 44 \/ c = 93 \/ c = 125 end.
(* … and ':' after an object key *)
Definition key_follow_ok (rest : bytes) : Prop :=
  match rest with [] => True | c :: _ => c = 44 \/ c = 93 \/ c = 125 \/ c = 58 end.

Lemma follow_ends : forall st rest, is_tok_state st = true -> key_follow_ok rest -> ends_token st rest.
Proof.
  intros st rest T F. destruct rest as [|c s]; simpl; auto. simpl in F.
  destruct st; simpl in T; try discriminate; destruct F as [F|[F|[F|F]]]; subst; try reflexivity;
    destruct has_exp; reflexivity.
Qed.
Lemma follow_key : forall rest, follow_ok rest -> key_follow_ok rest.
Proof. destruct rest; simpl; tauto. Qed.

(* ------------------------------------------------------------------ names *)
Ltac kill_eqb c :=
  repeat match goal with
         | |- context [N.eqb c ?k] => replace (N.eqb c k) with false by (symmetry; apply N.eqb_neq; lia)
         end.

Lemma name_start_range : forall c, is_name_start c = true -> (65 <= c <= 90) \/ (97 <= c <= 122) \/ c = 95.
Proof.
  intros c H. unfold is_name_start, is_lower, is_upper in H.
  destruct (N.leb_spec 97 c), (N.leb_spec c 122), (N.leb_spec 65 c), (N.leb_spec c 90), (N.eqb_spec c 95);
    simpl in H; try discriminate; lia.
Qed.

Lemma dispatch_name_start : forall c s sigil, is_name_start c = true ->
  lex_dispatch lex_go sigil c s = lex_go (LIdent [c]) s.
Proof.
  intros c s sigil H. apply name_start_range in H.
  unfold lex_dispatch, is_ws, is_single_punct, is_digit.
  kill_eqb c. simpl.
  replace ((48 <=? c) && (c <=? 57)) with false; auto.
  symmetry. apply andb_false_iff.
  destruct (N.leb_spec 48 c), (N.leb_spec c 57); auto; lia.
Qed.

Lemma name_char_ident : forall c, is_name_char c = true -> is_ident_char c = true.
Proof.
  intros c H. unfold is_name_char, is_name_start in H. unfold is_ident_char.
  destruct (is_lower c), (is_upper c), (is_digit c), (c =? 95), (c =? 45); simpl in *; auto.
Qed.

Lemma ident_run : forall r acc, forallb is_name_char r = true -> quiet_run (LIdent acc) r = Some (LIdent (rev r ++ acc)).
Proof.
  induction r; simpl; intros acc H; auto.
  apply andb_true_iff in H. destruct H as [H1 H2]. rewrite (name_char_ident _ H1).
  rewrite IHr; auto. rewrite <- app_assoc. auto.
Qed.

Lemma lex_name : forall n rest st, name_ok n = true -> key_follow_ok rest -> (st = LStart \/ st = LSigil) ->
  lex_go st (n ++ rest) = TIdent n :: lex_go LStart rest.
Proof.
  intros n rest st H F St. destruct n as [|c r]; simpl in H; try discriminate.
  apply andb_true_iff in H. destruct H as [H1 H2].
  assert (E : lex_go st ((c :: r) ++ rest) = lex_go (LIdent [c]) (r ++ rest)).
  { destruct St; subst; simpl; apply dispatch_name_start; auto. }
  rewrite E. rewrite (quiet_run_ok _ _ _ (ident_run r [c] H2)).
  rewrite emit_ok; auto.
  - simpl. rewrite rev_app_distr, rev_involutive. auto.
  - apply follow_ends; auto.
Qed.

(* ------------------------------------------------------------------ numbers *)
Lemma digit_range : forall c, is_digit c = true -> 48 <= c <= 57.
Proof.
  intros c H. unfold is_digit in H. destruct (N.leb_spec 48 c), (N.leb_spec c 57); simpl in H; try discriminate; lia.
Qed.

Lemma dispatch_digit : forall c s sigil, is_digit c = true -> lex_dispatch lex_go sigil c s = lex_go (LInt [c]) s.
Proof.
  intros c s sigil H. pose proof (digit_range _ H) as R.
  unfold lex_dispatch, is_ws, is_single_punct. kill_eqb c. simpl. rewrite H. auto.
Qed.

Lemma int_run : forall r acc, forallb is_digit r = true -> quiet_run (LInt acc) r = Some (LInt (rev r ++ acc)).
Proof.
  induction r; simpl; intros acc H; auto.
  apply andb_true_iff in H. destruct H as [H1 H2]. rewrite H1. rewrite IHr; auto. rewrite <- app_assoc. auto.
Qed.

Lemma lex_digits : forall ds rest st, digits_ok ds = true -> follow_ok rest -> (st = LStart \/ st = LSigil) ->
  lex_go st (ds ++ rest) = TInt ds :: lex_go LStart rest.
Proof.
  intros ds rest st H F St. destruct ds as [|c r]; simpl in H; try discriminate.
  apply andb_true_iff in H. destruct H as [H1 H2].
  assert (E : lex_go st ((c :: r) ++ rest) = lex_go (LInt [c]) (r ++ rest)).
  { destruct St; subst; simpl; apply dispatch_digit; auto. }
  rewrite E. rewrite (quiet_run_ok _ _ _ (int_run r [c] H2)).
  rewrite emit_ok; auto.
  - simpl. rewrite rev_app_distr, rev_involutive. auto.
  - apply follow_ends; auto. apply follow_key. auto.
Qed.

Lemma lex_minus : forall s, lex_go LStart (45 :: s) = TSub :: lex_go LSigil s.
Proof. reflexivity. Qed.

Definition num_toks (mk : bytes -> tok) (raw : bytes) : list tok :=
  match raw with 45 :: r => [TSub; mk r] | _ => [mk raw] end.

Lemma strip_sign_other : forall x t, x <> 45 -> strip_sign (x :: t) = x :: t.
Proof.
  intros x t H. unfold strip_sign. destruct x as [|p]; auto.
  do 6 (try (destruct p as [p|p|]; auto)). exfalso. apply H. reflexivity.
Qed.
Lemma num_toks_other : forall mk x t, x <> 45 -> num_toks mk (x :: t) = [mk (x :: t)].
Proof.
  intros mk x t H. unfold num_toks. destruct x as [|p]; auto.
  do 6 (try (destruct p as [p|p|]; auto)). exfalso. apply H. reflexivity.
Qed.

Lemma strip_sign_digit : forall raw c r, strip_sign raw = c :: r -> is_digit c = true ->
  (raw = c :: r) \/ (raw = 45 :: c :: r).
Proof.
  intros raw c r H D. destruct raw as [|x t]. { simpl in H. discriminate. }
  destruct (N.eqb_spec x 45).
  - subst x. simpl in H. right. rewrite H. reflexivity.
  - left. rewrite strip_sign_other in H; auto.
Qed.

Lemma lex_int : forall raw rest, int_ok raw = true -> follow_ok rest ->
  lex_go LStart (raw ++ rest) = num_toks TInt raw ++ lex_go LStart rest.
Proof.
  intros raw rest H F. unfold int_ok in H.
  destruct (strip_sign raw) as [|c r] eqn:E; simpl in H; try discriminate.
  assert (D : is_digit c = true). { apply andb_true_iff in H. tauto. }
  destruct (strip_sign_digit _ _ _ E D) as [R|R]; subst raw.
  - assert (c <> 45). { apply digit_range in D. lia. }
    rewrite num_toks_other by auto. simpl app at 2. apply lex_digits; auto.
  - change (num_toks TInt (45 :: c :: r)) with [TSub; TInt (c :: r)].
    rewrite <- app_comm_cons, lex_minus. cbn [app]. f_equal. apply (lex_digits (c :: r)); auto.
Qed.

Lemma lex_float : forall raw rest, float_ok raw = true -> follow_ok rest ->
  lex_go LStart (raw ++ rest) = num_toks TFloat raw ++ lex_go LStart rest.
Proof.
  intros raw rest H F. unfold float_ok in H.
  destruct (strip_sign raw) as [|c r] eqn:E; try discriminate.
  apply andb_true_iff in H. destruct H as [D H].
  destruct (quiet_run (LInt [c]) r) as [st|] eqn:Q; try discriminate.
  assert (A : st_acc st = Some (rev r ++ [c])). { eapply quiet_run_acc; eauto. }
  assert (T : is_tok_state st = true /\ lex_flush st = [TFloat (c :: r)]).
  { destruct st; try discriminate; simpl in A; inversion A; subst; simpl;
      rewrite rev_app_distr, rev_involutive; auto. }
  destruct T as [T Fl].
  assert (Core : forall st0, st0 = LStart \/ st0 = LSigil ->
                 lex_go st0 ((c :: r) ++ rest) = TFloat (c :: r) :: lex_go LStart rest).
  { intros st0 St.
    assert (E0 : lex_go st0 ((c :: r) ++ rest) = lex_go (LInt [c]) (r ++ rest)).
    { destruct St; subst; simpl; apply dispatch_digit; auto. }
    rewrite E0, (quiet_run_ok _ _ _ Q), emit_ok; auto.
    - rewrite Fl. auto.
    - apply follow_ends; auto. apply follow_key; auto. }
  destruct (strip_sign_digit _ _ _ E D) as [R|R]; subst raw.
  - assert (c <> 45). { apply digit_range in D. lia. }
    rewrite num_toks_other by auto. simpl app at 2. apply Core. auto.
  - change (num_toks TFloat (45 :: c :: r)) with [TSub; TFloat (c :: r)].
    rewrite <- app_comm_cons, lex_minus. cbn [app]. f_equal. apply (Core LSigil). auto.
Qed.

(* ------------------------------------------------------------------ strings *)
Lemma lex_str : forall raw rest, str_ok raw = true -> follow_ok rest ->
  lex_go LStart (34 :: raw ++ 34 :: rest) = TStr raw false :: lex_go LStart rest.
Proof.
  intros raw rest H F. unfold str_ok in H.
  destruct (quiet_run (LStr [] false) raw) as [st|] eqn:Q; try discriminate.
  destruct st; try discriminate. destruct escaped; try discriminate.
  assert (A : acc = rev raw).
  { pose proof (quiet_run_acc _ _ _ [] Q eq_refl) as A. simpl in A. rewrite app_nil_r in A. congruence. }
  subst acc.
  change (lex_go LStart (34 :: raw ++ 34 :: rest)) with (lex_go LQ1 (raw ++ 34 :: rest)).
  destruct raw as [|c r].
  - simpl. destruct rest as [|d s]; auto. simpl in F.
    destruct F as [F|[F|F]]; subst d; reflexivity.
  - assert (C : c =? 34 = false).
    { simpl in Q. destruct ((c =? 32) || (c =? 9)) eqn:E1.
      - apply orb_true_iff in E1. apply N.eqb_neq. destruct E1 as [E1|E1]; apply N.eqb_eq in E1; lia.
      - destruct (N.eqb_spec c 34); auto. subst. simpl in Q. discriminate. }
    assert (E : lex_go LQ1 ((c :: r) ++ 34 :: rest) = lex_go (LStr [] false) ((c :: r) ++ 34 :: rest)).
    { simpl. rewrite C. auto. }
    rewrite E, (quiet_run_ok _ _ _ Q). simpl. unfold str_step. simpl.
    rewrite rev_app_distr, rev_involutive. auto.
Qed.

Lemma firstn_all_sub : forall {A} (l : list A), firstn (length l - 0) l = l.
Proof. intros. rewrite Nat.sub_0_r. apply firstn_all. Qed.

(* the last byte decides what a run inside a block string leaves pending *)
Lemma quiet_run_snoc : forall s st c, quiet_run st (s ++ [c]) =
  match quiet_run st s with Some st' => quiet_step st' c | None => None end.
Proof.
  induction s; simpl; intros st c.
  - destruct (quiet_step st c); auto.
  - destruct (quiet_step st a); auto.
Qed.
Lemma quiet_run_block : forall s acc e q w r l st, quiet_run (LBlock acc e q w r l) s = Some st ->
  exists acc' e' q' w' r' l', st = LBlock acc' e' q' w' r' l'.
Proof.
  induction s; simpl; intros acc e q w r l st H.
  - inversion H; subst. repeat eexists.
  - destruct (block_step acc e q w r l a) eqn:B; try discriminate. eapply IHs; eauto.
Qed.
Lemma block_pending : forall raw acc e q w r l, raw <> [] ->
  quiet_run (LBlock [] false 0 0 false 0) raw = Some (LBlock acc e q w r l) ->
  (e = true -> last raw 0 = 92) /\ (q <> O -> last raw 0 = 34).
Proof.
  intros raw acc e q w r l NE H.
  destruct (exists_last NE) as [s [c E]]. subst raw. rewrite last_last.
  rewrite quiet_run_snoc in H.
  destruct (quiet_run (LBlock [] false 0 0 false 0) s) as [st|] eqn:Q; try discriminate.
  destruct (quiet_run_block _ _ _ _ _ _ _ _ Q) as [a0 [e0 [q0 [w0 [r0 [l0 St]]]]]]. subst st.
  simpl in H. unfold block_step in H.
  destruct ((c =? 32) || (c =? 9) || (c =? 13) || (c =? 10)) eqn:W.
  { inversion H; subst. split; [discriminate|congruence]. }
  destruct (c =? 34) eqn:E34.
  { apply N.eqb_eq in E34. subst c. split; auto.
    destruct e0. { inversion H; subst. discriminate. }
    destruct q0 as [|[|[|q0]]]; inversion H; subst; discriminate. }
  destruct (c =? 92) eqn:E92.
  { apply N.eqb_eq in E92. subst c. inversion H; subst. split; auto. congruence. }
  inversion H; subst. split; [discriminate|congruence].
Qed.

Lemma firstn_snoc_drop : forall (raw : bytes) c, firstn (length (raw ++ [c]) - 1) (raw ++ [c]) = raw.
Proof.
  intros. rewrite app_length. simpl. replace (length raw + 1 - 1)%nat with (length raw) by lia.
  rewrite firstn_app, firstn_all, Nat.sub_diag. simpl. apply app_nil_r.
Qed.

Lemma close_block : forall acc wc reached lead rest,
  lex_go (LBlock acc false 0 wc reached lead) (34 :: 34 :: 34 :: rest)
  = TStr (block_content acc lead wc) true :: lex_go LStart rest.
Proof. intros. reflexivity. Qed.

Lemma lex_block : forall raw rest, block_ok raw = true ->
  lex_go LStart (34 :: 34 :: 34 :: raw ++ block_sep raw ++ 34 :: 34 :: 34 :: rest) = TStr raw true :: lex_go LStart rest.
Proof.
  intros raw rest H. unfold block_ok in H.
  destruct (quiet_run (LBlock [] false 0 0 false 0) raw) as [st|] eqn:Q; try discriminate.
  destruct st; try discriminate.
  apply andb_true_iff in H. destruct H as [HL HW]. apply Nat.eqb_eq in HL. apply Nat.eqb_eq in HW.
  assert (A : acc = rev raw).
  { pose proof (quiet_run_acc _ _ _ [] Q eq_refl) as A. simpl in A. rewrite app_nil_r in A. congruence. }
  subst acc.
  change (lex_go LStart (34 :: 34 :: 34 :: raw ++ block_sep raw ++ 34 :: 34 :: 34 :: rest))
    with (lex_go (LBlock [] false 0 0 false 0) (raw ++ block_sep raw ++ 34 :: 34 :: 34 :: rest)).
  rewrite (quiet_run_ok _ _ _ Q).
  unfold block_sep. destruct ((last raw 0 =? 34) || (last raw 0 =? 92)) eqn:S.
  - (* separated by a line terminator: whatever was pending is settled by it *)
    cbn [app]. 
    assert (St : lex_go (LBlock (rev raw) escaped qc wc reached lead) (10 :: 34 :: 34 :: 34 :: rest)
                 = lex_go (LBlock (10 :: rev raw) false 0 1 (match qc with O => reached | _ => true end) 0) (34 :: 34 :: 34 :: rest)).
    { cbn [lex_go]. unfold block_step. cbn [N.eqb orb Pos.eqb].
      unfold block_fire. destruct qc; cbn [negb N.eqb Pos.eqb] in *; cbn [settled_wc settled_lead andb orb] in *.
      - rewrite HL, HW. reflexivity.
      - rewrite HL. reflexivity. }
    eapply eq_trans; [exact St|]. eapply eq_trans; [apply close_block|].
    unfold block_content. cbn [skipn rev]. rewrite rev_involutive, firstn_snoc_drop. reflexivity.
  - (* nothing pending: the last byte is neither a quote nor a backslash *)
    apply orb_false_iff in S. destruct S as [S1 S2]. apply N.eqb_neq in S1. apply N.eqb_neq in S2.
    assert (P : escaped = false /\ qc = O).
    { destruct raw as [|c0 r0]. { simpl in Q. inversion Q; subst. auto. }
      assert (NE : c0 :: r0 <> []) by discriminate.
      destruct (block_pending _ _ _ _ _ _ _ NE Q) as [P1 P2].
      split. { destruct escaped; auto. exfalso. apply S2. auto. }
      destruct qc; auto. exfalso. apply S1. apply P2. discriminate. }
    destruct P; subst escaped qc. cbn [settled_wc settled_lead andb] in *. subst lead wc.
    cbn [app]. eapply eq_trans; [apply close_block|]. unfold block_content. simpl skipn.
    rewrite rev_involutive, firstn_all_sub. reflexivity.
Qed.

(* ------------------------------------------------------------------ token sequence of a value *)
Fixpoint toks (v : value) : list tok :=
  match v with
  | VVar n => [TDollar; TIdent n]
  | VInt raw => num_toks TInt raw
  | VFloat raw => num_toks TFloat raw
  | VStr raw blk => [TStr raw blk]
  | VBool true => [TIdent #"true"]
  | VBool false => [TIdent #"false"]
  | VNull => [TIdent #"null"]
  | VEnum n => [TIdent n]
  | VList items =>
    TLBrack :: (fix go (l : list value) : list tok :=
                  match l with [] => [] | x :: r => toks x ++ go r end) items ++ [TRBrack]
  | VObj fs =>
    TLBrace :: (fix go (l : list (name * value)) : list tok :=
                  match l with [] => [] | (k, x) :: r => TIdent k :: TColon :: toks x ++ go r end) fs ++ [TRBrace]
  end.

Definition list_toks (l : list value) : list tok :=
  (fix go (l : list value) : list tok := match l with [] => [] | x :: r => toks x ++ go r end) l.
Definition obj_toks (l : list (name * value)) : list tok :=
  (fix go (l : list (name * value)) : list tok :=
     match l with [] => [] | (k, x) :: r => TIdent k :: TColon :: toks x ++ go r end) l.
Definition list_text (l : list value) : bytes :=
  (fix go (l : list value) : bytes :=
     match l with
     | [] => []
     | x :: r => print_value x ++ match r with [] => [] | _ => 44 :: go r end
     end) l.
Definition obj_text (l : list (name * value)) : bytes :=
  (fix go (l : list (name * value)) : bytes :=
     match l with
     | [] => []
     | (k, x) :: r => k ++ 58 :: 32 :: print_value x ++ match r with [] => [] | _ => 44 :: go r end
     end) l.

Lemma follow_93 : forall r, follow_ok (93 :: r). Proof. simpl. auto. Qed.
Lemma follow_125 : forall r, follow_ok (125 :: r). Proof. simpl. auto. Qed.
Lemma follow_44 : forall r, follow_ok (44 :: r). Proof. simpl. auto. Qed.

Lemma lex_lbrack : forall s, lex_go LStart (91 :: s) = TLBrack :: lex_go LStart s. Proof. reflexivity. Qed.
Lemma lex_rbrack : forall s, lex_go LStart (93 :: s) = TRBrack :: lex_go LStart s. Proof. reflexivity. Qed.
Lemma lex_lbrace : forall s, lex_go LStart (123 :: s) = TLBrace :: lex_go LStart s. Proof. reflexivity. Qed.
Lemma lex_rbrace : forall s, lex_go LStart (125 :: s) = TRBrace :: lex_go LStart s. Proof. reflexivity. Qed.
Lemma lex_comma : forall s, lex_go LStart (44 :: s) = lex_go LStart s. Proof. reflexivity. Qed.
Lemma lex_colon_space : forall s, lex_go LStart (58 :: 32 :: s) = TColon :: lex_go LStart s. Proof. reflexivity. Qed.

Definition lex_print_at (v : value) : Prop :=
  value_ok v = true -> forall rest, follow_ok rest ->
  lex_go LStart (print_value v ++ rest) = toks v ++ lex_go LStart rest.

Lemma list_text_cons : forall x l,
  list_text (x :: l) = print_value x ++ match l with [] => [] | _ => 44 :: list_text l end.
Proof. reflexivity. Qed.
Lemma list_toks_cons : forall x l, list_toks (x :: l) = toks x ++ list_toks l.
Proof. reflexivity. Qed.
Lemma obj_text_cons : forall k x l,
  obj_text ((k, x) :: l) = k ++ 58 :: 32 :: print_value x ++ match l with [] => [] | _ => 44 :: obj_text l end.
Proof. reflexivity. Qed.
Lemma obj_toks_cons : forall k x l, obj_toks ((k, x) :: l) = TIdent k :: TColon :: toks x ++ obj_toks l.
Proof. reflexivity. Qed.

Lemma lex_list_items : forall l, Forall lex_print_at l -> forallb value_ok l = true -> forall rest,
  lex_go LStart (list_text l ++ 93 :: rest) = list_toks l ++ TRBrack :: lex_go LStart rest.
Proof.
  induction 1; intros OK rest.
  - cbn [list_text list_toks app]. apply lex_rbrack.
  - cbn [forallb] in OK. apply andb_true_iff in OK. destruct OK as [O1 O2].
    rewrite list_text_cons, list_toks_cons, <- !app_assoc. destruct l as [|y l'].
    + cbn [app list_toks]. rewrite (H O1); [|apply follow_93]. rewrite lex_rbrack. auto.
    + rewrite (H O1); [|apply follow_44]. f_equal. rewrite <- app_comm_cons, lex_comma. apply IHForall. auto.
Qed.

Lemma obj_ok_cons : forall k v l,
  (fix go (l : list (name * value)) : bool :=
     match l with [] => true | (k, x) :: r => name_ok k && value_ok x && go r end) ((k, v) :: l) = true ->
  name_ok k = true /\ value_ok v = true /\
  (fix go (l : list (name * value)) : bool :=
     match l with [] => true | (k, x) :: r => name_ok k && value_ok x && go r end) l = true.
Proof.
  intros k v l H. apply andb_true_iff in H. destruct H as [H H3]. apply andb_true_iff in H. tauto.
Qed.

Lemma lex_obj_items : forall l, Forall (fun kv => lex_print_at (snd kv)) l ->
  (fix go (l : list (name * value)) : bool :=
     match l with [] => true | (k, x) :: r => name_ok k && value_ok x && go r end) l = true ->
  forall rest,
  lex_go LStart (obj_text l ++ 125 :: rest) = obj_toks l ++ TRBrace :: lex_go LStart rest.
Proof.
  induction 1; intros OK rest.
  - cbn [obj_text obj_toks app]. apply lex_rbrace.
  - destruct x as [k v]. apply obj_ok_cons in OK. destruct OK as [O1 [O2 O3]]. cbn [snd] in H.
    rewrite obj_text_cons, obj_toks_cons, <- !app_assoc.
    rewrite (lex_name k _ LStart); auto. 2:{ cbn. auto. }
    rewrite <- !app_comm_cons, lex_colon_space. f_equal. f_equal. rewrite <- !app_assoc.
    destruct l as [|y l'].
    + cbn [app obj_toks]. rewrite (H O2); [|apply follow_125]. rewrite lex_rbrace. auto.
    + rewrite (H O2); [|apply follow_44]. f_equal. rewrite <- app_comm_cons, lex_comma. apply IHForall. auto.
Qed.

Theorem lex_print : forall v, lex_print_at v.
Proof.
  unfold lex_print_at.
  induction v using value_ind'; intros OK rest F; simpl in OK; try discriminate.
  - apply lex_int; auto.
  - apply lex_float; auto.
  - destruct bl; cbn [print_value toks].
    + rewrite <- !app_comm_cons, <- !app_assoc. cbn [app]. apply lex_block. auto.
    + rewrite <- !app_comm_cons, <- app_assoc. cbn [app]. apply lex_str; auto.
  - destruct x; [apply (lex_name #"true" rest LStart) | apply (lex_name #"false" rest LStart)]; auto; apply follow_key; auto.
  - apply (lex_name #"null" rest LStart); auto. apply follow_key; auto.
  - apply andb_true_iff in OK. destruct OK as [OK _]. apply (lex_name n rest LStart); auto. apply follow_key; auto.
  - change (print_value (VList l)) with (91 :: list_text l ++ [93]).
    change (toks (VList l)) with (TLBrack :: list_toks l ++ [TRBrack]).
    rewrite <- !app_comm_cons, lex_lbrack, <- !app_assoc. cbn [app]. f_equal.
    apply lex_list_items; auto.
  - change (print_value (VObj fs)) with (123 :: obj_text fs ++ [125]).
    change (toks (VObj fs)) with (TLBrace :: obj_toks fs ++ [TRBrace]).
    rewrite <- !app_comm_cons, lex_lbrace, <- !app_assoc. cbn [app]. f_equal.
    apply lex_obj_items; auto.
Qed.

(* ------------------------------------------------------------------ parser *)
Fixpoint vsize (v : value) : nat :=
  match v with
  | VList l => 2 + (fix go (l : list value) : nat := match l with [] => 0 | x :: r => 1 + vsize x + go r end) l
  | VObj fs => 2 + (fix go (l : list (name * value)) : nat := match l with [] => 0 | (_, x) :: r => 1 + vsize x + go r end) fs
  | _ => 1
  end%nat.
Definition list_size (l : list value) : nat :=
  (fix go (l : list value) : nat := match l with [] => 0 | x :: r => 1 + vsize x + go r end)%nat l.
Definition obj_size (l : list (name * value)) : nat :=
  (fix go (l : list (name * value)) : nat := match l with [] => 0 | (_, x) :: r => 1 + vsize x + go r end)%nat l.

Definition parse_at (v : value) : Prop :=
  value_ok v = true -> forall fuel rest, (fuel >= vsize v)%nat -> parse_value fuel (toks v ++ rest) = POk v rest.

Lemma toks_head : forall v, value_ok v = true -> exists t r, toks v = t :: r /\ t <> TRBrack.
Proof.
  destruct v; simpl; intro H; try discriminate.
  - unfold num_toks. destruct raw as [|c r]; [eexists; eexists; split; [reflexivity|congruence]|].
    destruct c as [|p]; [eexists; eexists; split; [reflexivity|congruence]|].
    do 6 (try (destruct p as [p|p|])); eexists; eexists; (split; [reflexivity|congruence]).
  - unfold num_toks. destruct raw as [|c r]; [eexists; eexists; split; [reflexivity|congruence]|].
    destruct c as [|p]; [eexists; eexists; split; [reflexivity|congruence]|].
    do 6 (try (destruct p as [p|p|])); eexists; eexists; (split; [reflexivity|congruence]).
  - eexists; eexists; split; [reflexivity|congruence].
  - destruct b; eexists; eexists; (split; [reflexivity|congruence]).
  - eexists; eexists; split; [reflexivity|congruence].
  - eexists; eexists; split; [reflexivity|congruence].
  - eexists; eexists; split; [reflexivity|congruence].
  - eexists; eexists; split; [reflexivity|congruence].
Qed.

Lemma parse_list_step : forall f ts acc, (forall r, ts <> TRBrack :: r) ->
  parse_list (S f) ts acc =
  match parse_value f ts with POk v r => parse_list f r (v :: acc) | PErr => PErr | PFuel => PFuel end.
Proof.
  intros f ts acc H. destruct ts as [|t r]; [reflexivity|].
  destruct t; try reflexivity. exfalso. eapply H. eauto.
Qed.

Lemma parse_list_items : forall l, Forall parse_at l -> forallb value_ok l = true ->
  forall f acc rest, (f >= 1 + list_size l)%nat ->
  parse_list f (list_toks l ++ TRBrack :: rest) acc = POk (VList (rev acc ++ l)) rest.
Proof.
  induction 1; intros OK f acc rest Hf.
  - cbn [list_toks app]. destruct f; [cbn in Hf; lia|]. cbn. rewrite app_nil_r. auto.
  - cbn [forallb] in OK. apply andb_true_iff in OK. destruct OK as [O1 O2].
    change (list_size (x :: l)) with (1 + vsize x + list_size l)%nat in Hf.
    destruct f; [lia|]. rewrite list_toks_cons, <- app_assoc.
    rewrite parse_list_step.
    + rewrite (H O1) by lia. rewrite IHForall by (auto; lia). cbn [rev]. rewrite <- app_assoc. auto.
    + intros r E. destruct (toks_head x O1) as [t [r' [T N]]]. rewrite T in E. cbn in E. congruence.
Qed.

Lemma parse_obj_items : forall l, Forall (fun kv => parse_at (snd kv)) l ->
  (fix go (l : list (name * value)) : bool :=
     match l with [] => true | (k, x) :: r => name_ok k && value_ok x && go r end) l = true ->
  forall f acc rest, (f >= 1 + obj_size l)%nat ->
  parse_obj f (obj_toks l ++ TRBrace :: rest) acc = POk (VObj (rev acc ++ l)) rest.
Proof.
  induction 1; intros OK f acc rest Hf.
  - cbn [obj_toks app]. destruct f; [cbn in Hf; lia|]. cbn. rewrite app_nil_r. auto.
  - destruct x as [k v]. apply obj_ok_cons in OK. destruct OK as [O1 [O2 O3]]. cbn [snd] in H.
    change (obj_size ((k, v) :: l)) with (1 + vsize v + obj_size l)%nat in Hf.
    destruct f; [lia|]. rewrite obj_toks_cons.
    change (parse_obj (S f) ((TIdent k :: TColon :: toks v ++ obj_toks l) ++ TRBrace :: rest) acc)
      with (match parse_value f ((toks v ++ obj_toks l) ++ TRBrace :: rest) with
            | POk v0 r' => parse_obj f r' ((k, v0) :: acc) | PErr => PErr | PFuel => PFuel end).
    rewrite <- app_assoc. rewrite (H O2) by lia. rewrite IHForall by (auto; lia).
    cbn [rev]. rewrite <- app_assoc. auto.
Qed.

Lemma ident_value_enum : forall n, is_keyword_name n = false -> ident_value n = VEnum n.
Proof.
  intros n H. unfold is_keyword_name in H. unfold ident_value.
  apply orb_false_iff in H. destruct H as [H H3]. apply orb_false_iff in H. destruct H as [H1 H2].
  rewrite H1, H2, H3. auto.
Qed.

Lemma parse_num : forall (mk : bytes -> tok) (mkv : bytes -> value) raw c r f rest,
  strip_sign raw = c :: r -> is_digit c = true ->
  (forall x y, parse_value (S f) (mk x :: y) = POk (mkv x) y) ->
  (forall x y, parse_value (S f) (TSub :: mk x :: y) = POk (mkv (45 :: x)) y) ->
  parse_value (S f) (num_toks mk raw ++ rest) = POk (mkv raw) rest.
Proof.
  intros mk mkv raw c r f rest E D P1 P2.
  destruct (strip_sign_digit _ _ _ E D) as [R|R]; subst raw.
  - assert (c <> 45). { apply digit_range in D. lia. }
    rewrite num_toks_other by auto. apply P1.
  - change (num_toks mk (45 :: c :: r)) with [TSub; mk (c :: r)]. apply P2.
Qed.

Theorem parse_toks : forall v, parse_at v.
Proof.
  unfold parse_at.
  induction v using value_ind'; intros OK fuel rest Hf; simpl in OK; try discriminate;
    (destruct fuel as [|f]; [cbn in Hf; lia|]).
  - unfold int_ok in OK. destruct (strip_sign r) as [|c r'] eqn:E; [discriminate|].
    cbn in OK. apply andb_true_iff in OK. destruct OK as [D _].
    cbn [toks]. eapply (parse_num TInt VInt); eauto.
  - unfold float_ok in OK. destruct (strip_sign r) as [|c r'] eqn:E; [discriminate|].
    apply andb_true_iff in OK. destruct OK as [D _].
    cbn [toks]. eapply (parse_num TFloat VFloat); eauto.
  - reflexivity.
  - destruct x; reflexivity.
  - reflexivity.
  - apply andb_true_iff in OK. destruct OK as [_ K]. apply negb_true_iff in K.
    cbn [toks app parse_value]. rewrite ident_value_enum; auto.
  - change (toks (VList l)) with (TLBrack :: list_toks l ++ [TRBrack]).
    change (vsize (VList l)) with (2 + list_size l)%nat in Hf.
    rewrite <- app_comm_cons, <- app_assoc. cbn [app].
    change (parse_value (S f) (TLBrack :: list_toks l ++ TRBrack :: rest))
      with (parse_list f (list_toks l ++ TRBrack :: rest) []).
    rewrite parse_list_items; auto. lia.
  - change (toks (VObj fs)) with (TLBrace :: obj_toks fs ++ [TRBrace]).
    change (vsize (VObj fs)) with (2 + obj_size fs)%nat in Hf.
    rewrite <- app_comm_cons, <- app_assoc. cbn [app].
    change (parse_value (S f) (TLBrace :: obj_toks fs ++ TRBrace :: rest))
      with (parse_obj f (obj_toks fs ++ TRBrace :: rest) []).
    rewrite parse_obj_items; auto. lia.
Qed.

(* fuel of parse_text: vsize v <= 2 * |toks v| - 1 *)
Lemma toks_len_pos : forall v, value_ok v = true -> (1 <= length (toks v))%nat.
Proof. intros v H. destruct (toks_head v H) as [t [r [E _]]]. rewrite E. cbn. lia. Qed.

Lemma vsize_bound : forall v, value_ok v = true -> (vsize v + 1 <= 2 * length (toks v))%nat.
Proof.
  induction v using value_ind'; intro OK; simpl in OK; try discriminate.
  - pose proof (toks_len_pos (VInt r) OK). cbn [vsize]. lia.
  - pose proof (toks_len_pos (VFloat r) OK). cbn [vsize]. lia.
  - cbn. lia.
  - destruct x; cbn; lia.
  - cbn. lia.
  - cbn. lia.
  - change (toks (VList l)) with (TLBrack :: list_toks l ++ [TRBrack]).
    change (vsize (VList l)) with (2 + list_size l)%nat.
    cbn [length]. rewrite app_length. cbn [length].
    assert (list_size l <= 2 * length (list_toks l))%nat; [|lia].
    revert OK. induction H; intro OK.
    + cbn. lia.
    + cbn [forallb] in OK. apply andb_true_iff in OK. destruct OK as [O1 O2].
      change (list_size (x :: l)) with (1 + vsize x + list_size l)%nat.
      rewrite list_toks_cons, app_length. specialize (H O1). specialize (IHForall O2). lia.
  - change (toks (VObj fs)) with (TLBrace :: obj_toks fs ++ [TRBrace]).
    change (vsize (VObj fs)) with (2 + obj_size fs)%nat.
    cbn [length]. rewrite app_length. cbn [length].
    assert (obj_size fs <= 2 * length (obj_toks fs))%nat; [|lia].
    revert OK. induction H; intro OK.
    + cbn. lia.
    + destruct x as [k v]. apply obj_ok_cons in OK. destruct OK as [O1 [O2 O3]]. cbn [snd] in H.
      change (obj_size ((k, v) :: l)) with (1 + vsize v + obj_size l)%nat.
      rewrite obj_toks_cons. cbn [length]. rewrite app_length. specialize (H O2). specialize (IHForall O3). lia.
Qed.

Theorem parse_print : forall v, value_ok v = true -> parse_text (print_value v) = POk v [].
Proof.
  intros v OK. unfold parse_text, lex.
  pose proof (lex_print v OK [] I) as L. rewrite app_nil_r in L. rewrite L.
  change (lex_go LStart []) with (@nil tok).
  pose proof (parse_toks v OK) as P. pose proof (vsize_bound v OK) as B.
  rewrite app_nil_r in *. rewrite <- (app_nil_r (toks v)) at 2. apply P. lia.
Qed.
