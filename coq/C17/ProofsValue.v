(* C17: printing a lexically valid constant value and reading the text back (lexer + parser)
   yields the value:  value_ok v -> parse_text (print_value v) = POk v []. *)
From Coq Require Import Lia Arith PeanoNat ZifyN ZifyNat ZifyBool.
From Gv Require Import lib.Bytes lib.Gql C17.Util C17.ValueSyntax C17.Base C17.Model C17.Spec C17.ProofsBase.
Open Scope N_scope.

(* ------------------------------------------------------------------ quiet steps *)
Lemma quiet_step_ok : forall st c st', quiet_step st c = Some st' -> forall s, lex_go st (c :: s) = lex_go st' s.
Proof.
  intros st c st' H s. destruct st; simpl in H; try discriminate.
  - destruct (is_ident_char c) eqn:E; inversion H; subst. simpl. rewrite E. auto.
  - simpl. destruct (is_digit c) eqn:E.
    + inversion H; subst. auto.
    + destruct ((c =? 46) || is_exp c) eqn:E2; inversion H; subst. auto.
  - destruct has_exp; simpl.
    + destruct (is_digit c) eqn:E; inversion H; subst. auto.
    + destruct (is_digit c) eqn:E. { inversion H; subst. auto. }
      destruct (is_exp c) eqn:E2. { inversion H; subst. auto. }
      destruct (is_sign c) eqn:E3; inversion H; subst. auto.
  - simpl. destruct (is_sign c || is_digit c) eqn:E; inversion H; subst. auto.
  - simpl. destruct (is_digit c) eqn:E; inversion H; subst. auto.
  - simpl. unfold str_step. destruct ((c =? 32) || (c =? 9)) eqn:E1. { inversion H; subst. auto. }
    destruct ((c =? 34) || (c =? 13) || (c =? 10)) eqn:E2.
    { destruct escaped; inversion H; subst. auto. }
    destruct (c =? 92) eqn:E3; inversion H; subst; auto.
  - simpl. destruct ((c =? 32) || (c =? 9) || (c =? 13) || (c =? 10)) eqn:E1. { inversion H; subst. auto. }
    destruct (c =? 34) eqn:E2.
    { destruct escaped. { inversion H; subst. auto. }
      destruct qc as [|[|[|q]]]; inversion H; subst; auto. }
    destruct (c =? 92) eqn:E3; inversion H; subst; auto.
Qed.

Lemma quiet_run_ok : forall s1 st st', quiet_run st s1 = Some st' -> forall s2, lex_go st (s1 ++ s2) = lex_go st' s2.
Proof.
  induction s1; intros st st' H s2.
  - simpl in H. inversion H; subst. auto.
  - simpl in H. destruct (quiet_step st a) eqn:E; try discriminate.
    rewrite <- app_comm_cons. rewrite (quiet_step_ok _ _ _ E). apply IHs1. auto.
Qed.

Definition st_acc (st : lstate) : option bytes :=
  match st with
  | LIdent a | LInt a | LFloat1 a _ | LFloat2 a | LFloat3 a | LStr a _ | LBlock a _ _ _ _ _ => Some a
  | _ => None
  end.

Lemma quiet_step_acc : forall st c st' a, quiet_step st c = Some st' -> st_acc st = Some a -> st_acc st' = Some (c :: a).
Proof.
  intros st c st' a H A. destruct st; simpl in *; try discriminate; inversion A; subst; clear A.
  - destruct (is_ident_char c); inversion H; subst; auto.
  - destruct (is_digit c). { inversion H; subst; auto. }
    destruct ((c =? 46) || is_exp c); inversion H; subst; auto.
  - destruct has_exp.
    + destruct (is_digit c); inversion H; subst; auto.
    + destruct (is_digit c). { inversion H; subst; auto. }
      destruct (is_exp c). { inversion H; subst; auto. }
      destruct (is_sign c); inversion H; subst; auto.
  - destruct (is_sign c || is_digit c); inversion H; subst; auto.
  - destruct (is_digit c); inversion H; subst; auto.
  - destruct ((c =? 32) || (c =? 9)). { inversion H; subst; auto. }
    destruct ((c =? 34) || (c =? 13) || (c =? 10)). { destruct escaped; inversion H; subst; auto. }
    destruct (c =? 92); inversion H; subst; auto.
  - destruct ((c =? 32) || (c =? 9) || (c =? 13) || (c =? 10)). { inversion H; subst; auto. }
    destruct (c =? 34).
    { destruct escaped. { inversion H; subst; auto. }
      destruct qc as [|[|[|q]]]; inversion H; subst; auto. }
    destruct (c =? 92); inversion H; subst; auto.
Qed.

Lemma quiet_run_acc : forall s st st' a, quiet_run st s = Some st' -> st_acc st = Some a -> st_acc st' = Some (rev s ++ a).
Proof.
  induction s; simpl; intros st st' a0 H A.
  - inversion H; subst. auto.
  - destruct (quiet_step st a) eqn:E; try discriminate.
    rewrite <- app_assoc. simpl. eapply IHs; eauto. eapply quiet_step_acc; eauto.
Qed.

(* ------------------------------------------------------------------ token ends *)
Definition is_tok_state (st : lstate) : bool :=
  match st with LIdent _ | LInt _ | LFloat1 _ _ | LFloat2 _ | LFloat3 _ => true | _ => false end.

Definition ends_token (st : lstate) (rest : bytes) : Prop :=
  match rest with [] => True | c :: _ => quiet_step st c = None end.

Lemma emit_ok : forall st rest, is_tok_state st = true -> ends_token st rest ->
  lex_go st rest = lex_flush st ++ lex_go LStart rest.
Proof.
  intros st rest T E. destruct rest as [|c s].
  - simpl. rewrite app_nil_r. auto.
  - simpl in E. destruct st; simpl in T; try discriminate; simpl in E; simpl.
    + destruct (is_ident_char c); try discriminate. auto.
    + destruct (is_digit c); try discriminate. destruct ((c =? 46) || is_exp c); try discriminate. auto.
    + destruct has_exp.
      * destruct (is_digit c); try discriminate. auto.
      * destruct (is_digit c); try discriminate. destruct (is_exp c); try discriminate.
        destruct (is_sign c); try discriminate. auto.
    + destruct (is_sign c || is_digit c); try discriminate. auto.
    + destruct (is_digit c); try discriminate. auto.
Qed.

(* the bytes that may follow a printed value: nothing, ',' , ']' , '}' *)
Definition follow_ok (rest : bytes) : Prop :=
  match rest with [] => True | c :: _ => c = 44 \/ c = 93 \/ c = 125 end.
(* … and ':' after an object key *)
Definition key_follow_ok (rest : bytes) : Prop :=
  match rest with [] => True | c :: _ => c = 44 \/ c = 93 \/ c = 125 \/ c = 58 end.

Lemma follow_ends : forall st rest, is_tok_state st = true -> key_follow_ok rest -> ends_token st rest.
Proof.
  intros st rest T F. destruct rest as [|c s]; simpl; auto. simpl in F.
  destruct st; simpl in T; try discriminate; destruct F as [F|[F|[F|F]]]; subst; try reflexivity;
    destruct has_exp; reflexivity.
Qed.
Lemma follow_key : forall rest, follow_ok rest -> key_follow_ok rest.
Proof. destruct rest; simpl; tauto. Qed.

(* ------------------------------------------------------------------ names *)
Ltac kill_eqb c :=
  repeat match goal with
         | |- context [N.eqb c ?k] => replace (N.eqb c k) with false by (symmetry; apply N.eqb_neq; lia)
         end.

Lemma name_start_range : forall c, is_name_start c = true -> (65 <= c <= 90) \/ (97 <= c <= 122) \/ c = 95.
Proof.
  intros c H. unfold is_name_start, is_lower, is_upper in H.
  destruct (N.leb_spec 97 c), (N.leb_spec c 122), (N.leb_spec 65 c), (N.leb_spec c 90), (N.eqb_spec c 95);
    simpl in H; try discriminate; lia.
Qed.

Lemma dispatch_name_start : forall c s sigil, is_name_start c = true ->
  lex_dispatch lex_go sigil c s = lex_go (LIdent [c]) s.
Proof.
  intros c s sigil H. apply name_start_range in H.
  unfold lex_dispatch, is_ws, is_single_punct, is_digit.
  kill_eqb c. simpl.
  replace ((48 <=? c) && (c <=? 57)) with false; auto.
  symmetry. apply andb_false_iff.
  destruct (N.leb_spec 48 c), (N.leb_spec c 57); auto; lia.
Qed.

Lemma name_char_ident : forall c, is_name_char c = true -> is_ident_char c = true.
Proof.
  intros c H. unfold is_name_char, is_name_start in H. unfold is_ident_char.
  destruct (is_lower c), (is_upper c), (is_digit c), (c =? 95), (c =? 45); simpl in *; auto.
Qed.

Lemma ident_run : forall r acc, forallb is_name_char r = true -> quiet_run (LIdent acc) r = Some (LIdent (rev r ++ acc)).
Proof.
  induction r; simpl; intros acc H; auto.
  apply andb_true_iff in H. destruct H as [H1 H2]. rewrite (name_char_ident _ H1).
  rewrite IHr; auto. rewrite <- app_assoc. auto.
Qed.

Lemma lex_name : forall n rest st, name_ok n = true -> key_follow_ok rest -> (st = LStart \/ st = LSigil) ->
  lex_go st (n ++ rest) = TIdent n :: lex_go LStart rest.
Proof.
  intros n rest st H F St. destruct n as [|c r]; simpl in H; try discriminate.
  apply andb_true_iff in H. destruct H as [H1 H2].
  assert (E : lex_go st ((c :: r) ++ rest) = lex_go (LIdent [c]) (r ++ rest)).
  { destruct St; subst; simpl; apply dispatch_name_start; auto. }
  rewrite E. rewrite (quiet_run_ok _ _ _ (ident_run r [c] H2)).
  rewrite emit_ok; auto.
  - simpl. rewrite rev_app_distr, rev_involutive. auto.
  - apply follow_ends; auto.
Qed.

(* ------------------------------------------------------------------ numbers *)
Lemma digit_range : forall c, is_digit c = true -> 48 <= c <= 57.
Proof.
  intros c H. unfold is_digit in H. destruct (N.leb_spec 48 c), (N.leb_spec c 57); simpl in H; try discriminate; lia.
Qed.

Lemma dispatch_digit : forall c s sigil, is_digit c = true -> lex_dispatch lex_go sigil c s = lex_go (LInt [c]) s.
Proof.
  intros c s sigil H. pose proof (digit_range _ H) as R.
  unfold lex_dispatch, is_ws, is_single_punct. kill_eqb c. simpl. rewrite H. auto.
Qed.

Lemma int_run : forall r acc, forallb is_digit r = true -> quiet_run (LInt acc) r = Some (LInt (rev r ++ acc)).
Proof.
  induction r; simpl; intros acc H; auto.
  apply andb_true_iff in H. destruct H as [H1 H2]. rewrite H1. rewrite IHr; auto. rewrite <- app_assoc. auto.
Qed.

Lemma lex_digits : forall ds rest st, digits_ok ds = true -> follow_ok rest -> (st = LStart \/ st = LSigil) ->
  lex_go st (ds ++ rest) = TInt ds :: lex_go LStart rest.
Proof.
  intros ds rest st H F St. destruct ds as [|c r]; simpl in H; try discriminate.
  apply andb_true_iff in H. destruct H as [H1 H2].
  assert (E : lex_go st ((c :: r) ++ rest) = lex_go (LInt [c]) (r ++ rest)).
  { destruct St; subst; simpl; apply dispatch_digit; auto. }
  rewrite E. rewrite (quiet_run_ok _ _ _ (int_run r [c] H2)).
  rewrite emit_ok; auto.
  - simpl. rewrite rev_app_distr, rev_involutive. auto.
  - apply follow_ends; auto. apply follow_key. auto.
Qed.

Lemma lex_minus : forall s, lex_go LStart (45 :: s) = TSub :: lex_go LSigil s.
Proof. reflexivity. Qed.

Definition num_toks (mk : bytes -> tok) (raw : bytes) : list tok :=
  match raw with 45 :: r => [TSub; mk r] | _ => [mk raw] end.

Lemma strip_sign_digit : forall raw c r, strip_sign raw = c :: r -> is_digit c = true ->
  (raw = c :: r) \/ (raw = 45 :: c :: r).
Proof.
  intros raw c r H D. destruct raw as [|x t]; simpl in H; try discriminate.
  destruct (N.eqb_spec x 45).
  - subst. simpl in H. right. congruence.
  - left. assert (strip_sign (x :: t) = x :: t).
    { unfold strip_sign. destruct x; auto. repeat (destruct p; auto). }
    rewrite H0 in H. auto.
Qed.

Lemma lex_int : forall raw rest, int_ok raw = true -> follow_ok rest ->
  lex_go LStart (raw ++ rest) = num_toks TInt raw ++ lex_go LStart rest.
Proof.
  intros raw rest H F. unfold int_ok in H.
  destruct (strip_sign raw) as [|c r] eqn:E; simpl in H; try discriminate.
  assert (D : is_digit c = true). { apply andb_true_iff in H. tauto. }
  destruct (strip_sign_digit _ _ _ E D) as [R|R]; subst raw.
  - assert (c <> 45). { apply digit_range in D. lia. }
    unfold num_toks. destruct (N.eqb_spec c 45); try contradiction.
    replace (match c with 45 => _ | _ => [TInt (c :: r)] end) with [TInt (c :: r)].
    2:{ destruct c; auto. repeat (destruct p; auto); contradiction. }
    simpl app at 2. apply lex_digits; auto.
  - simpl. rewrite lex_minus. f_equal. apply (lex_digits (c :: r)); auto.
Qed.

Lemma lex_float : forall raw rest, float_ok raw = true -> follow_ok rest ->
  lex_go LStart (raw ++ rest) = num_toks TFloat raw ++ lex_go LStart rest.
Proof.
  intros raw rest H F. unfold float_ok in H.
  destruct (strip_sign raw) as [|c r] eqn:E; try discriminate.
  apply andb_true_iff in H. destruct H as [D H].
  destruct (quiet_run (LInt [c]) r) as [st|] eqn:Q; try discriminate.
  assert (A : st_acc st = Some (rev r ++ [c])). { eapply quiet_run_acc; eauto. }
  assert (T : is_tok_state st = true /\ lex_flush st = [TFloat (c :: r)]).
  { destruct st; try discriminate; simpl in A; inversion A; subst; simpl;
      rewrite rev_app_distr, rev_involutive; auto. }
  destruct T as [T Fl].
  assert (Core : forall st0, st0 = LStart \/ st0 = LSigil ->
                 lex_go st0 ((c :: r) ++ rest) = TFloat (c :: r) :: lex_go LStart rest).
  { intros st0 St.
    assert (E0 : lex_go st0 ((c :: r) ++ rest) = lex_go (LInt [c]) (r ++ rest)).
    { destruct St; subst; simpl; apply dispatch_digit; auto. }
    rewrite E0, (quiet_run_ok _ _ _ Q), emit_ok; auto.
    - rewrite Fl. auto.
    - apply follow_ends; auto. apply follow_key; auto. }
  destruct (strip_sign_digit _ _ _ E D) as [R|R]; subst raw.
  - assert (c <> 45). { apply digit_range in D. lia. }
    unfold num_toks.
    replace (match c with 45 => _ | _ => [TFloat (c :: r)] end) with [TFloat (c :: r)].
    2:{ destruct c; auto. repeat (destruct p; auto); contradiction. }
    simpl app at 2. apply Core. auto.
  - simpl. rewrite lex_minus. f_equal. apply Core. auto.
Qed.

(* ------------------------------------------------------------------ strings *)
Lemma lex_str : forall raw rest, str_ok raw = true -> follow_ok rest ->
  lex_go LStart (34 :: raw ++ 34 :: rest) = TStr raw false :: lex_go LStart rest.
Proof.
  intros raw rest H F. unfold str_ok in H.
  destruct (quiet_run (LStr [] false) raw) as [st|] eqn:Q; try discriminate.
  destruct st; try discriminate. destruct escaped; try discriminate.
  assert (A : acc = rev raw).
  { pose proof (quiet_run_acc _ _ _ [] Q eq_refl) as A. simpl in A. rewrite app_nil_r in A. congruence. }
  subst acc.
  change (lex_go LStart (34 :: raw ++ 34 :: rest)) with (lex_go LQ1 (raw ++ 34 :: rest)).
  destruct raw as [|c r].
  - simpl. destruct rest as [|d s]; auto. simpl in F.
    assert (d =? 34 = false). { apply N.eqb_neq. lia. }
    rewrite H0. auto.
  - assert (C : c =? 34 = false).
    { simpl in Q. destruct ((c =? 32) || (c =? 9)) eqn:E1.
      - apply orb_true_iff in E1. apply N.eqb_neq. destruct E1 as [E1|E1]; apply N.eqb_eq in E1; lia.
      - destruct (N.eqb_spec c 34); auto. subst. simpl in Q. discriminate. }
    assert (E : lex_go LQ1 ((c :: r) ++ 34 :: rest) = lex_go (LStr [] false) ((c :: r) ++ 34 :: rest)).
    { simpl. rewrite C. auto. }
    rewrite E, (quiet_run_ok _ _ _ Q). simpl. unfold str_step. simpl.
    rewrite rev_involutive. auto.
Qed.

Lemma firstn_all_sub : forall {A} (l : list A), firstn (length l - 0) l = l.
Proof. intros. rewrite Nat.sub_0_r. apply firstn_all. Qed.

Lemma lex_block : forall raw rest, block_ok raw = true ->
  lex_go LStart (34 :: 34 :: 34 :: raw ++ 34 :: 34 :: 34 :: rest) = TStr raw true :: lex_go LStart rest.
Proof.
  intros raw rest H. unfold block_ok in H.
  destruct (quiet_run (LBlock [] false 0 0 false 0) raw) as [st|] eqn:Q; try discriminate.
  destruct st; try discriminate. destruct escaped; try discriminate.
  destruct qc; try discriminate. destruct wc; try discriminate. destruct lead; try discriminate.
  assert (A : acc = rev raw).
  { pose proof (quiet_run_acc _ _ _ [] Q eq_refl) as A. simpl in A. rewrite app_nil_r in A. congruence. }
  subst acc.
  change (lex_go LStart (34 :: 34 :: 34 :: raw ++ 34 :: 34 :: 34 :: rest))
    with (lex_go (LBlock [] false 0 0 false 0) (raw ++ 34 :: 34 :: 34 :: rest)).
  rewrite (quiet_run_ok _ _ _ Q). simpl. unfold block_content. simpl skipn.
  rewrite rev_involutive, firstn_all_sub. auto.
Qed.

(* ------------------------------------------------------------------ token sequence of a value *)
Fixpoint toks (v : value) : list tok :=
  match v with
  | VVar n => [TDollar; TIdent n]
  | VInt raw => num_toks TInt raw
  | VFloat raw => num_toks TFloat raw
  | VStr raw blk => [TStr raw blk]
  | VBool true => [TIdent #"true"]
  | VBool false => [TIdent #"false"]
  | VNull => [TIdent #"null"]
  | VEnum n => [TIdent n]
  | VList items =>
    TLBrack :: (fix go (l : list value) : list tok :=
                  match l with [] => [] | x :: r => toks x ++ go r end) items ++ [TRBrack]
  | VObj fs =>
    TLBrace :: (fix go (l : list (name * value)) : list tok :=
                  match l with [] => [] | (k, x) :: r => TIdent k :: TColon :: toks x ++ go r end) fs ++ [TRBrace]
  end.

Definition list_toks (l : list value) : list tok :=
  (fix go (l : list value) : list tok := match l with [] => [] | x :: r => toks x ++ go r end) l.
Definition obj_toks (l : list (name * value)) : list tok :=
  (fix go (l : list (name * value)) : list tok :=
     match l with [] => [] | (k, x) :: r => TIdent k :: TColon :: toks x ++ go r end) l.
Definition list_text (l : list value) : bytes :=
  (fix go (l : list value) : bytes :=
     match l with
     | [] => []
     | x :: r => print_value x ++ match r with [] => [] | _ => 44 :: go r end
     end) l.
Definition obj_text (l : list (name * value)) : bytes :=
  (fix go (l : list (name * value)) : bytes :=
     match l with
     | [] => []
     | (k, x) :: r => k ++ 58 :: 32 :: print_value x ++ match r with [] => [] | _ => 44 :: go r end
     end) l.

Lemma follow_93 : forall r, follow_ok (93 :: r). Proof. simpl. auto. Qed.
Lemma follow_125 : forall r, follow_ok (125 :: r). Proof. simpl. auto. Qed.
Lemma follow_44 : forall r, follow_ok (44 :: r). Proof. simpl. auto. Qed.

Theorem lex_print : forall v, value_ok v = true -> forall rest, follow_ok rest ->
  lex_go LStart (print_value v ++ rest) = toks v ++ lex_go LStart rest.
Proof.
  induction v using value_ind'; intros OK rest F; simpl in OK; try discriminate.
  - apply lex_int; auto.
  - apply lex_float; auto.
  - destruct bl; simpl.
    + rewrite <- app_assoc. simpl. apply lex_block. auto.
    + rewrite <- app_assoc. simpl. apply lex_str; auto.
  - destruct x; simpl; apply (lex_name _ rest LStart); auto; apply follow_key; auto.
  - simpl. apply (lex_name _ rest LStart); auto. apply follow_key; auto.
  - simpl. apply andb_true_iff in OK. destruct OK as [OK _]. apply (lex_name n rest LStart); auto. apply follow_key; auto.
  - (* list *)
    change (print_value (VList l)) with (91 :: list_text l ++ [93]).
    change (toks (VList l)) with (TLBrack :: list_toks l ++ [TRBrack]).
    simpl. f_equal. rewrite <- !app_assoc. simpl.
    revert OK. induction H; intro OK.
    + simpl. auto.
    + simpl in OK. apply andb_true_iff in OK. destruct OK as [O1 O2].
      change (list_text (x :: l)) with (print_value x ++ match l with [] => [] | _ => 44 :: list_text l end).
      change (list_toks (x :: l)) with (toks x ++ list_toks l).
      rewrite <- !app_assoc. destruct l as [|y l'].
      * simpl. rewrite H; auto. apply follow_93.
      * rewrite H; auto. 2: apply follow_44. f_equal.
        change (lex_go LStart ((44 :: list_text (y :: l')) ++ 93 :: rest)) with (lex_go LStart (list_text (y :: l') ++ 93 :: rest)).
        apply IHForall. auto.
  - (* object *)
    change (print_value (VObj fs)) with (123 :: obj_text fs ++ [125]).
    change (toks (VObj fs)) with (TLBrace :: obj_toks fs ++ [TRBrace]).
    simpl. f_equal. rewrite <- !app_assoc. simpl.
    revert OK. induction H; intro OK.
    + simpl. auto.
    + destruct x as [k v]. simpl in H.
      apply andb_true_iff in OK. destruct OK as [O1 O3]. apply andb_true_iff in O1. destruct O1 as [O1 O2].
      change (obj_text ((k, v) :: l)) with (k ++ 58 :: 32 :: print_value v ++ match l with [] => [] | _ => 44 :: obj_text l end).
      change (obj_toks ((k, v) :: l)) with (TIdent k :: TColon :: toks v ++ obj_toks l).
      rewrite <- !app_assoc. rewrite (lex_name k _ LStart); auto. 2:{ simpl. auto. }
      simpl. f_equal. f_equal. rewrite <- !app_assoc. destruct l as [|y l'].
      * simpl. rewrite H; auto. apply follow_125.
      * rewrite H; auto. 2: apply follow_44. f_equal.
        change (lex_go LStart ((44 :: obj_text (y :: l')) ++ 125 :: rest)) with (lex_go LStart (obj_text (y :: l') ++ 125 :: rest)).
        apply IHForall. auto.
Qed.
