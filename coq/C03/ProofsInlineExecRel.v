(* C03 proofs, part 9b: the relation behind inline_selections_from_inline_fragments.
   [irel Q l l'] : l' is l where, at any depth, an inline fragment WITHOUT directives whose type
   condition holds at every runtime type the selection set can be executed on (the set [Q]) has been
   replaced by its selections.  The executor cannot distinguish related lists at the types in Q
   (theorem [irel_exec], two fuels, neither side out of fuel).
   [KN key fname]: the table "response key -> field name" of the document; fields that share a
   response key are executed by the reference executor with the FIRST field's definition, so the
   static type the pass used for the later ones is only right when they name the same field. *)
From Gv Require Import lib.Bytes lib.Json lib.Gql lib.Exec C03.Model C03.ProofsExec C03.ProofsRel C03.ProofsDoc
     C03.ProofsMono C03.ProofsPasses C03.ProofsInlineExecCong.
From Coq Require Import Lia PeanoNat.
Open Scope N_scope.

Definition s_Entity : bytes := [95;69;110;116;105;116;121].
(* [flatten] enters an inline fragment on [c] at runtime type [o] *)
Definition cond_holds (S : schema) (o c : name) : bool :=
  match kind_of S c with None => bytes_eqb c s_Entity | Some _ => type_applies S o c end.
Definition ocond_holds (S : schema) (o : name) (c : option name) : Prop :=
  match c with None => True | Some cn => cond_holds S o cn = true end.

Section IRel.
  Variable S : schema.
  Variable U : universe.
  Variable frags frags' : list fragment.
  Variable vars : list (bytes * json).
  Variable KN : name -> name -> Prop.
  Hypothesis KN_fun : forall k n1 n2, KN k n1 -> KN k n2 -> n1 = n2.

  (* the runtime types field [n] can lead to from a type in Q all lie in Q' *)
  Definition hopQ (Q : name -> Prop) (n : name) (Q' : name -> Prop) : Prop :=
    forall o td fd R, Q o -> find_type o (s_types S) = Some td -> find_field n (td_fields td) = Some fd ->
                      tcheck S (named_of (fd_type fd)) R = true -> Q' R.
  Definition Qin (Q : name -> Prop) (c : option name) : name -> Prop := fun o => Q o /\ ocond_holds S o c.

  Inductive irel : (name -> Prop) -> list selection -> list selection -> Prop :=
  | ir_nil : forall Q : name -> Prop, irel Q [] []
  | ir_field : forall (Q Q' : name -> Prop) a n args ds sub sub' l l',
      KN (response_name a n) n -> hopQ Q n Q' -> irel Q' sub sub' -> irel Q l l' ->
      irel Q (SField a n args ds sub :: l) (SField a n args ds sub' :: l')
  | ir_inline : forall (Q : name -> Prop) c ds sub sub' l l',
      irel (Qin Q c) sub sub' -> irel Q l l' -> irel Q (SInline c ds sub :: l) (SInline c ds sub' :: l')
  | ir_spread : forall (Q : name -> Prop) n ds l l', irel Q l l' -> irel Q (SSpread n ds :: l) (SSpread n ds :: l')
  | ir_go : forall (Q : name -> Prop) c sub l l',
      (forall o, Q o -> ocond_holds S o c) -> irel Q (sub ++ l) l' -> irel Q (SInline c [] sub :: l) l'.

  Lemma irel_weaken : forall Q l l', irel Q l l' -> forall Q2 : name -> Prop, (forall o, Q2 o -> Q o) -> irel Q2 l l'.
  Proof.
    intros Q l l' H.
    induction H as [Q|Q Q' a n args ds sub sub' l l' Hkn Hhop Hsub IHsub Hl IHl
                    |Q c ds sub sub' l l' Hsub IHsub Hl IHl|Q n ds l l' Hl IHl|Q c sub l l' Hc Hl IHl]; intros Q2 HQ2.
    - apply ir_nil.
    - eapply ir_field; [exact Hkn| |exact Hsub|apply IHl; exact HQ2].
      intros o td fd R Ho. apply Hhop. apply HQ2. exact Ho.
    - apply ir_inline; [|apply IHl; exact HQ2]. apply IHsub. intros o [Ho Hc]. split; [apply HQ2; exact Ho|exact Hc].
    - apply ir_spread. apply IHl. exact HQ2.
    - apply ir_go; [|apply IHl; exact HQ2]. intros o Ho. apply Hc. apply HQ2. exact Ho.
  Qed.

  Lemma irel_app : forall Q a a', irel Q a a' -> forall b b', irel Q b b' -> irel Q (a ++ b) (a' ++ b').
  Proof.
    intros Q a a' H.
    induction H as [Q|Q Q' a n args ds sub sub' l l' Hkn Hhop Hsub IHsub Hl IHl
                    |Q c ds sub sub' l l' Hsub IHsub Hl IHl|Q n ds l l' Hl IHl|Q c sub l l' Hc Hl IHl]; intros b b' Hb; cbn [app].
    - exact Hb.
    - eapply ir_field; [exact Hkn|exact Hhop|exact Hsub|apply IHl; exact Hb].
    - apply ir_inline; [exact Hsub|apply IHl; exact Hb].
    - apply ir_spread. apply IHl. exact Hb.
    - apply ir_go; [exact Hc|]. rewrite app_assoc. apply IHl. exact Hb.
  Qed.

  (* fragment bodies: related at the types the spread lets through *)
  Definition frags_irel : Prop :=
    forall n,
      match find_frag n frags with
      | Some fr => exists fr', find_frag n frags' = Some fr' /\ fr_type fr' = fr_type fr /\
                               irel (fun o => type_applies S o (fr_type fr) = true) (fr_sels fr) (fr_sels fr')
      | None => find_frag n frags' = None
      end.
  Hypothesis Hfr : frags_irel.

  (* ---- flatten: fuel bookkeeping ---- *)
  Lemma flatten_mono_le : forall fr f g objty l,
      (f <= g)%nat -> not_oof (flatten S fr vars f objty l) -> flatten S fr vars g objty l = flatten S fr vars f objty l.
  Proof.
    intros fr f g objty l Hle Hn. induction Hle as [|m Hle IH]; [reflexivity|].
    rewrite <- IH. apply flatten_mono. rewrite IH. exact Hn.
  Qed.

  Lemma flat_here_mono_le : forall fr f g objty s,
      (f <= g)%nat -> not_oof (flat_here S vars fr f objty s) -> flat_here S vars fr g objty s = flat_here S vars fr f objty s.
  Proof.
    intros fr f g objty s Hle Hn.
    destruct s as [a n args ds sub|c ds sub|n ds]; cbn [flat_here] in *.
    - reflexivity.
    - destruct (negb (included vars ds)); [reflexivity|].
      destruct c as [c|]; [|apply flatten_mono_le; assumption].
      destruct (kind_of S c).
      + destruct (type_applies S objty c); [apply flatten_mono_le; assumption|reflexivity].
      + destruct (bytes_eqb c _); [apply flatten_mono_le; assumption|reflexivity].
    - destruct (negb (included vars ds)); [reflexivity|].
      destruct (find_frag n fr) as [fd|]; [|reflexivity].
      destruct (type_applies S objty (fr_type fd)); [apply flatten_mono_le; assumption|reflexivity].
  Qed.

  Lemma flat_seq_assoc : forall a b c, flat_seq (flat_seq a b) c = flat_seq a (flat_seq b c).
  Proof.
    intros [la|ea] [lb|eb] [lc|ec]; cbn; try reflexivity. rewrite app_assoc. reflexivity.
  Qed.
  Lemma not_oof_seq_l : forall a b, not_oof (flat_seq a b) -> not_oof a.
  Proof. intros [la|ea] b H; [discriminate|]. cbn in H. exact H. Qed.
  Lemma not_oof_seq_r : forall la b, not_oof (flat_seq (FlatOk la) b) -> not_oof b.
  Proof. intros la [lb|eb] H; [discriminate|]. cbn in H. exact H. Qed.

  Lemma not_oof_S : forall fr f objty l, not_oof (flatten S fr vars f objty l) -> exists g, f = Datatypes.S g.
  Proof. intros fr [|g] objty l H; [exfalso; apply H; reflexivity|eauto]. Qed.

  Lemma flatten_app : forall fr objty a f b,
      not_oof (flatten S fr vars f objty a) ->
      flatten S fr vars (length a + f) objty (a ++ b) =
      flat_seq (flatten S fr vars f objty a) (flatten S fr vars f objty b).
  Proof.
    intros fr objty. induction a as [|s a IH]; intros f b Hn.
    - destruct (not_oof_S _ _ _ _ Hn) as [g ->]. cbn [length app Nat.add]. rewrite flatten_S_nil.
      destruct (flatten S fr vars (Datatypes.S g) objty b); reflexivity.
    - destruct (not_oof_S _ _ _ _ Hn) as [g ->].
      rewrite flatten_S_cons in *. cbn [length app Nat.add]. rewrite flatten_S_cons.
      pose proof (not_oof_seq_l _ _ Hn) as Hh.
      rewrite (flat_here_mono_le fr g (length a + Datatypes.S g) objty s) by (lia || exact Hh).
      destruct (flat_here S vars fr g objty s) as [l1|e] eqn:Eh; [|reflexivity].
      pose proof (not_oof_seq_r _ _ Hn) as Hr.
      assert (Hr' : not_oof (flatten S fr vars (Datatypes.S g) objty a)).
      { rewrite (flatten_mono S vars fr g objty a Hr). exact Hr. }
      rewrite (IH (Datatypes.S g) b Hr'). rewrite (flatten_mono S vars fr g objty a Hr).
      rewrite flat_seq_assoc. reflexivity.
  Qed.

  (* ---- flatten: related lists give related field lists ---- *)
  Definition hop1 (objty n : name) (Q' : name -> Prop) : Prop :=
    forall td fd R, find_type objty (s_types S) = Some td -> find_field n (td_fields td) = Some fd ->
                    tcheck S (named_of (fd_type fd)) R = true -> Q' R.
  Inductive frel (objty : name) : selection -> selection -> Prop :=
  | frel_intro : forall Q' a n args ds sub sub',
      KN (response_name a n) n -> hop1 objty n Q' -> irel Q' sub sub' ->
      frel objty (SField a n args ds sub) (SField a n args ds sub').

  Definition flat_rel2 (objty : name) (r r' : flat) : Prop :=
    match r with
    | FlatOk fl => exists fl', r' = FlatOk fl' /\ Forall2 (frel objty) fl fl'
    | FlatBad e => r' = FlatBad e
    end.

  Lemma flat_seq_rel2 : forall objty a a' b b',
      flat_rel2 objty a a' ->
      (forall la, a = FlatOk la -> flat_rel2 objty b b') ->
      flat_rel2 objty (flat_seq a b) (flat_seq a' b').
  Proof.
    intros objty a a' b b' Ha Hb. destruct a as [l1|e].
    - destruct Ha as [l1' [E1 F1]]. subst a'. specialize (Hb l1 eq_refl).
      destruct b as [l2|e].
      + destruct Hb as [l2' [E2 F2]]. subst b'. cbn. eexists; split; [reflexivity|]. apply Forall2_app; assumption.
      + cbn in Hb. subst b'. reflexivity.
    - cbn in Ha. subst a'. reflexivity.
  Qed.

  Lemma flat_rel2_nil : forall objty, flat_rel2 objty (FlatOk []) (FlatOk []).
  Proof. intro. cbn. eexists; split; [reflexivity|constructor]. Qed.

  Lemma flatten_irel : forall N Q l l',
      irel Q l l' ->
      forall f', (f' <= N)%nat -> forall f objty, Q objty ->
        not_oof (flatten S frags vars f objty l) -> not_oof (flatten S frags' vars f' objty l') ->
        flat_rel2 objty (flatten S frags vars f objty l) (flatten S frags' vars f' objty l').
  Proof.
    induction N as [|N IHN].
    - intros Q l l' _ f' Hle f objty _ _ Hn'. exfalso. apply Hn'. replace f' with O by lia. reflexivity.
    - intros Q l l' H. induction H as [Q|Q Q' a n args ds sub sub' l l' Hkn Hhop Hsub IHsub Hl IHl
                                        |Q c ds sub sub' l l' Hsub IHsub Hl IHl|Q n ds l l' Hl IHl|Q c sub l l' Hc Hl IHl];
        intros f' Hle f objty HQ Hn Hn'.
      + destruct (not_oof_S _ _ _ _ Hn) as [g ->]. destruct (not_oof_S _ _ _ _ Hn') as [g' ->].
        rewrite !flatten_S_nil. apply flat_rel2_nil.
      + destruct (not_oof_S _ _ _ _ Hn) as [g ->]. destruct (not_oof_S _ _ _ _ Hn') as [g' ->].
        rewrite flatten_S_cons in *. cbn [flat_here] in *.
        apply flat_seq_rel2.
        * destruct (included vars ds); [|apply flat_rel2_nil].
          cbn. eexists; split; [reflexivity|]. constructor; [|constructor].
          eapply frel_intro; [exact Hkn| |exact Hsub].
          intros td fd R Ht Hf HR. eapply Hhop; eauto.
        * intros la Ea. apply IHl; [lia|exact HQ| |].
          -- rewrite Ea in Hn. eapply not_oof_seq_r; exact Hn.
          -- destruct (included vars ds); eapply not_oof_seq_r; exact Hn'.
      + destruct (not_oof_S _ _ _ _ Hn) as [g ->]. destruct (not_oof_S _ _ _ _ Hn') as [g' ->].
        rewrite flatten_S_cons in *.
        pose proof (not_oof_seq_l _ _ Hn) as Hh. pose proof (not_oof_seq_l _ _ Hn') as Hh'.
        assert (HR : flat_rel2 objty (flat_here S vars frags g objty (SInline c ds sub))
                               (flat_here S vars frags' g' objty (SInline c ds sub'))).
        { cbn [flat_here] in *. destruct (negb (included vars ds)); [apply flat_rel2_nil|].
          destruct c as [c|].
          - destruct (kind_of S c) as [k|] eqn:Ek.
            + destruct (type_applies S objty c) eqn:Ea; [|apply flat_rel2_nil].
              apply IHsub; [lia| |exact Hh|exact Hh']. split; [exact HQ|]. cbn. unfold cond_holds. rewrite Ek. exact Ea.
            + destruct (bytes_eqb c _) eqn:Eb; [|reflexivity].
              apply IHsub; [lia| |exact Hh|exact Hh']. split; [exact HQ|]. cbn. unfold cond_holds, s_Entity. rewrite Ek. exact Eb.
          - apply IHsub; [lia| |exact Hh|exact Hh']. split; [exact HQ|exact I]. }
        apply flat_seq_rel2; [exact HR|].
        intros la Ea. apply IHl; [lia|exact HQ| |].
        * rewrite Ea in Hn. eapply not_oof_seq_r; exact Hn.
        * rewrite Ea in HR. destruct HR as [la' [Ea' _]]. rewrite Ea' in Hn'. eapply not_oof_seq_r; exact Hn'.
      + destruct (not_oof_S _ _ _ _ Hn) as [g ->]. destruct (not_oof_S _ _ _ _ Hn') as [g' ->].
        rewrite flatten_S_cons in *.
        pose proof (not_oof_seq_l _ _ Hn) as Hh. pose proof (not_oof_seq_l _ _ Hn') as Hh'.
        assert (HR : flat_rel2 objty (flat_here S vars frags g objty (SSpread n ds))
                               (flat_here S vars frags' g' objty (SSpread n ds))).
        { cbn [flat_here] in *. destruct (negb (included vars ds)); [apply flat_rel2_nil|].
          pose proof (Hfr n) as Hf. destruct (find_frag n frags) as [fr|].
          - destruct Hf as [fr' [E1 [E2 E3]]]. rewrite E1, E2 in *.
            destruct (type_applies S objty (fr_type fr)) eqn:Ea; [|apply flat_rel2_nil].
            apply (IHN _ _ _ E3); [lia|exact Ea|exact Hh|exact Hh'].
          - rewrite Hf. reflexivity. }
        apply flat_seq_rel2; [exact HR|].
        intros la Ea. apply IHl; [lia|exact HQ| |].
        * rewrite Ea in Hn. eapply not_oof_seq_r; exact Hn.
        * rewrite Ea in HR. destruct HR as [la' [Ea' _]]. rewrite Ea' in Hn'. eapply not_oof_seq_r; exact Hn'.
      + destruct (not_oof_S _ _ _ _ Hn) as [g ->].
        rewrite flatten_S_cons in *.
        pose proof (not_oof_seq_l _ _ Hn) as Hh.
        assert (Eh : flat_here S vars frags g objty (SInline c [] sub) = flatten S frags vars g objty sub).
        { cbn [flat_here included negb]. specialize (Hc objty HQ). destruct c as [c|]; [|reflexivity].
          cbn in Hc. unfold cond_holds, s_Entity in Hc. destruct (kind_of S c); rewrite Hc; reflexivity. }
        rewrite Eh in *.
        rewrite <- (flatten_app frags objty sub g l Hh) in *.
        apply IHl; [exact Hle|exact HQ|exact Hn|exact Hn'].
  Qed.

  (* ---- group ---- *)
  Lemma frel_key : forall objty s s', frel objty s s' -> sel_key s = sel_key s'.
  Proof. intros objty s s' H; destruct H; reflexivity. Qed.
  Lemma frel_fsig : forall objty s s', frel objty s s' -> fsig s = fsig s'.
  Proof. intros objty s s' H; destruct H; reflexivity. Qed.

  Lemma Forall2_filter_frel : forall objty (p : selection -> bool) l l',
      Forall2 (frel objty) l l' -> (forall s s', frel objty s s' -> p s = p s') ->
      Forall2 (frel objty) (filter p l) (filter p l').
  Proof.
    intros objty p l l' H Hp. induction H; cbn; [constructor|].
    rewrite <- (Hp _ _ H). destruct (p x); [constructor|]; assumption.
  Qed.

  (* the runtime types field [n] of [objty] can produce *)
  Definition Qreach (objty n : name) : name -> Prop :=
    fun R => exists td fd, find_type objty (s_types S) = Some td /\ find_field n (td_fields td) = Some fd /\
                           tcheck S (named_of (fd_type fd)) R = true.

  Lemma subs_irel : forall objty k n1 l l',
      Forall2 (frel objty) l l' -> KN k n1 -> Forall (fun s => sel_key s = k) l ->
      irel (Qreach objty n1) (flat_map (fun x => match x with SField _ _ _ _ ss => ss | _ => [] end) l)
           (flat_map (fun x => match x with SField _ _ _ _ ss => ss | _ => [] end) l').
  Proof.
    intros objty k n1 l l' H Hk Hall. induction H as [|s s' l l' Hs HF IH]; cbn [flat_map]; [apply ir_nil|].
    apply Forall_cons_iff in Hall. destruct Hall as [Hks Hall'].
    apply irel_app; [|apply IH; exact Hall'].
    destruct Hs as [Q' a n args ds sub sub' Hkn Hhop Hsub]. cbn [sel_key] in Hks.
    rewrite Hks in Hkn. pose proof (KN_fun _ _ _ Hkn Hk) as En. subst n.
    eapply irel_weaken; [exact Hsub|]. intros R [td [fd [Ht [Hf HR]]]]. eapply Hhop; eauto.
  Qed.

  Definition grelI (objty : name) (g g' : name * selection * list selection) : Prop :=
    fst (fst g) = fst (fst g') /\ fsig (snd (fst g)) = fsig (snd (fst g')) /\
    forall n args, fsig (snd (fst g)) = Some (n, args) -> irel (Qreach objty n) (snd g) (snd g').

  Lemma filter_key_all : forall k (l : list selection),
      Forall (fun s => sel_key s = k) (filter (fun x => bytes_eqb (sel_key x) k) l).
  Proof.
    intros k l. apply Forall_forall. intros x Hx. apply filter_In in Hx. destruct Hx as [_ Hx].
    apply bytes_eqb_eq. exact Hx.
  Qed.

  Lemma group_irel : forall objty n fl fl', Forall2 (frel objty) fl fl' -> Forall2 (grelI objty) (group n fl) (group n fl').
  Proof.
    intros objty. induction n as [|n IH]; intros fl fl' H; [constructor|].
    destruct H as [|s s' rest rest' Hs Hr]; cbn [group]; [constructor|].
    rewrite <- (frel_key _ _ _ Hs).
    constructor.
    - split; [reflexivity|]. split; [exact (frel_fsig _ _ _ Hs)|]. cbn [fst snd].
      intros n1 args1 Hsig.
      assert (Hkn : KN (sel_key s) n1).
      { destruct Hs as [Q' a n0 args ds sub sub' Hkn _ _]. cbn in Hsig. inversion Hsig; subst. exact Hkn. }
      apply (subs_irel objty (sel_key s) n1 (s :: _) (s' :: _)).
      + constructor; [exact Hs|]. apply Forall2_filter_frel; [exact Hr|].
        intros x x' Hx. rewrite (frel_key _ _ _ Hx). reflexivity.
      + exact Hkn.
      + constructor; [reflexivity|]. apply filter_key_all.
    - apply IH. apply Forall2_filter_frel; [exact Hr|]. intros x x' Hx. rewrite (frel_key _ _ _ Hx). reflexivity.
  Qed.

  (* ---- the executor does not distinguish related selection lists ---- *)
  Theorem irel_exec : forall f f' Q l l' objty,
      irel Q l l' -> Q objty ->
      forall ov p, eq2 (exec_sels S U frags vars Mono f objty ov l p) (exec_sels S U frags' vars Mono f' objty ov l' p).
  Proof.
    induction f as [f IH] using (well_founded_induction Wf_nat.lt_wf).
    intros f' Q l l' objty H HQ ov p.
    destruct f as [|f]; [intros Hn _; exfalso; apply Hn; cbn; left; reflexivity|].
    destruct f' as [|f']; [intros _ Hn; exfalso; apply Hn; cbn; left; reflexivity|].
    rewrite !exec_sels_S.
    pose proof (flatten_irel (Datatypes.S f') Q l l' H (Datatypes.S f') (le_n _) (Datatypes.S f) objty HQ) as HF.
    destruct (flatten S frags vars (Datatypes.S f) objty l) as [fl|e] eqn:E1;
      destruct (flatten S frags' vars (Datatypes.S f') objty l') as [fl'|e'] eqn:E2.
    - assert (HF' : flat_rel2 objty (FlatOk fl) (FlatOk fl')) by (apply HF; discriminate).
      destruct HF' as [fl2 [E F2]]. inversion E; subst fl2.
      rewrite <- (Forall2_length' _ _ _ _ _ F2).
      apply exec_groups_cong2.
      pose proof (group_irel objty (Datatypes.S (length fl)) fl fl' F2) as HG.
      induction HG as [|g g' gs gs' Hg HG IHG]; constructor; [|exact IHG].
      destruct Hg as [Hk [Hs Hl]]. split; [exact Hk|]. intro p'.
      rewrite <- Hk.
      destruct (fsig (snd (fst g))) as [[n args]|] eqn:Esig.
      + eapply (exec_field_cong2 S U frags frags' vars (Qreach objty n)); [rewrite Esig; exact Hs| |].
        * intros f0 Hlt f0' T HT ov' p''. eapply IH; [lia|apply (Hl n args eq_refl)|exact HT].
        * intros n0 args0 td fd R E0 Ht Hf HR. rewrite Esig in E0. inversion E0; subst. exists td, fd. auto.
      + clear IH IHG HF E1 E2. intros Hn Hn'.
        destruct f as [|f0]; [exfalso; apply Hn; cbn; left; reflexivity|].
        destruct f' as [|f0']; [exfalso; apply Hn'; cbn; left; reflexivity|].
        rewrite !exec_field_S_nonfield; [reflexivity|exact Esig|symmetry; exact Hs].
    - intros _ Hn'.
      assert (Hne : e' <> XOutOfFuel) by (intro; subst; apply Hn'; cbn; left; reflexivity).
      assert (HF' : flat_rel2 objty (FlatOk fl) (FlatBad e')).
      { apply HF; [discriminate|]. intro X. inversion X. contradiction. }
      destruct HF' as [fl2 [E _]]. discriminate.
    - intros Hn _.
      assert (Hne : e <> XOutOfFuel) by (intro; subst; apply Hn; cbn; left; reflexivity).
      assert (HF' : flat_rel2 objty (FlatBad e) (FlatOk fl')).
      { apply HF; [|discriminate]. intro X. inversion X. contradiction. }
      cbn in HF'. discriminate.
    - intros Hn Hn'.
      assert (Hne : e <> XOutOfFuel) by (intro; subst; apply Hn; cbn; left; reflexivity).
      assert (Hne' : e' <> XOutOfFuel) by (intro; subst; apply Hn'; cbn; left; reflexivity).
      assert (HF' : flat_rel2 objty (FlatBad e) (FlatBad e')).
      { apply HF; intro X; inversion X; contradiction. }
      cbn in HF'. inversion HF'. reflexivity.
  Qed.
End IRel.
