(* C03 examples: the hypotheses of the pass theorems are satisfiable by a non-trivial request
   (self-alias, spread, @skip on a literal and on a variable with a default, duplicated leaf).

     query Q($s: Boolean = false) { a { id id: id ...F name @skip(if: $s) } x: count @skip(if: true) count }
     fragment F on A { name id }                                                         *)
From Gv Require Import lib.Bytes lib.Json lib.Gql lib.Exec C03.Model C03.Spec
     C03.ProofsExec C03.ProofsRel C03.ProofsDoc C03.ProofsPasses C03.ProofsDedup C03.ProofsMono C03.ProofsCompose.
Open Scope N_scope.

Definition n_Query := [81;117;101;114;121].
Definition n_A := [65].
Definition n_a := [97].
Definition n_id := [105;100].
Definition n_name := [110;97;109;101].
Definition n_count := [99;111;117;110;116].
Definition n_x := [120].
Definition n_F := [70].
Definition n_Q := [81].
Definition n_s := [115].

Definition fdef (n : name) (t : ty) : field_def := {| fd_name := n; fd_args := []; fd_type := t; fd_dirs := [] |}.
Definition tdef (n : name) (fs : list field_def) : type_def :=
  {| td_kind := KObject; td_name := n; td_implements := []; td_fields := fs; td_members := [];
     td_enum_values := []; td_input_fields := []; td_dirs := [] |}.
Definition S0 : schema :=
  {| s_query := n_Query; s_mutation := None; s_subscription := None;
     s_types := [tdef n_Query [fdef n_a (TNamed n_A); fdef n_count (TNamed [73;110;116])];
                 tdef n_A [fdef n_id (TNonNull (TNamed [73;68])); fdef n_name (TNamed [83;116;114;105;110;103])]];
     s_directives := [] |}.
Definition U0 : universe :=
  [ {| en_type := n_Query; en_key := []; en_fields := [(n_a, FRef n_A [49]); (n_count, FSc (JNum [51]))] |};
    {| en_type := n_A; en_key := [49]; en_fields := [(n_id, FSc (JStr [49])); (n_name, FSc (JStr [110]))] |} ].

Definition dir_skip (v : value) : directive := {| d_name := s_skip; d_args := [(s_if, v)] |}.
Definition d0 : document :=
  [ DOp {| op_kind := OpQuery; op_name := Some n_Q;
           op_vars := [{| vd_name := n_s; vd_type := (TNamed [66;111;111;108;101;97;110]); vd_default := Some (VBool false); vd_dirs := [] |}];
           op_dirs := [];
           op_sels := [ SField None n_a [] []
                          [ SField None n_id [] [] []; SField (Some n_id) n_id [] [] []; SSpread n_F [];
                            SField None n_name [] [dir_skip (VVar n_s)] [] ];
                        SField (Some n_x) n_count [] [dir_skip (VBool true)] [];
                        SField None n_count [] [] [] ] |};
    DFrag {| fr_name := n_F; fr_type := n_A; fr_dirs := []; fr_sels := [SField None n_name [] [] []; SField None n_id [] [] []] |} ].

(* the hypotheses of norm_preserves_exec_partial hold for d0 without variables *)
Example ex_hypotheses :
  (forall o, pick_op d0 (Some n_Q) = Some o ->
             include_skip_ok (obj_members (JObj [])) (effective_vars o (obj_members (JObj []))) d0 = true) /\
  ops_spread_free (frag_inline S0 (include_skip (obj_members (JObj [])) d0)) = true.
Proof.
  split.
  - intros o H. vm_compute in H. inversion H; subst. vm_compute. reflexivity.
  - vm_compute. reflexivity.
Qed.

(* the request is not trivial: every proved pass but one changes it, and it executes without running out of fuel *)
Example ex_nontrivial :
  norm_proved S0 [] d0 =
  [ DOp {| op_kind := OpQuery; op_name := Some n_Q;
           op_vars := [{| vd_name := n_s; vd_type := (TNamed [66;111;111;108;101;97;110]); vd_default := Some (VBool false); vd_dirs := [] |}];
           op_dirs := [];
           op_sels := [ SField None n_a [] []
                          [ SField None n_id [] [] [];
                            SInline (Some n_A) [] [SField None n_name [] [] []; SField None n_id [] [] []];
                            SField None n_name [] [] [] ];
                        SField None n_count [] [] [] ] |} ] /\
  execute 30 S0 U0 Mono d0 (Some n_Q) (JObj []) =
  {| rs_data := JObj [(n_a, JObj [(n_id, JStr [49]); (n_name, JStr [110])]); (n_count, JNum [51])]; rs_errs := [] |} /\
  execute 30 S0 U0 Mono (norm_proved S0 [] d0) (Some n_Q) (JObj []) = execute 30 S0 U0 Mono d0 (Some n_Q) (JObj []).
Proof. vm_compute. repeat split. Qed.

(* the theorem applied to the example *)
Example ex_theorem_applies : forall fuel fuel',
    oof_b (rs_errs (execute fuel S0 U0 Mono d0 (Some n_Q) (JObj []))) = false ->
    oof_b (rs_errs (execute fuel' S0 U0 Mono (norm_proved S0 [] d0) (Some n_Q) (JObj []))) = false ->
    execute fuel' S0 U0 Mono (norm_proved S0 [] d0) (Some n_Q) (JObj []) = execute fuel S0 U0 Mono d0 (Some n_Q) (JObj []).
Proof.
  destruct ex_hypotheses as [H1 H2].
  exact (norm_preserves_exec_partial S0 U0 d0 (Some n_Q) (JObj []) H1 H2).
Qed.

(* idempotence on the example, pass by pass *)
Example ex_idempotent :
  self_alias (self_alias d0) = self_alias d0 /\ dedup (dedup d0) = dedup d0 /\
  include_skip [] (include_skip [] d0) = include_skip [] d0 /\
  frag_inline S0 (frag_inline S0 d0) = frag_inline S0 d0 /\
  norm_proved S0 [] (norm_proved S0 [] d0) = norm_proved S0 [] d0.
Proof. vm_compute. repeat split. Qed.
