(* C03 proofs, part 10e: [flatten] maps [mrel]-related lists to [R]-related field lists; theorem
   [mrel_exec]. *)
From Gv Require Import lib.Bytes lib.Json lib.Gql lib.Exec C03.Model C03.ProofsExec C03.ProofsRel C03.ProofsDoc
     C03.ProofsMono C03.ProofsPasses C03.ProofsDedup C03.ProofsInlineExecCong C03.ProofsInlineExecRel
     C03.ProofsMergeFlat C03.ProofsMergeRel C03.ProofsMergeExec.
From Coq Require Import Lia PeanoNat.
Open Scope N_scope.

Section MExec.
  Variable S : schema.
  Variable U : universe.
  Variable frags frags' : list fragment.
  Variable vars : list (bytes * json).
  Notation mrel := (mrel S vars).
  Notation R := (R S vars).
  Notation incl_of := (incl_of vars).
  Notation FL := (FL S vars frags).
  Notation FLH := (FLH S vars frags).
  Notation flat' := (flatten S frags' vars).

  Definition frags_mrel : Prop :=
    forall n,
      match find_frag n frags with
      | Some fr => exists fr', find_frag n frags' = Some fr' /\ fr_type fr' = fr_type fr /\ mrel (fr_sels fr) (fr_sels fr')
      | None => find_frag n frags' = None
      end.
  Hypothesis Hfr : frags_mrel.

  Definition flat_relM (r r' : flat) : Prop :=
    match r with
    | FlatOk fl => exists fl', r' = FlatOk fl' /\ R fl fl'
    | FlatBad e => r' = FlatBad e
    end.

  Lemma flat_seq_relM : forall a a' b b',
      flat_relM a a' -> (forall la, a = FlatOk la -> flat_relM b b') -> flat_relM (flat_seq a b) (flat_seq a' b').
  Proof.
    intros a a' b b' Ha Hb. destruct a as [l1|e].
    - destruct Ha as [l1' [E1 F1]]. subst a'. specialize (Hb l1 eq_refl).
      destruct b as [l2|e].
      + destruct Hb as [l2' [E2 F2]]. subst b'. cbn. eexists; split; [reflexivity|]. apply R_app; assumption.
      + cbn in Hb. subst b'. reflexivity.
    - cbn in Ha. subst a'. reflexivity.
  Qed.

  Lemma gate_absorbed : forall objty c ds x,
      absorbedI vars c ds x -> exists dsx subx, x = SInline c dsx subx /\ inl_gate S vars objty c dsx = inl_gate S vars objty c ds.
  Proof.
    intros objty c ds x H. destruct x as [|cx dsx subx|]; try contradiction. destruct H as [-> Hd].
    exists dsx, subx. split; [reflexivity|]. unfold inl_gate. rewrite Hd. reflexivity.
  Qed.

  Definition HAI (c : option name) (ds : list directive) (tr : list (bool * selection)) : Prop :=
    Forall (fun p => fst p = true -> absorbedI vars c ds (snd p)) tr.
  Definition HDI (c : option name) (pre : list (bool * selection)) : Prop :=
    Forall (fun p => fst p = true \/ disjI S vars c (snd p)) pre.

  Lemma gate_enter_nil : forall objty c ds, inl_gate S vars objty c ds = GEnter -> inl_gate S vars objty c [] = GEnter.
  Proof.
    intros objty c ds H. unfold inl_gate in *. cbn [included negb]. destruct (negb (included vars ds)); [discriminate|exact H].
  Qed.

  Lemma FL_bad_cons : forall objty s l e, FLH objty s (FlatBad e) -> FL objty (s :: l) (FlatBad e).
  Proof.
    intros objty s l e H. change (FlatBad e) with (flat_seq (FlatBad e) (FlatOk [])).
    apply FL_cons_intro; [exact H|discriminate].
  Qed.

  Lemma FL_drop_true_skip : forall objty c ds tr r,
      HAI c ds tr -> inl_gate S vars objty c ds = GSkip -> FL objty (map snd tr) r -> FL objty (sel_false tr) r.
  Proof.
    intros objty c ds. induction tr as [|[b y] tr IH]; intros r Hx Hg H; [exact H|].
    inversion Hx as [|? ? Hx1 Hx2]; subst. cbn [map snd] in H. cbn [fst snd] in Hx1.
    destruct (FL_cons_inv _ _ _ _ _ _ _ H) as [rh [Hh Hc]].
    destruct b.
    - rewrite sel_false_true. destruct (gate_absorbed objty c ds y (Hx1 eq_refl)) as [dsx [subx [-> Eg]]].
      apply FLH_inline in Hh. rewrite Eg, Hg in Hh. subst rh.
      destruct Hc as [[e [E1 _]]|[lh [rl [E1 [Hl E2]]]]]; [discriminate|].
      rewrite flat_seq_nil_l in E2. subst r. apply IH; assumption.
    - rewrite sel_false_false.
      destruct Hc as [[e [E1 E2]]|[lh [rl [E1 [Hl E2]]]]]; subst.
      + apply FL_bad_cons. exact Hh.
      + apply FL_cons_intro; [exact Hh|]. intros _ _. apply IH; assumption.
  Qed.

  Lemma disj_false : forall c b y, (b = true \/ disjI S vars c y) -> b = false -> disjI S vars c y.
  Proof. intros c b y [H|H] Hb; [congruence|exact H]. Qed.

  Lemma FL_enter_pre : forall objty c ds pre q r,
      HAI c ds pre -> HDI c pre -> inl_gate S vars objty c ds = GEnter -> FL objty (map snd pre ++ q) r ->
      exists rx, FL objty (flat_map sel_subs (sel_true pre)) rx /\
                 ((exists e, rx = FlatBad e /\ r = FlatBad e) \/
                  (exists lx rq, rx = FlatOk lx /\ FL objty q rq /\ r = flat_seq rx rq)).
  Proof.
    intros objty c ds. induction pre as [|[b y] pre IH]; intros q r Hx Hd Hg H.
    - exists (FlatOk []). split; [apply FL_nil|]. right. exists [], r. split; [reflexivity|]. split; [exact H|].
      rewrite flat_seq_nil_l. reflexivity.
    - inversion Hx as [|? ? Hx1 Hx2]; subst. inversion Hd as [|? ? Hd1 Hd2]; subst. cbn [fst snd] in Hx1, Hd1.
      cbn [map snd app] in H. destruct (FL_cons_inv _ _ _ _ _ _ _ H) as [rh [Hh Hc]].
      destruct b.
      + rewrite sel_true_true. cbn [flat_map].
        destruct (gate_absorbed objty c ds y (Hx1 eq_refl)) as [dsx [subx [-> Eg]]]. cbn [sel_subs].
        apply FLH_inline in Hh. rewrite Eg, Hg in Hh.
        destruct Hc as [[e [E1 E2]]|[lh [rl [E1 [Hl E2]]]]]; subst.
        * exists (FlatBad e). split; [|left; exists e; split; reflexivity].
          change (FlatBad e) with (flat_seq (FlatBad e) (FlatOk [])). apply FL_app_intro; [exact Hh|discriminate].
        * destruct (IH q rl Hx2 Hd2 Hg Hl) as [rx [Hrx [[e [E1 E2]]|[lx [rq [E1 [Hq E2]]]]]]]; subst.
          -- exists (flat_seq (FlatOk lh) (FlatBad e)). split; [apply FL_app_intro; [exact Hh|intros; exact Hrx]|].
             left. exists e. split; reflexivity.
          -- exists (flat_seq (FlatOk lh) (FlatOk lx)). split; [apply FL_app_intro; [exact Hh|intros; exact Hrx]|].
             right. exists (lh ++ lx), rq. split; [reflexivity|]. split; [exact Hq|]. rewrite flat_seq_assoc. reflexivity.
      + rewrite sel_true_false. pose proof (disj_false c false y Hd1 eq_refl) as Hdy.
        destruct y as [|c2 ds2 sub2|]; try contradiction. cbn in Hdy.
        apply FLH_inline in Hh. rewrite (Hdy objty (gate_enter_nil objty c ds Hg)) in Hh. subst rh.
        destruct Hc as [[e [E1 _]]|[lh [rl [E1 [Hl E2]]]]]; [discriminate|].
        rewrite flat_seq_nil_l in E2. subst r. apply IH; assumption.
  Qed.

  Lemma FL_skip_false : forall objty c ds pre q rq,
      HDI c pre -> inl_gate S vars objty c ds = GEnter -> FL objty q rq -> FL objty (sel_false pre ++ q) rq.
  Proof.
    intros objty c ds. induction pre as [|[b y] pre IH]; intros q rq Hd Hg H; [exact H|].
    inversion Hd as [|? ? Hd1 Hd2]; subst. cbn [fst snd] in Hd1.
    destruct b.
    - rewrite sel_false_true. apply IH; assumption.
    - rewrite sel_false_false. cbn [app]. pose proof (disj_false c false y Hd1 eq_refl) as Hdy.
      destruct y as [|c2 ds2 sub2|]; try contradiction. cbn in Hdy.
      rewrite <- (flat_seq_nil_l rq). apply FL_cons_intro.
      + apply FLH_inline. rewrite (Hdy objty (gate_enter_nil objty c ds Hg)). reflexivity.
      + intros _ _. apply IH; assumption.
  Qed.

  Lemma sel_false_app : forall a b, sel_false (a ++ b) = sel_false a ++ sel_false b.
  Proof. intros. unfold sel_false. rewrite filter_app, map_app. reflexivity. Qed.
  Lemma sel_true_app : forall a b, sel_true (a ++ b) = sel_true a ++ sel_true b.
  Proof. intros. unfold sel_true. rewrite filter_app, map_app. reflexivity. Qed.
  Lemma all_false_sel : forall post, Forall (fun p : bool * selection => fst p = false) post ->
      sel_false post = map snd post /\ sel_true post = [].
  Proof.
    induction post as [|[b y] post IH]; intro H; [split; reflexivity|].
    inversion H as [|? ? Hb Hp]; subst. cbn in Hb. subst b. destruct (IH Hp) as [E1 E2].
    rewrite sel_false_false, sel_true_false, E1, E2. split; reflexivity.
  Qed.

  Lemma flat'_S_not_oof : forall f objty l, not_oof (flat' f objty l) -> exists g, f = Datatypes.S g.
  Proof. intros. eapply not_oof_S; eassumption. Qed.

  Lemma flatten_mrel : forall N l l',
      mrel l l' ->
      forall f', (f' <= N)%nat -> forall objty r,
        FL objty l r -> not_oof (flat' f' objty l') -> flat_relM r (flat' f' objty l').
  Proof.
    induction N as [|N IHN].
    - intros l l' _ f' Hle objty r _ Hn'. exfalso. apply Hn'. replace f' with O by lia. reflexivity.
    - intros l l' H.
      induction H as [|n ds l l' Hl IHl|c ds sub tr sub' l' Htr Hord Hsub IHsub Hl IHl
                      |a n args ds sub tr sub' l' Htr Hord Hsub IHsub Hl IHl]; intros f' Hle objty r HF Hn'.
      + destruct (flat'_S_not_oof _ _ _ Hn') as [g' ->]. rewrite (FL_nil_inv _ _ _ _ _ HF). rewrite flatten_S_nil.
        cbn. eexists; split; [reflexivity|apply R_nil].
      + (* spread *)
        destruct (flat'_S_not_oof _ _ _ Hn') as [g' ->]. rewrite flatten_S_cons in *.
        destruct (FL_cons_inv _ _ _ _ _ _ _ HF) as [rh [[f [Eh Nh]] Hc]].
        pose proof (not_oof_seq_l _ _ Hn') as Hh'.
        assert (HR : flat_relM rh (flat_here S vars frags' g' objty (SSpread n ds))).
        { rewrite <- Eh in Nh. rewrite <- Eh. clear Eh Hc. cbn [flat_here] in *. destruct (negb (included vars ds)); [cbn; eexists; split; [reflexivity|apply R_nil]|].
          pose proof (Hfr n) as Hf. destruct (find_frag n frags) as [fr|].
          - destruct Hf as [fr' [E1 [E2 E3]]]. rewrite E1, E2 in *.
            destruct (type_applies S objty (fr_type fr)); [|cbn; eexists; split; [reflexivity|apply R_nil]].
            apply (IHN _ _ E3); [lia| |exact Hh']. exists f. split; [reflexivity|exact Nh].
          - rewrite Hf. reflexivity. }
        destruct Hc as [[e [E1 E2]]|[lh [rl [E1 [Hrl E2]]]]].
        * rewrite E1 in HR. rewrite E2. cbn [flat_relM] in *. rewrite HR. reflexivity.
        * rewrite E2. apply flat_seq_relM; [exact HR|]. intros la _. apply IHl; [lia|exact Hrl|].
          rewrite E1 in HR. destruct HR as [lh' [Eh' _]]. rewrite Eh' in Hn'. eapply not_oof_seq_r; exact Hn'.
      + (* inline fragment absorbing later fragments *)
        destruct (flat'_S_not_oof _ _ _ Hn') as [g' ->]. rewrite flatten_S_cons in *.
        rewrite flat_here_inline in *.
        destruct (FL_cons_inv _ _ _ _ _ _ _ HF) as [rh [Hh Hc]].
        apply FLH_inline in Hh.
        pose proof Htr as Htr0.
        destruct Hord as [pre [post [Etr [Hpost Hpre]]]]. subst tr.
        apply Forall_app in Htr. destruct Htr as [Hapre _].
        destruct (all_false_sel post Hpost) as [Ep1 Ep2].
        rewrite sel_true_app, Ep2, app_nil_r in IHsub. rewrite sel_false_app, Ep1 in IHl.
        destruct (inl_gate S vars objty c ds) eqn:Eg.
        * (* entered *)
          pose proof (not_oof_seq_l _ _ Hn') as Hh'.
          destruct Hc as [[e [E1 E2]]|[lh [rl [E1 [Hrl E2]]]]]; subst.
          -- assert (HF2 : FL objty (sub ++ flat_map sel_subs (sel_true pre)) (FlatBad e)).
             { change (FlatBad e) with (flat_seq (FlatBad e) (FlatOk [])). apply FL_app_intro; [exact Hh|discriminate]. }
             pose proof (IHsub g' ltac:(lia) objty _ HF2 Hh') as HR. cbn in HR. rewrite HR. reflexivity.
          -- rewrite map_app in Hrl.
             destruct (FL_enter_pre objty c ds pre _ _ Hapre Hpre Eg Hrl) as [rx [Hx' Hcx]].
             assert (HF2 : FL objty (sub ++ flat_map sel_subs (sel_true pre)) (flat_seq (FlatOk lh) rx)).
             { apply FL_app_intro; [exact Hh|intros; exact Hx']. }
             pose proof (IHsub g' ltac:(lia) objty _ HF2 Hh') as HR.
             destruct Hcx as [[e [E1 E2]]|[lx [rr [E1 [Hrr E2]]]]]; subst.
             ++ cbn in HR. rewrite HR. reflexivity.
             ++ rewrite <- flat_seq_assoc. apply flat_seq_relM; [exact HR|].
                intros la _. apply IHl; [lia|eapply FL_skip_false; eassumption|].
                cbn in HR. destruct HR as [fs' [Efs _]]. rewrite Efs in Hn'. eapply not_oof_seq_r; exact Hn'.
        * (* skipped *)
          subst rh. destruct Hc as [[e [E1 _]]|[lh [rl [E1 [Hrl E2]]]]]; [discriminate|].
          rewrite flat_seq_nil_l in E2. subst r. rewrite flat_seq_nil_l in *.
          apply IHl; [lia| |exact Hn'].
          pose proof (FL_drop_true_skip objty c ds _ _ Htr0 Eg Hrl) as Hd. rewrite sel_false_app, Ep1 in Hd. exact Hd.
        * (* unknown condition *)
          destruct Hh as [-> Hne]. destruct Hc as [[e0 [E1 E2]]|[lh [rl [E1 _]]]]; [|discriminate].
          inversion E1; subst. reflexivity.
      + (* field absorbing later fields *)
        destruct (flat'_S_not_oof _ _ _ Hn') as [g' ->]. rewrite flatten_S_cons in *.
        destruct (FL_cons_inv _ _ _ _ _ _ _ HF) as [rh [Hh Hc]].
        apply (FLH_field S vars frags objty (SField a n args ds sub) rh eq_refl) in Hh. subst rh.
        destruct Hc as [[e [E1 _]]|[lh [rl [E1 [Hrl E2]]]]]; [discriminate|]. inversion E1; subst lh. subst r.
        destruct Hord as [pre [post [Etr [Hpost Hpre]]]]. subst tr.
        apply Forall_app in Htr. destruct Htr as [Hapre _].
        destruct (pre_fields vars a n ds pre Hapre Hpre) as [Hf1 Hf2].
        destruct (all_false_sel post Hpost) as [Ep1 Ep2].
        rewrite sel_true_app, Ep2, app_nil_r in Hsub. rewrite sel_false_app, Ep1 in IHl.
        rewrite map_app in Hrl.
        destruct (proj1 (FL_fields_app S vars frags objty _ _ _ Hf1) Hrl) as [rq [Hq Erl]]. subst rl.
        assert (HF2 : FL objty (sel_false pre ++ map snd post) (flat_seq (FlatOk (flat_map incl_of (sel_false pre))) rq)).
        { apply (proj2 (FL_fields_app S vars frags objty _ _ _ Hf2)). exists rq. split; [exact Hq|reflexivity]. }
        cbn [flat_here] in *.
        assert (Hn2 : not_oof (flat' g' objty l')) by (destruct (included vars ds); eapply not_oof_seq_r; exact Hn').
        pose proof (IHl g' ltac:(lia) objty _ HF2 Hn2) as HR.
        destruct rq as [P|e].
        * cbn in HR. destruct HR as [fl2' [E2 HR]]. rewrite E2. unfold ProofsMergeFlat.incl_of at 1. cbn [sel_dirs].
          destruct (included vars ds) eqn:Ei; cbn.
          -- eexists; split; [reflexivity|]. apply R_absorb; assumption.
          -- eexists; split; [reflexivity|]. rewrite (absorbed_excluded vars a n ds pre Hapre Ei). exact HR.
        * cbn in HR. rewrite HR. cbn. destruct (included vars ds); reflexivity.
  Qed.

  Theorem mrel_exec : forall f f' l l' objty,
      mrel l l' ->
      forall ov p, eq2 (exec_sels S U frags vars Mono f objty ov l p) (exec_sels S U frags' vars Mono f' objty ov l' p).
  Proof.
    induction f as [f IH] using (well_founded_induction Wf_nat.lt_wf).
    intros f' l l' objty H ov p.
    destruct f as [|f]; [intros Hn _; exfalso; apply Hn; cbn; left; reflexivity|].
    destruct f' as [|f']; [intros _ Hn; exfalso; apply Hn; cbn; left; reflexivity|].
    rewrite !exec_sels_S.
    destruct (flatten S frags vars (Datatypes.S f) objty l) as [fl|e] eqn:E1.
    - assert (HF : FL objty l (FlatOk fl)) by (exists (Datatypes.S f); split; [exact E1|discriminate]).
      destruct (flat' (Datatypes.S f') objty l') as [fl'|e'] eqn:E2.
      + pose proof (flatten_mrel (Datatypes.S f') l l' H (Datatypes.S f') (le_n _) objty _ HF) as HR.
        rewrite E2 in HR. destruct (HR ltac:(discriminate)) as [fl2 [E HRR]]. inversion E; subst fl2.
        rewrite (group_fuel (Datatypes.S (length fl)) (Datatypes.S (length fl + length fl')) fl) by lia.
        rewrite (group_fuel (Datatypes.S (length fl')) (Datatypes.S (length fl + length fl')) fl') by lia.
        apply exec_groups_cong2.
        pose proof (group_R S vars fl fl' HRR (Datatypes.S (length fl + length fl')) []) as HG.
        rewrite !filter_notin_nil in HG.
        induction HG as [|g g' gs gs' Hg HG IHG]; constructor; [|exact IHG].
        destruct Hg as [Hk [Hs Hl]]. split; [exact Hk|]. intro p'. rewrite <- Hk.
        eapply (exec_field_cong2 S U frags frags' vars (fun _ => True)); [exact Hs| |intros; exact I].
        intros f0 Hlt f0' T _ ov' p''. apply IH; [lia|exact Hl].
      + intros _ Hn'.
        assert (Hne : e' <> XOutOfFuel) by (intro; subst; apply Hn'; cbn; left; reflexivity).
        pose proof (flatten_mrel (Datatypes.S f') l l' H (Datatypes.S f') (le_n _) objty _ HF) as HR.
        rewrite E2 in HR. destruct HR as [fl2 [E _]]; [intro X; inversion X; contradiction|discriminate].
    - intros Hn.
      assert (Hne : e <> XOutOfFuel) by (intro; subst; apply Hn; cbn; left; reflexivity).
      assert (HF : FL objty l (FlatBad e)).
      { exists (Datatypes.S f). split; [exact E1|]. intro X. inversion X. contradiction. }
      destruct (flat' (Datatypes.S f') objty l') as [fl'|e'] eqn:E2.
      + intros _. pose proof (flatten_mrel (Datatypes.S f') l l' H (Datatypes.S f') (le_n _) objty _ HF) as HR.
        rewrite E2 in HR. cbn in HR. discriminate HR. discriminate.
      + intros Hn'.
        assert (Hne' : e' <> XOutOfFuel) by (intro; subst; apply Hn'; cbn; left; reflexivity).
        pose proof (flatten_mrel (Datatypes.S f') l l' H (Datatypes.S f') (le_n _) objty _ HF) as HR.
        rewrite E2 in HR. cbn in HR. assert (HR' : FlatBad e' = FlatBad e) by (apply HR; intro X; inversion X; contradiction).
        inversion HR'. reflexivity.
  Qed.
End MExec.
