(* C03 proofs, part 3: from related selection lists to whole requests.  A pass that rewrites the
   selection sets of the definitions of a document (keeping operation kinds, names, variable
   definitions and fragment names/types) into [lrel]-related ones does not change [execute],
   unless the original execution runs out of fuel. *)
From Gv Require Import lib.Bytes lib.Json lib.Gql lib.Exec C03.ProofsExec C03.ProofsRel.
From Coq Require Import Lia PeanoNat.
Open Scope N_scope.

Definition err_is_oof (e : xerr) : bool := match e with XOutOfFuel => true | _ => false end.
Definition oof_b (l : list xerr) : bool := existsb err_is_oof l.
Lemma oof_b_false : forall l, oof_b l = false -> ~ has_oof l.
Proof.
  unfold has_oof, oof_b. intros l H Hin.
  assert (existsb err_is_oof l = true) by (apply existsb_exists; exists XOutOfFuel; split; [exact Hin|reflexivity]).
  congruence.
Qed.

Definition rw_op (fo : operation -> list selection) (o : operation) : operation :=
  {| op_kind := op_kind o; op_name := op_name o; op_vars := op_vars o; op_dirs := op_dirs o; op_sels := fo o |}.
Definition rw_frag (ff : fragment -> list selection) (f : fragment) : fragment :=
  {| fr_name := fr_name f; fr_type := fr_type f; fr_dirs := fr_dirs f; fr_sels := ff f |}.
Definition doc_rewrite (fo : operation -> list selection) (ff : fragment -> list selection) (d : document) : document :=
  map (fun def => match def with DOp o => DOp (rw_op fo o) | DFrag f => DFrag (rw_frag ff f) end) d.

Lemma doc_frags_rewrite : forall fo ff d, doc_frags (doc_rewrite fo ff d) = map (rw_frag ff) (doc_frags d).
Proof. unfold doc_rewrite; induction d as [|[o|f] d IH]; cbn; [reflexivity|exact IH|rewrite IH; reflexivity]. Qed.
Lemma doc_ops_rewrite : forall fo ff d, doc_ops (doc_rewrite fo ff d) = map (rw_op fo) (doc_ops d).
Proof. unfold doc_rewrite; induction d as [|[o|f] d IH]; cbn; [reflexivity|rewrite IH; reflexivity|exact IH]. Qed.

Lemma find_map_op : forall fo (p : operation -> bool) l,
    (forall o, p (rw_op fo o) = p o) ->
    find p (map (rw_op fo) l) = option_map (rw_op fo) (find p l).
Proof.
  intros fo p l Hp. induction l as [|o l IH]; cbn; [reflexivity|].
  rewrite Hp. destruct (p o); [reflexivity|exact IH].
Qed.

Lemma pick_op_rewrite : forall fo ff d opn,
    pick_op (doc_rewrite fo ff d) opn = option_map (rw_op fo) (pick_op d opn).
Proof.
  intros. unfold pick_op. rewrite doc_ops_rewrite.
  destruct opn as [n|].
  - apply find_map_op. intros o. reflexivity.
  - destruct (doc_ops d) as [|o [|o2 r]]; reflexivity.
Qed.

Lemma find_frag_map : forall ff n l,
    find_frag n (map (rw_frag ff) l) = option_map (rw_frag ff) (find_frag n l).
Proof.
  intros ff n l. induction l as [|f l IH]; cbn; [reflexivity|].
  destruct (bytes_eqb n (fr_name f)); [reflexivity|exact IH].
Qed.

Definition resp_le (o n : response) : Prop := oof_b (rs_errs o) = false -> n = o.

(* the rewritten selection lists are related, for the variable values of the request at hand *)
Definition rewrite_ok (S : schema) (fo : operation -> list selection) (ff : fragment -> list selection)
           (d : document) (vars : list (bytes * json)) : Prop :=
  (forall o, In o (doc_ops d) -> lrel S (doc_frags d) vars (op_sels o) (fo o)) /\
  (forall f, In f (doc_frags d) -> lrel S (doc_frags d) vars (fr_sels f) (ff f)).

Lemma find_frag_In : forall n l fr, find_frag n l = Some fr -> In fr l.
Proof.
  induction l as [|f l IH]; cbn; intros fr H; [discriminate|].
  destruct (bytes_eqb n (fr_name f)); [inversion H; auto|right; auto].
Qed.
Lemma find_In : forall (A : Type) (p : A -> bool) l x, find p l = Some x -> In x l.
Proof.
  induction l as [|y l IH]; cbn; intros x H; [discriminate|].
  destruct (p y); [inversion H; auto|right; auto].
Qed.
Lemma pick_op_In : forall d opn o, pick_op d opn = Some o -> In o (doc_ops d).
Proof.
  intros d opn o H. unfold pick_op in H. destruct opn as [n|].
  - eapply find_In; exact H.
  - destruct (doc_ops d) as [|o1 [|o2 r]]; inversion H; subst; cbn; auto.
Qed.

Theorem execute_rewrite : forall S U fo ff d fuel opn v,
    (forall o, pick_op d opn = Some o ->
               rewrite_ok S fo ff d (effective_vars o (match v with JObj m => m | _ => [] end))) ->
    resp_le (execute fuel S U Mono d opn v) (execute fuel S U Mono (doc_rewrite fo ff d) opn v).
Proof.
  intros S U fo ff d fuel opn v Hok. unfold resp_le, execute.
  rewrite pick_op_rewrite.
  destruct (pick_op d opn) as [o|] eqn:Ep; cbn [option_map]; [|reflexivity].
  change (op_kind (rw_op fo o)) with (op_kind o).
  destruct (root_type S (op_kind o)) as [rt|]; [|reflexivity].
  change (effective_vars (rw_op fo o)) with (effective_vars o).
  destruct (find_entity U rt []) as [root|]; [|reflexivity].
  specialize (Hok o eq_refl). destruct Hok as [Hops Hfrs].
  set (vars := effective_vars o (match v with JObj m => m | _ => [] end)) in *.
  rewrite doc_frags_rewrite. change (op_sels (rw_op fo o)) with (fo o).
  assert (HFR : frags_rel S (doc_frags d) (map (rw_frag ff) (doc_frags d)) vars).
  { intro n. rewrite find_frag_map. destruct (find_frag n (doc_frags d)) as [fr|] eqn:Ef; cbn [option_map]; [|reflexivity].
    exists (rw_frag ff fr). split; [reflexivity|]. split; [reflexivity|]. cbn. apply Hfrs. eapply find_frag_In; exact Ef. }
  pose proof (lrel_exec S U (doc_frags d) (map (rw_frag ff) (doc_frags d)) vars HFR fuel (op_sels o) (fo o)
                        (Hops o (pick_op_In _ _ _ Ep)) rt {| ov_ent := root; ov_repr := None |} []) as HL.
  destruct (exec_sels S U (doc_frags d) vars Mono fuel rt {| ov_ent := root; ov_repr := None |} (op_sels o) []) as [r errs].
  destruct HL as [E|E].
  - rewrite E. reflexivity.
  - cbn in E. intro Hn. cbn in Hn. exfalso. exact (oof_b_false _ Hn E).
Qed.

(* the same with the semantic hypothesis spelled out (used by passes with their own relation) *)
Theorem execute_rewrite_sem : forall S U fo ff d fuel opn v,
    (forall o, pick_op d opn = Some o ->
               forall T ov p,
                 le_res (exec_sels S U (doc_frags d) (effective_vars o (match v with JObj m => m | _ => [] end)) Mono fuel T ov (op_sels o) p)
                        (exec_sels S U (map (rw_frag ff) (doc_frags d)) (effective_vars o (match v with JObj m => m | _ => [] end)) Mono fuel T ov (fo o) p)) ->
    resp_le (execute fuel S U Mono d opn v) (execute fuel S U Mono (doc_rewrite fo ff d) opn v).
Proof.
  intros S U fo ff d fuel opn v Hok. unfold resp_le, execute.
  rewrite pick_op_rewrite.
  destruct (pick_op d opn) as [o|] eqn:Ep; cbn [option_map]; [|reflexivity].
  change (op_kind (rw_op fo o)) with (op_kind o).
  destruct (root_type S (op_kind o)) as [rt|]; [|reflexivity].
  change (effective_vars (rw_op fo o)) with (effective_vars o).
  destruct (find_entity U rt []) as [root|]; [|reflexivity].
  rewrite doc_frags_rewrite. change (op_sels (rw_op fo o)) with (fo o).
  pose proof (Hok o eq_refl rt {| ov_ent := root; ov_repr := None |} []) as HL.
  destruct (exec_sels S U (doc_frags d) (effective_vars o (match v with JObj m => m | _ => [] end)) Mono fuel rt
                      {| ov_ent := root; ov_repr := None |} (op_sels o) []) as [r errs].
  destruct HL as [E|E].
  - rewrite E. reflexivity.
  - cbn in E. intro Hn. cbn in Hn. exfalso. exact (oof_b_false _ Hn E).
Qed.
