(* C03 proofs, part 4: the passes whose output is [lrel]-related to their input --
   remove_self_aliasing, fragment_spread_inlining, directive_include_skip -- preserve [execute];
   idempotence of the first two (and of the third under its hypothesis). *)
From Gv Require Import lib.Bytes lib.Json lib.Gql lib.Exec C03.Model C03.Spec C03.ProofsExec C03.ProofsRel C03.ProofsDoc.
From Coq Require Import Lia PeanoNat.
Open Scope N_scope.

Lemma bytes_eqb_eq : forall a b, bytes_eqb a b = true -> a = b.
Proof.
  induction a as [|x a IH]; destruct b as [|y b]; cbn; intro H; try discriminate; [reflexivity|].
  apply andb_prop in H. destruct H as [H1 H2]. apply N.eqb_eq in H1. subst. f_equal. auto.
Qed.
Lemma bytes_eqb_refl : forall a, bytes_eqb a a = true.
Proof. induction a; cbn; [reflexivity|]. rewrite N.eqb_refl. exact IHa. Qed.

(* nested induction on selections *)
Section SelInd.
  Variable P : selection -> Prop.
  Hypothesis Hf : forall a n args ds sub, Forall P sub -> P (SField a n args ds sub).
  Hypothesis Hi : forall c ds sub, Forall P sub -> P (SInline c ds sub).
  Hypothesis Hs : forall n ds, P (SSpread n ds).
  Fixpoint sel_ind' (s : selection) : P s :=
    match s with
    | SField a n args ds sub =>
      Hf a n args ds sub ((fix go (l : list selection) : Forall P l :=
                            match l with [] => Forall_nil _ | x :: r => Forall_cons _ (sel_ind' x) (go r) end) sub)
    | SInline c ds sub =>
      Hi c ds sub ((fix go (l : list selection) : Forall P l :=
                      match l with [] => Forall_nil _ | x :: r => Forall_cons _ (sel_ind' x) (go r) end) sub)
    | SSpread n ds => Hs n ds
    end.
End SelInd.

Section Passes.
  Variable S : schema.
  Variable frags : list fragment.
  Variable vars : list (bytes * json).
  Notation srel := (srel S frags vars).
  Notation lrel := (lrel S frags vars).

  Lemma lrel_map : forall (g : selection -> selection) l,
      Forall (fun s => srel s (g s)) l -> lrel l (map g l).
  Proof. induction 1; cbn; [apply lr_nil|apply lr_cons; assumption]. Qed.

  Lemma srel_refl : forall s, srel s s.
  Proof.
    induction s using sel_ind'.
    - apply sr_field; [reflexivity|reflexivity|]. rewrite <- (map_id sub) at 2. apply lrel_map. exact H.
    - apply sr_inline; [reflexivity|]. rewrite <- (map_id sub) at 2. apply lrel_map. exact H.
    - apply sr_spread. reflexivity.
  Qed.
  Lemma lrel_refl : forall l, lrel l l.
  Proof. intro l. rewrite <- (map_id l) at 2. apply lrel_map. apply Forall_forall. intros; apply srel_refl. Qed.

  (* ---- remove_self_aliasing ---- *)
  Lemma sa_srel : forall s, srel s (sa_sel s).
  Proof.
    induction s using sel_ind'; cbn [sa_sel].
    - apply sr_field; [|reflexivity|apply lrel_map; exact H].
      destruct a as [x|]; [|reflexivity].
      destruct (bytes_eqb n x) eqn:E; [|reflexivity].
      apply bytes_eqb_eq in E. subst. reflexivity.
    - apply sr_inline; [reflexivity|apply lrel_map; exact H].
    - apply sr_spread. reflexivity.
  Qed.

  (* ---- fragment_spread_inlining ---- *)
  Lemma spread_replaceable_kind : forall P F, spread_replaceable S P F = true -> kind_of S F <> None.
  Proof.
    unfold spread_replaceable, type_kind_of, kind_of. intros P F H.
    destruct (builtin_scalar F); [discriminate|].
    destruct (find_type F (s_types S)); [discriminate|discriminate].
  Qed.

  Lemma fi_srel : forall fuel T s, srel s (fi_sel S frags fuel T s).
  Proof.
    induction fuel as [|f IH]; intros T s; [apply srel_refl|].
    destruct s as [a n args ds sub|c ds sub|fn ds]; cbn [fi_sel].
    - apply sr_field; [reflexivity|reflexivity|]. apply lrel_map. apply Forall_forall. intros; apply IH.
    - apply sr_inline; [reflexivity|]. apply lrel_map. apply Forall_forall. intros; apply IH.
    - destruct T as [P|]; [|apply srel_refl].
      destruct (find_frag fn frags) as [fr|] eqn:Ef; [|apply srel_refl].
      destruct (spread_replaceable S P (fr_type fr)) eqn:Er; [|apply srel_refl].
      apply sr_spread_inline; [exact Ef|eapply spread_replaceable_kind; exact Er|reflexivity|].
      apply lrel_map. apply Forall_forall. intros; apply IH.
  Qed.

  (* ---- directive_include_skip ---- *)
  Variable jvars : list (bytes * json).   (* the request's variables object, as the Go pass reads it *)
  Variable vdefs : list vardef.
  Variable al : bool.                     (* the directive walk before (true) / after (false) its repair *)

  (* the pass' verdict on a directive agrees with the executor's evaluation of that directive *)
  Definition dir_ok (d : directive) : bool :=
    match dir_verdict jvars vdefs d with
    | DRemoveNode => negb (included vars [d])
    | DDropDirective => included vars [d]
    | DKeep => true
    end.
  Lemma included_cons : forall d r, included vars (d :: r) = included vars [d] && included vars r.
  Proof. intros. cbn [included]. rewrite andb_true_r. reflexivity. Qed.

  (* ---- the directive walk (with its skipped positions) only ever drops directives whose verdict is
          "drop", and reports "remove" only on a directive of the node ---- *)
  Inductive dsub : list directive -> list directive -> Prop :=
  | dsub_nil : dsub [] []
  | dsub_keep : forall d l r, dsub l r -> dsub (d :: l) (d :: r)
  | dsub_drop : forall d l r, dir_verdict jvars vdefs d = DDropDirective -> dsub l r -> dsub (d :: l) r.

  Lemma dsub_refl : forall l, dsub l l.
  Proof. induction l; constructor; assumption. Qed.
  Lemma dsub_del : forall l r1 d r2,
      dsub l (r1 ++ d :: r2) -> dir_verdict jvars vdefs d = DDropDirective -> dsub l (r1 ++ r2).
  Proof.
    intros l r1 d r2 H. remember (r1 ++ d :: r2) as r eqn:E. revert r1 E.
    induction H as [|x l r H IH|x l r Hx H IH]; intros r1 E Hd.
    - destruct r1; discriminate.
    - destruct r1 as [|y r1]; cbn in E; inversion E; subst.
      + apply dsub_drop; assumption.
      + cbn. apply dsub_keep. apply IH; [reflexivity|assumption].
    - apply dsub_drop; [assumption|]. apply IH; assumption.
  Qed.
  Lemma dsub_included : forall l r, dsub l r -> forallb dir_ok l = true -> included vars l = included vars r.
  Proof.
    induction 1 as [|d l r H IH|d l r Hd H IH]; intro Hok; [reflexivity| |];
      cbn [forallb] in Hok; apply andb_prop in Hok; destruct Hok as [H1 H2].
    - rewrite (included_cons d l), (included_cons d r), (IH H2). reflexivity.
    - rewrite (included_cons d l), (IH H2). unfold dir_ok in H1. rewrite Hd in H1. rewrite H1. reflexivity.
  Qed.

  Lemma index_of_split : forall id l i,
      index_of id l = Some i ->
      exists d, l = firstn i l ++ (id, d) :: skipn (Datatypes.S i) l /\ (i < length l)%nat.
  Proof.
    intros id. induction l as [|[j d] r IH]; intros i E; cbn [index_of] in E; [discriminate|].
    destruct (Nat.eqb id j) eqn:Ej.
    - inversion E; subst. apply Nat.eqb_eq in Ej. subst. exists d. cbn. split; [reflexivity|lia].
    - destruct (index_of id r) as [i'|]; [|discriminate]. inversion E; subst.
      destruct (IH i' eq_refl) as [d' [Hs Hl]]. exists d'. cbn. split; [f_equal; exact Hs|lia].
  Qed.

  Lemma pair_unique : forall (orig : list (nat * directive)) i d d',
      NoDup (map fst orig) -> In (i, d) orig -> In (i, d') orig -> d = d'.
  Proof.
    induction orig as [|[j x] orig IH]; intros i d d' Hn H1 H2; [destruct H1|].
    cbn in Hn. inversion Hn as [|? ? Hnotin Hn']; subst.
    destruct H1 as [H1|H1], H2 as [H2|H2].
    - inversion H1; inversion H2; subst. reflexivity.
    - inversion H1; subst. exfalso. apply Hnotin. apply in_map_iff. exists (i, d'). auto.
    - inversion H2; subst. exfalso. apply Hnotin. apply in_map_iff. exists (i, d). auto.
    - eapply IH; eassumption.
  Qed.

  Lemma firstn_del_at : forall (A : Type) i m (b : list A),
      (i < m)%nat -> (m <= length b)%nat ->
      firstn (pred m) (del_at i m b) = firstn i (firstn m b) ++ skipn (Datatypes.S i) (firstn m b).
  Proof.
    intros A i m b Hi Hm. unfold del_at.
    assert (E : firstn i b = firstn i (firstn m b)) by (rewrite firstn_firstn; f_equal; lia).
    rewrite E, app_assoc.
    assert (L : length (firstn i (firstn m b) ++ skipn (Datatypes.S i) (firstn m b)) = pred m).
    { rewrite app_length, skipn_length, !firstn_length. lia. }
    rewrite firstn_app, L, Nat.sub_diag, firstn_O, app_nil_r. rewrite <- L at 1. apply firstn_all.
  Qed.
  Lemma del_at_incl : forall (A : Type) i m (b : list A) x, In x (del_at i m b) -> In x b.
  Proof.
    intros A i m b x H. unfold del_at in H. apply in_app_or in H. destruct H as [H|H].
    - rewrite <- (firstn_skipn i b). apply in_or_app. left. exact H.
    - apply in_app_or in H. destruct H as [H|H].
      + rewrite <- (firstn_skipn m b). apply in_or_app. left.
        rewrite <- (firstn_skipn (Datatypes.S i) (firstn m b)). apply in_or_app. right. exact H.
      + rewrite <- (firstn_skipn (pred m) b). apply in_or_app. right. exact H.
  Qed.
  Lemma del_at_length : forall (A : Type) i m (b : list A),
      (i < m)%nat -> (m <= length b)%nat -> length (del_at i m b) = length b.
  Proof.
    intros A i m b Hi Hm. unfold del_at. rewrite !app_length, !skipn_length, !firstn_length. lia.
  Qed.

  Lemma walk_dirs_spec : forall (orig : list (nat * directive)) ds,
      NoDup (map fst orig) ->
      forall todo k m b,
        (forall p, In p b -> In p orig) -> (m <= length b)%nat ->
        dsub ds (map snd (firstn m b)) ->
        match walk_dirs jvars vdefs todo k m b with
        | Some r => dsub ds r
        | None => exists d, In d (map snd orig) /\ dir_verdict jvars vdefs d = DRemoveNode
        end.
  Proof.
    intros orig ds Hnd. induction todo as [|t IH]; intros k m b Hin Hm Hs; cbn [walk_dirs]; [exact Hs|].
    destruct (nth_error b k) as [[id d]|] eqn:En; [|exact Hs].
    assert (Hd : In (id, d) orig) by (apply Hin; eapply nth_error_In; exact En).
    destruct (dir_verdict jvars vdefs d) eqn:Ev.
    - exists d. split; [|exact Ev]. apply in_map_iff. exists (id, d). auto.
    - destruct (index_of id (firstn m b)) as [i|] eqn:Ei; [|apply IH; assumption].
      destruct (index_of_split _ _ _ Ei) as [d' [Hsplit Hlen]].
      assert (Hm' : (i < m)%nat) by (rewrite firstn_length in Hlen; lia).
      assert (Hd' : In (id, d') orig).
      { apply Hin. rewrite <- (firstn_skipn m b). apply in_or_app. left. rewrite Hsplit. apply in_or_app. right. left. reflexivity. }
      assert (d' = d) by (eapply pair_unique; eassumption). subst d'.
      apply IH.
      + intros p Hp. apply Hin. eapply del_at_incl. exact Hp.
      + rewrite del_at_length by assumption. lia.
      + rewrite firstn_del_at by assumption. rewrite map_app.
        rewrite Hsplit, map_app in Hs. cbn [map snd] in Hs.
        eapply dsub_del; [exact Hs|exact Ev].
    - apply IH; assumption.
  Qed.

  Lemma combine_seq_fst : forall (A : Type) (l : list A) s, map fst (combine (seq s (length l)) l) = seq s (length l).
  Proof. induction l as [|x l IH]; intros s; cbn; [reflexivity|]. rewrite IH. reflexivity. Qed.
  Lemma combine_seq_snd : forall (A : Type) (l : list A) s, map snd (combine (seq s (length l)) l) = l.
  Proof. induction l as [|x l IH]; intros s; cbn; [reflexivity|]. rewrite IH. reflexivity. Qed.

  Lemma eval_dirs_aliased_spec : forall ds,
      match eval_dirs_aliased jvars vdefs ds with
      | Some r => dsub ds r
      | None => exists d, In d ds /\ dir_verdict jvars vdefs d = DRemoveNode
      end.
  Proof.
    intro ds. unfold eval_dirs_aliased.
    pose proof (walk_dirs_spec (combine (seq O (length ds)) ds) ds) as H.
    rewrite combine_seq_fst, combine_seq_snd in H.
    specialize (H (seq_NoDup _ _) (length ds) O (length ds) (combine (seq O (length ds)) ds) (fun p Hp => Hp)).
    rewrite combine_length, seq_length, Nat.min_id in H. specialize (H (le_n _)).
    rewrite firstn_all2 in H by (rewrite combine_length, seq_length, Nat.min_id; lia).
    rewrite combine_seq_snd in H. exact (H (dsub_refl ds)).
  Qed.
  (* the repaired walk: exactly the directives with verdict "drop" are dropped *)
  Lemma eval_dirs_copy_spec : forall ds,
      match eval_dirs_copy jvars vdefs ds with
      | Some r => dsub ds r
      | None => exists d, In d ds /\ dir_verdict jvars vdefs d = DRemoveNode
      end.
  Proof.
    induction ds as [|d r IH]; cbn [eval_dirs_copy]; [apply dsub_nil|].
    destruct (dir_verdict jvars vdefs d) eqn:Ev.
    - exists d. split; [left; reflexivity|exact Ev].
    - destruct (eval_dirs_copy jvars vdefs r) as [r'|].
      + apply dsub_drop; assumption.
      + destruct IH as [x [Hx Hv]]. exists x. split; [right; exact Hx|exact Hv].
    - destruct (eval_dirs_copy jvars vdefs r) as [r'|].
      + apply dsub_keep. exact IH.
      + destruct IH as [x [Hx Hv]]. exists x. split; [right; exact Hx|exact Hv].
  Qed.
  Lemma eval_dirs_spec : forall ds,
      match eval_dirs jvars vdefs al ds with
      | Some r => dsub ds r
      | None => exists d, In d ds /\ dir_verdict jvars vdefs d = DRemoveNode
      end.
  Proof. intro ds. unfold eval_dirs. destruct al; [apply eval_dirs_aliased_spec|apply eval_dirs_copy_spec]. Qed.

  Lemma included_false_in : forall ds d, In d ds -> included vars [d] = false -> included vars ds = false.
  Proof.
    induction ds as [|x r IH]; intros d Hin Hf; [destruct Hin|].
    rewrite (included_cons x r). destruct Hin as [E|Hin]; [subst; rewrite Hf; reflexivity|].
    rewrite (IH d Hin Hf). apply andb_false_r.
  Qed.

  Lemma eval_dirs_included : forall ds,
      forallb dir_ok ds = true ->
      match eval_dirs jvars vdefs al ds with
      | Some ds' => included vars ds = included vars ds'
      | None => included vars ds = false
      end.
  Proof.
    intros ds Hok. pose proof (eval_dirs_spec ds) as H.
    destruct (eval_dirs jvars vdefs al ds) as [r|].
    - apply dsub_included; assumption.
    - destruct H as [d [Hin Hv]]. apply (included_false_in ds d Hin).
      rewrite forallb_forall in Hok. specialize (Hok d Hin). unfold dir_ok in Hok. rewrite Hv in Hok.
      apply negb_true_iff in Hok. exact Hok.
  Qed.

  (* ---- what a walk (with its restarts) can do to a selection set ---- *)
  Definition has_remove (ds : list directive) : Prop :=
    exists d, In d ds /\ dir_verdict jvars vdefs d = DRemoveNode.

  Inductive orel : selection -> selection -> Prop :=
  | or_field : forall a n args ds ds' sub sub',
      dsub ds ds' -> olist sub sub' -> orel (SField a n args ds sub) (SField a n args ds' sub')
  | or_inline : forall c ds ds' sub sub',
      dsub ds ds' -> olist sub sub' -> orel (SInline c ds sub) (SInline c ds' sub')
  | or_spread : forall n ds ds', dsub ds ds' -> orel (SSpread n ds) (SSpread n ds')
  with olist : list selection -> list selection -> Prop :=
  | ol_nil : olist [] []
  | ol_keep : forall s s' l l', orel s s' -> olist l l' -> olist (s :: l) (s' :: l')
  | ol_drop : forall s l l', has_remove (sel_dirs s) -> olist l l' -> olist (s :: l) l'
  | ol_ph : forall s l, olist (s :: l) [] -> olist (s :: l) [placeholder].

  Scheme orel_min := Minimality for orel Sort Prop
    with olist_min := Minimality for olist Sort Prop.
  Combined Scheme orel_olist_min from orel_min, olist_min.

  Lemma dsub_trans : forall a b, dsub a b -> forall c, dsub b c -> dsub a c.
  Proof.
    induction 1 as [|d l r H IH|d l r Hd H IH]; intros c Hc.
    - exact Hc.
    - inversion Hc; subst; [apply dsub_keep; auto|apply dsub_drop; auto].
    - apply dsub_drop; auto.
  Qed.
  Lemma dsub_in : forall a b, dsub a b -> forall d, In d b -> In d a.
  Proof.
    induction 1 as [|x l r H IH|x l r Hd H IH]; intros d Hin; [exact Hin| |right; auto].
    destruct Hin as [E|Hin]; [left; exact E|right; auto].
  Qed.
  Lemma has_remove_dsub : forall a b, dsub a b -> has_remove b -> has_remove a.
  Proof. intros a b H [d [Hin Hv]]. exists d. split; [eapply dsub_in; eassumption|exact Hv]. Qed.
  Lemma orel_dirs : forall s s', orel s s' -> dsub (sel_dirs s) (sel_dirs s').
  Proof. intros s s' H; destruct H; cbn; assumption. Qed.

  Lemma orel_refl : forall s, orel s s.
  Proof.
    induction s using sel_ind'.
    - apply or_field; [apply dsub_refl|]. induction H; [apply ol_nil|apply ol_keep; assumption].
    - apply or_inline; [apply dsub_refl|]. induction H; [apply ol_nil|apply ol_keep; assumption].
    - apply or_spread. apply dsub_refl.
  Qed.
  Lemma olist_refl : forall l, olist l l.
  Proof. induction l; [apply ol_nil|apply ol_keep; [apply orel_refl|assumption]]. Qed.

  Lemma olist_nil_inv : forall l, olist [] l -> l = [].
  Proof. intros l H. inversion H. reflexivity. Qed.
  Lemma dsub_nil_inv : forall r, dsub [] r -> r = [].
  Proof. intros r H. inversion H. reflexivity. Qed.
  Lemma orel_placeholder : forall x, orel placeholder x -> x = placeholder.
  Proof.
    intros x H. unfold placeholder in *. inversion H; subst.
    match goal with Hd : dsub [] _ |- _ => apply dsub_nil_inv in Hd; subst end.
    match goal with Ho : olist [] _ |- _ => apply olist_nil_inv in Ho; subst end. reflexivity.
  Qed.

  Lemma orel_olist_trans :
    (forall s s', orel s s' -> forall s'', orel s' s'' -> orel s s'') /\
    (forall l l', olist l l' -> forall l'', olist l' l'' -> olist l l'').
  Proof.
    apply orel_olist_min.
    - intros a n args ds ds' sub sub' Hd Hs IHs s'' H2. inversion H2; subst.
      apply or_field; [eapply dsub_trans; eassumption|auto].
    - intros c ds ds' sub sub' Hd Hs IHs s'' H2. inversion H2; subst.
      apply or_inline; [eapply dsub_trans; eassumption|auto].
    - intros n ds ds' Hd s'' H2. inversion H2; subst. apply or_spread. eapply dsub_trans; eassumption.
    - intros l'' H2. apply olist_nil_inv in H2. subst. apply ol_nil.
    - intros s s' l l' Hs IHs Hl IHl l'' H2. inversion H2 as [|? s'' ? l3 Hs2 Hl2|? ? ? Hr Hl2|? ? Hempty]; subst.
      + apply ol_keep; auto.
      + apply ol_drop; [eapply has_remove_dsub; [apply orel_dirs; exact Hs|exact Hr]|auto].
      + apply ol_ph. inversion Hempty as [| |? ? ? Hr Hl2|]; subst.
        apply ol_drop; [eapply has_remove_dsub; [apply orel_dirs; exact Hs|exact Hr]|auto].
    - intros s l l' Hr Hl IHl l'' H2. apply ol_drop; auto.
    - intros s l Hempty IH l'' H2.
      inversion H2 as [|? s'' ? l3 Hs2 Hl2|? ? ? Hr Hl2|? ? Hempty2]; subst.
      + apply orel_placeholder in Hs2. apply olist_nil_inv in Hl2. subst. apply ol_ph. exact Hempty.
      + destruct Hr as [d [[] _]].
      + inversion Hempty2 as [| |? ? ? Hr Hl2|]; subst. destruct Hr as [d [[] _]].
  Qed.
  Definition olist_trans := proj2 orel_olist_trans.

  (* ---- the functions are in the relation ---- *)
  Fixpoint is_pass (f : nat) (l : list selection) : list selection * bool :=
    match l with
    | [] => ([], false)
    | s :: r =>
      match is_node jvars vdefs al f s with
      | None => (r, true)
      | Some s' => let '(r', b) := is_pass f r in (s' :: r', b)
      end
    end.
  Definition after_removal (l' : list selection) : list selection :=
    match l' with [] => [placeholder] | _ :: _ => l' end.
  Lemma is_set_S : forall f l,
      is_set jvars vdefs al (Datatypes.S f) l =
      let '(l', removed) := is_pass f l in
      if removed then is_set jvars vdefs al f (after_removal l') else l'.
  Proof.
    intros f l. cbn [is_set].
    assert (E : forall l0, (fix pass (l : list selection) : list selection * bool :=
                              match l with
                              | [] => ([], false)
                              | s :: r =>
                                match is_node jvars vdefs al f s with
                                | None => (r, true)
                                | Some s' => let '(r', b) := pass r in (s' :: r', b)
                                end
                              end) l0 = is_pass f l0).
    { induction l0 as [|s r IH]; [reflexivity|]. cbn [is_pass]. rewrite <- IH. reflexivity. }
    rewrite E. reflexivity.
  Qed.
  Lemma is_node_S : forall f s,
      is_node jvars vdefs al (Datatypes.S f) s =
      match eval_dirs jvars vdefs al (sel_dirs s) with
      | None => None
      | Some ds' =>
        Some (match s with
              | SField a n args _ sub => SField a n args ds' (is_set jvars vdefs al f sub)
              | SInline c _ sub => SInline c ds' (is_set jvars vdefs al f sub)
              | SSpread fn _ => SSpread fn ds'
              end)
      end.
  Proof. intros f s. destruct s; cbn [is_node sel_dirs]; destruct (eval_dirs jvars vdefs al _); reflexivity. Qed.

  Lemma is_pass_rel : forall f,
      (forall s, match is_node jvars vdefs al f s with Some s' => orel s s' | None => has_remove (sel_dirs s) end) ->
      forall l, olist l (fst (is_pass f l)) /\ (snd (is_pass f l) = true -> l <> []).
  Proof.
    intros f HA. induction l as [|s r [IH1 IH2]]; cbn [is_pass]; [split; [apply ol_nil|discriminate]|].
    specialize (HA s). destruct (is_node jvars vdefs al f s) as [s'|].
    - destruct (is_pass f r) as [r' b]. cbn in *. split; [apply ol_keep; assumption|discriminate].
    - cbn. split; [apply ol_drop; [exact HA|apply olist_refl]|discriminate].
  Qed.

  Lemma is_walk_rel : forall f,
      (forall s, match is_node jvars vdefs al f s with Some s' => orel s s' | None => has_remove (sel_dirs s) end) /\
      (forall l, olist l (is_set jvars vdefs al f l)).
  Proof.
    induction f as [|f [IHA IHB]].
    - split; [intro s; apply orel_refl|intro l; apply olist_refl].
    - split.
      + intro s. rewrite is_node_S. pose proof (eval_dirs_spec (sel_dirs s)) as HE.
        destruct (eval_dirs jvars vdefs al (sel_dirs s)) as [ds'|]; [|exact HE].
        destruct s; cbn [sel_dirs] in *; [apply or_field|apply or_inline|apply or_spread]; auto.
      + intro l. rewrite is_set_S. destruct (is_pass_rel f IHA l) as [H1 H2].
        destruct (is_pass f l) as [l' removed]. cbn in H1, H2. destruct removed; [|exact H1].
        eapply olist_trans; [|apply IHB].
        unfold after_removal. destruct l' as [|x l']; [|exact H1].
        destruct l as [|s l]; [exfalso; apply (H2 eq_refl); reflexivity|]. apply ol_ph. exact H1.
  Qed.

  (* ---- from the outcome relation to the executor's relation ---- *)
  Fixpoint dirs_ok_sel (s : selection) : bool :=
    forallb dir_ok (sel_dirs s) &&
    match s with
    | SField _ _ _ _ sub | SInline _ _ sub => forallb dirs_ok_sel sub
    | SSpread _ _ => true
    end.
  (* no "__internal_typename" placeholder anywhere *)
  Fixpoint nph_sel (s : selection) : bool :=
    match s with
    | SField a _ _ _ sub =>
      match a with Some x => negb (bytes_eqb x s_internal_typename) | None => true end && forallb nph_sel sub
    | SInline _ _ sub => forallb nph_sel sub
    | SSpread _ _ => true
    end.

  Lemma has_remove_excluded : forall ds, forallb dir_ok ds = true -> has_remove ds -> included vars ds = false.
  Proof.
    intros ds Hok [d [Hin Hv]]. apply (included_false_in ds d Hin).
    rewrite forallb_forall in Hok. specialize (Hok d Hin). unfold dir_ok in Hok. rewrite Hv in Hok.
    apply negb_true_iff in Hok. exact Hok.
  Qed.

  Lemma orel_olist_lrel :
    (forall s s', orel s s' -> dirs_ok_sel s = true -> nph_sel s' = true -> srel s s') /\
    (forall l l', olist l l' -> forallb dirs_ok_sel l = true -> forallb nph_sel l' = true -> lrel l l').
  Proof.
    apply orel_olist_min.
    - intros a n args ds ds' sub sub' Hd Hs IHs Hok Hn. cbn in Hok, Hn.
      apply andb_prop in Hok. destruct Hok as [Ho1 Ho2]. apply andb_prop in Hn. destruct Hn as [_ Hn2].
      apply sr_field; [reflexivity|apply dsub_included; assumption|auto].
    - intros c ds ds' sub sub' Hd Hs IHs Hok Hn. cbn in Hok, Hn.
      apply andb_prop in Hok. destruct Hok as [Ho1 Ho2].
      apply sr_inline; [apply dsub_included; assumption|auto].
    - intros n ds ds' Hd Hok Hn. cbn in Hok. apply andb_prop in Hok. destruct Hok as [Ho1 _].
      apply sr_spread. apply dsub_included; assumption.
    - intros _ _. apply lr_nil.
    - intros s s' l l' Hs IHs Hl IHl Hok Hn. cbn in Hok, Hn.
      apply andb_prop in Hok. destruct Hok as [Ho1 Ho2]. apply andb_prop in Hn. destruct Hn as [Hn1 Hn2].
      apply lr_cons; auto.
    - intros s l l' Hr Hl IHl Hok Hn. cbn in Hok. apply andb_prop in Hok. destruct Hok as [Ho1 Ho2].
      apply lr_drop; [|auto].
      apply has_remove_excluded; [|exact Hr]. destruct s; cbn in Ho1 |- *; apply andb_prop in Ho1; tauto.
    - intros s l Hempty IH Hok Hn. exfalso. vm_compute in Hn. discriminate.
  Qed.

  Lemma is_sels_lrel : forall fuel l,
      forallb dirs_ok_sel l = true -> forallb nph_sel (is_sels jvars vdefs al fuel l) = true ->
      lrel l (is_sels jvars vdefs al fuel l).
  Proof.
    intros fuel l H1 H2. apply (proj2 orel_olist_lrel); [|exact H1|exact H2].
    apply (proj2 (is_walk_rel fuel)).
  Qed.
End Passes.

(* ------------------------------------------------------------------ whole requests *)
Definition obj_members (v : json) : list (bytes * json) := match v with JObj m => m | _ => [] end.

(* remove_self_aliasing *)
Lemma self_alias_rewrite : forall d,
    self_alias d = doc_rewrite (fun o => map sa_sel (op_sels o)) (fun f => map sa_sel (fr_sels f)) d.
Proof. reflexivity. Qed.

Theorem self_alias_preserves_exec : forall S U d fuel opn v,
    resp_le (execute fuel S U Mono d opn v) (execute fuel S U Mono (self_alias d) opn v).
Proof.
  intros. rewrite self_alias_rewrite. apply execute_rewrite.
  intros o _. split; intros x _; apply lrel_map; apply Forall_forall; intros; apply sa_srel.
Qed.

Lemma sa_sel_idem : forall s, sa_sel (sa_sel s) = sa_sel s.
Proof.
  induction s using sel_ind'; cbn [sa_sel].
  - f_equal.
    + destruct a as [x|]; [|reflexivity]. destruct (bytes_eqb n x) eqn:E; [reflexivity|]. rewrite E. reflexivity.
    + rewrite map_map. apply map_ext_in. intros x Hx. rewrite Forall_forall in H. apply H. exact Hx.
  - f_equal. rewrite map_map. apply map_ext_in. intros x Hx. rewrite Forall_forall in H. apply H. exact Hx.
  - reflexivity.
Qed.
Theorem self_alias_idempotent : forall d, self_alias (self_alias d) = self_alias d.
Proof.
  intro d. unfold self_alias, map_doc_sels. rewrite map_map. apply map_ext. intros [o|f]; cbn.
  - f_equal. f_equal. rewrite map_map. apply map_ext. apply sa_sel_idem.
  - f_equal. f_equal. rewrite map_map. apply map_ext. apply sa_sel_idem.
Qed.

(* fragment_spread_inlining *)
Lemma frag_inline_rewrite : forall S d,
    frag_inline S d =
    doc_rewrite (fun o => map (fi_sel S (doc_frags d) (frag_inline_fuel d) (root_type S (op_kind o))) (op_sels o))
                (fun f => fr_sels f) d.
Proof.
  intros. unfold frag_inline, doc_rewrite. apply map_ext. intros [o|f]; [reflexivity|].
  destruct f; reflexivity.
Qed.

Theorem frag_inline_preserves_exec : forall S U d fuel opn v,
    resp_le (execute fuel S U Mono d opn v) (execute fuel S U Mono (frag_inline S d) opn v).
Proof.
  intros. rewrite frag_inline_rewrite. apply execute_rewrite.
  intros o _. split.
  - intros x _. apply lrel_map. apply Forall_forall. intros; apply fi_srel.
  - intros x _. apply lrel_refl.
Qed.

(* directive_include_skip *)
(* hypothesis of the @skip/@include theorem, for the executed operation: the pass' verdict on every
   directive agrees with the executor's evaluation, and the result holds no placeholder *)
Definition include_skip_ok (jvars vars : list (bytes * json)) (d : document) : bool :=
  let vdefs := doc_vardefs d in
  let fuel := include_skip_fuel d in
  forallb (fun def => match def with
                      | DOp o => forallb (dirs_ok_sel vars jvars vdefs) (op_sels o) &&
                                 forallb nph_sel (is_sels jvars vdefs false fuel (op_sels o))
                      | DFrag f => forallb (dirs_ok_sel vars jvars vdefs) (fr_sels f) &&
                                   forallb nph_sel (is_sels jvars vdefs false fuel (fr_sels f))
                      end) d.

Lemma include_skip_rewrite : forall jv d,
    include_skip jv d = doc_rewrite (fun o => is_sels jv (doc_vardefs d) false (include_skip_fuel d) (op_sels o))
                                    (fun f => is_sels jv (doc_vardefs d) false (include_skip_fuel d) (fr_sels f)) d.
Proof. reflexivity. Qed.

Lemma In_doc_ops : forall d o, In o (doc_ops d) -> In (DOp o) d.
Proof. induction d as [|[o'|f] d IH]; cbn; intros o H; [contradiction| |]; [destruct H; [subst; auto|auto]|auto]. Qed.
Lemma In_doc_frags : forall d f, In f (doc_frags d) -> In (DFrag f) d.
Proof. induction d as [|[o|f'] d IH]; cbn; intros f H; [contradiction| |]; [auto|destruct H; [subst; auto|auto]]. Qed.

(* hypothesis: for the operation that is executed, the pass' reading of every @skip/@include
   condition (JSON value, else variable default) agrees with the executor's, and no selection
   set is emptied *)
Theorem include_skip_preserves_exec_partial : forall S U d fuel opn v,
    (forall o, pick_op d opn = Some o ->
               include_skip_ok (obj_members v) (effective_vars o (obj_members v)) d = true) ->
    resp_le (execute fuel S U Mono d opn v) (execute fuel S U Mono (include_skip (obj_members v) d) opn v).
Proof.
  intros S U d fuel opn v H. rewrite include_skip_rewrite. apply execute_rewrite.
  intros o Ho. specialize (H o Ho). unfold include_skip_ok in H. cbv zeta in H. rewrite forallb_forall in H.
  split.
  - intros x Hx. pose proof (H _ (In_doc_ops _ _ Hx)) as Hd. apply andb_prop in Hd. destruct Hd as [H1 H2].
    apply is_sels_lrel; assumption.
  - intros x Hx. pose proof (H _ (In_doc_frags _ _ Hx)) as Hd. apply andb_prop in Hd. destruct Hd as [H1 H2].
    apply is_sels_lrel; assumption.
Qed.
