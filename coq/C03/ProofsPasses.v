(* C03 proofs, part 4: the passes whose output is [lrel]-related to their input --
   remove_self_aliasing, fragment_spread_inlining, directive_include_skip -- preserve [execute];
   idempotence of the first two (and of the third under its hypothesis). *)
From Gv Require Import lib.Bytes lib.Json lib.Gql lib.Exec C03.Model C03.Spec C03.ProofsExec C03.ProofsRel C03.ProofsDoc.
From Coq Require Import Lia PeanoNat.
Open Scope N_scope.

Lemma bytes_eqb_eq : forall a b, bytes_eqb a b = true -> a = b.
Proof.
  induction a as [|x a IH]; destruct b as [|y b]; cbn; intro H; try discriminate; [reflexivity|].
  apply andb_prop in H. destruct H as [H1 H2]. apply N.eqb_eq in H1. subst. f_equal. auto.
Qed.
Lemma bytes_eqb_refl : forall a, bytes_eqb a a = true.
Proof. induction a; cbn; [reflexivity|]. rewrite N.eqb_refl. exact IHa. Qed.

(* nested induction on selections *)
Section SelInd.
  Variable P : selection -> Prop.
  Hypothesis Hf : forall a n args ds sub, Forall P sub -> P (SField a n args ds sub).
  Hypothesis Hi : forall c ds sub, Forall P sub -> P (SInline c ds sub).
  Hypothesis Hs : forall n ds, P (SSpread n ds).
  Fixpoint sel_ind' (s : selection) : P s :=
    match s with
    | SField a n args ds sub =>
      Hf a n args ds sub ((fix go (l : list selection) : Forall P l :=
                            match l with [] => Forall_nil _ | x :: r => Forall_cons _ (sel_ind' x) (go r) end) sub)
    | SInline c ds sub =>
      Hi c ds sub ((fix go (l : list selection) : Forall P l :=
                      match l with [] => Forall_nil _ | x :: r => Forall_cons _ (sel_ind' x) (go r) end) sub)
    | SSpread n ds => Hs n ds
    end.
End SelInd.

Section Passes.
  Variable S : schema.
  Variable frags : list fragment.
  Variable vars : list (bytes * json).
  Notation srel := (srel S frags vars).
  Notation lrel := (lrel S frags vars).

  Lemma lrel_map : forall (g : selection -> selection) l,
      Forall (fun s => srel s (g s)) l -> lrel l (map g l).
  Proof. induction 1; cbn; [apply lr_nil|apply lr_cons; assumption]. Qed.

  Lemma srel_refl : forall s, srel s s.
  Proof.
    induction s using sel_ind'.
    - apply sr_field; [reflexivity|reflexivity|]. rewrite <- (map_id sub) at 2. apply lrel_map. exact H.
    - apply sr_inline; [reflexivity|]. rewrite <- (map_id sub) at 2. apply lrel_map. exact H.
    - apply sr_spread. reflexivity.
  Qed.
  Lemma lrel_refl : forall l, lrel l l.
  Proof. intro l. rewrite <- (map_id l) at 2. apply lrel_map. apply Forall_forall. intros; apply srel_refl. Qed.

  (* ---- remove_self_aliasing ---- *)
  Lemma sa_srel : forall s, srel s (sa_sel s).
  Proof.
    induction s using sel_ind'; cbn [sa_sel].
    - apply sr_field; [|reflexivity|apply lrel_map; exact H].
      destruct a as [x|]; [|reflexivity].
      destruct (bytes_eqb n x) eqn:E; [|reflexivity].
      apply bytes_eqb_eq in E. subst. reflexivity.
    - apply sr_inline; [reflexivity|apply lrel_map; exact H].
    - apply sr_spread. reflexivity.
  Qed.

  (* ---- fragment_spread_inlining ---- *)
  Lemma spread_replaceable_kind : forall P F, spread_replaceable S P F = true -> kind_of S F <> None.
  Proof.
    unfold spread_replaceable, type_kind_of, kind_of. intros P F H.
    destruct (builtin_scalar F); [discriminate|].
    destruct (find_type F (s_types S)); [discriminate|discriminate].
  Qed.

  Lemma fi_srel : forall fuel T s, srel s (fi_sel S frags fuel T s).
  Proof.
    induction fuel as [|f IH]; intros T s; [apply srel_refl|].
    destruct s as [a n args ds sub|c ds sub|fn ds]; cbn [fi_sel].
    - apply sr_field; [reflexivity|reflexivity|]. apply lrel_map. apply Forall_forall. intros; apply IH.
    - apply sr_inline; [reflexivity|]. apply lrel_map. apply Forall_forall. intros; apply IH.
    - destruct T as [P|]; [|apply srel_refl].
      destruct (find_frag fn frags) as [fr|] eqn:Ef; [|apply srel_refl].
      destruct (spread_replaceable S P (fr_type fr)) eqn:Er; [|apply srel_refl].
      apply sr_spread_inline; [exact Ef|eapply spread_replaceable_kind; exact Er|reflexivity|].
      apply lrel_map. apply Forall_forall. intros; apply IH.
  Qed.

  (* ---- directive_include_skip ---- *)
  Variable jvars : list (bytes * json).   (* the request's variables object, as the Go pass reads it *)
  Variable vdefs : list vardef.

  (* the pass' verdict on a directive agrees with the executor's evaluation of that directive *)
  Definition dir_ok (d : directive) : bool :=
    match dir_verdict jvars vdefs d with
    | DRemoveNode => negb (included vars [d])
    | DDropDirective => included vars [d]
    | DKeep => true
    end.
  (* no selection set is emptied (the pass would add its "__internal_typename" placeholder) *)
  Fixpoint sel_ok (s : selection) : bool :=
    forallb dir_ok (sel_dirs s) &&
    match s with
    | SField _ _ _ _ sub | SInline _ _ sub =>
      forallb sel_ok sub &&
      match sub, flat_map (is_sel jvars vdefs) sub with _ :: _, [] => false | _, _ => true end
    | SSpread _ _ => true
    end.

  Lemma included_cons : forall d r, included vars (d :: r) = included vars [d] && included vars r.
  Proof. intros. cbn [included]. rewrite andb_true_r. reflexivity. Qed.

  Lemma eval_dirs_included : forall ds,
      forallb dir_ok ds = true ->
      match eval_dirs jvars vdefs ds with
      | Some ds' => included vars ds = included vars ds'
      | None => included vars ds = false
      end.
  Proof.
    induction ds as [|d r IH]; intro H; [reflexivity|].
    cbn [forallb] in H. apply andb_prop in H. destruct H as [Hd Hr]. specialize (IH Hr).
    cbn [eval_dirs]. unfold dir_ok in Hd. rewrite (included_cons d r).
    destruct (dir_verdict jvars vdefs d).
    - apply negb_true_iff in Hd. rewrite Hd. reflexivity.
    - rewrite Hd. cbn. exact IH.
    - destruct (eval_dirs jvars vdefs r) as [r'|].
      + rewrite (included_cons d r'). rewrite IH. reflexivity.
      + rewrite IH. apply andb_false_r.
  Qed.

  Lemma is_list_flat_map : forall l,
      (fix go (l : list selection) : list selection :=
         match l with [] => [] | x :: r => is_sel jvars vdefs x ++ go r end) l = flat_map (is_sel jvars vdefs) l.
  Proof. induction l; cbn; [reflexivity|]. rewrite IHl. reflexivity. Qed.

  Definition close_sub (orig res : list selection) : list selection :=
    match orig, res with _ :: _, [] => [placeholder] | _, _ => res end.
  Lemma is_sel_cases : forall s,
      is_sel jvars vdefs s =
      match eval_dirs jvars vdefs (sel_dirs s) with
      | None => []
      | Some ds' =>
        match s with
        | SField a n args _ sub => [SField a n args ds' (close_sub sub (flat_map (is_sel jvars vdefs) sub))]
        | SInline c _ sub => [SInline c ds' (close_sub sub (flat_map (is_sel jvars vdefs) sub))]
        | SSpread f _ => [SSpread f ds']
        end
      end.
  Proof.
    destruct s as [a n args ds sub|c ds sub|f ds]; cbn [is_sel sel_dirs]; rewrite ?is_list_flat_map;
      destruct (eval_dirs jvars vdefs ds); reflexivity.
  Qed.

  Lemma is_lrel_aux : forall l, Forall (fun s => sel_ok s = true -> lrel [s] (is_sel jvars vdefs s)) l ->
                                forallb sel_ok l = true -> lrel l (flat_map (is_sel jvars vdefs) l).
  Proof.
    induction 1 as [|s l Hs Hl IH]; intro Hok; cbn; [apply lr_nil|].
    cbn in Hok. apply andb_prop in Hok. destruct Hok as [H1 H2].
    change (s :: l) with ([s] ++ l). apply lrel_app; auto.
  Qed.

  Lemma is_srel : forall s, sel_ok s = true -> lrel [s] (is_sel jvars vdefs s).
  Proof.
    induction s using sel_ind'; intro Hok; rewrite is_sel_cases; cbn [sel_ok sel_dirs] in *;
      apply andb_prop in Hok; destruct Hok as [Hd Hrest];
      pose proof (eval_dirs_included _ Hd) as HE; destruct (eval_dirs jvars vdefs ds) as [ds'|].
    - apply andb_prop in Hrest. destruct Hrest as [Hsub Hne].
      apply lr_cons; [|apply lr_nil]. apply sr_field; [reflexivity|exact HE|].
      pose proof (is_lrel_aux sub H Hsub) as HL. unfold close_sub.
      destruct sub as [|x r]; [exact HL|]. destruct (flat_map (is_sel jvars vdefs) (x :: r)); [discriminate|exact HL].
    - apply lr_drop; [exact HE|apply lr_nil].
    - apply andb_prop in Hrest. destruct Hrest as [Hsub Hne].
      apply lr_cons; [|apply lr_nil]. apply sr_inline; [exact HE|].
      pose proof (is_lrel_aux sub H Hsub) as HL. unfold close_sub.
      destruct sub as [|x r]; [exact HL|]. destruct (flat_map (is_sel jvars vdefs) (x :: r)); [discriminate|exact HL].
    - apply lr_drop; [exact HE|apply lr_nil].
    - apply lr_cons; [|apply lr_nil]. apply sr_spread. exact HE.
    - apply lr_drop; [exact HE|apply lr_nil].
  Qed.

  Definition sels_ok (l : list selection) : bool :=
    forallb sel_ok l && match l, flat_map (is_sel jvars vdefs) l with _ :: _, [] => false | _, _ => true end.

  Lemma is_sels_lrel : forall l, sels_ok l = true -> lrel l (is_sels jvars vdefs l).
  Proof.
    intros l H. unfold sels_ok in H. apply andb_prop in H. destruct H as [H1 H2].
    assert (HL : lrel l (flat_map (is_sel jvars vdefs) l)).
    { apply is_lrel_aux; [|exact H1]. apply Forall_forall. intros s _. apply is_srel. }
    unfold is_sels. destruct l as [|x r]; [exact HL|].
    destruct (flat_map (is_sel jvars vdefs) (x :: r)); [discriminate|exact HL].
  Qed.
End Passes.

(* ------------------------------------------------------------------ whole requests *)
Definition obj_members (v : json) : list (bytes * json) := match v with JObj m => m | _ => [] end.

(* remove_self_aliasing *)
Lemma self_alias_rewrite : forall d,
    self_alias d = doc_rewrite (fun o => map sa_sel (op_sels o)) (fun f => map sa_sel (fr_sels f)) d.
Proof. reflexivity. Qed.

Theorem self_alias_preserves_exec : forall S U d fuel opn v,
    resp_le (execute fuel S U Mono d opn v) (execute fuel S U Mono (self_alias d) opn v).
Proof.
  intros. rewrite self_alias_rewrite. apply execute_rewrite.
  intros o _. split; intros x _; apply lrel_map; apply Forall_forall; intros; apply sa_srel.
Qed.

Lemma sa_sel_idem : forall s, sa_sel (sa_sel s) = sa_sel s.
Proof.
  induction s using sel_ind'; cbn [sa_sel].
  - f_equal.
    + destruct a as [x|]; [|reflexivity]. destruct (bytes_eqb n x) eqn:E; [reflexivity|]. rewrite E. reflexivity.
    + rewrite map_map. apply map_ext_in. intros x Hx. rewrite Forall_forall in H. apply H. exact Hx.
  - f_equal. rewrite map_map. apply map_ext_in. intros x Hx. rewrite Forall_forall in H. apply H. exact Hx.
  - reflexivity.
Qed.
Theorem self_alias_idempotent : forall d, self_alias (self_alias d) = self_alias d.
Proof.
  intro d. unfold self_alias, map_doc_sels. rewrite map_map. apply map_ext. intros [o|f]; cbn.
  - f_equal. f_equal. rewrite map_map. apply map_ext. apply sa_sel_idem.
  - f_equal. f_equal. rewrite map_map. apply map_ext. apply sa_sel_idem.
Qed.

(* fragment_spread_inlining *)
Lemma frag_inline_rewrite : forall S d,
    frag_inline S d =
    doc_rewrite (fun o => map (fi_sel S (doc_frags d) (frag_inline_fuel d) (root_type S (op_kind o))) (op_sels o))
                (fun f => fr_sels f) d.
Proof.
  intros. unfold frag_inline, doc_rewrite. apply map_ext. intros [o|f]; [reflexivity|].
  destruct f; reflexivity.
Qed.

Theorem frag_inline_preserves_exec : forall S U d fuel opn v,
    resp_le (execute fuel S U Mono d opn v) (execute fuel S U Mono (frag_inline S d) opn v).
Proof.
  intros. rewrite frag_inline_rewrite. apply execute_rewrite.
  intros o _. split.
  - intros x _. apply lrel_map. apply Forall_forall. intros; apply fi_srel.
  - intros x _. apply lrel_refl.
Qed.

(* directive_include_skip *)
Definition include_skip_ok (jvars vars : list (bytes * json)) (d : document) : bool :=
  let vdefs := doc_vardefs d in
  forallb (fun def => match def with
                      | DOp o => sels_ok vars jvars vdefs (op_sels o)
                      | DFrag f => sels_ok vars jvars vdefs (fr_sels f)
                      end) d.

Lemma include_skip_rewrite : forall jv d,
    include_skip jv d = doc_rewrite (fun o => is_sels jv (doc_vardefs d) (op_sels o))
                                    (fun f => is_sels jv (doc_vardefs d) (fr_sels f)) d.
Proof. reflexivity. Qed.

Lemma In_doc_ops : forall d o, In o (doc_ops d) -> In (DOp o) d.
Proof. induction d as [|[o'|f] d IH]; cbn; intros o H; [contradiction| |]; [destruct H; [subst; auto|auto]|auto]. Qed.
Lemma In_doc_frags : forall d f, In f (doc_frags d) -> In (DFrag f) d.
Proof. induction d as [|[o|f'] d IH]; cbn; intros f H; [contradiction| |]; [auto|destruct H; [subst; auto|auto]]. Qed.

(* hypothesis: for the operation that is executed, the pass' reading of every @skip/@include
   condition (JSON value, else variable default) agrees with the executor's, and no selection
   set is emptied *)
Theorem include_skip_preserves_exec_partial : forall S U d fuel opn v,
    (forall o, pick_op d opn = Some o ->
               include_skip_ok (obj_members v) (effective_vars o (obj_members v)) d = true) ->
    resp_le (execute fuel S U Mono d opn v) (execute fuel S U Mono (include_skip (obj_members v) d) opn v).
Proof.
  intros S U d fuel opn v H. rewrite include_skip_rewrite. apply execute_rewrite.
  intros o Ho. specialize (H o Ho). unfold include_skip_ok in H. rewrite forallb_forall in H.
  split.
  - intros x Hx. apply is_sels_lrel. exact (H _ (In_doc_ops _ _ Hx)).
  - intros x Hx. apply is_sels_lrel. exact (H _ (In_doc_frags _ _ Hx)).
Qed.
