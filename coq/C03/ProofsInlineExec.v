(* C03 proofs, part 9c: inline_selections_from_inline_fragments preserves [execute].
   The pass decides with the STATIC type of a selection set (couldInline); the executor decides
   with the RUNTIME type.  Executable hypotheses that make the static decision right:
     static_schema_ok S : "_Entity" is not declared, every name in an object's implements list
                          passes the executor's type test for that object, and a field of an
                          abstract type has, in every type it applies to, a type whose runtime
                          types are runtime types of the abstract field's type;
     types_known S d    : operation root types and fragment types are declared;
     keys_agree d       : fields with the same response key name the same field.
   The theorem is for the pass without the placeholder repair ([inline_sel_pre_repair]); the
   repaired pass [inline_sel] drops a response key and is covered under the hypothesis that the
   repair does not fire. *)
From Gv Require Import lib.Bytes lib.Json lib.Gql lib.Exec C03.Model C03.ProofsExec C03.ProofsRel C03.ProofsDoc
     C03.ProofsMono C03.ProofsPasses C03.ProofsDedup C03.ProofsCompose C03.ProofsInlineExecCong C03.ProofsInlineExecRel.
From Coq Require Import Lia PeanoNat.
Open Scope N_scope.

(* ---- the response-key table of a document ---- *)
Fixpoint sel_kn (s : selection) : list (name * name) :=
  match s with
  | SField a n _ _ sub => (response_name a n, n) :: flat_map sel_kn sub
  | SInline _ _ sub => flat_map sel_kn sub
  | SSpread _ _ => []
  end.
Definition def_sels (def : definition) : list selection :=
  match def with DOp o => op_sels o | DFrag f => fr_sels f end.
Definition doc_kn (d : document) : list (name * name) := flat_map (fun def => flat_map sel_kn (def_sels def)) d.
Fixpoint kn_ok_sel (kn : list (name * name)) (s : selection) : bool :=
  match s with
  | SField a n _ _ sub =>
    match assoc (response_name a n) kn with Some m => bytes_eqb m n | None => false end && forallb (kn_ok_sel kn) sub
  | SInline _ _ sub => forallb (kn_ok_sel kn) sub
  | SSpread _ _ => true
  end.
Definition keys_agree (d : document) : bool :=
  forallb (fun def => forallb (kn_ok_sel (doc_kn d)) (def_sels def)) d.

(* ---- schema side ---- *)
Definition known (S : schema) (n : name) : bool := match kind_of S n with Some _ => true | None => false end.
Definition no_entity (S : schema) : bool := negb (known S s_Entity).
Definition is_object_b (S : schema) (a : name) : bool := match kind_of S a with Some KObject => true | _ => false end.
Definition is_interface_b (S : schema) (a : name) : bool := match kind_of S a with Some KInterface => true | _ => false end.
(* every runtime type of a field declared with type [a] is a runtime type of [b]: same name; [a] an object
   type that passes for [b]; or both interfaces, [a] passes for [b] and every type that lists [a] in its
   implements clause lists [b] too *)
Definition sub_b (S : schema) (a b : name) : bool :=
  bytes_eqb a b || (is_object_b S a && cond_holds S a b) ||
  (is_interface_b S a && is_interface_b S b && cond_holds S a b &&
   forallb (fun t => implb (mem_bytes a (td_implements t)) (mem_bytes b (td_implements t))) (s_types S)).
Definition fields_ok (S : schema) (tdS tdO : type_def) : bool :=
  forallb (fun fdS => match find_field (fd_name fdS) (td_fields tdO) with
                      | Some fdO => sub_b S (named_of (fd_type fdO)) (named_of (fd_type fdS))
                      | None => true
                      end) (td_fields tdS).
Definition hop_b (S : schema) : bool :=
  forallb (fun tdO => forallb (fun tdS => implb (type_applies S (td_name tdO) (td_name tdS)) (fields_ok S tdS tdO))
                              (s_types S)) (s_types S).
Definition impl_b (S : schema) : bool :=
  forallb (fun t => match td_kind t with
                    | KObject => forallb (fun i => cond_holds S (td_name t) i) (td_implements t)
                    | _ => true
                    end) (s_types S).
Definition static_schema_ok (S : schema) : bool := no_entity S && hop_b S && impl_b S.
Definition types_known (S : schema) (d : document) : bool :=
  forallb (fun def => match def with
                      | DOp o => match root_type S (op_kind o) with Some rt => known S rt | None => true end
                      | DFrag f => known S (fr_type f)
                      end) d.

Lemma find_type_In : forall n ts t, find_type n ts = Some t -> In t ts /\ td_name t = n.
Proof.
  induction ts as [|x ts IH]; cbn; intros t H; [discriminate|].
  destruct (bytes_eqb n (td_name x)) eqn:E.
  - inversion H; subst. split; [left; reflexivity|]. symmetry. apply bytes_eqb_eq. exact E.
  - destruct (IH t H) as [H1 H2]. split; [right; exact H1|exact H2].
Qed.
Lemma find_field_In : forall n fs f, find_field n fs = Some f -> In f fs /\ fd_name f = n.
Proof.
  induction fs as [|x fs IH]; cbn; intros f H; [discriminate|].
  destruct (bytes_eqb n (fd_name x)) eqn:E.
  - inversion H; subst. split; [left; reflexivity|]. symmetry. apply bytes_eqb_eq. exact E.
  - destruct (IH f H) as [H1 H2]. split; [right; exact H1|exact H2].
Qed.
Lemma mem_bytes_In : forall x l, mem_bytes x l = true -> In x l.
Proof.
  induction l as [|y l IH]; cbn; intro H; [discriminate|].
  apply Bool.orb_true_iff in H. destruct H as [H|H]; [left; symmetry; apply bytes_eqb_eq; exact H|right; auto].
Qed.

Section Static.
  Variable S : schema.
  Hypothesis Hok : static_schema_ok S = true.

  Lemma ok_parts : no_entity S = true /\ hop_b S = true /\ impl_b S = true.
  Proof.
    unfold static_schema_ok in Hok. apply andb_prop in Hok. destruct Hok as [H1 H3].
    apply andb_prop in H1. destruct H1 as [H1 H2]. auto.
  Qed.

  Lemma tcheck_cond : forall n R, tcheck S n R = cond_holds S R n.
  Proof.
    intros n R. unfold tcheck, cond_holds. destruct (kind_of S n) as [k|] eqn:Ek; [|reflexivity].
    assert (Hne : bytes_eqb n s_Entity = false).
    { destruct (bytes_eqb n s_Entity) eqn:E; [|reflexivity]. apply bytes_eqb_eq in E. subst n.
      destruct ok_parts as [H1 _]. unfold no_entity, known in H1. rewrite Ek in H1. discriminate. }
    unfold possible. unfold s_Entity in Hne. rewrite Hne. destruct k; reflexivity.
  Qed.

  Lemma object_applies : forall o a, is_object_b S a = true -> cond_holds S o a = true -> o = a.
  Proof.
    intros o a Ha Hc. unfold is_object_b in Ha. unfold cond_holds in Hc.
    destruct (kind_of S a) as [k|] eqn:Ek; [|discriminate]. destruct k; try discriminate.
    unfold kind_of in Ek. destruct (builtin_scalar a); [discriminate|].
    unfold type_applies in Hc. destruct (find_type a (s_types S)) as [t|]; [|discriminate].
    inversion Ek as [Ek']. rewrite Ek' in Hc. rewrite Bool.orb_false_r in Hc. apply bytes_eqb_eq. exact Hc.
  Qed.

  Lemma interface_inv : forall a, is_interface_b S a = true ->
      exists ta, builtin_scalar a = false /\ find_type a (s_types S) = Some ta /\ td_kind ta = KInterface.
  Proof.
    intros a H. unfold is_interface_b, kind_of in H. destruct (builtin_scalar a); [discriminate|].
    destruct (find_type a (s_types S)) as [ta|]; [|discriminate]. exists ta. split; [reflexivity|]. split; [reflexivity|].
    destruct (td_kind ta); try discriminate. reflexivity.
  Qed.

  Lemma sub_b_sound : forall a b R, sub_b S a b = true -> cond_holds S R a = true -> cond_holds S R b = true.
  Proof.
    intros a b R H Ha. unfold sub_b in H. apply Bool.orb_true_iff in H. destruct H as [H|H]; [apply Bool.orb_true_iff in H; destruct H as [H|H]|].
    - apply bytes_eqb_eq in H. subst. exact Ha.
    - apply andb_prop in H. destruct H as [Ho Hc]. rewrite (object_applies R a Ho Ha). exact Hc.
    - apply andb_prop in H. destruct H as [H H4]. apply andb_prop in H. destruct H as [H H3]. apply andb_prop in H. destruct H as [H1 H2].
      destruct (interface_inv a H1) as [ta [Ba [Fa Ka]]]. destruct (interface_inv b H2) as [tb [Bb [Fb Kb]]].
      unfold cond_holds, kind_of in Ha |- *. rewrite Ba, Fa in Ha. rewrite Bb, Fb.
      unfold type_applies in Ha. rewrite Fa, Ka in Ha. apply Bool.orb_true_iff in Ha. destruct Ha as [Ha|Ha].
      + apply bytes_eqb_eq in Ha. subst R. unfold cond_holds, kind_of in H3. rewrite Bb, Fb in H3. exact H3.
      + destruct (find_type R (s_types S)) as [o|] eqn:Fo; [|discriminate].
        destruct (find_type_In _ _ _ Fo) as [Ino _]. rewrite forallb_forall in H4. specialize (H4 o Ino).
        rewrite Ha in H4. cbn [implb] in H4.
        unfold type_applies. rewrite Fb, Kb, Fo, H4. apply Bool.orb_true_r.
  Qed.

  Lemma field_type_known : forall tn f t', field_type S tn f = Some t' -> known S tn = true.
  Proof.
    intros tn f t' H. unfold field_type in H. unfold known, kind_of.
    destruct (builtin_scalar tn); [reflexivity|].
    destruct (find_type tn (s_types S)); [reflexivity|discriminate].
  Qed.

  Lemma cond_known : forall o tn, known S tn = true -> cond_holds S o tn = type_applies S o tn.
  Proof. intros o tn H. unfold known in H. unfold cond_holds. destruct (kind_of S tn); [reflexivity|discriminate]. Qed.

  Lemma hop_ok : forall tn fname t' o td fd R,
      field_type S tn fname = Some t' -> cond_holds S o tn = true ->
      find_type o (s_types S) = Some td -> find_field fname (td_fields td) = Some fd ->
      tcheck S (named_of (fd_type fd)) R = true -> cond_holds S R t' = true.
  Proof.
    intros tn fname t' o td fd R Hft Hc Ht Hf HR.
    rewrite (cond_known o tn (field_type_known _ _ _ Hft)) in Hc.
    unfold field_type in Hft.
    destruct (find_type tn (s_types S)) as [tdS|] eqn:EtS; [|discriminate].
    destruct (find_field fname (td_fields tdS)) as [fdS|] eqn:EfS; [|discriminate].
    inversion Hft; subst t'.
    destruct (find_type_In _ _ _ EtS) as [InS NS]. destruct (find_type_In _ _ _ Ht) as [InO NO].
    destruct (find_field_In _ _ _ EfS) as [InF NF].
    destruct ok_parts as [_ [H2 _]]. unfold hop_b in H2. rewrite forallb_forall in H2.
    specialize (H2 td InO). rewrite forallb_forall in H2. specialize (H2 tdS InS).
    rewrite NS, NO, Hc in H2. cbn [implb] in H2.
    unfold fields_ok in H2. rewrite forallb_forall in H2. specialize (H2 fdS InF).
    rewrite NF, Hf in H2. rewrite tcheck_cond in HR.
    eapply sub_b_sound; [exact H2|exact HR].
  Qed.

  Lemma impl_ok : forall tn cn o, object_implements S tn cn = true -> cond_holds S o tn = true -> cond_holds S o cn = true.
  Proof.
    intros tn cn o H Hc. unfold object_implements in H. apply andb_prop in H. destruct H as [Hk Hm].
    unfold is_kind, type_kind_of in Hk. unfold implements_of in Hm.
    destruct (find_type tn (s_types S)) as [t|] eqn:Et; [|discriminate].
    destruct (td_kind t) eqn:Ek; try discriminate.
    assert (Eo : o = tn).
    { assert (Hk' : known S tn = true) by (unfold known, kind_of; rewrite Et; destruct (builtin_scalar tn); reflexivity).
      pose proof Hc as Hta. rewrite (cond_known o tn Hk') in Hta.
      unfold type_applies in Hta. rewrite Et, Ek, Bool.orb_false_r in Hta. apply bytes_eqb_eq. exact Hta. }
    subst o. destruct (find_type_In _ _ _ Et) as [InT NT].
    destruct ok_parts as [_ [_ H3]]. unfold impl_b in H3. rewrite forallb_forall in H3. specialize (H3 t InT).
    rewrite Ek in H3. rewrite forallb_forall in H3. rewrite NT in H3. apply H3. apply mem_bytes_In. exact Hm.
  Qed.
End Static.

Section Inline.
  Variable S : schema.
  Variable frags : list fragment.
  Variable kn : list (name * name).
  Hypothesis Hok : static_schema_ok S = true.

  Definition KNt (k n : name) : Prop := assoc k kn = Some n.
  Lemma KNt_fun : forall k n1 n2, KNt k n1 -> KNt k n2 -> n1 = n2.
  Proof. unfold KNt. intros k n1 n2 H1 H2. rewrite H1 in H2. inversion H2. reflexivity. Qed.

  Notation irel := (irel S KNt).

  Definition QT (T : option name) : name -> Prop :=
    match T with None => fun _ => True | Some tn => fun o => cond_holds S o tn = true end.

  Lemma kn_ok_field : forall a n args ds sub, kn_ok_sel kn (SField a n args ds sub) = true ->
      KNt (response_name a n) n /\ forallb (kn_ok_sel kn) sub = true.
  Proof.
    intros a n args ds sub H. cbn [kn_ok_sel] in H. apply andb_prop in H. destruct H as [H1 H2]. split; [|exact H2].
    unfold KNt. destruct (assoc (response_name a n) kn) as [m|]; [|discriminate]. apply bytes_eqb_eq in H1. subst. reflexivity.
  Qed.

  Lemma irel_refl_n : forall k l Q, (sels_size l <= k)%nat -> forallb (kn_ok_sel kn) l = true -> irel Q l l.
  Proof.
    induction k as [|k IH]; intros l Q Hsz Hkn.
    - destruct l as [|s l]; [apply ir_nil|]. exfalso. rewrite sels_size_cons in Hsz. pose proof (sel_size_pos s). lia.
    - destruct l as [|s l]; [apply ir_nil|].
      rewrite sels_size_cons in Hsz. cbn [forallb] in Hkn. apply andb_prop in Hkn. destruct Hkn as [Hs Hl].
      pose proof (sel_size_pos s) as Hp.
      destruct s as [a n args ds sub|c ds sub|n ds].
      + destruct (kn_ok_field _ _ _ _ _ Hs) as [Hk Hsub].
        apply (ir_field S KNt Q (fun _ => True)); [exact Hk|intros o td fd R _ _ _ _; exact I| |].
        * apply IH; [|exact Hsub]. cbn [sel_size] in Hsz. fold (sels_size sub) in Hsz. lia.
        * apply IH; [lia|exact Hl].
      + apply ir_inline.
        * apply IH; [|exact Hs]. cbn [sel_size] in Hsz. fold (sels_size sub) in Hsz. lia.
        * apply IH; [lia|exact Hl].
      + apply ir_spread. apply IH; [lia|exact Hl].
  Qed.
  Lemma irel_refl : forall l Q, forallb (kn_ok_sel kn) l = true -> irel Q l l.
  Proof. intros. eapply irel_refl_n; [apply le_n|assumption]. Qed.

  Lemma could_inline_holds : forall T c ds sub,
      could_inline S T c ds sub = true -> ds = [] /\ forall o, QT T o -> ocond_holds S o c.
  Proof.
    intros T c ds sub H. unfold could_inline in H. destruct ds; [|discriminate]. split; [reflexivity|].
    intros o Ho. destruct c as [cn|]; [|exact I]. destruct T as [tn|]; [|discriminate].
    cbn in *. apply Bool.orb_true_iff in H. destruct H as [H|H].
    - apply bytes_eqb_eq in H. subst. exact Ho.
    - apply andb_prop in H. destruct H as [H _]. eapply impl_ok; eauto.
  Qed.

  Lemma il_level_done : forall fuel T done todo,
      il_level S false fuel T done todo = done ++ il_level S false fuel T [] todo.
  Proof.
    induction fuel as [|f IH]; intros T done todo; cbn [il_level]; [reflexivity|].
    destruct todo as [|x r]; [rewrite app_nil_r; reflexivity|].
    destruct x as [a n args ds sub|c ds sub|n ds].
    - rewrite (IH T (done ++ _) r), (IH T ([] ++ _) r). rewrite <- app_assoc. reflexivity.
    - destruct (could_inline S T c ds sub).
      + cbn [andb]. apply IH.
      + rewrite (IH T (done ++ _) r), (IH T ([] ++ _) r). rewrite <- app_assoc. reflexivity.
    - rewrite (IH T (done ++ _) r), (IH T ([] ++ _) r). rewrite <- app_assoc. reflexivity.
  Qed.

  Definition child (f : nat) (T : option name) (s : selection) : selection :=
    match s with
    | SField a n args ds sub => SField a n args ds (il_sels S false f (sub_type S T n) sub)
    | SInline c ds sub => SInline c ds (il_sels S false f (match c with Some x => Some x | None => T end) sub)
    | SSpread _ _ => s
    end.
  Lemma il_sels_S : forall f T l,
      il_sels S false (Datatypes.S f) T l = map (child f T) (il_level S false (Datatypes.S (sels_size l)) T [] l).
  Proof. reflexivity. Qed.

  Definition ChildOK (f : nat) : Prop :=
    forall T (Q : name -> Prop) l, (forall o, Q o -> QT T o) -> forallb (kn_ok_sel kn) l = true ->
                                   irel Q l (il_sels S false f T l).

  Lemma forallb_app2 : forall (A : Type) (p : A -> bool) a b, forallb p (a ++ b) = forallb p a && forallb p b.
  Proof. induction a; cbn; intros; [reflexivity|]. rewrite IHa. apply Bool.andb_assoc. Qed.

  Lemma child_one : forall f T (Q : name -> Prop) x r r',
      ChildOK f -> (forall o, Q o -> QT T o) -> kn_ok_sel kn x = true ->
      irel Q r r' -> irel Q (x :: r) (child f T x :: r').
  Proof.
    intros f T Q x r r' HC HQ Hx Hr.
    destruct x as [a n args ds sub|c ds sub|n ds]; cbn [child].
    - destruct (kn_ok_field _ _ _ _ _ Hx) as [Hk Hsub].
      destruct (sub_type S T n) as [t'|] eqn:Est.
      + apply (ir_field S KNt Q (QT (Some t'))); [exact Hk| | |exact Hr].
        * destruct T as [tn|]; [|discriminate]. cbn in Est.
          intros o td fd R Ho Ht Hf HR. cbn. eapply (hop_ok S Hok); eauto. apply HQ. exact Ho.
        * apply HC; [intros o Ho; exact Ho|exact Hsub].
      + apply (ir_field S KNt Q (fun _ => True)); [exact Hk|intros o td fd R _ _ _ _; exact I| |exact Hr].
        apply HC; [intros o Ho; exact I|exact Hsub].
    - apply ir_inline; [|exact Hr]. apply HC; [|exact Hx].
      intros o [Ho Hc]. destruct c as [x|]; [exact Hc|apply HQ; exact Ho].
    - apply ir_spread. exact Hr.
  Qed.

  Lemma il_level_irel : forall f, ChildOK f ->
      forall F T (Q : name -> Prop) todo, (forall o, Q o -> QT T o) -> forallb (kn_ok_sel kn) todo = true ->
                       irel Q todo (map (child f T) (il_level S false F T [] todo)).
  Proof.
    intros f HC. induction F as [|F IH]; intros T Q todo HQ Hkn.
    - cbn [il_level app]. induction todo as [|x r IHr]; [apply ir_nil|].
      cbn [forallb] in Hkn. apply andb_prop in Hkn. destruct Hkn as [Hx Hr]. cbn [map].
      apply child_one; auto.
    - cbn [il_level]. destruct todo as [|x r]; [apply ir_nil|].
      cbn [forallb] in Hkn. apply andb_prop in Hkn. destruct Hkn as [Hx Hr].
      assert (Hkeep : irel Q (x :: r) (map (child f T) (il_level S false F T ([] ++ [x]) r))).
      { rewrite il_level_done. cbn [app map]. apply child_one; auto. }
      destruct x as [a n args ds sub|c ds sub|n ds]; try exact Hkeep.
      destruct (could_inline S T c ds sub) eqn:Ec; [|exact Hkeep].
      cbn [andb]. destruct (could_inline_holds _ _ _ _ Ec) as [Eds Hc]. subst ds.
      apply ir_go; [intros o Ho; apply Hc; apply HQ; exact Ho|].
      apply IH; [exact HQ|]. rewrite forallb_app2. cbn [kn_ok_sel] in Hx. rewrite Hx, Hr. reflexivity.
  Qed.

  Lemma il_sels_irel : forall f, ChildOK f.
  Proof.
    induction f as [|f IH]; intros T Q l HQ Hkn.
    - cbn [il_sels]. apply irel_refl. exact Hkn.
    - rewrite il_sels_S. apply il_level_irel; assumption.
  Qed.
End Inline.
