(* C03 proofs, part 6: fuel monotonicity of the reference executor (md = Mono): an execution that
   did not run out of fuel gives the same result with any larger fuel.  This turns the same-fuel
   pass theorems into the two-fuel form of Spec.ExecPreserved. *)
From Gv Require Import lib.Bytes lib.Json lib.Gql lib.Exec C03.ProofsExec C03.ProofsRel C03.ProofsDoc.
From Coq Require Import Lia PeanoNat.
Open Scope N_scope.

Section Mono.
  Variable S : schema.
  Variable U : universe.
  Variable frags : list fragment.
  Variable vars : list (bytes * json).

  Notation xsels := (exec_sels S U frags vars Mono).
  Notation xfield := (exec_field S U frags vars Mono).
  Notation xcomplete := (complete S U frags vars Mono).

  Definition acc_errs (a : list json * list xerr * bool * N) : list xerr := snd (fst (fst a)).

  Lemma fold_lstep_errs_prefix : forall f t' ov fname cargs subs path items a,
      has_oof (acc_errs a) ->
      has_oof (acc_errs (fold_left (lstep S U vars frags f t' ov fname cargs subs path) items a)).
  Proof.
    intros f t' ov fname cargs subs path. induction items as [|it items IH]; intros a H; [exact H|].
    cbn [fold_left]. apply IH. destruct a as [[[out errs] viol] i]. cbn in *. apply has_oof_app_l. exact H.
  Qed.

  Lemma fold_lstep_mono : forall f t' ov fname cargs subs path items a,
      (forall it p, ~ has_oof (c_errs (xcomplete f t' ov fname cargs it subs p)) ->
                    xcomplete (Datatypes.S f) t' ov fname cargs it subs p = xcomplete f t' ov fname cargs it subs p) ->
      ~ has_oof (acc_errs (fold_left (lstep S U vars frags f t' ov fname cargs subs path) items a)) ->
      fold_left (lstep S U vars frags (Datatypes.S f) t' ov fname cargs subs path) items a =
      fold_left (lstep S U vars frags f t' ov fname cargs subs path) items a.
  Proof.
    intros f t' ov fname cargs subs path. induction items as [|it items IH]; intros a Hc Hn; [reflexivity|].
    cbn [fold_left] in *.
    assert (Hstep : lstep S U vars frags (Datatypes.S f) t' ov fname cargs subs path a it =
                    lstep S U vars frags f t' ov fname cargs subs path a it).
    { destruct a as [[[out errs] viol] i]. cbn [lstep].
      rewrite Hc; [reflexivity|]. intro Ho. apply Hn. apply fold_lstep_errs_prefix. cbn. apply has_oof_app_r. exact Ho. }
    rewrite Hstep. apply IH; assumption.
  Qed.

  Lemma exec_groups_mono : forall f objty ov path gs,
      (forall key s subs p, ~ has_oof (c_errs (xfield f objty ov key s subs p)) ->
                            xfield (Datatypes.S f) objty ov key s subs p = xfield f objty ov key s subs p) ->
      ~ has_oof (snd (exec_groups S U vars frags f objty ov path gs)) ->
      exec_groups S U vars frags (Datatypes.S f) objty ov path gs = exec_groups S U vars frags f objty ov path gs.
  Proof.
    intros f objty ov path gs Hf. induction gs as [|[[k s] subs] rest IH]; intro Hn; [reflexivity|].
    cbn [exec_groups] in *.
    assert (Hr : ~ has_oof (c_errs (xfield f objty ov k s subs (path ++ [PN k])))).
    { intro Ho. apply Hn. destruct (c_viol (xfield f objty ov k s subs (path ++ [PN k]))); [exact Ho|].
      destruct (exec_groups S U vars frags f objty ov path rest) as [o e2]. cbn. apply has_oof_app_l. exact Ho. }
    rewrite (Hf _ _ _ _ Hr).
    destruct (c_viol (xfield f objty ov k s subs (path ++ [PN k]))); [reflexivity|].
    rewrite IH; [reflexivity|].
    intro Ho. apply Hn. destruct (exec_groups S U vars frags f objty ov path rest) as [o e2]. cbn in *. apply has_oof_app_r. exact Ho.
  Qed.

  Definition MonoAt (f : nat) : Prop :=
    (forall objty ov sels path, ~ has_oof (snd (xsels f objty ov sels path)) ->
                                xsels (Datatypes.S f) objty ov sels path = xsels f objty ov sels path) /\
    (forall objty ov key s subs path, ~ has_oof (c_errs (xfield f objty ov key s subs path)) ->
                                      xfield (Datatypes.S f) objty ov key s subs path = xfield f objty ov key s subs path) /\
    (forall t ov fname cargs fv subs path, ~ has_oof (c_errs (xcomplete f t ov fname cargs fv subs path)) ->
                                           xcomplete (Datatypes.S f) t ov fname cargs fv subs path = xcomplete f t ov fname cargs fv subs path).

  Lemma not_oof_nil : forall e : xerr, e <> XOutOfFuel -> ~ has_oof [e].
  Proof. intros e H [E|[]]. apply H. exact E. Qed.

  Lemma mono_all : forall f, MonoAt f.
  Proof.
    induction f as [|f [IHs [IHf IHc]]].
    - split; [|split]; intros; exfalso; apply H; cbn; left; reflexivity.
    - split; [|split].
      + (* exec_sels *)
        intros objty ov sels path Hn. rewrite (exec_sels_S S U vars frags (Datatypes.S f)). rewrite (exec_sels_S S U vars frags f) in *.
        destruct (flatten S frags vars (Datatypes.S f) objty sels) as [fl|e] eqn:E.
        * rewrite (flatten_mono S vars frags (Datatypes.S f) objty sels) by (rewrite E; discriminate). rewrite E.
          apply exec_groups_mono; [|exact Hn]. intros. apply IHf. assumption.
        * assert (e <> XOutOfFuel) by (intro; subst; apply Hn; cbn; left; reflexivity).
          rewrite (flatten_mono S vars frags (Datatypes.S f) objty sels) by (rewrite E; intro X; inversion X; contradiction).
          rewrite E. reflexivity.
      + (* exec_field *)
        intros objty ov key s subs path Hn.
        destruct s as [a n args ds sb|c ds sb|n ds].
        * rewrite (exec_field_S S U vars frags (Datatypes.S f)). rewrite (exec_field_S S U vars frags f) in *.
          unfold field_body in *.
          destruct (bytes_eqb n s_typename); [reflexivity|].
          destruct (find_type objty (s_types S)) as [td|]; [|reflexivity].
          destruct (find_field n (td_fields td)) as [fd|]; [|reflexivity].
          apply IHc. exact Hn.
        * reflexivity.
        * reflexivity.
      + (* complete *)
        intros t ov fname cargs fv subs path Hn.
        destruct t as [n|t'|t'].
        * rewrite (complete_S_named S U vars frags (Datatypes.S f)). rewrite (complete_S_named S U vars frags f) in *.
          assert (HO : ~ has_oof (c_errs (complete_object S U vars frags f n cargs fv subs path)) ->
                       complete_object S U vars frags (Datatypes.S f) n cargs fv subs path =
                       complete_object S U vars frags f n cargs fv subs path).
          { unfold complete_object. destruct (obj_target U cargs fv) as [[e|]|]; try reflexivity.
            destruct (negb _); [reflexivity|]. intro Ho. rewrite IHs; [reflexivity|].
            intro X. apply Ho. destruct (xsels f (en_type e) {| ov_ent := e; ov_repr := None |} subs path) as [[l|] errs]; exact X. }
          destruct (kind_of S n) as [[| | | | |]|]; try reflexivity; apply HO; exact Hn.
        * rewrite (complete_S_list S U vars frags (Datatypes.S f)). rewrite (complete_S_list S U vars frags f) in *.
          destruct fv as [j| | |items| | | |]; try reflexivity.
          -- destruct j as [| | | |js|]; try reflexivity. apply IHc. exact Hn.
          -- rewrite fold_lstep_mono; [reflexivity| |].
             ++ intros it p Ho. apply IHc. exact Ho.
             ++ intro Ho. apply Hn.
                destruct (fold_left (lstep S U vars frags f t' ov fname cargs subs path) items ([], [], false, 0)) as [[[out errs] viol] i].
                cbn in *. destruct viol; exact Ho.
        * rewrite (complete_S_nonnull S U vars frags (Datatypes.S f)). rewrite (complete_S_nonnull S U vars frags f) in *.
          rewrite IHc; [reflexivity|].
          intro Ho. apply Hn. unfold finish_nonnull.
          destruct (c_json (xcomplete f t' ov fname cargs fv subs path)); try exact Ho.
          cbn. destruct (c_errs (xcomplete f t' ov fname cargs fv subs path)); [destruct Ho|exact Ho].
  Qed.

  Lemma exec_sels_mono : forall f f' objty ov sels path,
      (f <= f')%nat -> ~ has_oof (snd (xsels f objty ov sels path)) ->
      xsels f' objty ov sels path = xsels f objty ov sels path.
  Proof.
    intros f f' objty ov sels path Hle Hn. induction Hle as [|m Hle IH]; [reflexivity|].
    rewrite <- IH. apply (proj1 (mono_all m)). rewrite IH. exact Hn.
  Qed.
End Mono.

Lemma oof_b_true : forall l, has_oof l -> oof_b l = true.
Proof.
  unfold has_oof, oof_b. intros l H. apply existsb_exists. exists XOutOfFuel. split; [exact H|reflexivity].
Qed.

Theorem execute_mono : forall S U d opn v f f',
    (f <= f')%nat -> oof_b (rs_errs (execute f S U Mono d opn v)) = false ->
    execute f' S U Mono d opn v = execute f S U Mono d opn v.
Proof.
  intros S U d opn v f f' Hle Hn. unfold execute in *.
  destruct (pick_op d opn) as [o|]; [|reflexivity].
  destruct (root_type S (op_kind o)) as [rt|]; [|reflexivity].
  destruct (find_entity U rt []) as [root|]; [|reflexivity].
  set (vs := effective_vars o (match v with JObj m => m | _ => [] end)) in *.
  set (ov := {| ov_ent := root; ov_repr := None |}) in *.
  rewrite (exec_sels_mono S U (doc_frags d) vs f f' rt ov (op_sels o) []); [reflexivity|exact Hle|].
  intro Ho. destruct (exec_sels S U (doc_frags d) vs Mono f rt ov (op_sels o) []) as [r errs]. cbn in Hn, Ho.
  pose proof (oof_b_true _ Ho) as Ht. unfold oof_b in Ht. congruence.
Qed.

(* from "same fuel" to "any two fuels": a rewriting that keeps the response at every fuel at which
   the original finishes, keeps it between any two fuels at which both finish *)
Theorem two_fuel : forall S U d d' opn v v',
    (forall fuel, resp_le (execute fuel S U Mono d opn v) (execute fuel S U Mono d' opn v')) ->
    forall f f',
      oof_b (rs_errs (execute f S U Mono d opn v)) = false ->
      oof_b (rs_errs (execute f' S U Mono d' opn v')) = false ->
      execute f' S U Mono d' opn v' = execute f S U Mono d opn v.
Proof.
  intros S U d d' opn v v' H f f' Hn Hn'.
  pose (F := Nat.max f f').
  assert (E1 : execute F S U Mono d opn v = execute f S U Mono d opn v) by (apply execute_mono; [unfold F; lia|exact Hn]).
  assert (E2 : execute F S U Mono d' opn v' = execute f' S U Mono d' opn v') by (apply execute_mono; [unfold F; lia|exact Hn']).
  rewrite <- E2, <- E1. apply H. rewrite E1. exact Hn.
Qed.
