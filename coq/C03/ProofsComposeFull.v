(* C03 proofs, part 12: the whole selection pipeline of the model ([norm_selections]: include_skip,
   frag_inline, self_alias, inline_sel, merge_sel, remove_frag_defs, dedup in engine order) preserves
   [execute] under the hypotheses of its passes. *)
From Gv Require Import lib.Bytes lib.Json lib.Gql lib.Exec C03.Model C03.Spec C03.ProofsExec C03.ProofsRel C03.ProofsDoc
     C03.ProofsPasses C03.ProofsDedup C03.ProofsMono C03.ProofsCompose C03.Examples
     C03.ProofsInlineExecCong C03.ProofsInlineExecRel C03.ProofsInlineExec C03.ProofsInlineExecDoc C03.ExamplesInline
     C03.ProofsComposeInline C03.ProofsMergeIdem C03.ProofsMergePass.
Open Scope N_scope.

Definition norm_upto_merge (S : schema) (jv : list (bytes * json)) (d : document) : document :=
  merge_sel (norm_upto_inline S jv d).

Lemma norm_selections_unfold : forall S jv d,
    norm_selections S jv d = dedup (remove_frag_defs (norm_upto_merge S jv d)).
Proof. reflexivity. Qed.

Theorem norm_preserves_exec_full_partial : forall S U d opn v,
    (forall o, pick_op d opn = Some o ->
               include_skip_ok (obj_members v) (effective_vars o (obj_members v)) d = true) ->
    static_schema_ok S = true ->
    types_known S (norm_pre_inline S (obj_members v) d) = true ->
    keys_agree (norm_pre_inline S (obj_members v) d) = true ->
    inline_sel S (norm_pre_inline S (obj_members v) d) = inline_sel_pre_repair S (norm_pre_inline S (obj_members v) d) ->
    merge_in_order S (norm_upto_inline S (obj_members v) d) = true ->
    ops_spread_free (norm_upto_merge S (obj_members v) d) = true ->
    forall fuel fuel1 fuel2 fuel',
      oof_b (rs_errs (execute fuel S U Mono d opn v)) = false ->
      oof_b (rs_errs (execute fuel1 S U Mono (norm_upto_inline S (obj_members v) d) opn v)) = false ->
      oof_b (rs_errs (execute fuel2 S U Mono (norm_upto_merge S (obj_members v) d) opn v)) = false ->
      oof_b (rs_errs (execute fuel' S U Mono (norm_selections S (obj_members v) d) opn v)) = false ->
      execute fuel' S U Mono (norm_selections S (obj_members v) d) opn v = execute fuel S U Mono d opn v.
Proof.
  intros S U d opn v Hok Hs Htk Hka Hrep Hmo Hsf fuel fuel1 fuel2 fuel' Hn Hn1 Hn2 Hn'.
  set (x := norm_pre_inline S (obj_members v) d) in *.
  set (y := norm_upto_inline S (obj_members v) d) in *.
  set (w := norm_upto_merge S (obj_members v) d) in *.
  assert (Hx : resp_le (execute fuel S U Mono d opn v) (execute fuel S U Mono x opn v)).
  { unfold x, norm_pre_inline.
    eapply resp_le_trans; [apply include_skip_preserves_exec_partial; exact Hok|].
    eapply resp_le_trans; [apply frag_inline_preserves_exec|].
    apply self_alias_preserves_exec. }
  pose proof (Hx Hn) as Ex.
  assert (Hnx : oof_b (rs_errs (execute fuel S U Mono x opn v)) = false) by (rewrite Ex; exact Hn).
  assert (Ey : execute fuel1 S U Mono y opn v = execute fuel S U Mono x opn v).
  { unfold y, norm_upto_inline. fold x. apply inline_sel_preserves_exec_partial; assumption. }
  assert (Ew : execute fuel2 S U Mono w opn v = execute fuel1 S U Mono y opn v).
  { unfold w, norm_upto_merge. fold y. apply merge_sel_preserves_exec_partial; assumption. }
  assert (Hz : forall f, resp_le (execute f S U Mono w opn v) (execute f S U Mono (norm_selections S (obj_members v) d) opn v)).
  { intro f. rewrite norm_selections_unfold. fold w.
    eapply resp_le_trans; [apply remove_frag_defs_preserves_exec; exact Hsf|].
    apply dedup_preserves_exec. }
  rewrite (two_fuel S U w (norm_selections S (obj_members v) d) opn v v Hz fuel2 fuel' Hn2 Hn').
  rewrite Ew, Ey. exact Ex.
Qed.

(* ---- non-vacuity ---- *)
(* merging alone: { a { id }  a { name }  i { ... on A { name } ... on B { q } ... on A { x: id } id } } *)
Definition d_merge : document :=
  qdoc [ fld n_a [fld n_id []]; fld n_a [fld n_name []];
         fld n_i [ SInline (Some n_A) [] [fld n_name []]; SInline (Some n_B) [] [fld n_q []];
                   SInline (Some n_A) [] [SField (Some n_x) n_id [] [] []]; fld n_id [] ] ].
Example ex_merge_hypotheses :
  merge_in_order S1 d_merge = true /\
  merge_sel d_merge = qdoc [ fld n_a [fld n_id []; fld n_name []];
                             fld n_i [ SInline (Some n_A) [] [fld n_name []; SField (Some n_x) n_id [] [] []];
                                       SInline (Some n_B) [] [fld n_q []]; fld n_id [] ] ] /\
  execute 30 S1 U1 Mono (merge_sel d_merge) None (JObj []) = execute 30 S1 U1 Mono d_merge None (JObj []) /\
  rs_errs (execute 30 S1 U1 Mono d_merge None (JObj [])) = [] /\
  merge_in_order S1 d_mreorder = false /\ merge_in_order S1 d_freorder = false.
Proof. vm_compute. repeat split. Qed.

(* the whole pipeline: a request with a redex of every pass
     query Q($s: Boolean = false) { a { id id: id ...F ... on I { name @skip(if: $s) } ... { id } }
                                    a { name }
                                    i { ... on I { id } ... on A { name } ... on A { x: id } }
                                    x: count @skip(if: true) }                over S1 + count *)
Definition S2 : schema :=
  {| s_query := n_Query; s_mutation := None; s_subscription := None;
     s_types := [tdefk KObject n_Query [] [fdef n_a (TNamed n_A); fdef n_i (TNamed n_I); fdef n_b (TNamed n_B); fdef n_count (TNamed [73;110;116])];
                 tdefk KInterface n_I [] [fdef n_id t_ID];
                 tdefk KObject n_A [n_I] [fdef n_id t_ID; fdef n_name t_String];
                 tdefk KObject n_B [] [fdef n_id t_ID; fdef n_q t_String]];
     s_directives := [] |}.
Definition d_all : document :=
  [ DOp {| op_kind := OpQuery; op_name := Some n_Q;
           op_vars := [{| vd_name := n_s; vd_type := (TNamed [66;111;111;108;101;97;110]); vd_default := Some (VBool false); vd_dirs := [] |}];
           op_dirs := [];
           op_sels := [ SField None n_a [] []
                          [ SField None n_id [] [] []; SField (Some n_id) n_id [] [] []; SSpread n_F [];
                            SInline (Some n_I) [] [SField None n_name [] [dir_skip (VVar n_s)] []];
                            SInline None [] [SField None n_id [] [] []] ];
                        SField None n_a [] [] [ SField None n_name [] [] [] ];
                        SField None n_i [] [] [ SInline (Some n_I) [] [SField None n_id [] [] []];
                                                SInline (Some n_A) [] [SField None n_name [] [] []];
                                                SInline (Some n_A) [] [SField (Some n_x) n_id [] [] []] ];
                        SField (Some n_x) n_count [] [dir_skip (VBool true)] [] ] |};
    DFrag {| fr_name := n_F; fr_type := n_A; fr_dirs := []; fr_sels := [SField None n_name [] [] []; SField None n_id [] [] []] |} ].

Example ex_all_hypotheses :
  (forall o, pick_op d_all (Some n_Q) = Some o ->
             include_skip_ok (obj_members (JObj [])) (effective_vars o (obj_members (JObj []))) d_all = true) /\
  static_schema_ok S2 = true /\
  types_known S2 (norm_pre_inline S2 [] d_all) = true /\
  keys_agree (norm_pre_inline S2 [] d_all) = true /\
  inline_sel S2 (norm_pre_inline S2 [] d_all) = inline_sel_pre_repair S2 (norm_pre_inline S2 [] d_all) /\
  merge_in_order S2 (norm_upto_inline S2 [] d_all) = true /\
  ops_spread_free (norm_upto_merge S2 [] d_all) = true /\
  norm_upto_inline S2 [] d_all <> norm_pre_inline S2 [] d_all /\
  norm_upto_merge S2 [] d_all <> norm_upto_inline S2 [] d_all /\
  oof_b (rs_errs (execute 40 S2 U1 Mono d_all (Some n_Q) (JObj []))) = false /\
  oof_b (rs_errs (execute 40 S2 U1 Mono (norm_upto_inline S2 [] d_all) (Some n_Q) (JObj []))) = false /\
  oof_b (rs_errs (execute 40 S2 U1 Mono (norm_upto_merge S2 [] d_all) (Some n_Q) (JObj []))) = false /\
  oof_b (rs_errs (execute 40 S2 U1 Mono (norm_selections S2 [] d_all) (Some n_Q) (JObj []))) = false.
Proof.
  split; [intros o H; vm_compute in H; inversion H; subst; vm_compute; reflexivity|].
  vm_compute. repeat split; discriminate.
Qed.

Example ex_all_normal_form :
  norm_selections S2 [] d_all =
  [ DOp {| op_kind := OpQuery; op_name := Some n_Q;
           op_vars := [{| vd_name := n_s; vd_type := (TNamed [66;111;111;108;101;97;110]); vd_default := Some (VBool false); vd_dirs := [] |}];
           op_dirs := [];
           op_sels := [ SField None n_a [] [] [ SField None n_id [] [] []; SField None n_name [] [] [] ];
                        SField None n_i [] [] [ SField None n_id [] [] [];
                                                SInline (Some n_A) [] [SField None n_name [] [] []; SField (Some n_x) n_id [] [] []] ] ] |} ].
Proof. vm_compute. reflexivity. Qed.
