(* C03 proofs, part 9d: inline_selections_from_inline_fragments at the level of whole requests. *)
From Gv Require Import lib.Bytes lib.Json lib.Gql lib.Exec C03.Model C03.ProofsExec C03.ProofsRel C03.ProofsDoc
     C03.ProofsMono C03.ProofsPasses C03.ProofsDedup C03.ProofsCompose
     C03.ProofsInlineExecCong C03.ProofsInlineExecRel C03.ProofsInlineExec.
From Coq Require Import Lia PeanoNat.
Open Scope N_scope.

Lemma inline_sel_rewrite : forall S d,
    inline_sel_gen false S d =
    doc_rewrite (fun o => il_sels S false (Datatypes.S (sels_size (op_sels o))) (root_type S (op_kind o)) (op_sels o))
                (fun fr => il_sels S false (Datatypes.S (sels_size (fr_sels fr))) (Some (fr_type fr)) (fr_sels fr)) d.
Proof. reflexivity. Qed.

Lemma keys_agree_def : forall d def, keys_agree d = true -> In def d -> forallb (kn_ok_sel (doc_kn d)) (def_sels def) = true.
Proof. intros d def H Hin. unfold keys_agree in H. rewrite forallb_forall in H. apply H. exact Hin. Qed.

Theorem inline_sel_pre_repair_preserves_exec : forall S U d opn v,
    static_schema_ok S = true -> types_known S d = true -> keys_agree d = true ->
    forall fuel fuel',
      oof_b (rs_errs (execute fuel S U Mono d opn v)) = false ->
      oof_b (rs_errs (execute fuel' S U Mono (inline_sel_pre_repair S d) opn v)) = false ->
      execute fuel' S U Mono (inline_sel_pre_repair S d) opn v = execute fuel S U Mono d opn v.
Proof.
  intros S U d opn v Hok Htk Hka fuel fuel'.
  unfold inline_sel_pre_repair. rewrite inline_sel_rewrite.
  set (fo := fun o => il_sels S false (Datatypes.S (sels_size (op_sels o))) (root_type S (op_kind o)) (op_sels o)).
  set (ff := fun fr => il_sels S false (Datatypes.S (sels_size (fr_sels fr))) (Some (fr_type fr)) (fr_sels fr)).
  unfold execute. rewrite pick_op_rewrite.
  destruct (pick_op d opn) as [o|] eqn:Ep; cbn [option_map]; [|reflexivity].
  change (op_kind (rw_op fo o)) with (op_kind o).
  destruct (root_type S (op_kind o)) as [rt|] eqn:Ert; [|reflexivity].
  change (effective_vars (rw_op fo o)) with (effective_vars o).
  destruct (find_entity U rt []) as [root|]; [|reflexivity].
  rewrite doc_frags_rewrite. change (op_sels (rw_op fo o)) with (fo o).
  set (vars := effective_vars o (match v with JObj m => m | _ => [] end)).
  set (kn := doc_kn d).
  pose proof (pick_op_In _ _ _ Ep) as Hin. apply In_doc_ops in Hin.
  unfold types_known in Htk. rewrite forallb_forall in Htk.
  assert (HFR : frags_irel S (doc_frags d) (map (rw_frag ff) (doc_frags d)) (KNt kn)).
  { intro n. rewrite find_frag_map. destruct (find_frag n (doc_frags d)) as [fr|] eqn:Ef; cbn [option_map]; [|reflexivity].
    exists (rw_frag ff fr). split; [reflexivity|]. split; [reflexivity|]. cbn [rw_frag fr_sels]. unfold ff.
    pose proof (find_frag_In _ _ _ Ef) as Hfin. apply In_doc_frags in Hfin.
    apply (il_sels_irel S kn Hok).
    - intros ob Hob. cbn. rewrite (cond_known S ob (fr_type fr)); [exact Hob|]. exact (Htk _ Hfin).
    - exact (keys_agree_def d _ Hka Hfin). }
  assert (HOP : irel S (KNt kn) (fun ob => ob = rt) (op_sels o) (fo o)).
  { unfold fo. rewrite Ert. apply (il_sels_irel S kn Hok).
    - intros ob Hob. subst ob. cbn. pose proof (Htk _ Hin) as Hk. cbn in Hk. rewrite Ert in Hk.
      rewrite (cond_known S rt rt Hk). unfold type_applies. rewrite bytes_eqb_refl. reflexivity.
    - exact (keys_agree_def d _ Hka Hin). }
  pose proof (irel_exec S U (doc_frags d) (map (rw_frag ff) (doc_frags d)) vars (KNt kn) (KNt_fun kn) HFR
                        fuel fuel' (fun ob => ob = rt) (op_sels o) (fo o) rt HOP eq_refl
                        {| ov_ent := root; ov_repr := None |} []) as HE.
  destruct (exec_sels S U (doc_frags d) vars Mono fuel rt {| ov_ent := root; ov_repr := None |} (op_sels o) []) as [r errs].
  remember (exec_sels S U (map (rw_frag ff) (doc_frags d)) vars Mono fuel' rt {| ov_ent := root; ov_repr := None |} (fo o) []) as X eqn:EX.
  clear EX. destruct X as [r' errs'].
  cbn [rs_errs]. intros Hn Hn'.
  pose proof (HE (oof_b_false _ Hn) (oof_b_false _ Hn')) as E. inversion E. reflexivity.
Qed.

(* the repaired pass: as long as the repair (dropping an inlinable fragment that holds only the
   "__internal_typename" placeholder) does not fire *)
Theorem inline_sel_preserves_exec_partial : forall S U d opn v,
    static_schema_ok S = true -> types_known S d = true -> keys_agree d = true ->
    inline_sel S d = inline_sel_pre_repair S d ->
    forall fuel fuel',
      oof_b (rs_errs (execute fuel S U Mono d opn v)) = false ->
      oof_b (rs_errs (execute fuel' S U Mono (inline_sel S d) opn v)) = false ->
      execute fuel' S U Mono (inline_sel S d) opn v = execute fuel S U Mono d opn v.
Proof.
  intros S U d opn v Hok Htk Hka E. rewrite E. apply inline_sel_pre_repair_preserves_exec; assumption.
Qed.
