(* C03 specification: what "normalisation preserves the meaning of an operation" means, stated on
   the reference executor lib/Exec.v, and the boolean checkers the driver evaluates on the REAL
   normaliser's output. *)
From Gv Require Import lib.Bytes lib.Json lib.Gql lib.Exec C03.Model.
Open Scope N_scope.

(* ---- responses ---- *)
(* the request could not be executed at all (not a property of the data) *)
Definition err_bad (e : xerr) : bool :=
  match e with XOutOfFuel => true | XInvalid _ => true | XErr _ => false end.
Definition err_oof (e : xerr) : bool := match e with XOutOfFuel => true | _ => false end.
Definition resp_bad (r : response) : bool := existsb err_bad (rs_errs r).
Definition resp_oof (r : response) : bool := existsb err_oof (rs_errs r).

(* normalisation adds "__internal_typename: __typename" to a selection set it emptied; the planner
   leaves that key out of the response, so does the comparison *)
Fixpoint strip_internal (j : json) : json :=
  match j with
  | JArr l => JArr (map strip_internal l)
  | JObj m =>
    JObj ((fix go (m : list (bytes * json)) : list (bytes * json) :=
             match m with
             | [] => []
             | (k, v) :: r => if bytes_eqb k s_internal_typename then go r else (k, strip_internal v) :: go r
             end) m)
  | _ => j
  end.

(* equality of JSON values up to the order of object members (members of a response map are
   distinct).  [json_eqb] is the ordered comparison. *)
Fixpoint json_equiv (a b : json) {struct a} : bool :=
  match a, b with
  | JNull, JNull => true
  | JBool x, JBool y => Bool.eqb x y
  | JNum x, JNum y => bytes_eqb x y
  | JStr x, JStr y => bytes_eqb x y
  | JArr x, JArr y =>
    (fix go (x y : list json) : bool :=
       match x, y with
       | [], [] => true
       | a :: x', b :: y' => json_equiv a b && go x' y'
       | _, _ => false
       end) x y
  | JObj x, JObj y =>
    Nat.eqb (length x) (length y) &&
    (fix go (x : list (bytes * json)) : bool :=
       match x with
       | [] => true
       | (k, v) :: x' => match obj_get k y with Some v' => json_equiv v v' | None => false end && go x'
       end) x
  | _, _ => false
  end.

Definition no_errors (r : response) : bool := match rs_errs r with [] => true | _ => false end.

(* same data (placeholder keys dropped, member order free), and errors on both sides or on neither *)
Definition resp_equiv (r1 r2 : response) : bool :=
  json_equiv (strip_internal (rs_data r1)) (strip_internal (rs_data r2)) &&
  Bool.eqb (no_errors r1) (no_errors r2).
(* the stricter reading: member order kept too *)
Definition resp_equiv_ordered (r1 r2 : response) : bool :=
  json_eqb (strip_internal (rs_data r1)) (strip_internal (rs_data r2)) &&
  Bool.eqb (no_errors r1) (no_errors r2).

(* ---- the property ---- *)
(* (d', v') means the same as (d, v): on every schema-conforming backend (universe) and with any
   fuel that lets both executions finish, the responses agree *)
Definition ExecPreserved (S : schema) (d : document) (op : option name) (v : json)
           (d' : document) (v' : json) : Prop :=
  forall (U : universe) (fuel fuel' : nat),
    resp_oof (execute fuel S U Mono d op v) = false ->
    resp_oof (execute fuel' S U Mono d' op v') = false ->
    resp_equiv (execute fuel S U Mono d op v) (execute fuel' S U Mono d' op v') = true.

(* the form proved pass by pass: the rewritten document gives the SAME response with the same fuel
   whenever the original finishes; with [fuel_mono] this implies the two-fuel form *)
Definition ExecSame (S : schema) (d d' : document) : Prop :=
  forall (U : universe) (fuel : nat) (op : option name) (v : json),
    resp_oof (execute fuel S U Mono d op v) = false ->
    execute fuel S U Mono d' op v = execute fuel S U Mono d op v.

(* ---- checkers run on the implementation's output ---- *)
Definition big_fuel (d d' : document) : nat := (8 * (doc_size d + doc_size d') + 256)%nat.

(* one universe: execute the original and the normalised request *)
Definition exec_preserved_b (S : schema) (U : universe) (d : document) (op : option name) (v : json)
           (d' : document) (op' : option name) (v' : json) : bool :=
  let f := big_fuel d d' in
  let r := execute f S U Mono d op v in
  let r' := execute f S U Mono d' op' v' in
  negb (resp_bad r) && negb (resp_bad r') && resp_equiv r r'.
Definition exec_ordered_b (S : schema) (U : universe) (d : document) (op : option name) (v : json)
           (d' : document) (op' : option name) (v' : json) : bool :=
  let f := big_fuel d d' in
  resp_equiv_ordered (execute f S U Mono d op v) (execute f S U Mono d' op' v').
(* the original itself is executable by the reference executor (a generator sanity check) *)
Definition orig_executable_b (S : schema) (U : universe) (d : document) (op : option name) (v : json) : bool :=
  negb (resp_bad (execute (big_fuel d d) S U Mono d op v)).

(* normalising the normal form again changes neither its printed form nor its variables *)
Definition idempotent_b (printed printed' : bytes) (vars vars' : json) : bool :=
  bytes_eqb printed printed' && json_eqb vars vars'.
(* two requests with the same meaning have the same canonical form *)
Definition canonical_b (printed printed' : bytes) (vars vars' : json) : bool :=
  bytes_eqb printed printed' && json_equiv vars vars'.
(* the validator accepts the normal form whenever it accepted the operation *)
Definition valid_preserved_b (accepted_before accepted_after : bool) : bool := implb accepted_before accepted_after.

(* a redex of at least one pass (the non-triviality rule of the check) *)
Definition value_is_literal (v : value) : bool := match v with VVar _ => false | _ => true end.
Fixpoint sel_has_redex (s : selection) : bool :=
  match s with
  | SSpread _ _ => true
  | SInline _ _ sub => true
  | SField a n args ds sub =>
    match a with Some x => bytes_eqb x n | None => false end ||
    existsb (fun d => bytes_eqb (d_name d) s_skip || bytes_eqb (d_name d) s_include) ds ||
    existsb (fun kv => value_is_literal (snd kv)) args ||
    existsb sel_has_redex sub ||
    negb (Nat.eqb (length (dd_level [] sub)) (length sub))
  end.
Definition doc_has_redex (d : document) : bool :=
  existsb (fun def => match def with
                      | DOp o => existsb sel_has_redex (op_sels o) ||
                                 negb (Nat.eqb (length (dd_level [] (op_sels o))) (length (op_sels o))) ||
                                 existsb (fun vd => match vd_default vd with Some _ => true | None => false end) (op_vars o)
                      | DFrag _ => true
                      end) d.
