(* C03 examples for inline_selections_from_inline_fragments: the hypotheses of the theorem are
   satisfiable by a request with redexes of every kind (condition = enclosing type, condition = an
   interface the enclosing object implements, no condition), and each hypothesis is needed. *)
From Gv Require Import lib.Bytes lib.Json lib.Gql lib.Exec C03.Model C03.Spec
     C03.ProofsExec C03.ProofsRel C03.ProofsDoc C03.ProofsPasses C03.ProofsDedup C03.ProofsMono C03.ProofsCompose
     C03.Examples C03.ProofsInlineExecCong C03.ProofsInlineExecRel C03.ProofsInlineExec C03.ProofsInlineExecDoc.
Open Scope N_scope.

Definition n_I := [73].
Definition n_B := [66].
Definition n_i := [105].
Definition n_b := [98].
Definition n_q := [113].
Definition tdefk (k : type_kind) (n : name) (impl : list name) (fs : list field_def) : type_def :=
  {| td_kind := k; td_name := n; td_implements := impl; td_fields := fs; td_members := [];
     td_enum_values := []; td_input_fields := []; td_dirs := [] |}.
Definition t_ID := TNamed [73;68].
Definition t_String := TNamed [83;116;114;105;110;103].
(* type Query { a: A  i: I  b: B }  interface I { id: ID }  type A implements I { id: ID name: String }  type B { id: ID q: String } *)
Definition S1 : schema :=
  {| s_query := n_Query; s_mutation := None; s_subscription := None;
     s_types := [tdefk KObject n_Query [] [fdef n_a (TNamed n_A); fdef n_i (TNamed n_I); fdef n_b (TNamed n_B)];
                 tdefk KInterface n_I [] [fdef n_id t_ID];
                 tdefk KObject n_A [n_I] [fdef n_id t_ID; fdef n_name t_String];
                 tdefk KObject n_B [] [fdef n_id t_ID; fdef n_q t_String]];
     s_directives := [] |}.
Definition U1 : universe :=
  [ {| en_type := n_Query; en_key := []; en_fields := [(n_a, FRef n_A [49]); (n_i, FRef n_A [49]); (n_b, FRef n_B [50])] |};
    {| en_type := n_A; en_key := [49]; en_fields := [(n_id, FSc (JStr [49])); (n_name, FSc (JStr [110]))] |};
    {| en_type := n_B; en_key := [50]; en_fields := [(n_id, FSc (JStr [50])); (n_q, FSc (JStr [113]))] |} ].
Definition fld (n : name) (sub : list selection) : selection := SField None n [] [] sub.
Definition qdoc (sels : list selection) : document :=
  [ DOp {| op_kind := OpQuery; op_name := None; op_vars := []; op_dirs := []; op_sels := sels |} ].
(* { a { ... on A { id } ... on I { name } ... { id } }  i { ... on I { id } ... on A { name } } } *)
Definition d_inl : document :=
  qdoc [ fld n_a [ SInline (Some n_A) [] [fld n_id []]; SInline (Some n_I) [] [fld n_name []]; SInline None [] [fld n_id []] ];
         fld n_i [ SInline (Some n_I) [] [fld n_id []]; SInline (Some n_A) [] [fld n_name []] ] ].

Example ex_inline_hypotheses :
  static_schema_ok S1 = true /\ types_known S1 d_inl = true /\ keys_agree d_inl = true /\
  inline_sel S1 d_inl = inline_sel_pre_repair S1 d_inl.
Proof. vm_compute. repeat split. Qed.

Example ex_inline_nontrivial :
  inline_sel S1 d_inl =
  qdoc [ fld n_a [ fld n_id []; fld n_name []; fld n_id [] ];
         fld n_i [ fld n_id []; SInline (Some n_A) [] [fld n_name []] ] ] /\
  execute 30 S1 U1 Mono d_inl None (JObj []) =
  {| rs_data := JObj [(n_a, JObj [(n_id, JStr [49]); (n_name, JStr [110])]);
                      (n_i, JObj [(n_id, JStr [49]); (n_name, JStr [110])])]; rs_errs := [] |} /\
  execute 30 S1 U1 Mono (inline_sel S1 d_inl) None (JObj []) = execute 30 S1 U1 Mono d_inl None (JObj []).
Proof. vm_compute. repeat split. Qed.

Example ex_inline_theorem_applies : forall U fuel fuel',
    oof_b (rs_errs (execute fuel S1 U Mono d_inl None (JObj []))) = false ->
    oof_b (rs_errs (execute fuel' S1 U Mono (inline_sel S1 d_inl) None (JObj []))) = false ->
    execute fuel' S1 U Mono (inline_sel S1 d_inl) None (JObj []) = execute fuel S1 U Mono d_inl None (JObj []).
Proof.
  intro U. destruct ex_inline_hypotheses as [H1 [H2 [H3 H4]]].
  exact (inline_sel_preserves_exec_partial S1 U d_inl None (JObj []) H1 H2 H3 H4).
Qed.

(* ---- each hypothesis is needed ---- *)
(* (a) fields that share a response key but name different fields:
       { x: a { ... on A { name } }  x: b { ... on B { q } } }  -- the executor runs both sub-selections on
       the entity of [a] (type A): the fragment on B does not apply; once inlined, [q] is run on A *)
Definition d_keys : document :=
  qdoc [ SField (Some n_x) n_a [] [] [ SInline (Some n_A) [] [fld n_name []] ];
         SField (Some n_x) n_b [] [] [ SInline (Some n_B) [] [fld n_q []] ] ].
Theorem inline_keys_agree_needed :
  static_schema_ok S1 = true /\ types_known S1 d_keys = true /\ keys_agree d_keys = false /\
  inline_sel S1 d_keys = inline_sel_pre_repair S1 d_keys /\
  oof_b (rs_errs (execute 30 S1 U1 Mono d_keys None (JObj []))) = false /\
  oof_b (rs_errs (execute 30 S1 U1 Mono (inline_sel S1 d_keys) None (JObj []))) = false /\
  execute 30 S1 U1 Mono (inline_sel S1 d_keys) None (JObj []) <> execute 30 S1 U1 Mono d_keys None (JObj []).
Proof. vm_compute. repeat split; discriminate. Qed.

(* (b) an undeclared root type: { ... on Query { __typename } } is rejected by the executor
       (unknown type condition) but answered once the fragment is gone *)
Definition S_noroot : schema :=
  {| s_query := n_Query; s_mutation := None; s_subscription := None; s_types := []; s_directives := [] |}.
Definition d_root : document := qdoc [ SInline (Some n_Query) [] [fld s_typename []] ].
Theorem inline_types_known_needed :
  static_schema_ok S_noroot = true /\ types_known S_noroot d_root = false /\ keys_agree d_root = true /\
  inline_sel S_noroot d_root = inline_sel_pre_repair S_noroot d_root /\
  oof_b (rs_errs (execute 30 S_noroot U1 Mono d_root None (JObj []))) = false /\
  oof_b (rs_errs (execute 30 S_noroot U1 Mono (inline_sel S_noroot d_root) None (JObj []))) = false /\
  execute 30 S_noroot U1 Mono (inline_sel S_noroot d_root) None (JObj []) <> execute 30 S_noroot U1 Mono d_root None (JObj []).
Proof. vm_compute. repeat split; discriminate. Qed.

(* (c) a schema whose interface field and implementing field disagree: interface I { r: A },
       type C implements I { r: B }: { i { r { ... on A { name } } } } with i -> C, r -> B *)
Definition n_C := [67].
Definition n_r := [114].
Definition S_cov : schema :=
  {| s_query := n_Query; s_mutation := None; s_subscription := None;
     s_types := [tdefk KObject n_Query [] [fdef n_i (TNamed n_I)];
                 tdefk KInterface n_I [] [fdef n_r (TNamed n_A)];
                 tdefk KObject n_C [n_I] [fdef n_r (TNamed n_B)];
                 tdefk KObject n_A [] [fdef n_name t_String];
                 tdefk KObject n_B [] [fdef n_name t_String]];
     s_directives := [] |}.
Definition U_cov : universe :=
  [ {| en_type := n_Query; en_key := []; en_fields := [(n_i, FRef n_C [49])] |};
    {| en_type := n_C; en_key := [49]; en_fields := [(n_r, FRef n_B [50])] |};
    {| en_type := n_B; en_key := [50]; en_fields := [(n_name, FSc (JStr [110]))] |} ].
Definition d_cov : document := qdoc [ fld n_i [ fld n_r [ SInline (Some n_A) [] [fld n_name []] ] ] ].
Theorem inline_schema_ok_needed :
  static_schema_ok S_cov = false /\ types_known S_cov d_cov = true /\ keys_agree d_cov = true /\
  inline_sel S_cov d_cov = inline_sel_pre_repair S_cov d_cov /\
  oof_b (rs_errs (execute 30 S_cov U_cov Mono d_cov None (JObj []))) = false /\
  oof_b (rs_errs (execute 30 S_cov U_cov Mono (inline_sel S_cov d_cov) None (JObj []))) = false /\
  execute 30 S_cov U_cov Mono (inline_sel S_cov d_cov) None (JObj []) <> execute 30 S_cov U_cov Mono d_cov None (JObj []).
Proof. vm_compute. repeat split; discriminate. Qed.

(* (d) the placeholder repair drops a response key: { a { id ... { __internal_typename: __typename } } } *)
Definition d_ph : document := qdoc [ fld n_a [ fld n_id []; SInline None [] [placeholder] ] ].
Theorem inline_sel_preserves_exec_refuted :
  static_schema_ok S1 = true /\ types_known S1 d_ph = true /\ keys_agree d_ph = true /\
  inline_sel S1 d_ph <> inline_sel_pre_repair S1 d_ph /\
  oof_b (rs_errs (execute 30 S1 U1 Mono d_ph None (JObj []))) = false /\
  oof_b (rs_errs (execute 30 S1 U1 Mono (inline_sel S1 d_ph) None (JObj []))) = false /\
  execute 30 S1 U1 Mono (inline_sel S1 d_ph) None (JObj []) <> execute 30 S1 U1 Mono d_ph None (JObj []) /\
  resp_equiv (execute 30 S1 U1 Mono d_ph None (JObj [])) (execute 30 S1 U1 Mono (inline_sel S1 d_ph) None (JObj [])) = true.
Proof. vm_compute. repeat split; discriminate. Qed.
