From Gv Require Import lib.Bytes lib.Json lib.Gql lib.Exec lib.ExtractAnchor C03.Model C03.Spec.
Require Import ExtrOcamlBasic.
Extraction Language OCaml.
Extraction "model.ml" extraction_anchor execute exec_preserved_b exec_ordered_b orig_executable_b
  idempotent_b canonical_b valid_preserved_b doc_has_redex big_fuel resp_bad strip_internal
  include_skip frag_inline self_alias inline_sel merge_sel remove_frag_defs dedup norm_selections vars_of_json.
