(* C03 proofs, part 10g: inline_fragment_selection_merging is idempotent on every document: its output
   holds no mergeable pair at any level ([merge_settled]). *)
From Gv Require Import lib.Bytes lib.Json lib.Gql lib.Exec C03.Model C03.ProofsDoc C03.ProofsPasses C03.ProofsDedup
     C03.ProofsCompose C03.ProofsInlineExec C03.ProofsInlineIdem C03.ProofsMergeIdem.
From Coq Require Import Lia PeanoNat.
Open Scope N_scope.

Section Idem.
  Variable deq : list directive -> list directive -> bool.
  Notation cm := (can_merge_gen deq).
  Notation mlevel := (merge_level_gen deq).
  Notation msels := (merge_sels_gen deq).

  (* x is y with other sub-selections; for fields, empty iff empty *)
  Definition shape (y x : selection) : Prop :=
    match y, x with
    | SField a n g d sy, SField a' n' g' d' sx => a = a' /\ n = n' /\ g = g' /\ d = d' /\ (sy = [] <-> sx = [])
    | SInline c d _, SInline c' d' _ => c = c' /\ d = d'
    | SSpread n d, SSpread n' d' => n = n' /\ d = d'
    | _, _ => False
    end.
  Lemma shape_refl : forall s, shape s s.
  Proof. destruct s; cbn; repeat split; auto. Qed.
  Lemma shape_trans : forall a b c, shape a b -> shape b c -> shape a c.
  Proof.
    intros [a1 n1 g1 d1 s1|c1 d1 s1|n1 d1] [a2 n2 g2 d2 s2|c2 d2 s2|n2 d2] [a3 n3 g3 d3 s3|c3 d3 s3|n3 d3]; cbn; try tauto.
    - intros [-> [-> [-> [-> H1]]]] [-> [-> [-> [-> H2]]]]. repeat split; auto; tauto.
    - intros [-> ->] [-> ->]. auto.
    - intros [-> ->] [-> ->]. auto.
  Qed.
  Lemma cm_shape : forall a a' b b', shape a a' -> shape b b' -> cm a' b' = cm a b.
  Proof.
    intros [a1 n1 g1 d1 s1|c1 d1 s1|n1 d1] [a2 n2 g2 d2 s2|c2 d2 s2|n2 d2] [a3 n3 g3 d3 s3|c3 d3 s3|n3 d3]
           [a4 n4 g4 d4 s4|c4 d4 s4|n4 d4]; cbn; try tauto; try reflexivity.
    - intros [-> [-> [-> [-> H1]]]] [-> [-> [-> [-> H2]]]].
      destruct s1, s2, s3, s4; try reflexivity;
        try (exfalso; destruct H1 as [H1a H1b]; (discriminate (H1a eq_refl) || discriminate (H1b eq_refl)));
        try (exfalso; destruct H2 as [H2a H2b]; (discriminate (H2a eq_refl) || discriminate (H2b eq_refl))).
    - intros [-> [-> [-> [-> H1]]]] _. destruct s1, s2; reflexivity.
    - intros [-> [-> [-> [-> H1]]]] _. destruct s1, s2; reflexivity.
    - intros [-> ->] [-> ->]. reflexivity.
  Qed.

  Lemma mfree_shape : forall l l', Forall2 shape l l' -> mfree deq l' = mfree deq l.
  Proof.
    induction 1 as [|x x' l l' Hx Hl IH]; [reflexivity|]. cbn [mfree]. rewrite IH. f_equal.
    clear IH. induction Hl as [|y y' l l' Hy Hl IH2]; [reflexivity|]. cbn [forallb]. rewrite IH2, (cm_shape _ _ _ _ Hx Hy). reflexivity.
  Qed.

  Lemma cm_empty_field : forall a n g d x, cm (SField a n g d []) x = false.
  Proof. intros. destruct x; reflexivity. Qed.

  Lemma filter_cm_empty : forall a n g d rest, filter (cm (SField a n g d [])) rest = [].
  Proof. intros. induction rest as [|x r IH]; [reflexivity|]. cbn [filter]. rewrite cm_empty_field. exact IH. Qed.

  Lemma absorb_shape : forall s rest, shape s (fst (absorb_gen deq s rest)).
  Proof.
    intros s rest. unfold absorb_gen. cbn [fst]. destruct s as [a n g d sy|c d sy|n d]; cbn [with_subs sel_subs shape].
    - repeat split; auto.
      + intros ->. rewrite filter_cm_empty. reflexivity.
      + intro H. apply app_eq_nil in H. apply H.
    - split; reflexivity.
    - split; reflexivity.
  Qed.

  Lemma mlevel_elems : forall n l x, In x (mlevel n l) -> exists y, In y l /\ shape y x.
  Proof.
    induction n as [|n IH]; intros l x Hx; cbn [merge_level_gen] in Hx.
    - exists x. split; [exact Hx|apply shape_refl].
    - destruct l as [|s rest]; [destruct Hx|].
      pose proof (absorb_shape s rest) as Hs. unfold absorb_gen in *. cbn [fst] in Hs.
      destruct Hx as [<-|Hx]; [exists s; split; [left; reflexivity|exact Hs]|].
      destruct (IH _ _ Hx) as [y [Hy Hsh]]. apply filter_In in Hy. exists y. split; [right; apply Hy|exact Hsh].
  Qed.

  Lemma mlevel_free : forall n l, (length l <= n)%nat -> mfree deq (mlevel n l) = true.
  Proof.
    induction n as [|n IH]; intros l Hlen.
    - destruct l; [reflexivity|cbn in Hlen; lia].
    - destruct l as [|s rest]; [reflexivity|]. cbn [merge_level_gen]. unfold absorb_gen.
      pose proof (absorb_shape s rest) as Hs. unfold absorb_gen in Hs. cbn [fst] in Hs.
      cbn [mfree]. rewrite IH.
      + rewrite Bool.andb_true_r. apply forallb_forall. intros x Hx.
        destruct (mlevel_elems _ _ _ Hx) as [y [Hy Hsh]]. apply filter_In in Hy. destruct Hy as [_ Hy].
        rewrite (cm_shape _ _ _ _ Hs Hsh). exact Hy.
      + pose proof (filter_length_le _ (fun x => negb (cm s x)) rest). cbn in Hlen. lia.
  Qed.

  (* sizes *)
  Lemma sels_size_app : forall a b, sels_size (a ++ b) = (sels_size a + sels_size b)%nat.
  Proof. induction a as [|x a IH]; intro b; [reflexivity|]. cbn [app]. rewrite !sels_size_cons, IH. lia. Qed.
  Lemma subs_size : forall s, (sels_size (sel_subs s) + 1 <= sel_size s)%nat.
  Proof. destruct s as [a n g d ss|c d ss|n d]; cbn [sel_subs sel_size]; try fold (sels_size ss); [lia|lia|cbn; lia]. Qed.
  Lemma flat_subs_size : forall l, (sels_size (flat_map sel_subs l) <= sels_size l)%nat.
  Proof.
    induction l as [|x l IH]; [cbn; lia|]. cbn [flat_map]. rewrite sels_size_app, sels_size_cons.
    pose proof (subs_size x). lia.
  Qed.
  Lemma filter_size_split : forall (m : selection -> bool) l,
      (sels_size (filter m l) + sels_size (filter (fun x => negb (m x)) l) = sels_size l)%nat.
  Proof.
    induction l as [|x l IH]; [reflexivity|]. cbn [filter]. destruct (m x); cbn [negb]; rewrite !sels_size_cons; lia.
  Qed.
  Lemma with_subs_size : forall s sx, (sel_size (with_subs s sx) <= sel_size s + sels_size sx)%nat.
  Proof. destruct s as [a n g d ss|c d ss|n d]; intro sx; cbn [with_subs sel_size]; try fold (sels_size sx); try fold (sels_size ss); lia. Qed.
  Lemma with_subs_size_eq : forall s sx, (sel_size (with_subs s (sel_subs s ++ sx)) <= sel_size s + sels_size sx)%nat.
  Proof.
    destruct s as [a n g d ss|c d ss|n d]; intro sx; cbn [with_subs sel_subs sel_size]; try fold (sels_size (ss ++ sx)); try fold (sels_size ss);
      try rewrite sels_size_app; lia.
  Qed.
  Lemma mlevel_size : forall n l, (sels_size (mlevel n l) <= sels_size l)%nat.
  Proof.
    induction n as [|n IH]; intro l; cbn [merge_level_gen]; [lia|].
    destruct l as [|s rest]; [lia|]. unfold absorb_gen. rewrite !sels_size_cons.
    pose proof (with_subs_size_eq s (flat_map sel_subs (filter (cm s) rest))).
    pose proof (flat_subs_size (filter (cm s) rest)).
    pose proof (filter_size_split (cm s) rest).
    pose proof (IH (filter (fun x => negb (cm s x)) rest)). lia.
  Qed.

  Lemma msels_nonempty : forall f l, msels f l = [] <-> l = [].
  Proof.
    intros f l. destruct f as [|f]; cbn [merge_sels_gen]; [tauto|].
    destruct l as [|s rest]; [cbn; tauto|]. cbn [length merge_level_gen]. unfold absorb_gen. cbn [map]. split; discriminate.
  Qed.

  Definition child (f : nat) (s : selection) : selection :=
    match s with SSpread _ _ => s | _ => with_subs s (msels f (sel_subs s)) end.
  Lemma child_shape : forall f s, shape s (child f s).
  Proof.
    intros f s. destruct s as [a n g d sy|c d sy|n d]; cbn; repeat split; auto.
    - intros ->. apply msels_nonempty. reflexivity.
    - intro H. apply msels_nonempty in H. exact H.
  Qed.

  Lemma msels_settled_out : forall f l, (sels_size l < f)%nat -> msettled deq (msels f l) = true.
  Proof.
    induction f as [|f IH]; intros l Hsz; [lia|].
    change (msels (Datatypes.S f) l) with (map (child f) (mlevel (length l) l)).
    unfold msettled. apply andb_true_intro. split.
    - rewrite (mfree_shape (mlevel (length l) l)); [apply mlevel_free; apply le_n|].
      induction (mlevel (length l) l) as [|x r IHr]; constructor; [apply child_shape|exact IHr].
    - apply forallb_forall. intros x' Hx'. apply in_map_iff in Hx'. destruct Hx' as [x [<- Hx]].
      pose proof (in_sels_size _ _ Hx) as H1. pose proof (mlevel_size (length l) l) as H2. pose proof (subs_size x) as H3.
      assert (Hs : msettled deq (msels f (sel_subs x)) = true) by (apply IH; lia).
      destruct x as [a n g d sy|c d sy|n d]; cbn [child with_subs sel_subs msettled_sel] in *; [exact Hs|exact Hs|reflexivity].
  Qed.

  Theorem merge_sel_gen_idempotent : forall d, merge_sel_gen deq (merge_sel_gen deq d) = merge_sel_gen deq d.
  Proof.
    intro d. apply merge_sel_settled_fix. unfold merge_settled. apply forallb_forall. intros def Hin.
    unfold merge_sel_gen, map_doc_sels in Hin. apply in_map_iff in Hin. destruct Hin as [def0 [<- _]].
    destruct def0 as [o|fr]; cbn [def_sels op_sels fr_sels]; apply msels_settled_out; lia.
  Qed.
End Idem.

Theorem merge_sel_idempotent : forall d, merge_sel (merge_sel d) = merge_sel d.
Proof. exact (merge_sel_gen_idempotent dirs_eqb). Qed.
