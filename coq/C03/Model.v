(* C03 model: the selection-set passes of astnormalization as functions on the tree AST, each
   with the firing rule of the Go pass it mirrors, in the order of setupOperationWalkers:

     include_skip        directive_include_skip.go            (+ placeholder when a set empties)
     frag_inline         fragment_spread_inlining.go
     self_alias          remove_self_aliasing.go
     inline_sel          inline_selections_from_inline_fragments.go
     merge_sel           inline_fragment_selection_merging.go  (fields with sub-selections are merged when
                          name, alias, ARGUMENTS and directives agree: the working tree of /repo at commit
                          a156714 "do not merge fields that differ in their arguments"; before that
                          commit the arguments were not compared)
     remove_frag_defs    fragment_definition_removal.go
     dedup               field_deduplication.go + ast.FieldsAreEqualFlat

   The Go passes are "find the first redex, rewrite, revisit" loops over an index based AST; the
   functions below compute the fixpoint of that loop directly.  No proofs in this file. *)
From Gv Require Import lib.Bytes lib.Json lib.Gql lib.Exec.
Open Scope N_scope.

(* ------------------------------------------------------------------ schema helpers *)
Definition type_kind_of (S : schema) (n : name) : option type_kind :=
  match find_type n (s_types S) with Some t => Some (td_kind t) | None => None end.
Definition implements_of (S : schema) (n : name) : list name :=
  match find_type n (s_types S) with Some t => td_implements t | None => [] end.
Definition members_of (S : schema) (n : name) : list name :=
  match find_type n (s_types S) with Some t => td_members t | None => [] end.
Definition is_kind (S : schema) (n : name) (k : type_kind) : bool :=
  match type_kind_of S n, k with
  | Some KObject, KObject | Some KInterface, KInterface | Some KUnion, KUnion => true
  | _, _ => false
  end.
(* object types that list [i] in their implements clause, in schema order *)
Definition object_implementers (S : schema) (i : name) : list name :=
  map td_name (filter (fun t => match td_kind t with KObject => mem_bytes i (td_implements t) | _ => false end) (s_types S)).
(* static type of the sub-selection of field [f] selected on type [T] *)
Definition field_type (S : schema) (T : name) (f : name) : option name :=
  match find_type T (s_types S) with
  | Some td => match find_field f (td_fields td) with Some fd => Some (named_of (fd_type fd)) | None => None end
  | None => None
  end.
Definition sub_type (S : schema) (T : option name) (f : name) : option name :=
  match T with Some t => field_type S t f | None => None end.

(* ------------------------------------------------------------------ syntactic equality (ast.*AreEqual) *)
Fixpoint value_eqb (a b : value) {struct a} : bool :=
  match a, b with
  | VVar x, VVar y => bytes_eqb x y
  | VInt x, VInt y => bytes_eqb x y
  | VFloat x, VFloat y => bytes_eqb x y
  | VStr x bx, VStr y by_ => bytes_eqb x y && Bool.eqb bx by_
  | VBool x, VBool y => Bool.eqb x y
  | VNull, VNull => true
  | VEnum x, VEnum y => bytes_eqb x y
  | VList x, VList y =>
    (fix go (x y : list value) : bool :=
       match x, y with
       | [], [] => true
       | a :: x', b :: y' => value_eqb a b && go x' y'
       | _, _ => false
       end) x y
  | VObj x, VObj y =>
    (fix go (x y : list (name * value)) : bool :=
       match x, y with
       | [], [] => true
       | (ka, a) :: x', (kb, b) :: y' => bytes_eqb ka kb && value_eqb a b && go x' y'
       | _, _ => false
       end) x y
  | _, _ => false
  end.
(* ArgumentSetsAreEquals (after work/c04_fix_args-order-sensitive.patch): same length and, in both
   directions, every argument is equal in value to the FIRST argument of its name on the other side;
   before the repair the lists were compared position by position *)
Definition args_contained (a b : list argument) : bool :=
  forallb (fun x => match assoc (fst x) b with Some w => value_eqb (snd x) w | None => false end) a.
Definition args_eqb (a b : list argument) : bool :=
  Nat.eqb (length a) (length b) && args_contained a b && args_contained b a.
Definition dir_eqb (a b : directive) : bool := bytes_eqb (d_name a) (d_name b) && args_eqb (d_args a) (d_args b).
(* DirectiveSetsAreEqual: equal as multisets (each left directive matched with a distinct right one) *)
Fixpoint remove_first_dir (d : directive) (l : list directive) : option (list directive) :=
  match l with
  | [] => None
  | x :: r => if dir_eqb d x then Some r
              else match remove_first_dir d r with Some r' => Some (x :: r') | None => None end
  end.
Fixpoint dirs_eqb (a b : list directive) : bool :=
  match a with
  | [] => match b with [] => true | _ => false end
  | d :: a' => match remove_first_dir d b with Some b' => dirs_eqb a' b' | None => false end
  end.
Definition opt_name_eqb (a b : option name) : bool :=
  match a, b with
  | None, None => true
  | Some x, Some y => bytes_eqb x y
  | _, _ => false     (* an alias that is defined is never empty in a parsed document *)
  end.

(* ------------------------------------------------------------------ 1. @skip / @include *)
Definition s_internal_typename : bytes :=
  [95;95;105;110;116;101;114;110;97;108;95;116;121;112;101;110;97;109;101].
Definition placeholder : selection := SField (Some s_internal_typename) s_typename [] [] [].

Fixpoint doc_vardefs (d : document) : list vardef :=
  match d with
  | [] => []
  | DOp o :: r => op_vars o ++ doc_vardefs r
  | DFrag _ :: r => doc_vardefs r
  end.

Section IncludeSkip.
  Variable vars : list (bytes * json).      (* the request's variables object *)
  Variable vdefs : list vardef.             (* every variable definition of the document *)

  (* GetBooleanValue: a literal, a variable with a JSON boolean, else the variable's default *)
  Definition var_default_bool (n : name) : option bool :=
    match find (fun vd => bytes_eqb (vd_name vd) n) vdefs with
    | Some vd => match vd_default vd with Some (VBool b) => Some b | _ => None end
    | None => None
    end.
  Definition cond_value (v : value) : option bool :=
    match v with
    | VBool b => Some b
    | VVar n => match assoc n vars with Some (JBool b) => Some b | _ => var_default_bool n end
    | _ => None
    end.
  (* handleSkip / handleInclude: exactly one argument, named "if", with a known value *)
  Inductive dverdict := DRemoveNode | DDropDirective | DKeep.
  Definition dir_verdict (d : directive) : dverdict :=
    let isskip := bytes_eqb (d_name d) s_skip in
    let isinc := bytes_eqb (d_name d) s_include in
    if isskip || isinc then
      match d_args d with
      | [(an, v)] =>
        if bytes_eqb an s_if then
          match cond_value v with
          | Some b => if isskip then (if b then DRemoveNode else DDropDirective)
                      else (if b then DDropDirective else DRemoveNode)
          | None => DKeep
          end
        else DKeep
      | _ => DKeep
      end
    else DKeep.
  (* None: the node is removed; Some ds: the directives that stay.
     BEFORE THE REPAIR the walker ranged over the directive refs it saw when it entered the node
     (`for _, i := range Directives.Refs`, slice header copied) while RemoveDirectiveFromNode deletes
     from that same backing array in place (`append(refs[:i], refs[i+1:]...)`): after a directive is
     dropped at position k the loop's next read, position k+1, already holds what was at k+2 -- the
     directive that followed the dropped one is not visited in this walk whenever at least two more
     follow it, and the last one is visited twice.  [b] is the backing array (each directive tagged
     with its original position = its ref), its first [m] cells are the node's live directive list. *)
  Definition del_at {A : Type} (i m : nat) (b : list A) : list A :=
    firstn i b ++ skipn (Datatypes.S i) (firstn m b) ++ skipn (pred m) b.
  Fixpoint index_of (id : nat) (l : list (nat * directive)) : option nat :=
    match l with
    | [] => None
    | (j, _) :: r => if Nat.eqb id j then Some O
                     else match index_of id r with Some i => Some (Datatypes.S i) | None => None end
    end.
  Fixpoint walk_dirs (todo k m : nat) (b : list (nat * directive)) : option (list directive) :=
    match todo with
    | O => Some (map snd (firstn m b))
    | Datatypes.S t =>
      match nth_error b k with
      | None => Some (map snd (firstn m b))
      | Some (id, d) =>
        match dir_verdict d with
        | DRemoveNode => None
        | DKeep => walk_dirs t (Datatypes.S k) m b
        | DDropDirective =>
          match index_of id (firstn m b) with
          | Some i => walk_dirs t (Datatypes.S k) (pred m) (del_at i m b)
          | None => walk_dirs t (Datatypes.S k) m b
          end
        end
      end
    end.
  Definition eval_dirs_aliased (ds : list directive) : option (list directive) :=
    let n := length ds in
    walk_dirs n O n (combine (seq O n) ds).
  (* The repaired walker (work/c03_fix_directive-after-dropped-directive-not-visited.patch) ranges over
     a copy of the directive refs: every directive is visited once, in order. *)
  Fixpoint eval_dirs_copy (ds : list directive) : option (list directive) :=
    match ds with
    | [] => Some []
    | d :: r =>
      match dir_verdict d with
      | DRemoveNode => None
      | DDropDirective => eval_dirs_copy r
      | DKeep => match eval_dirs_copy r with Some r' => Some (d :: r') | None => None end
      end
    end.
  (* [aliased = true]: the walker before the repair *)
  Variable aliased : bool.
  Definition eval_dirs (ds : list directive) : option (list directive) :=
    if aliased then eval_dirs_aliased ds else eval_dirs_copy ds.

  (* One walk over a node (None: the node was removed), and walkSelectionSet: the children are
     walked in order; as soon as one of them is removed the selection refs have changed and the
     walker starts over with the first child (`continue RefsChanged`) -- children walked before
     are walked again, which is when a directive skipped by the first walk gets its turn.  A set
     that becomes empty receives the placeholder at once. *)
  Fixpoint is_node (fuel : nat) (s : selection) : option selection :=
    match fuel with
    | O => Some s
    | Datatypes.S f =>
      match s with
      | SField a n args ds sub =>
        match eval_dirs ds with
        | None => None
        | Some ds' => Some (SField a n args ds' (is_set f sub))
        end
      | SInline c ds sub =>
        match eval_dirs ds with
        | None => None
        | Some ds' => Some (SInline c ds' (is_set f sub))
        end
      | SSpread fn ds =>
        match eval_dirs ds with
        | None => None
        | Some ds' => Some (SSpread fn ds')
        end
      end
    end
  with is_set (fuel : nat) (l : list selection) : list selection :=
    match fuel with
    | O => l
    | Datatypes.S f =>
      let '(l', removed) :=
          (fix pass (l : list selection) : list selection * bool :=
             match l with
             | [] => ([], false)
             | s :: r =>
               match is_node f s with
               | None => (r, true)
               | Some s' => let '(r', b) := pass r in (s' :: r', b)
               end
             end) l in
      if removed then is_set f (match l' with [] => [placeholder] | _ :: _ => l' end) else l'
    end.
  Definition is_sels (fuel : nat) (l : list selection) : list selection := is_set fuel l.
End IncludeSkip.

Definition include_skip_fuel (d : document) : nat := (2 * doc_size d + 4)%nat.
Definition include_skip_gen (aliased : bool) (vars : list (bytes * json)) (d : document) : document :=
  let vdefs := doc_vardefs d in
  let fuel := include_skip_fuel d in
  map (fun def => match def with
                  | DOp o => DOp {| op_kind := op_kind o; op_name := op_name o; op_vars := op_vars o;
                                    op_dirs := op_dirs o; op_sels := is_sels vars vdefs aliased fuel (op_sels o) |}
                  | DFrag f => DFrag {| fr_name := fr_name f; fr_type := fr_type f; fr_dirs := fr_dirs f;
                                        fr_sels := is_sels vars vdefs aliased fuel (fr_sels f) |}
                  end) d.
(* the repaired pass (tied to the Go code by corr:C03/include_skip) and the pass before the repair *)
Definition include_skip : list (bytes * json) -> document -> document := include_skip_gen false.
Definition include_skip_pre_repair : list (bytes * json) -> document -> document := include_skip_gen true.

(* ------------------------------------------------------------------ 2. fragment spread inlining *)
Definition any_mem (a b : list name) : bool := existsb (fun x => mem_bytes x b) a.

(* replaceFragmentSpread's switch: may a fragment on F be spread inside a selection set of type P *)
Definition spread_replaceable (S : schema) (P F : name) : bool :=
  match type_kind_of S F with
  | None => false
  | Some kf =>
    bytes_eqb P F ||
    match type_kind_of S P, kf with
    | Some KObject, KInterface => mem_bytes F (implements_of S P)
    | Some KObject, KUnion => mem_bytes P (members_of S F)
    | Some KInterface, KInterface =>
      any_mem (object_implementers S F) (object_implementers S P) || mem_bytes P (implements_of S F)
    | Some KInterface, KObject => mem_bytes P (implements_of S F)
    | Some KInterface, KUnion =>
      existsb (fun m => is_kind S m KObject && mem_bytes P (implements_of S m)) (members_of S F)
    | Some KUnion, KInterface =>
      existsb (fun m => is_kind S m KObject && mem_bytes F (implements_of S m)) (members_of S P)
    | Some KUnion, KObject => mem_bytes F (members_of S P)
    (* work/c04_fix_union-fragment-in-union-rejected.patch: UnionNodeIntersectsUnionNode *)
    | Some KUnion, KUnion => existsb (fun m => is_kind S m KObject && mem_bytes m (members_of S F)) (members_of S P)
    | _, _ => false
    end
  end.

Section FragInline.
  Variable S : schema.
  Variable frags : list fragment.

  (* fuel bounds the nesting of fragment definitions; with no fuel left a spread stays *)
  Fixpoint fi_sel (fuel : nat) (T : option name) (s : selection) : selection :=
    match fuel with
    | O => s
    | Datatypes.S f =>
      match s with
      | SField a n args ds sub => SField a n args ds (map (fi_sel f (sub_type S T n)) sub)
      | SInline c ds sub => SInline c ds (map (fi_sel f (match c with Some x => Some x | None => T end)) sub)
      | SSpread fn ds =>
        match T, find_frag fn frags with
        | Some P, Some fr =>
          if spread_replaceable S P (fr_type fr)
          then SInline (Some (fr_type fr)) ds (map (fi_sel f (Some (fr_type fr))) (fr_sels fr))
          else s
        | _, _ => s
        end
      end
    end.
End FragInline.

Definition frag_inline_fuel (d : document) : nat := (2 * doc_size d + length d + 2)%nat.
Definition frag_inline (S : schema) (d : document) : document :=
  let frags := doc_frags d in
  let fuel := frag_inline_fuel d in
  map (fun def => match def with
                  | DOp o => DOp {| op_kind := op_kind o; op_name := op_name o; op_vars := op_vars o; op_dirs := op_dirs o;
                                    op_sels := map (fi_sel S frags fuel (root_type S (op_kind o))) (op_sels o) |}
                  | DFrag f => DFrag f
                  end) d.

(* ------------------------------------------------------------------ 3. self aliasing *)
Fixpoint sa_sel (s : selection) : selection :=
  match s with
  | SField a n args ds sub =>
    let a' := match a with Some x => if bytes_eqb n x then None else a | None => None end in
    SField a' n args ds (map sa_sel sub)
  | SInline c ds sub => SInline c ds (map sa_sel sub)
  | SSpread f ds => s
  end.
Definition map_doc_sels (f : list selection -> list selection) (d : document) : document :=
  map (fun def => match def with
                  | DOp o => DOp {| op_kind := op_kind o; op_name := op_name o; op_vars := op_vars o;
                                    op_dirs := op_dirs o; op_sels := f (op_sels o) |}
                  | DFrag fr => DFrag {| fr_name := fr_name fr; fr_type := fr_type fr; fr_dirs := fr_dirs fr;
                                         fr_sels := f (fr_sels fr) |}
                  end) d.
Definition self_alias (d : document) : document := map_doc_sels (map sa_sel) d.

(* ------------------------------------------------------------------ 4. inline selections from inline fragments *)
Section InlineSel.
  Variable S : schema.
  Definition object_implements (T i : name) : bool :=
    is_kind S T KObject && mem_bytes i (implements_of S T).
  (* couldInline *)
  Definition could_inline (T : option name) (c : option name) (ds : list directive) (sub : list selection) : bool :=
    match ds with
    | _ :: _ => false
    | [] =>
      match c with
      | None => true
      | Some cn =>
        match T with
        | None => false
        | Some tn =>
          bytes_eqb cn tn ||
          (object_implements tn cn &&
           forallb (fun x => match x with
                             | SInline (Some nc) _ _ => bytes_eqb nc tn || object_implements tn nc
                             | SInline None _ _ => false    (* the nested fragment's condition name is empty *)
                             | _ => true
                             end) sub)
        end
      end
    end.
  (* the fragment holds nothing but the placeholder directiveIncludeSkip left in it *)
  Definition is_placeholder_only (sub : list selection) : bool :=
    match sub with
    | [SField (Some al) _ _ _ _] => bytes_eqb al s_internal_typename
    | _ => false
    end.
  (* [drop_placeholder = true]: the repaired pass
     (work/c03_fix_placeholder-left-after-fragment-inlining.patch) *)
  Variable drop_placeholder : bool.
  (* EnterSelectionSet: the first inlinable fragment from the left is resolved -- its selections
     take its place, or, when it holds only the placeholder and the set has other selections, it is
     removed -- and the scan starts over.  [done] holds the selections already scanned (none of them
     an inlinable fragment), [todo] the rest. *)
  Fixpoint il_level (fuel : nat) (T : option name) (done todo : list selection) : list selection :=
    match fuel with
    | O => done ++ todo
    | Datatypes.S f =>
      match todo with
      | [] => done
      | SInline c ds sub :: r =>
        if could_inline T c ds sub then
          if drop_placeholder && Nat.ltb 1 (length done + length todo) && is_placeholder_only sub
          then il_level f T done r
          else il_level f T done (sub ++ r)
        else il_level f T (done ++ [SInline c ds sub]) r
      | x :: r => il_level f T (done ++ [x]) r
      end
    end.
  (* then the walker descends into what is left *)
  Fixpoint il_sels (fuel : nat) (T : option name) (l : list selection) : list selection :=
    match fuel with
    | O => l
    | Datatypes.S f =>
      map (fun s => match s with
                    | SField a n args ds sub => SField a n args ds (il_sels f (sub_type S T n) sub)
                    | SInline c ds sub => SInline c ds (il_sels f (match c with Some x => Some x | None => T end) sub)
                    | SSpread _ _ => s
                    end) (il_level (Datatypes.S (sels_size l)) T [] l)
    end.
End InlineSel.
Definition inline_sel_gen (drop_placeholder : bool) (S : schema) (d : document) : document :=
  map (fun def => match def with
                  | DOp o => DOp {| op_kind := op_kind o; op_name := op_name o; op_vars := op_vars o; op_dirs := op_dirs o;
                                    op_sels := il_sels S drop_placeholder (Datatypes.S (sels_size (op_sels o)))
                                                       (root_type S (op_kind o)) (op_sels o) |}
                  | DFrag fr => DFrag {| fr_name := fr_name fr; fr_type := fr_type fr; fr_dirs := fr_dirs fr;
                                         fr_sels := il_sels S drop_placeholder (Datatypes.S (sels_size (fr_sels fr)))
                                                            (Some (fr_type fr)) (fr_sels fr) |}
                  end) d.
Definition inline_sel : schema -> document -> document := inline_sel_gen true.
Definition inline_sel_pre_repair : schema -> document -> document := inline_sel_gen false.

(* ------------------------------------------------------------------ 5. merging of inline fragments and of fields with selections *)
(* [deq] is the comparison of two directive lists: [dirs_eqb] (multisets, as
   ast.DirectiveSetsAreEqual) in the model of the code; the set-semantics variant [dirs_eqb_set]
   only serves the refutation [c03_merge_dirs_as_set_refuted] *)
Definition dirs_eqb_set (a b : list directive) : bool :=
  Nat.eqb (length a) (length b) && forallb (fun d => existsb (dir_eqb d) b) a.
Definition sel_subs (s : selection) : list selection :=
  match s with SField _ _ _ _ sub => sub | SInline _ _ sub => sub | SSpread _ _ => [] end.
Definition with_subs (s : selection) (sub : list selection) : selection :=
  match s with
  | SField a n args ds _ => SField a n args ds sub
  | SInline c ds _ => SInline c ds sub
  | SSpread _ _ => s
  end.
Section MergeGen.
  Variable deq : list directive -> list directive -> bool.
  (* may [r] be merged into [l] (same selection set, [l] first) *)
  Definition can_merge_gen (l r : selection) : bool :=
    match l, r with
    | SInline c1 d1 _, SInline c2 d2 _ => opt_name_eqb c1 c2 && deq d1 d2
    | SField a1 n1 g1 d1 (_ :: _), SField a2 n2 g2 d2 (_ :: _) =>
      bytes_eqb n1 n2 && opt_name_eqb a1 a2 && args_eqb g1 g2 && deq d1 d2
    | _, _ => false
    end.
  (* s absorbs, in order, every later selection it can merge with *)
  Definition absorb_gen (s : selection) (rest : list selection) : selection * list selection :=
    (with_subs s (sel_subs s ++ flat_map sel_subs (filter (can_merge_gen s) rest)),
     filter (fun x => negb (can_merge_gen s x)) rest).
  Fixpoint merge_level_gen (fuel : nat) (l : list selection) : list selection :=
    match fuel with
    | O => l
    | Datatypes.S f =>
      match l with
      | [] => []
      | s :: rest => let '(s', rest') := absorb_gen s rest in s' :: merge_level_gen f rest'
      end
    end.
  Fixpoint merge_sels_gen (fuel : nat) (l : list selection) : list selection :=
    match fuel with
    | O => l
    | Datatypes.S f =>
      map (fun s => match s with
                    | SSpread _ _ => s
                    | _ => with_subs s (merge_sels_gen f (sel_subs s))
                    end) (merge_level_gen (length l) l)
    end.
  Definition merge_sel_gen (d : document) : document :=
    map_doc_sels (fun l => merge_sels_gen (Datatypes.S (sels_size l)) l) d.
End MergeGen.
Definition can_merge : selection -> selection -> bool := can_merge_gen dirs_eqb.
Definition merge_sel : document -> document := merge_sel_gen dirs_eqb.
(* not the code of /repo: the merging pass if directive lists were compared as sets *)
Definition merge_sel_dirs_as_set : document -> document := merge_sel_gen dirs_eqb_set.

(* ------------------------------------------------------------------ 6. removal of unused fragment definitions *)
(* spreads reachable without entering a fragment definition (the visitor skips those) *)
Fixpoint spreads_of (s : selection) : list name :=
  match s with
  | SField _ _ _ _ sub => flat_map spreads_of sub
  | SInline _ _ sub => flat_map spreads_of sub
  | SSpread f _ => [f]
  end.
Definition remove_frag_defs (d : document) : document :=
  let used := flat_map (fun o => flat_map spreads_of (op_sels o)) (doc_ops d) in
  filter (fun def => match def with DOp _ => true | DFrag f => mem_bytes (fr_name f) used end) d.

(* ------------------------------------------------------------------ 7. field deduplication *)
(* FieldsAreEqualFlat(left, right, true) for two leaf fields *)
Definition flat_eqb (l r : selection) : bool :=
  match l, r with
  | SField a1 n1 g1 d1 [], SField a2 n2 g2 d2 [] =>
    bytes_eqb n1 n2 && opt_name_eqb a1 a2 && args_eqb g1 g2 && dirs_eqb d1 d2
  | _, _ => false
  end.
(* a selection is dropped when an earlier selection of the same set is flat-equal to it *)
Fixpoint dd_level (seen : list selection) (l : list selection) : list selection :=
  match l with
  | [] => []
  | s :: r => if existsb (fun x => flat_eqb x s) seen then dd_level seen r else s :: dd_level (seen ++ [s]) r
  end.
Fixpoint dd_sel (s : selection) : selection :=
  match s with
  | SField a n args ds sub => SField a n args ds (dd_level [] (map dd_sel sub))
  | SInline c ds sub => SInline c ds (dd_level [] (map dd_sel sub))
  | SSpread _ _ => s
  end.
Definition dd_sels (l : list selection) : list selection := dd_level [] (map dd_sel l).
Definition dedup (d : document) : document := map_doc_sels dd_sels d.

(* ------------------------------------------------------------------ composition (the selection part of the first engine stage) *)
Definition norm_selections (S : schema) (vars : list (bytes * json)) (d : document) : document :=
  dedup (remove_frag_defs (merge_sel (inline_sel S (self_alias (frag_inline S (include_skip vars d)))))).
(* the same with the two passes as they were before their repairs *)
Definition norm_selections_pre_repair (S : schema) (vars : list (bytes * json)) (d : document) : document :=
  dedup (remove_frag_defs (merge_sel (inline_sel_pre_repair S (self_alias (frag_inline S (include_skip_pre_repair vars d)))))).

Definition vars_of_json (j : json) : list (bytes * json) := match j with JObj m => m | _ => [] end.
