(* C03 proofs, part 2: a syntactic relation on selections that the reference executor cannot
   distinguish.  [lrel l l'] : l' is l where, at any depth,
     - a field's alias may change as long as the response name stays,
     - directive lists may change as long as @skip/@include evaluate the same,
     - selections whose directives exclude them may be dropped,
     - a fragment spread may be replaced by an inline fragment on the fragment's type holding
       (a related copy of) the fragment's selections.
   The fragment environments of the two sides may differ by related bodies. *)
From Gv Require Import lib.Bytes lib.Json lib.Gql lib.Exec C03.ProofsExec.
From Coq Require Import Lia PeanoNat.
Open Scope N_scope.

Definition sel_dirs (s : selection) : list directive :=
  match s with SField _ _ _ d _ => d | SInline _ d _ => d | SSpread _ d => d end.
Definition field_subs (s : selection) : list selection :=
  match s with SField _ _ _ _ ss => ss | _ => [] end.

Section Rel.
  Variable S : schema.
  Variable U : universe.
  Variable frags frags' : list fragment.
  Variable vars : list (bytes * json).

  Inductive srel : selection -> selection -> Prop :=
  | sr_field : forall a a' n args ds ds' sub sub',
      response_name a n = response_name a' n ->
      included vars ds = included vars ds' ->
      lrel sub sub' ->
      srel (SField a n args ds sub) (SField a' n args ds' sub')
  | sr_inline : forall c ds ds' sub sub',
      included vars ds = included vars ds' ->
      lrel sub sub' ->
      srel (SInline c ds sub) (SInline c ds' sub')
  | sr_spread : forall n ds ds',
      included vars ds = included vars ds' ->
      srel (SSpread n ds) (SSpread n ds')
  | sr_spread_inline : forall n ds ds' fr sub',
      find_frag n frags = Some fr ->
      kind_of S (fr_type fr) <> None ->
      included vars ds = included vars ds' ->
      lrel (fr_sels fr) sub' ->
      srel (SSpread n ds) (SInline (Some (fr_type fr)) ds' sub')
  with lrel : list selection -> list selection -> Prop :=
  | lr_nil : lrel [] []
  | lr_cons : forall s s' l l', srel s s' -> lrel l l' -> lrel (s :: l) (s' :: l')
  | lr_drop : forall s l l', included vars (sel_dirs s) = false -> lrel l l' -> lrel (s :: l) l'.

  (* the second environment holds related bodies under the same names and types *)
  Definition frags_rel : Prop :=
    forall n,
      match find_frag n frags with
      | Some fr => exists fr', find_frag n frags' = Some fr' /\ fr_type fr' = fr_type fr /\ lrel (fr_sels fr) (fr_sels fr')
      | None => find_frag n frags' = None
      end.
  Hypothesis Hfr : frags_rel.

  Lemma lrel_app : forall a a', lrel a a' -> forall b b', lrel b b' -> lrel (a ++ b) (a' ++ b').
  Proof.
    induction 1; intros b b' Hb; cbn.
    - exact Hb.
    - apply lr_cons; auto.
    - apply lr_drop; auto.
  Qed.

  Lemma srel_key : forall s s', srel s s' -> sel_key s = sel_key s'.
  Proof. intros s s' H; destruct H; cbn; auto. Qed.
  Lemma srel_fsig : forall s s', srel s s' -> fsig s = fsig s'.
  Proof. intros s s' H; destruct H; cbn; auto. Qed.
  Lemma srel_subs : forall s s', srel s s' -> lrel (field_subs s) (field_subs s').
  Proof. intros s s' H; destruct H; cbn; auto; apply lr_nil. Qed.

  (* ---- flatten ---- *)
  Definition flat_here (fr : list fragment) (f : nat) (objty : name) (s : selection) : flat :=
    match s with
    | SField _ _ _ dirs _ => if included vars dirs then FlatOk [s] else FlatOk []
    | SInline cond dirs sub =>
      if negb (included vars dirs) then FlatOk []
      else match cond with
           | None => flatten S fr vars f objty sub
           | Some c =>
             match kind_of S c with
             | None => if bytes_eqb c [95;69;110;116;105;116;121] then flatten S fr vars f objty sub
                       else FlatBad (XInvalid c)
             | Some _ => if type_applies S objty c then flatten S fr vars f objty sub else FlatOk []
             end
           end
    | SSpread n dirs =>
      if negb (included vars dirs) then FlatOk []
      else match find_frag n fr with
           | None => FlatBad (XInvalid n)
           | Some fd => if type_applies S objty (fr_type fd) then flatten S fr vars f objty (fr_sels fd) else FlatOk []
           end
    end.
  Definition flat_seq (a b : flat) : flat :=
    match a with
    | FlatBad e => FlatBad e
    | FlatOk l1 => match b with FlatBad e => FlatBad e | FlatOk l2 => FlatOk (l1 ++ l2) end
    end.
  Lemma flatten_S_cons : forall fr f objty s rest,
      flatten S fr vars (Datatypes.S f) objty (s :: rest) =
      flat_seq (flat_here fr f objty s) (flatten S fr vars f objty rest).
  Proof. intros. destruct s; reflexivity. Qed.
  Lemma flatten_S_nil : forall fr f objty, flatten S fr vars (Datatypes.S f) objty [] = FlatOk [].
  Proof. reflexivity. Qed.
  Lemma flatten_O : forall fr objty l, flatten S fr vars O objty l = FlatBad XOutOfFuel.
  Proof. reflexivity. Qed.

  Definition not_oof (r : flat) : Prop := r <> FlatBad XOutOfFuel.

  Lemma flatten_mono : forall fr f objty l,
      not_oof (flatten S fr vars f objty l) ->
      flatten S fr vars (Datatypes.S f) objty l = flatten S fr vars f objty l.
  Proof.
    intros fr. induction f as [|f IH]; intros objty l H.
    - exfalso. apply H. reflexivity.
    - destruct l as [|s rest]; [reflexivity|].
      rewrite flatten_S_cons in H. rewrite (flatten_S_cons fr (Datatypes.S f)). rewrite flatten_S_cons.
      assert (Hh : not_oof (flat_here fr f objty s)).
      { intro E. apply H. rewrite E. reflexivity. }
      assert (Eh : flat_here fr (Datatypes.S f) objty s = flat_here fr f objty s).
      { destruct s as [a n args ds sub|c ds sub|n ds]; cbn [flat_here] in *.
        - reflexivity.
        - destruct (negb (included vars ds)); [reflexivity|].
          destruct c as [c|]; [|apply IH; exact Hh].
          destruct (kind_of S c).
          + destruct (type_applies S objty c); [apply IH; exact Hh|reflexivity].
          + destruct (bytes_eqb c _); [apply IH; exact Hh|reflexivity].
        - destruct (negb (included vars ds)); [reflexivity|].
          destruct (find_frag n fr) as [fd|]; [|reflexivity].
          destruct (type_applies S objty (fr_type fd)); [apply IH; exact Hh|reflexivity]. }
      rewrite Eh.
      destruct (flat_here fr f objty s) as [l1|e]; [|reflexivity].
      assert (Hr : not_oof (flatten S fr vars f objty rest)).
      { intro E. apply H. rewrite E. reflexivity. }
      rewrite (IH objty rest Hr). reflexivity.
  Qed.

  Definition flat_rel (r r' : flat) : Prop :=
    match r with
    | FlatOk fl => exists fl', r' = FlatOk fl' /\ Forall2 srel fl fl'
    | FlatBad XOutOfFuel => True
    | FlatBad e => r' = FlatBad e
    end.

  Lemma flat_rel_not_oof : forall r r', flat_rel r r' -> not_oof r -> not_oof r'.
  Proof.
    intros r r' H Hn. destruct r as [fl|e].
    - destruct H as [fl' [E _]]. subst. discriminate.
    - destruct e; cbn in H; subst; try discriminate. exfalso. apply Hn. reflexivity.
  Qed.

  Lemma flat_seq_rel : forall a a' b b', flat_rel a a' -> flat_rel b b' -> flat_rel (flat_seq a b) (flat_seq a' b').
  Proof.
    intros a a' b b' Ha Hb.
    destruct a as [l1|e].
    - destruct Ha as [l1' [E1 F1]]. subst a'.
      destruct b as [l2|e].
      + destruct Hb as [l2' [E2 F2]]. subst b'. cbn. eexists; split; [reflexivity|]. apply Forall2_app; assumption.
      + cbn. destruct e; cbn in Hb; subst; cbn; auto.
    - cbn. destruct e; cbn in Ha; subst; cbn; auto.
  Qed.

  Lemma flatten_rel : forall f objty l l',
      lrel l l' -> flat_rel (flatten S frags vars f objty l) (flatten S frags' vars f objty l').
  Proof.
    induction f as [|f IH]; intros objty l l' H.
    - cbn. exact I.
    - destruct H as [|s s' l l' Hs Hl|s l l' Hd Hl].
      + cbn. eexists; split; [reflexivity|constructor].
      + rewrite !flatten_S_cons. apply flat_seq_rel; [|apply IH; exact Hl].
        destruct Hs as [a a' n args ds ds' sub sub' Hk Hi Hsub|c ds ds' sub sub' Hi Hsub|n ds ds' Hi|n ds ds' fr sub' Hf Hknd Hi Hsub];
          cbn [flat_here]; rewrite <- ?Hi.
        * destruct (included vars ds) eqn:Ei; cbn.
          -- eexists; split; [reflexivity|]. constructor; [|constructor]. apply sr_field; [exact Hk|rewrite Ei; exact Hi|exact Hsub].
          -- eexists; split; [reflexivity|constructor].
        * destruct (negb (included vars ds)); [cbn; eexists; split; [reflexivity|constructor]|].
          destruct c as [c|]; [|apply IH; exact Hsub].
          destruct (kind_of S c).
          -- destruct (type_applies S objty c); [apply IH; exact Hsub|cbn; eexists; split; [reflexivity|constructor]].
          -- destruct (bytes_eqb c _); [apply IH; exact Hsub|reflexivity].
        * destruct (negb (included vars ds)); [cbn; eexists; split; [reflexivity|constructor]|].
          specialize (Hfr n). destruct (find_frag n frags) as [fr|].
          -- destruct Hfr as [fr' [E1 [E2 E3]]]. rewrite E1, E2.
             destruct (type_applies S objty (fr_type fr)); [apply IH; exact E3|cbn; eexists; split; [reflexivity|constructor]].
          -- rewrite Hfr. reflexivity.
        * destruct (negb (included vars ds)); [cbn; eexists; split; [reflexivity|constructor]|].
          rewrite Hf. destruct (kind_of S (fr_type fr)) as [k|]; [|contradiction].
          destruct (type_applies S objty (fr_type fr)); [apply IH; exact Hsub|cbn; eexists; split; [reflexivity|constructor]].
      + rewrite flatten_S_cons.
        assert (Eh : flat_here frags f objty s = FlatOk []).
        { destruct s; cbn [flat_here sel_dirs] in *; rewrite Hd; reflexivity. }
        rewrite Eh. specialize (IH objty l l' Hl).
        destruct (flatten S frags vars f objty l) as [fl|e] eqn:E.
        * assert (Hn : not_oof (flatten S frags' vars f objty l')).
          { eapply flat_rel_not_oof; [exact IH|discriminate]. }
          rewrite (flatten_mono frags' f objty l' Hn). exact IH.
        * assert (Hn : not_oof (FlatBad e) -> not_oof (flatten S frags' vars f objty l')).
          { intro Hx. eapply flat_rel_not_oof; [exact IH|exact Hx]. }
          unfold flat_seq. destruct e as [pth|rsn|].
          -- rewrite (flatten_mono frags' f objty l'); [exact IH|apply Hn; discriminate].
          -- rewrite (flatten_mono frags' f objty l'); [exact IH|apply Hn; discriminate].
          -- exact I.
  Qed.

  (* ---- group ---- *)
  Definition grel0 (g g' : name * selection * list selection) : Prop :=
    fst (fst g) = fst (fst g') /\ fsig (snd (fst g)) = fsig (snd (fst g')) /\ lrel (snd g) (snd g').

  Lemma Forall2_filter_key : forall (p : selection -> bool) l l',
      Forall2 srel l l' -> (forall s s', srel s s' -> p s = p s') ->
      Forall2 srel (filter p l) (filter p l').
  Proof.
    intros p l l' H Hp. induction H; cbn; [constructor|].
    rewrite <- (Hp _ _ H). destruct (p x); [constructor|]; assumption.
  Qed.

  Lemma lrel_flat_map_subs : forall l l', Forall2 srel l l' ->
      lrel (flat_map (fun x => match x with SField _ _ _ _ ss => ss | _ => [] end) l)
           (flat_map (fun x => match x with SField _ _ _ _ ss => ss | _ => [] end) l').
  Proof.
    intros l l' H. induction H; cbn; [apply lr_nil|].
    apply lrel_app; [|exact IHForall2]. exact (srel_subs _ _ H).
  Qed.

  Lemma group_rel : forall n fl fl', Forall2 srel fl fl' -> Forall2 grel0 (group n fl) (group n fl').
  Proof.
    induction n as [|n IH]; intros fl fl' H; [constructor|].
    destruct H as [|s s' rest rest' Hs Hr]; cbn [group]; [constructor|].
    rewrite <- (srel_key _ _ Hs).
    constructor.
    - split; [reflexivity|]. split; [exact (srel_fsig _ _ Hs)|]. cbn [snd].
      apply (lrel_flat_map_subs (s :: _) (s' :: _)). constructor; [exact Hs|].
      apply Forall2_filter_key; [exact Hr|]. intros x x' Hx. rewrite (srel_key _ _ Hx). reflexivity.
    - apply IH. apply Forall2_filter_key; [exact Hr|]. intros x x' Hx. rewrite (srel_key _ _ Hx). reflexivity.
  Qed.

  Lemma Forall2_length' : forall (A B : Type) (R : A -> B -> Prop) l l', Forall2 R l l' -> length l = length l'.
  Proof. induction 1; cbn; congruence. Qed.

  (* ---- the executor does not distinguish related selection lists ---- *)
  Theorem lrel_exec : forall f l l',
      lrel l l' ->
      forall T ov p, le_res (exec_sels S U frags vars Mono f T ov l p) (exec_sels S U frags' vars Mono f T ov l' p).
  Proof.
    induction f as [f IH] using (well_founded_induction Wf_nat.lt_wf).
    intros l l' H T ov p. destruct f as [|f]; [left; reflexivity|].
    rewrite !exec_sels_S.
    pose proof (flatten_rel (Datatypes.S f) T l l' H) as HF.
    destruct (flatten S frags vars (Datatypes.S f) T l) as [fl|e].
    - destruct HF as [fl' [E F2]]. rewrite E.
      rewrite <- (Forall2_length' _ _ _ _ _ F2).
      apply exec_groups_cong.
      pose proof (group_rel (Datatypes.S (length fl)) fl fl' F2) as HG.
      induction HG as [|g g' gs gs' Hg HG IHG]; constructor; [|exact IHG].
      destruct Hg as [Hk [Hs Hl]]. split; [exact Hk|]. split; [exact Hs|].
      intros f' Hlt T' ov' p'. apply IH; [lia|exact Hl].
    - unfold flat_rel in HF. destruct e as [pth|rsn|].
      + rewrite HF. left. reflexivity.
      + rewrite HF. left. reflexivity.
      + right. cbn. left. reflexivity.
  Qed.
End Rel.
