(* C03 proofs, part 10a: inline_fragment_selection_merging -- the strict reading of "preserves the
   executed response" is refuted (merging moves selections forward, which reorders response keys;
   the responses stay equal up to member order), and the pass is idempotent on every document whose
   output holds no mergeable pair. *)
From Gv Require Import lib.Bytes lib.Json lib.Gql lib.Exec C03.Model C03.Spec C03.ProofsDoc C03.ProofsPasses C03.ProofsDedup
     C03.ProofsCompose C03.Examples C03.ProofsInlineExec C03.ExamplesInline C03.ProofsInlineIdem.
From Coq Require Import Lia PeanoNat.
Open Scope N_scope.

Section MSettled.
  Variable deq : list directive -> list directive -> bool.
  Notation cm := (can_merge_gen deq).
  Fixpoint mfree (l : list selection) : bool :=
    match l with
    | [] => true
    | s :: r => forallb (fun x => negb (cm s x)) r && mfree r
    end.
  Fixpoint msettled_sel (s : selection) : bool :=
    match s with
    | SField _ _ _ _ sub => mfree sub && forallb msettled_sel sub
    | SInline _ _ sub => mfree sub && forallb msettled_sel sub
    | SSpread _ _ => true
    end.
  Definition msettled (l : list selection) : bool := mfree l && forallb msettled_sel l.
  Definition merge_settled (d : document) : bool := forallb (fun def => msettled (def_sels def)) d.

  Lemma filter_none_m : forall (m : selection -> bool) r,
      forallb (fun x => negb (m x)) r = true -> filter m r = [] /\ filter (fun x => negb (m x)) r = r.
  Proof.
    induction r as [|x r IH]; cbn; intro H; [split; reflexivity|].
    apply andb_prop in H. destruct H as [Hx Hr]. destruct (IH Hr) as [E1 E2].
    rewrite Hx. apply Bool.negb_true_iff in Hx. rewrite Hx. rewrite E1, E2. split; reflexivity.
  Qed.
  Lemma with_subs_self : forall s, with_subs s (sel_subs s) = s.
  Proof. destruct s; reflexivity. Qed.

  Lemma merge_level_free : forall n l, mfree l = true -> merge_level_gen deq n l = l.
  Proof.
    induction n as [|n IH]; intros l H; cbn [merge_level_gen]; [reflexivity|].
    destruct l as [|s rest]; [reflexivity|].
    cbn [mfree] in H. apply andb_prop in H. destruct H as [Hs Hr].
    unfold absorb_gen. destruct (filter_none_m (cm s) rest Hs) as [E1 E2]. rewrite E1, E2.
    cbn [flat_map]. rewrite app_nil_r, with_subs_self. rewrite (IH rest Hr). reflexivity.
  Qed.

  Lemma msettled_subs : forall s, msettled_sel s = true -> msettled (sel_subs s) = true.
  Proof. destruct s; cbn; intro H; [exact H|exact H|reflexivity]. Qed.

  Lemma merge_sels_settled : forall f l, msettled l = true -> merge_sels_gen deq f l = l.
  Proof.
    induction f as [|f IH]; intros l H; cbn [merge_sels_gen]; [reflexivity|].
    unfold msettled in H. apply andb_prop in H. destruct H as [Hf Hs].
    rewrite (merge_level_free _ l Hf).
    apply map_id_on. intros x Hx. rewrite forallb_forall in Hs. specialize (Hs x Hx).
    destruct x as [a n args ds sub|c ds sub|n ds]; [| |reflexivity].
    - rewrite (IH _ (msettled_subs _ Hs)). reflexivity.
    - rewrite (IH _ (msettled_subs _ Hs)). reflexivity.
  Qed.

  Lemma merge_sel_settled_fix : forall d, merge_settled d = true -> merge_sel_gen deq d = d.
  Proof.
    intros d H. unfold merge_sel_gen, map_doc_sels. apply map_id_on_def. intros def Hin.
    unfold merge_settled in H. rewrite forallb_forall in H. specialize (H def Hin).
    destruct def as [o|fr]; cbn [def_sels] in H.
    - rewrite (merge_sels_settled _ _ H). destruct o; reflexivity.
    - rewrite (merge_sels_settled _ _ H). destruct fr; reflexivity.
  Qed.
End MSettled.

Theorem merge_sel_idempotent_partial : forall d,
    merge_settled dirs_eqb (merge_sel d) = true -> merge_sel (merge_sel d) = merge_sel d.
Proof. intros d H. unfold merge_sel at 1. apply merge_sel_settled_fix. exact H. Qed.

(* ---- strict preservation is refuted ----
   { i { ... on A { name }  id  ... on A { x: id } } }  with i -> an A: the second fragment is merged
   into the first, so [x] is answered before [id]. *)
Definition d_mreorder : document :=
  qdoc [ fld n_i [ SInline (Some n_A) [] [fld n_name []]; fld n_id []; SInline (Some n_A) [] [SField (Some n_x) n_id [] [] []] ] ].
Theorem merge_sel_preserves_exec_refuted :
  merge_sel d_mreorder = qdoc [ fld n_i [ SInline (Some n_A) [] [fld n_name []; SField (Some n_x) n_id [] [] []]; fld n_id [] ] ] /\
  execute 30 S1 U1 Mono d_mreorder None (JObj []) =
    {| rs_data := JObj [(n_i, JObj [(n_name, JStr [110]); (n_id, JStr [49]); (n_x, JStr [49])])]; rs_errs := [] |} /\
  execute 30 S1 U1 Mono (merge_sel d_mreorder) None (JObj []) =
    {| rs_data := JObj [(n_i, JObj [(n_name, JStr [110]); (n_x, JStr [49]); (n_id, JStr [49])])]; rs_errs := [] |} /\
  resp_equiv (execute 30 S1 U1 Mono d_mreorder None (JObj [])) (execute 30 S1 U1 Mono (merge_sel d_mreorder) None (JObj [])) = true.
Proof. vm_compute. repeat split. Qed.

(* the same with fields of an operation that passes validation: the middle [a] carries a directive,
   so it is not merged, and the third [a] jumps over it
     query($t: Boolean!) { a { id }  a @include(if: $t) { name }  a { x: id } }     {"t": true} *)
Definition n_t := [116].
Definition d_freorder : document :=
  [ DOp {| op_kind := OpQuery; op_name := None;
           op_vars := [{| vd_name := n_t; vd_type := TNonNull (TNamed [66;111;111;108;101;97;110]); vd_default := None; vd_dirs := [] |}];
           op_dirs := [];
           op_sels := [ fld n_a [fld n_id []];
                        SField None n_a [] [{| d_name := s_include; d_args := [(s_if, VVar n_t)] |}] [fld n_name []];
                        fld n_a [SField (Some n_x) n_id [] [] []] ] |} ].
Definition v_t : json := JObj [(n_t, JBool true)].
Theorem merge_sel_fields_reorder :
  execute 30 S1 U1 Mono d_freorder None v_t =
    {| rs_data := JObj [(n_a, JObj [(n_id, JStr [49]); (n_name, JStr [110]); (n_x, JStr [49])])]; rs_errs := [] |} /\
  execute 30 S1 U1 Mono (merge_sel d_freorder) None v_t =
    {| rs_data := JObj [(n_a, JObj [(n_id, JStr [49]); (n_x, JStr [49]); (n_name, JStr [110])])]; rs_errs := [] |} /\
  resp_equiv (execute 30 S1 U1 Mono d_freorder None v_t) (execute 30 S1 U1 Mono (merge_sel d_freorder) None v_t) = true.
Proof. vm_compute. repeat split. Qed.

Example merge_sel_idempotent_nontrivial :
  merge_settled dirs_eqb (merge_sel d_mreorder) = true /\ merge_sel d_mreorder <> d_mreorder.
Proof. vm_compute. split; [reflexivity|discriminate]. Qed.
