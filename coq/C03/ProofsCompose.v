(* C03 proofs, part 7: removal of fragment definitions, idempotence of the inlining and of the
   @skip/@include pass, and the composition of the proved passes in engine order. *)
From Gv Require Import lib.Bytes lib.Json lib.Gql lib.Exec C03.Model C03.Spec
     C03.ProofsExec C03.ProofsRel C03.ProofsDoc C03.ProofsPasses C03.ProofsDedup C03.ProofsMono.
From Coq Require Import Lia PeanoNat.
Open Scope N_scope.

(* ------------------------------------------------------------------ spread-free selections *)
Fixpoint sf_sel (s : selection) : bool :=
  match s with
  | SField _ _ _ _ sub => forallb sf_sel sub
  | SInline _ _ sub => forallb sf_sel sub
  | SSpread _ _ => false
  end.
Definition sf_sels (l : list selection) : bool := forallb sf_sel l.
Definition ops_spread_free (d : document) : bool := forallb (fun o => sf_sels (op_sels o)) (doc_ops d).

Section EnvFree.
  Variable S : schema.
  Variable U : universe.
  Variable fr1 fr2 : list fragment.
  Variable vars : list (bytes * json).

  Lemma forallb_app' : forall (A : Type) (p : A -> bool) a b, forallb p (a ++ b) = forallb p a && forallb p b.
  Proof. induction a; cbn; intros; [reflexivity|]. rewrite IHa. apply andb_assoc. Qed.

  Lemma flatten_sf : forall f T l,
      sf_sels l = true ->
      flatten S fr2 vars f T l = flatten S fr1 vars f T l /\
      (forall fl, flatten S fr1 vars f T l = FlatOk fl -> sf_sels fl = true).
  Proof.
    induction f as [|f IH]; intros T l H; [split; [reflexivity|discriminate]|].
    destruct l as [|s rest]; [split; [reflexivity|intros fl E; inversion E; reflexivity]|].
    cbn [sf_sels forallb] in H. apply andb_prop in H. destruct H as [Hs Hr].
    destruct (IH T rest Hr) as [Er Pr].
    rewrite !flatten_S_cons. rewrite Er.
    assert (Hh : flat_here S vars fr2 f T s = flat_here S vars fr1 f T s /\
                 (forall fl, flat_here S vars fr1 f T s = FlatOk fl -> sf_sels fl = true)).
    { destruct s as [a n args ds sub|c ds sub|n ds]; cbn [flat_here sf_sel] in *.
      - split; [reflexivity|]. intros fl E. destruct (included vars ds); inversion E; subst; cbn; [rewrite Hs; reflexivity|reflexivity].
      - destruct (IH T sub Hs) as [Es Ps].
        destruct (negb (included vars ds)); [split; [reflexivity|intros fl E; inversion E; reflexivity]|].
        destruct c as [c|]; [|split; assumption].
        destruct (kind_of S c).
        + destruct (type_applies S T c); [split; assumption|split; [reflexivity|intros fl E; inversion E; reflexivity]].
        + destruct (bytes_eqb c _); [split; assumption|split; [reflexivity|discriminate]].
      - discriminate. }
    destruct Hh as [Eh Ph]. rewrite Eh. split; [reflexivity|].
    intros fl E. destruct (flat_here S vars fr1 f T s) as [l1|e1]; [|discriminate].
    destruct (flatten S fr1 vars f T rest) as [l2|e2]; [|discriminate].
    cbn in E. inversion E; subst. pose proof (Ph l1 eq_refl) as X1. pose proof (Pr l2 eq_refl) as X2.
    unfold sf_sels in *. rewrite forallb_app', X1, X2. reflexivity.
  Qed.

  Lemma sf_filter : forall (p : selection -> bool) l, sf_sels l = true -> sf_sels (filter p l) = true.
  Proof.
    induction l as [|x l IH]; cbn; intro H; [reflexivity|]. apply andb_prop in H. destruct H as [H1 H2].
    destruct (p x); cbn; [rewrite H1|]; auto.
  Qed.
  Lemma sf_subs : forall l, sf_sels l = true ->
      sf_sels (flat_map (fun x => match x with SField _ _ _ _ ss => ss | _ => [] end) l) = true.
  Proof.
    induction l as [|x l IH]; cbn; intro H; [reflexivity|]. apply andb_prop in H. destruct H as [H1 H2].
    unfold sf_sels. rewrite forallb_app'. fold (sf_sels (flat_map (fun x => match x with SField _ _ _ _ ss => ss | _ => [] end) l)).
    rewrite (IH H2), andb_true_r. destruct x; cbn in *; auto.
  Qed.
  Lemma group_sf : forall n fl, sf_sels fl = true -> Forall (fun g => sf_sels (snd g) = true) (group n fl).
  Proof.
    induction n as [|n IH]; intros fl H; [constructor|]. destruct fl as [|s rest]; [constructor|].
    cbn [group]. cbn [sf_sels forallb] in H. apply andb_prop in H. destruct H as [Hs Hr].
    constructor.
    - cbn [snd]. apply (sf_subs (s :: filter _ rest)). cbn. rewrite Hs. apply sf_filter. exact Hr.
    - apply IH. apply sf_filter. exact Hr.
  Qed.

  Theorem exec_sf : forall f l,
      sf_sels l = true ->
      forall T ov p, le_res (exec_sels S U fr1 vars Mono f T ov l p) (exec_sels S U fr2 vars Mono f T ov l p).
  Proof.
    induction f as [f IH] using (well_founded_induction Wf_nat.lt_wf).
    intros l H T ov p. destruct f as [|f]; [left; reflexivity|].
    rewrite !exec_sels_S. destruct (flatten_sf (Datatypes.S f) T l H) as [E P]. rewrite E.
    destruct (flatten S fr1 vars (Datatypes.S f) T l) as [fl|e]; [|left; reflexivity].
    apply exec_groups_cong.
    pose proof (group_sf (Datatypes.S (length fl)) fl (P fl eq_refl)) as HG.
    induction HG as [|g gs Hg HG IHG]; constructor; [|exact IHG].
    split; [reflexivity|]. split; [reflexivity|].
    intros f' Hlt T' ov' p'. apply IH; [lia|exact Hg].
  Qed.
End EnvFree.

(* ------------------------------------------------------------------ remove_fragment_definitions *)
Lemma doc_ops_filter : forall (p : fragment -> bool) d,
    doc_ops (filter (fun def => match def with DOp _ => true | DFrag f => p f end) d) = doc_ops d.
Proof.
  induction d as [|[o|f] d IH]; cbn; [reflexivity|rewrite IH; reflexivity|]. destruct (p f); cbn; exact IH.
Qed.

Theorem remove_frag_defs_preserves_exec : forall S U d fuel opn v,
    ops_spread_free d = true ->
    resp_le (execute fuel S U Mono d opn v) (execute fuel S U Mono (remove_frag_defs d) opn v).
Proof.
  intros S U d fuel opn v Hsf. unfold resp_le, execute, remove_frag_defs.
  unfold pick_op. rewrite doc_ops_filter. fold (pick_op d opn).
  destruct (pick_op d opn) as [o|] eqn:Ep; [|reflexivity].
  destruct (root_type S (op_kind o)) as [rt|]; [|reflexivity].
  destruct (find_entity U rt []) as [root|]; [|reflexivity].
  assert (Ho : sf_sels (op_sels o) = true).
  { unfold ops_spread_free in Hsf. rewrite forallb_forall in Hsf. apply Hsf. eapply pick_op_In. exact Ep. }
  set (vs := effective_vars o (match v with JObj m => m | _ => [] end)).
  pose proof (exec_sf S U (doc_frags d)
                      (doc_frags (filter (fun def => match def with
                                                     | DOp _ => true
                                                     | DFrag f => mem_bytes (fr_name f) (flat_map (fun o0 => flat_map spreads_of (op_sels o0)) (doc_ops d))
                                                     end) d))
                      vs fuel (op_sels o) Ho rt {| ov_ent := root; ov_repr := None |} []) as HL.
  destruct (exec_sels S U (doc_frags d) vs Mono fuel rt {| ov_ent := root; ov_repr := None |} (op_sels o) []) as [r errs].
  destruct HL as [E|E].
  - rewrite E. reflexivity.
  - cbn in E. intro Hn. cbn in Hn. exfalso. exact (oof_b_false _ Hn E).
Qed.

Lemma spreads_of_sf : forall s, sf_sel s = true -> spreads_of s = [].
Proof.
  induction s using sel_ind'; cbn; intro E; try discriminate.
  - induction H as [|x l Hx Hl IH]; cbn in *; [reflexivity|]. apply andb_prop in E. destruct E as [E1 E2].
    rewrite (Hx E1), (IH E2). reflexivity.
  - induction H as [|x l Hx Hl IH]; cbn in *; [reflexivity|]. apply andb_prop in E. destruct E as [E1 E2].
    rewrite (Hx E1), (IH E2). reflexivity.
Qed.

Lemma filter_idem : forall (A : Type) (p : A -> bool) l, filter p (filter p l) = filter p l.
Proof. induction l as [|x l IH]; cbn; [reflexivity|]. destruct (p x) eqn:E; cbn; [rewrite E, IH; reflexivity|exact IH]. Qed.

Theorem remove_frag_defs_idempotent : forall d, remove_frag_defs (remove_frag_defs d) = remove_frag_defs d.
Proof.
  intro d. unfold remove_frag_defs at 1. cbv zeta.
  replace (doc_ops (remove_frag_defs d)) with (doc_ops d) by (symmetry; unfold remove_frag_defs; apply doc_ops_filter).
  unfold remove_frag_defs. cbv zeta. apply filter_idem.
Qed.

(* ------------------------------------------------------------------ fragment inlining: idempotent once no spread is left *)
Lemma fi_sel_sf : forall S fr fuel T s, sf_sel s = true -> fi_sel S fr fuel T s = s.
Proof.
  intros S fr. induction fuel as [|f IH]; intros T s H; [reflexivity|].
  destruct s as [a n args ds sub|c ds sub|fn ds]; cbn [fi_sel]; cbn in H; try discriminate.
  - f_equal. apply map_id_on. intros x Hx. apply IH. rewrite forallb_forall in H. apply H. exact Hx.
  - f_equal. apply map_id_on. intros x Hx. apply IH. rewrite forallb_forall in H. apply H. exact Hx.
Qed.

Lemma doc_ops_frag_inline : forall S d,
    doc_ops (frag_inline S d) =
    map (fun o => {| op_kind := op_kind o; op_name := op_name o; op_vars := op_vars o; op_dirs := op_dirs o;
                     op_sels := map (fi_sel S (doc_frags d) (frag_inline_fuel d) (root_type S (op_kind o))) (op_sels o) |}) (doc_ops d).
Proof.
  intros S d. unfold frag_inline. generalize (doc_frags d) (frag_inline_fuel d). intros fr fu.
  induction d as [|[o|f] d IH]; cbn; [reflexivity|rewrite IH; reflexivity|exact IH].
Qed.

Theorem frag_inline_idempotent_partial : forall S d,
    ops_spread_free (frag_inline S d) = true ->
    frag_inline S (frag_inline S d) = frag_inline S d.
Proof.
  intros S d H. unfold ops_spread_free in H. rewrite forallb_forall in H.
  unfold frag_inline at 1.
  generalize (doc_frags (frag_inline S d)) (frag_inline_fuel (frag_inline S d)). intros fr fu.
  assert (HI : forall def, In def (frag_inline S d) ->
                           match def with
                           | DOp o => DOp {| op_kind := op_kind o; op_name := op_name o; op_vars := op_vars o; op_dirs := op_dirs o;
                                             op_sels := map (fi_sel S fr fu (root_type S (op_kind o))) (op_sels o) |}
                           | DFrag f => DFrag f
                           end = def).
  { intros [o|f] Hin; [|reflexivity].
    assert (Ho : In o (doc_ops (frag_inline S d))).
    { clear -Hin. induction (frag_inline S d) as [|[o'|f'] l IH]; cbn in *; [contradiction| |].
      - destruct Hin as [E|Hin]; [inversion E; left; reflexivity|right; auto].
      - destruct Hin as [E|Hin]; [discriminate|auto]. }
    specialize (H o Ho). unfold sf_sels in H.
    rewrite (map_id_on (fi_sel S fr fu (root_type S (op_kind o))) (op_sels o)).
    - destruct o; reflexivity.
    - intros x Hx. apply fi_sel_sf. rewrite forallb_forall in H. apply H. exact Hx. }
  clear H. revert HI. generalize (frag_inline S d). intros l HI.
  induction l as [|def l IH]; cbn; [reflexivity|].
  rewrite (HI def (or_introl eq_refl)). f_equal. apply IH. intros; apply HI; right; assumption.
Qed.

(* ------------------------------------------------------------------ @skip/@include: idempotent once settled *)
(* Because of the skipped positions of the directive walk (Model.walk_dirs) one run can leave an
   evaluable @skip/@include behind; the pass is idempotent on documents where every remaining
   directive is one it keeps. *)
Section IsIdem.
  Variable jv : list (bytes * json).
  Variable vdefs : list vardef.
  Variable al : bool.

  Definition keeps (d : directive) : bool :=
    match dir_verdict jv vdefs d with DKeep => true | _ => false end.
  Fixpoint settled_sel (s : selection) : bool :=
    forallb keeps (sel_dirs s) &&
    match s with
    | SField _ _ _ _ sub | SInline _ _ sub => forallb settled_sel sub
    | SSpread _ _ => true
    end.

  Lemma walk_dirs_keep : forall todo k m b,
      Forall (fun p => keeps (snd p) = true) b ->
      walk_dirs jv vdefs todo k m b = Some (map snd (firstn m b)).
  Proof.
    induction todo as [|t IH]; intros k m b H; cbn [walk_dirs]; [reflexivity|].
    destruct (nth_error b k) as [[id d]|] eqn:En; [|reflexivity].
    rewrite Forall_forall in H. pose proof (H _ (nth_error_In _ _ En)) as Hk. cbn in Hk. unfold keeps in Hk.
    destruct (dir_verdict jv vdefs d); try discriminate. apply IH. apply Forall_forall. exact H.
  Qed.
  Lemma eval_dirs_copy_keep : forall ds, forallb keeps ds = true -> eval_dirs_copy jv vdefs ds = Some ds.
  Proof.
    induction ds as [|d r IH]; cbn [forallb eval_dirs_copy]; intro H; [reflexivity|].
    apply andb_prop in H. destruct H as [H1 H2]. unfold keeps in H1.
    destruct (dir_verdict jv vdefs d); try discriminate. rewrite (IH H2). reflexivity.
  Qed.
  Lemma eval_dirs_keep : forall ds, forallb keeps ds = true -> eval_dirs jv vdefs al ds = Some ds.
  Proof.
    intros ds H. unfold eval_dirs. destruct al; [|apply eval_dirs_copy_keep; exact H].
    unfold eval_dirs_aliased. rewrite walk_dirs_keep.
    - rewrite firstn_all2 by (rewrite combine_length, seq_length, Nat.min_id; lia).
      rewrite combine_seq_snd. reflexivity.
    - apply Forall_forall. intros [i d] Hin. cbn. apply in_combine_r in Hin.
      rewrite forallb_forall in H. apply H. exact Hin.
  Qed.

  Lemma is_walk_settled : forall f,
      (forall s, settled_sel s = true -> is_node jv vdefs al f s = Some s) /\
      (forall l, forallb settled_sel l = true -> is_set jv vdefs al f l = l).
  Proof.
    induction f as [|f [IHA IHB]]; [split; reflexivity|]. split.
    - intros s Hs. rewrite is_node_S.
      destruct s as [a n args ds sub|c ds sub|fn ds]; cbn [settled_sel sel_dirs] in *;
        apply andb_prop in Hs; destruct Hs as [Hd Hsub]; rewrite (eval_dirs_keep _ Hd); try rewrite (IHB _ Hsub); reflexivity.
    - intros l Hl. rewrite is_set_S.
      assert (E : is_pass jv vdefs al f l = (l, false)).
      { induction l as [|s r IH]; [reflexivity|]. cbn [forallb] in Hl. apply andb_prop in Hl. destruct Hl as [H1 H2].
        cbn [is_pass]. rewrite (IHA s H1), (IH H2). reflexivity. }
      rewrite E. reflexivity.
  Qed.
  Lemma is_sels_settled : forall f l, forallb settled_sel l = true -> is_sels jv vdefs al f l = l.
  Proof. intros f l H. apply (proj2 (is_walk_settled f)). exact H. Qed.
End IsIdem.

Definition settled (jv : list (bytes * json)) (d : document) : bool :=
  let vdefs := doc_vardefs d in
  forallb (fun def => match def with
                      | DOp o => forallb (settled_sel jv vdefs) (op_sels o)
                      | DFrag f => forallb (settled_sel jv vdefs) (fr_sels f)
                      end) d.

Lemma doc_vardefs_rewrite : forall fo ff d, doc_vardefs (doc_rewrite fo ff d) = doc_vardefs d.
Proof. unfold doc_rewrite. induction d as [|[o|f] d IH]; cbn; [reflexivity|rewrite IH; reflexivity|exact IH]. Qed.

Lemma include_skip_gen_settled_fix : forall al jv d, settled jv d = true -> include_skip_gen al jv d = d.
Proof.
  intros al jv d H. unfold settled in H. cbv zeta in H. rewrite forallb_forall in H.
  unfold include_skip_gen. cbv zeta. generalize dependent (doc_vardefs d). generalize (include_skip_fuel d). intros fu vdefs H.
  induction d as [|def d IH]; cbn; [reflexivity|].
  rewrite IH by (intros x Hx; apply H; right; exact Hx). f_equal.
  pose proof (H def (or_introl eq_refl)) as Hd. destruct def as [o|f].
  - rewrite (is_sels_settled jv vdefs al fu _ Hd). destruct o; reflexivity.
  - rewrite (is_sels_settled jv vdefs al fu _ Hd). destruct f; reflexivity.
Qed.

(* both variants of the pass are idempotent on their settled outputs ... *)
Theorem include_skip_gen_idempotent_partial : forall al jv d,
    settled jv (include_skip_gen al jv d) = true ->
    include_skip_gen al jv (include_skip_gen al jv d) = include_skip_gen al jv d.
Proof. intros al jv d H. apply include_skip_gen_settled_fix. exact H. Qed.

(* ... and the output of the REPAIRED pass is always settled: every directive is visited, so no
   evaluable @skip/@include is left behind (the fuel of the model suffices for every document) *)
Section Settles.
  Variable jv : list (bytes * json).
  Variable vdefs : list vardef.
  Notation keeps := (keeps jv vdefs).
  Notation settled_sel := (settled_sel jv vdefs).

  Lemma eval_dirs_copy_settles : forall ds r, eval_dirs_copy jv vdefs ds = Some r -> forallb keeps r = true.
  Proof.
    induction ds as [|d ds IH]; cbn [eval_dirs_copy]; intros r E.
    - inversion E. reflexivity.
    - destruct (dir_verdict jv vdefs d) eqn:Ev; [discriminate|apply IH; exact E|].
      destruct (eval_dirs_copy jv vdefs ds) as [r'|]; [|discriminate]. inversion E; subst.
      cbn [forallb]. unfold ProofsCompose.keeps at 1. rewrite Ev. cbn. apply IH. reflexivity.
  Qed.

  Lemma is_set_nil : forall f, is_set jv vdefs false f [] = [].
  Proof. destruct f; [reflexivity|]. rewrite is_set_S. reflexivity. Qed.
  Lemma is_set_placeholder : forall f, is_set jv vdefs false f [placeholder] = [placeholder].
  Proof.
    destruct f as [|f]; [reflexivity|]. rewrite is_set_S. cbn [is_pass].
    assert (E : is_node jv vdefs false f placeholder = Some placeholder).
    { destruct f as [|f]; [reflexivity|]. rewrite is_node_S. cbn. rewrite is_set_nil. reflexivity. }
    rewrite E. reflexivity.
  Qed.

  Lemma sels_size_cons : forall s r, sels_size (s :: r) = (sel_size s + sels_size r)%nat.
  Proof. reflexivity. Qed.
  Lemma sel_size_pos : forall s, (1 <= sel_size s)%nat.
  Proof. destruct s; cbn; lia. Qed.

  Definition node_ok (f : nat) (s : selection) : Prop :=
    match is_node jv vdefs false f s with
    | None => True
    | Some s' => settled_sel s' = true /\ (sel_size s' <= sel_size s)%nat
    end.

  Lemma is_pass_settles : forall f l,
      (forall s, In s l -> node_ok f s) ->
      (snd (is_pass jv vdefs false f l) = false ->
         forallb settled_sel (fst (is_pass jv vdefs false f l)) = true /\
         (sels_size (fst (is_pass jv vdefs false f l)) <= sels_size l)%nat) /\
      (snd (is_pass jv vdefs false f l) = true ->
         (sels_size (fst (is_pass jv vdefs false f l)) + 1 <= sels_size l)%nat).
  Proof.
    intros f. induction l as [|s r IH]; intro H; cbn [is_pass].
    - split; [intros _; split; [reflexivity|apply le_n]|discriminate].
    - pose proof (H s (or_introl eq_refl)) as Hs. unfold node_ok in Hs.
      destruct (is_node jv vdefs false f s) as [s'|].
      + destruct Hs as [Hs1 Hs2].
        destruct (IH (fun x Hx => H x (or_intror Hx))) as [IH1 IH2].
        destruct (is_pass jv vdefs false f r) as [r' b]. cbn [fst snd] in *. split.
        * intro Eb. destruct (IH1 Eb) as [A B]. split.
          -- cbn [forallb]. rewrite Hs1, A. reflexivity.
          -- rewrite !sels_size_cons. lia.
        * intro Eb. specialize (IH2 Eb). rewrite !sels_size_cons. lia.
      + cbn [fst snd]. split; [discriminate|]. intros _. rewrite sels_size_cons. pose proof (sel_size_pos s). lia.
  Qed.

  Lemma in_sels_size : forall s l, In s l -> (sel_size s <= sels_size l)%nat.
  Proof.
    induction l as [|x l IH]; intros H; [destruct H|]. rewrite sels_size_cons.
    destruct H as [E|H]; [subst; lia|specialize (IH H); lia].
  Qed.

  Lemma is_walk_settles : forall f,
      (forall s, (2 * sel_size s + 1 <= f)%nat -> node_ok f s) /\
      (forall l, (2 * sels_size l + 2 <= f)%nat ->
                 forallb settled_sel (is_set jv vdefs false f l) = true /\
                 (sels_size (is_set jv vdefs false f l) <= sels_size l)%nat).
  Proof.
    induction f as [|f [IHA IHB]]; [split; intros; lia|]. split.
    - intros s Hf. unfold node_ok. rewrite is_node_S. unfold eval_dirs.
      destruct (eval_dirs_copy jv vdefs (sel_dirs s)) as [ds'|] eqn:Ed; [|exact I].
      pose proof (eval_dirs_copy_settles _ _ Ed) as Hk.
      destruct s as [a n args ds sub|c ds sub|fn ds]; cbn [sel_dirs] in *.
      + assert (Hsub : (2 * sels_size sub + 2 <= f)%nat) by (cbn [sel_size] in Hf; fold (sels_size sub) in Hf; lia).
        destruct (IHB sub Hsub) as [B1 B2]. split.
        * cbn [ProofsCompose.settled_sel sel_dirs]. rewrite Hk, B1. reflexivity.
        * cbn [sel_size]. fold (sels_size sub). fold (sels_size (is_set jv vdefs false f sub)). lia.
      + assert (Hsub : (2 * sels_size sub + 2 <= f)%nat) by (cbn [sel_size] in Hf; fold (sels_size sub) in Hf; lia).
        destruct (IHB sub Hsub) as [B1 B2]. split.
        * cbn [ProofsCompose.settled_sel sel_dirs]. rewrite Hk, B1. reflexivity.
        * cbn [sel_size]. fold (sels_size sub). fold (sels_size (is_set jv vdefs false f sub)). lia.
      + split; [cbn [ProofsCompose.settled_sel sel_dirs]; rewrite Hk; reflexivity|cbn; lia].
    - intros l Hf. rewrite is_set_S.
      assert (HN : forall s, In s l -> node_ok f s).
      { intros s Hs. apply IHA. pose proof (in_sels_size s l Hs). lia. }
      destruct (is_pass_settles f l HN) as [P1 P2].
      destruct (is_pass jv vdefs false f l) as [l' removed]. cbn [fst snd] in *.
      destruct removed.
      + specialize (P2 eq_refl). unfold after_removal. destruct l' as [|x l'].
        * rewrite is_set_placeholder. split; [reflexivity|]. cbn. cbn in P2. lia.
        * assert (Hl' : (2 * sels_size (x :: l') + 2 <= f)%nat) by lia.
          destruct (IHB _ Hl') as [B1 B2]. split; [exact B1|lia].
      + apply P1. reflexivity.
  Qed.
End Settles.

Lemma doc_member_size : forall d def, In def d ->
  (match def with DOp o => sels_size (op_sels o) | DFrag f => sels_size (fr_sels f) end <= doc_size d)%nat.
Proof.
  induction d as [|x d IH]; intros def H; [destruct H|]. cbn [doc_size fold_right]. fold (doc_size d).
  destruct H as [E|H]; [subst; lia|specialize (IH _ H); lia].
Qed.

Lemma include_skip_settles : forall jv d, settled jv (include_skip jv d) = true.
Proof.
  intros jv d. unfold settled. cbv zeta.
  assert (EV : doc_vardefs (include_skip jv d) = doc_vardefs d) by (rewrite include_skip_rewrite; apply doc_vardefs_rewrite).
  rewrite EV. unfold include_skip, include_skip_gen. cbv zeta.
  apply forallb_forall. intros def Hin. apply in_map_iff in Hin. destruct Hin as [x [Ex Hx]]. subst def.
  pose proof (doc_member_size d x Hx) as Hsz. unfold include_skip_fuel.
  destruct x as [o|f]; cbn.
  - apply (proj2 (is_walk_settles jv (doc_vardefs d) _)). lia.
  - apply (proj2 (is_walk_settles jv (doc_vardefs d) _)). lia.
Qed.

Theorem include_skip_idempotent : forall jv d, include_skip jv (include_skip jv d) = include_skip jv d.
Proof. intros jv d. apply include_skip_gen_settled_fix. apply include_skip_settles. Qed.

(* ------------------------------------------------------------------ composition of the proved passes *)
Lemma resp_le_trans : forall a b c, resp_le a b -> resp_le b c -> resp_le a c.
Proof. unfold resp_le. intros a b c H1 H2 Hn. rewrite <- (H1 Hn). apply H2. rewrite (H1 Hn). exact Hn. Qed.

(* the proved passes in the order of setupOperationWalkers (the two passes in between --
   inline_selections and merge_selections -- are covered by correspondence + differential only) *)
Definition norm_proved (S : schema) (jv : list (bytes * json)) (d : document) : document :=
  dedup (remove_frag_defs (self_alias (frag_inline S (include_skip jv d)))).

Lemma forallb_map_ext : forall (g : selection -> selection) (p : selection -> bool) l,
    (forall x, In x l -> p (g x) = p x) -> forallb p (map g l) = forallb p l.
Proof.
  induction l as [|x l IH]; intro H; cbn; [reflexivity|].
  rewrite H by (left; reflexivity). rewrite IH; [reflexivity|]. intros; apply H; right; assumption.
Qed.
Lemma sa_sel_sf : forall s, sf_sel (sa_sel s) = sf_sel s.
Proof.
  induction s using sel_ind'; cbn [sa_sel sf_sel]; try reflexivity.
  - apply forallb_map_ext. rewrite Forall_forall in H. exact H.
  - apply forallb_map_ext. rewrite Forall_forall in H. exact H.
Qed.

Lemma ops_sf_self_alias : forall d, ops_spread_free (self_alias d) = ops_spread_free d.
Proof.
  intro d. unfold ops_spread_free. rewrite self_alias_rewrite, doc_ops_rewrite.
  induction (doc_ops d) as [|o l IH]; cbn; [reflexivity|]. rewrite IH. f_equal.
  unfold sf_sels. apply forallb_map_ext. intros; apply sa_sel_sf.
Qed.

Theorem norm_preserves_exec_partial_same_fuel : forall S U d fuel opn v,
    (forall o, pick_op d opn = Some o ->
               include_skip_ok (obj_members v) (effective_vars o (obj_members v)) d = true) ->
    ops_spread_free (frag_inline S (include_skip (obj_members v) d)) = true ->
    resp_le (execute fuel S U Mono d opn v) (execute fuel S U Mono (norm_proved S (obj_members v) d) opn v).
Proof.
  intros S U d fuel opn v Hok Hsf. unfold norm_proved.
  eapply resp_le_trans; [apply include_skip_preserves_exec_partial; exact Hok|].
  eapply resp_le_trans; [apply frag_inline_preserves_exec|].
  eapply resp_le_trans; [apply self_alias_preserves_exec|].
  eapply resp_le_trans; [apply remove_frag_defs_preserves_exec; rewrite ops_sf_self_alias; exact Hsf|].
  apply dedup_preserves_exec.
Qed.

Theorem norm_preserves_exec_partial : forall S U d opn v,
    (forall o, pick_op d opn = Some o ->
               include_skip_ok (obj_members v) (effective_vars o (obj_members v)) d = true) ->
    ops_spread_free (frag_inline S (include_skip (obj_members v) d)) = true ->
    forall fuel fuel',
      oof_b (rs_errs (execute fuel S U Mono d opn v)) = false ->
      oof_b (rs_errs (execute fuel' S U Mono (norm_proved S (obj_members v) d) opn v)) = false ->
      execute fuel' S U Mono (norm_proved S (obj_members v) d) opn v = execute fuel S U Mono d opn v.
Proof.
  intros S U d opn v Hok Hsf. apply two_fuel.
  intro fuel. apply norm_preserves_exec_partial_same_fuel; assumption.
Qed.
