(* C03 proofs, part 10b: a fuel-free reading of [flatten] ("flatten gives r with SOME fuel and r is
   not out-of-fuel"), with the introduction / inversion rules the merging proof needs. *)
From Gv Require Import lib.Bytes lib.Json lib.Gql lib.Exec C03.Model C03.ProofsExec C03.ProofsRel C03.ProofsDoc
     C03.ProofsMono C03.ProofsPasses C03.ProofsInlineExecCong C03.ProofsInlineExecRel.
From Coq Require Import Lia PeanoNat.
Open Scope N_scope.

Inductive gate := GEnter | GSkip | GErr (e : xerr).

Section FL.
  Variable S : schema.
  Variable vars : list (bytes * json).
  Variable fr : list fragment.
  Variable objty : name.

  Definition FL (l : list selection) (r : flat) : Prop := exists f, flatten S fr vars f objty l = r /\ not_oof r.
  Definition FLH (s : selection) (r : flat) : Prop := exists f, flat_here S vars fr f objty s = r /\ not_oof r.

  Lemma FL_det : forall l r1 r2, FL l r1 -> FL l r2 -> r1 = r2.
  Proof.
    intros l r1 r2 [f1 [E1 N1]] [f2 [E2 N2]].
    rewrite <- E1, <- E2.
    rewrite <- (flatten_mono_le S vars fr f1 (Nat.max f1 f2) objty l) by (lia || (rewrite E1; exact N1)).
    rewrite <- (flatten_mono_le S vars fr f2 (Nat.max f1 f2) objty l) by (lia || (rewrite E2; exact N2)).
    reflexivity.
  Qed.

  Lemma FL_nil : FL [] (FlatOk []).
  Proof. exists 1%nat. split; [reflexivity|discriminate]. Qed.
  Lemma FL_nil_inv : forall r, FL [] r -> r = FlatOk [].
  Proof. intros r H. exact (FL_det [] _ _ H FL_nil). Qed.

  Lemma not_oof_seq_intro : forall a b, not_oof a -> (forall la, a = FlatOk la -> not_oof b) -> not_oof (flat_seq a b).
  Proof.
    intros [la|ea] b Ha Hb; cbn; [|exact Ha].
    specialize (Hb la eq_refl). destruct b as [lb|eb]; [discriminate|exact Hb].
  Qed.

  Lemma FL_cons_intro : forall s l rh rl,
      FLH s rh -> (forall lh, rh = FlatOk lh -> FL l rl) -> FL (s :: l) (flat_seq rh rl).
  Proof.
    intros s l rh rl [f1 [E1 N1]] Hl. destruct rh as [lh|e].
    - destruct (Hl lh eq_refl) as [f2 [E2 N2]].
      exists (Datatypes.S (Nat.max f1 f2)). rewrite flatten_S_cons.
      rewrite (flat_here_mono_le S vars fr f1 (Nat.max f1 f2) objty s) by (lia || (rewrite E1; exact N1)).
      rewrite (flatten_mono_le S vars fr f2 (Nat.max f1 f2) objty l) by (lia || (rewrite E2; exact N2)).
      rewrite E1, E2. split; [reflexivity|]. apply not_oof_seq_intro; [discriminate|intros; exact N2].
    - exists (Datatypes.S f1). rewrite flatten_S_cons, E1. split; [reflexivity|exact N1].
  Qed.

  Lemma FL_cons_inv : forall s l r,
      FL (s :: l) r ->
      exists rh, FLH s rh /\
                 ((exists e, rh = FlatBad e /\ r = FlatBad e) \/
                  (exists lh rl, rh = FlatOk lh /\ FL l rl /\ r = flat_seq rh rl)).
  Proof.
    intros s l r [f [E N]]. destruct (not_oof_S S vars fr f objty (s :: l)) as [g ->]; [rewrite E; exact N|].
    rewrite flatten_S_cons in E. subst r.
    exists (flat_here S vars fr g objty s). split; [exists g; split; [reflexivity|eapply not_oof_seq_l; exact N]|].
    destruct (flat_here S vars fr g objty s) as [lh|e] eqn:Eh.
    - right. exists lh, (flatten S fr vars g objty l). split; [reflexivity|]. split; [|reflexivity].
      exists g. split; [reflexivity|eapply not_oof_seq_r; exact N].
    - left. exists e. split; reflexivity.
  Qed.

  Lemma FL_app_intro : forall a b ra rb,
      FL a ra -> (forall la, ra = FlatOk la -> FL b rb) -> FL (a ++ b) (flat_seq ra rb).
  Proof.
    induction a as [|s a IH]; intros b ra rb Ha Hb.
    - rewrite (FL_nil_inv _ Ha) in *. specialize (Hb [] eq_refl). cbn [app].
      destruct Hb as [f [E N]]. exists f. split; [|destruct rb; [discriminate|exact N]].
      rewrite E. destruct rb; reflexivity.
    - destruct (FL_cons_inv _ _ _ Ha) as [rh [Hh [[e [E1 E2]]|[lh [rl [E1 [Hl E2]]]]]]]; subst; cbn [app].
      + change (FlatBad e) with (flat_seq (FlatBad e) (FlatOk [])). apply FL_cons_intro; [exact Hh|discriminate].
      + rewrite flat_seq_assoc. apply FL_cons_intro; [exact Hh|]. intros lh' _.
        apply IH; [exact Hl|]. intros la Ela. apply (Hb (lh ++ la)). rewrite Ela. reflexivity.
  Qed.

  Lemma FL_app_inv : forall a b r,
      FL (a ++ b) r ->
      exists ra, FL a ra /\
                 ((exists e, ra = FlatBad e /\ r = FlatBad e) \/
                  (exists la rb, ra = FlatOk la /\ FL b rb /\ r = flat_seq ra rb)).
  Proof.
    induction a as [|s a IH]; intros b r H; cbn [app] in H.
    - exists (FlatOk []). split; [exact FL_nil|]. right. exists [], r. split; [reflexivity|]. split; [exact H|].
      destruct r; reflexivity.
    - destruct (FL_cons_inv _ _ _ H) as [rh [Hh [[e [E1 E2]]|[lh [rl [E1 [Hl E2]]]]]]]; subst.
      + exists (FlatBad e). split; [|left; exists e; split; reflexivity].
        change (FlatBad e) with (flat_seq (FlatBad e) (FlatOk [])). apply FL_cons_intro; [exact Hh|discriminate].
      + destruct (IH b rl Hl) as [ra [Ha [[e [E1 E2]]|[la [rb [E1 [Hb E2]]]]]]]; subst.
        * exists (FlatBad e). split; [|left; exists e; split; reflexivity].
          change (FlatBad e) with (flat_seq (FlatOk lh) (FlatBad e)). apply FL_cons_intro; [exact Hh|intros; exact Ha].
        * exists (flat_seq (FlatOk lh) (FlatOk la)). split; [apply FL_cons_intro; [exact Hh|intros; exact Ha]|].
          right. exists (lh ++ la), rb. split; [reflexivity|]. split; [exact Hb|]. rewrite flat_seq_assoc. reflexivity.
  Qed.

  (* ---- single selections ---- *)
  Definition incl_of (s : selection) : list selection := if included vars (sel_dirs s) then [s] else [].
  Definition is_field_b (s : selection) : bool := match s with SField _ _ _ _ _ => true | _ => false end.

  Lemma FLH_field : forall s r, is_field_b s = true -> (FLH s r <-> r = FlatOk (incl_of s)).
  Proof.
    intros s r Hs. destruct s as [a n args ds sub| |]; try discriminate. unfold FLH, incl_of. cbn [flat_here sel_dirs]. split.
    - intros [f [E _]]. subst r. destruct (included vars ds); reflexivity.
    - intros ->. exists O. split; [destruct (included vars ds); reflexivity|discriminate].
  Qed.

  Definition inl_gate (c : option name) (ds : list directive) : gate :=
    if negb (included vars ds) then GSkip
    else match c with
         | None => GEnter
         | Some cn =>
           match kind_of S cn with
           | None => if bytes_eqb cn [95;69;110;116;105;116;121] then GEnter else GErr (XInvalid cn)
           | Some _ => if type_applies S objty cn then GEnter else GSkip
           end
         end.
  Lemma flat_here_inline : forall f c ds sub,
      flat_here S vars fr f objty (SInline c ds sub) =
      match inl_gate c ds with GEnter => flatten S fr vars f objty sub | GSkip => FlatOk [] | GErr e => FlatBad e end.
  Proof.
    intros. unfold inl_gate. cbn [flat_here]. destruct (negb (included vars ds)); [reflexivity|].
    destruct c as [cn|]; [|reflexivity]. destruct (kind_of S cn).
    - destruct (type_applies S objty cn); reflexivity.
    - destruct (bytes_eqb cn _); reflexivity.
  Qed.
  Lemma FLH_inline : forall c ds sub r,
      FLH (SInline c ds sub) r <->
      match inl_gate c ds with GEnter => FL sub r | GSkip => r = FlatOk [] | GErr e => r = FlatBad e /\ e <> XOutOfFuel end.
  Proof.
    intros. unfold FLH, FL. split.
    - intros [f [E N]]. rewrite flat_here_inline in E. destruct (inl_gate c ds); [exists f; auto|auto|].
      subst r. split; [reflexivity|]. intro X. apply N. subst. reflexivity.
    - intro H. destruct (inl_gate c ds) eqn:Eg.
      + destruct H as [f [E N]]. exists f. rewrite flat_here_inline, Eg. auto.
      + subst r. exists O. rewrite flat_here_inline, Eg. split; [reflexivity|discriminate].
      + destruct H as [-> Hne]. exists O. rewrite flat_here_inline, Eg. split; [reflexivity|]. intro X. inversion X. contradiction.
  Qed.

  (* a block of fields *)
  Lemma FL_fields_app : forall p q r,
      forallb is_field_b p = true ->
      (FL (p ++ q) r <-> exists rq, FL q rq /\ r = flat_seq (FlatOk (flat_map incl_of p)) rq).
  Proof.
    induction p as [|y p IH]; intros q r Hp; cbn [app flat_map].
    - split.
      + intro H. exists r. split; [exact H|]. destruct r; reflexivity.
      + intros [rq [H ->]]. destruct rq; exact H.
    - cbn [forallb] in Hp. apply andb_prop in Hp. destruct Hp as [Hy Hp]. split.
      + intro H. destruct (FL_cons_inv _ _ _ H) as [rh [Hh [[e [E1 E2]]|[lh [rl [E1 [Hl E2]]]]]]].
        * apply (FLH_field y rh Hy) in Hh. subst rh. discriminate.
        * apply (FLH_field y rh Hy) in Hh. subst rh. inversion E1; subst lh.
          destruct (proj1 (IH q rl Hp) Hl) as [rq [Hq ->]]. exists rq. split; [exact Hq|].
          subst r. rewrite <- flat_seq_assoc. reflexivity.
      + intros [rq [Hq ->]].
        change (FlatOk (incl_of y ++ flat_map incl_of p)) with (flat_seq (FlatOk (incl_of y)) (FlatOk (flat_map incl_of p))).
        rewrite flat_seq_assoc. apply FL_cons_intro; [apply (FLH_field y _ Hy); reflexivity|].
        intros _ _. apply (proj2 (IH q _ Hp)). exists rq. split; [exact Hq|reflexivity].
  Qed.
End FL.
