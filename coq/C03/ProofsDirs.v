(* C03 proofs, part 8: directive lists in the merging and de-duplication passes.
   ast.DirectiveSetsAreEqual matches every left directive with a DISTINCT equal right one
   (directives may be repeatable) and so does [dirs_eqb]: two selections are merged
   (inline_fragment_selection_merging.go) or one is dropped as a duplicate (field_deduplication.go)
   only when some permutation of the later selection's directive list is pointwise equal to the
   earlier one's.  The set-semantics variant (seeded regression C04-m7) is refuted: the merging
   pass built on it changes the executed response. *)
From Coq Require Import List NArith Bool Permutation.
From Gv Require Import lib.Bytes lib.Json lib.Gql lib.Exec C03.Model C03.Spec
     C03.ProofsExec C03.ProofsRel C03.ProofsDedup C03.Examples C03.ProofsRefute.
Import ListNotations.
Open Scope N_scope.

Definition dirs_matched (a b : list directive) : Prop :=
  exists p, Permutation b p /\ Forall2 (fun x y => dir_eqb x y = true) a p.

Lemma remove_first_dir_perm : forall d l l',
  remove_first_dir d l = Some l' -> exists x, dir_eqb d x = true /\ Permutation l (x :: l').
Proof.
  intros d. induction l as [|y r IH]; intros l' H; simpl in H; [discriminate|].
  destruct (dir_eqb d y) eqn:E.
  - inversion H; subst. exists y. split; auto.
  - destruct (remove_first_dir d r) as [r'|] eqn:Er; [|discriminate]. inversion H; subst.
    destruct (IH r' eq_refl) as [x [Hx Hp]]. exists x. split; auto.
    eapply Permutation_trans. apply perm_skip. exact Hp. apply perm_swap.
Qed.

Lemma dirs_eqb_matched : forall a b, dirs_eqb a b = true -> dirs_matched a b.
Proof.
  induction a as [|d a IH]; intros b H; simpl in H.
  - destruct b; [|discriminate]. exists []. split; constructor.
  - destruct (remove_first_dir d b) as [b'|] eqn:Er; [|discriminate].
    destruct (remove_first_dir_perm d b b' Er) as [x [Hx Hp]].
    destruct (IH b' H) as [p [Hp' HF]].
    exists (x :: p). split.
    + eapply Permutation_trans. exact Hp. apply perm_skip. exact Hp'.
    + constructor; auto.
Qed.

Lemma merge_requires_equal_directives : forall l r,
  can_merge l r = true -> dirs_matched (sel_dirs l) (sel_dirs r).
Proof.
  intros l r H. unfold can_merge in H.
  destruct l as [a n g d ss|c d ss|n d]; destruct r as [a' n' g' d' ss'|c' d' ss'|n' d'];
    simpl in H; try discriminate; try (destruct ss; discriminate).
  - destruct ss; try discriminate. destruct ss'; try discriminate.
    apply andb_prop in H. destruct H as [_ H]. apply dirs_eqb_matched. exact H.
  - apply andb_prop in H. destruct H as [_ H]. apply dirs_eqb_matched. exact H.
Qed.

Lemma dedup_requires_equal_directives : forall x s,
  flat_eqb x s = true -> dirs_matched (sel_dirs x) (sel_dirs s).
Proof.
  intros x s H.
  destruct x as [a n g d ss|c d ss|n d]; destruct s as [a' n' g' d' ss'|c' d' ss'|n' d'];
    simpl in H; try discriminate; try (destruct ss; discriminate).
  destruct ss; try discriminate. destruct ss'; try discriminate.
  apply andb_prop in H. destruct H as [_ H]. apply dirs_eqb_matched. exact H.
Qed.

(* ---- the set-semantics variant changes the meaning ----
   query($x: Boolean!, $y: Boolean!) {
     a @include(if: $x) @include(if: $x) { id }
     a @include(if: $x) @skip(if: $y) { name } }        with {"x": true, "y": true}
   the second [a] is skipped; merged into the first one its [name] is selected.  (The document
   repeats a non-repeatable directive: the theorem is about the pass, as c03_dedup_preserves_exec
   is, for every document.) *)
Definition n_y : name := [121].
Definition t_Bool : ty := TNonNull (TNamed [66;111;111;108;101;97;110]).
Definition d_set : document :=
  [ DOp {| op_kind := OpQuery; op_name := None;
           op_vars := [{| vd_name := n_x; vd_type := t_Bool; vd_default := None; vd_dirs := [] |};
                       {| vd_name := n_y; vd_type := t_Bool; vd_default := None; vd_dirs := [] |}];
           op_dirs := [];
           op_sels := [ SField None n_a [] [dir_include (VVar n_x); dir_include (VVar n_x)] [ SField None n_id [] [] [] ];
                        SField None n_a [] [dir_include (VVar n_x); dir_skip (VVar n_y)] [ SField None n_name [] [] [] ] ] |} ].
Definition v_set : json := JObj [(n_x, JBool true); (n_y, JBool true)].

Lemma merge_dirs_as_set_refuted_proof :
  dirs_eqb_set [dir_include (VVar n_x); dir_include (VVar n_x)] [dir_include (VVar n_x); dir_skip (VVar n_y)] = true /\
  ~ dirs_matched [dir_include (VVar n_x); dir_include (VVar n_x)] [dir_include (VVar n_x); dir_skip (VVar n_y)] /\
  merge_sel d_set = d_set /\
  execute 30 S0 U0 Mono (merge_sel_dirs_as_set d_set) None v_set <> execute 30 S0 U0 Mono d_set None v_set /\
  rs_errs (execute 30 S0 U0 Mono d_set None v_set) = [].
Proof.
  split; [vm_compute; reflexivity|]. split.
  - intros [p [Hp HF]].
    assert (Hb : In (dir_skip (VVar n_y)) p) by (apply (Permutation_in _ Hp); simpl; auto).
    inversion HF as [|x1 y1 l1 l1' H1 HF1]; subst. inversion HF1 as [|x2 y2 l2 l2' H2 HF2]; subst. inversion HF2; subst.
    simpl in Hb. destruct Hb as [Hb|[Hb|Hb]]; try contradiction; subst.
    + vm_compute in H1. discriminate.
    + vm_compute in H2. discriminate.
  - split; [vm_compute; reflexivity|]. split; [vm_compute; discriminate|vm_compute; reflexivity].
Qed.

(* equal multisets are merged *)
Lemma merge_equal_dirs_witness :
  can_merge (SField None n_a [] [dir_include (VVar n_x); dir_skip (VVar n_y)] [ SField None n_id [] [] [] ])
            (SField None n_a [] [dir_skip (VVar n_y); dir_include (VVar n_x)] [ SField None n_name [] [] [] ]) = true.
Proof. vm_compute. reflexivity. Qed.
