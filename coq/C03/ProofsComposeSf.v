(* C03 proofs, part 13: inlining and merging introduce no fragment spread, so the pipeline theorem can
   keep the spread-freeness hypothesis of [c03_norm_preserves_exec_partial] (on the output of
   fragment_spread_inlining). *)
From Gv Require Import lib.Bytes lib.Json lib.Gql lib.Exec C03.Model C03.Spec C03.ProofsExec C03.ProofsRel C03.ProofsDoc
     C03.ProofsPasses C03.ProofsDedup C03.ProofsMono C03.ProofsCompose C03.Examples
     C03.ProofsInlineExecCong C03.ProofsInlineExecRel C03.ProofsInlineExec C03.ProofsInlineExecDoc C03.ExamplesInline
     C03.ProofsComposeInline C03.ProofsMergeFlat C03.ProofsMergeRel C03.ProofsMergeIdem C03.ProofsMergePass C03.ProofsComposeFull.
Open Scope N_scope.

Lemma sf_app : forall a b, sf_sels (a ++ b) = sf_sels a && sf_sels b.
Proof. intros. unfold sf_sels. apply forallb_app2. Qed.
Lemma sf_cons : forall s l, sf_sels (s :: l) = sf_sel s && sf_sels l.
Proof. reflexivity. Qed.
Lemma sf_subs_of : forall s, sf_sel s = true -> sf_sels (sel_subs s) = true.
Proof. destruct s; cbn; intro H; [exact H|exact H|discriminate]. Qed.
Lemma sf_flat_subs : forall l, sf_sels l = true -> sf_sels (flat_map sel_subs l) = true.
Proof.
  induction l as [|s l IH]; intro H; [reflexivity|]. rewrite sf_cons in H. apply andb_prop in H. destruct H as [H1 H2].
  cbn [flat_map]. rewrite sf_app, (sf_subs_of s H1), (IH H2). reflexivity.
Qed.
Lemma sf_filter_snd : forall (p : bool * selection -> bool) tr,
    sf_sels (map snd tr) = true -> sf_sels (map snd (filter p tr)) = true.
Proof.
  induction tr as [|x tr IH]; intro H; [reflexivity|]. cbn [map] in H. rewrite sf_cons in H. apply andb_prop in H. destruct H as [H1 H2].
  cbn [filter]. destruct (p x); [cbn [map]; rewrite sf_cons, H1, (IH H2); reflexivity|exact (IH H2)].
Qed.

Lemma irel_sf : forall S KN Q l l', irel S KN Q l l' -> sf_sels l = true -> sf_sels l' = true.
Proof.
  intros S KN Q l l' H.
  induction H as [Q|Q Q' a n args ds sub sub' l l' Hkn Hhop Hsub IHsub Hl IHl
                  |Q c ds sub sub' l l' Hsub IHsub Hl IHl|Q n ds l l' Hl IHl|Q c sub l l' Hc Hl IHl]; intro Hs.
  - reflexivity.
  - rewrite sf_cons in *. cbn [sf_sel] in *. apply andb_prop in Hs. destruct Hs as [H1 H2].
    fold (sf_sels sub) in H1. fold (sf_sels sub'). rewrite (IHsub H1), (IHl H2). reflexivity.
  - rewrite sf_cons in *. cbn [sf_sel] in *. apply andb_prop in Hs. destruct Hs as [H1 H2].
    fold (sf_sels sub) in H1. fold (sf_sels sub'). rewrite (IHsub H1), (IHl H2). reflexivity.
  - rewrite sf_cons in Hs. cbn in Hs. discriminate.
  - apply IHl. rewrite sf_cons in Hs. cbn [sf_sel] in Hs. fold (sf_sels sub) in Hs. rewrite sf_app. exact Hs.
Qed.

Lemma mrel_sf : forall S vars l l', mrel S vars l l' -> sf_sels l = true -> sf_sels l' = true.
Proof.
  intros S vars l l' H.
  induction H as [|n ds l l' Hl IHl|c ds sub tr sub' l' Htr Hord Hsub IHsub Hl IHl
                  |a n args ds sub tr sub' l' Htr Hord Hsub IHsub Hl IHl]; intro Hs.
  - reflexivity.
  - rewrite sf_cons in Hs. cbn in Hs. discriminate.
  - rewrite sf_cons in Hs. cbn [sf_sel] in Hs. fold (sf_sels sub) in Hs. apply andb_prop in Hs. destruct Hs as [H1 H2].
    rewrite sf_cons. cbn [sf_sel]. fold (sf_sels sub'). rewrite IHsub, IHl; [reflexivity| |].
    + unfold sel_false. apply sf_filter_snd. exact H2.
    + rewrite sf_app, H1. apply sf_flat_subs. unfold sel_true. apply sf_filter_snd. exact H2.
  - rewrite sf_cons in Hs. cbn [sf_sel] in Hs. fold (sf_sels sub) in Hs. apply andb_prop in Hs. destruct Hs as [H1 H2].
    rewrite sf_cons. cbn [sf_sel]. fold (sf_sels sub'). rewrite IHsub, IHl; [reflexivity| |].
    + unfold sel_false. apply sf_filter_snd. exact H2.
    + rewrite sf_app, H1. apply sf_flat_subs. unfold sel_true. apply sf_filter_snd. exact H2.
Qed.

Lemma ops_sf_rewrite : forall fo ff d,
    (forall o, In o (doc_ops d) -> sf_sels (op_sels o) = true -> sf_sels (fo o) = true) ->
    ops_spread_free d = true -> ops_spread_free (doc_rewrite fo ff d) = true.
Proof.
  intros fo ff d H Hd. unfold ops_spread_free in *. rewrite doc_ops_rewrite. rewrite forallb_forall in *.
  intros o' Hin. apply in_map_iff in Hin. destruct Hin as [o [<- Hin]]. cbn. apply H; [exact Hin|]. apply Hd. exact Hin.
Qed.

Lemma ops_sf_inline_sel : forall S d,
    static_schema_ok S = true -> keys_agree d = true ->
    ops_spread_free d = true -> ops_spread_free (inline_sel_pre_repair S d) = true.
Proof.
  intros S d Hok Hka Hd. unfold inline_sel_pre_repair. rewrite inline_sel_rewrite. apply ops_sf_rewrite; [|exact Hd].
  intros o Hin Hs. eapply (irel_sf S (KNt (doc_kn d)) (fun _ => False)); [|exact Hs].
  apply (il_sels_irel S (doc_kn d) Hok); [intros ob []|].
  apply In_doc_ops in Hin. exact (keys_agree_def d _ Hka Hin).
Qed.

Lemma ops_sf_merge_sel : forall S d, merge_in_order S d = true -> ops_spread_free d = true -> ops_spread_free (merge_sel d) = true.
Proof.
  intros S d Hmo Hd. rewrite merge_sel_rewrite. apply ops_sf_rewrite; [|exact Hd].
  intros o Hin Hs. eapply (mrel_sf S []); [|exact Hs]. apply msels_mrel.
  unfold merge_in_order in Hmo. rewrite forallb_forall in Hmo. apply In_doc_ops in Hin. exact (Hmo _ Hin).
Qed.

(* the pipeline theorem with the spread-freeness hypothesis where c03_norm_preserves_exec_partial has it *)
Theorem norm_preserves_exec_full_partial' : forall S U d opn v,
    (forall o, pick_op d opn = Some o ->
               include_skip_ok (obj_members v) (effective_vars o (obj_members v)) d = true) ->
    ops_spread_free (frag_inline S (include_skip (obj_members v) d)) = true ->
    static_schema_ok S = true ->
    types_known S (norm_pre_inline S (obj_members v) d) = true ->
    keys_agree (norm_pre_inline S (obj_members v) d) = true ->
    inline_sel S (norm_pre_inline S (obj_members v) d) = inline_sel_pre_repair S (norm_pre_inline S (obj_members v) d) ->
    merge_in_order S (norm_upto_inline S (obj_members v) d) = true ->
    forall fuel fuel1 fuel2 fuel',
      oof_b (rs_errs (execute fuel S U Mono d opn v)) = false ->
      oof_b (rs_errs (execute fuel1 S U Mono (norm_upto_inline S (obj_members v) d) opn v)) = false ->
      oof_b (rs_errs (execute fuel2 S U Mono (norm_upto_merge S (obj_members v) d) opn v)) = false ->
      oof_b (rs_errs (execute fuel' S U Mono (norm_selections S (obj_members v) d) opn v)) = false ->
      execute fuel' S U Mono (norm_selections S (obj_members v) d) opn v = execute fuel S U Mono d opn v.
Proof.
  intros S U d opn v Hok Hsf Hs Htk Hka Hrep Hmo.
  apply norm_preserves_exec_full_partial; try assumption.
  unfold norm_upto_merge. apply (ops_sf_merge_sel S); [exact Hmo|].
  unfold norm_upto_inline. rewrite Hrep. apply ops_sf_inline_sel; [exact Hs|exact Hka|].
  unfold norm_pre_inline. rewrite ops_sf_self_alias. exact Hsf.
Qed.

Example ex_all_hypotheses' :
  (forall o, pick_op d_all (Some n_Q) = Some o ->
             include_skip_ok (obj_members (JObj [])) (effective_vars o (obj_members (JObj []))) d_all = true) /\
  ops_spread_free (frag_inline S2 (include_skip (obj_members (JObj [])) d_all)) = true /\
  static_schema_ok S2 = true /\
  types_known S2 (norm_pre_inline S2 [] d_all) = true /\
  keys_agree (norm_pre_inline S2 [] d_all) = true /\
  inline_sel S2 (norm_pre_inline S2 [] d_all) = inline_sel_pre_repair S2 (norm_pre_inline S2 [] d_all) /\
  merge_in_order S2 (norm_upto_inline S2 [] d_all) = true /\
  norm_upto_inline S2 [] d_all <> norm_pre_inline S2 [] d_all /\
  norm_upto_merge S2 [] d_all <> norm_upto_inline S2 [] d_all /\
  oof_b (rs_errs (execute 40 S2 U1 Mono d_all (Some n_Q) (JObj []))) = false /\
  oof_b (rs_errs (execute 40 S2 U1 Mono (norm_upto_inline S2 [] d_all) (Some n_Q) (JObj []))) = false /\
  oof_b (rs_errs (execute 40 S2 U1 Mono (norm_upto_merge S2 [] d_all) (Some n_Q) (JObj []))) = false /\
  oof_b (rs_errs (execute 40 S2 U1 Mono (norm_selections S2 [] d_all) (Some n_Q) (JObj []))) = false.
Proof.
  split; [intros o H; vm_compute in H; inversion H; subst; vm_compute; reflexivity|].
  vm_compute. repeat split; discriminate.
Qed.
