(* C03 proofs, part 1: congruence of the reference executor in the sub-selections.
   Two executions (possibly under different fragment environments) of "the same field" with
   sub-selection lists that are equivalent at every smaller fuel give the same result -- unless the
   first one ran out of fuel.  Everything is for md = Mono. *)
From Gv Require Import lib.Bytes lib.Json lib.Gql lib.Exec.
From Coq Require Import Lia PeanoNat.
Open Scope N_scope.

Definition has_oof (l : list xerr) : Prop := In XOutOfFuel l.
Definition sres := (option (list (bytes * json)) * list xerr)%type.
(* [n] is the result [o], unless [o] ran out of fuel *)
Definition le_res (o n : sres) : Prop := n = o \/ has_oof (snd o).
Definition le_cres (o n : cres) : Prop := n = o \/ has_oof (c_errs o).

Lemma le_res_refl : forall r, le_res r r. Proof. left; reflexivity. Qed.
Lemma le_cres_refl : forall r, le_cres r r. Proof. left; reflexivity. Qed.
Lemma has_oof_app_l : forall a b, has_oof a -> has_oof (a ++ b).
Proof. unfold has_oof; intros; apply in_or_app; auto. Qed.
Lemma has_oof_app_r : forall a b, has_oof b -> has_oof (a ++ b).
Proof. unfold has_oof; intros; apply in_or_app; auto. Qed.

Section Cong.
  Variable S : schema.
  Variable U : universe.
  Variable frags frags' : list fragment.
  Variable vars : list (bytes * json).

  Notation xsels := (exec_sels S U frags vars Mono).
  Notation xsels' := (exec_sels S U frags' vars Mono).
  Notation xfield := (exec_field S U frags vars Mono).
  Notation xfield' := (exec_field S U frags' vars Mono).
  Notation xcomplete := (complete S U frags vars Mono).
  Notation xcomplete' := (complete S U frags' vars Mono).

  (* named version of the local loop of exec_sels *)
  Fixpoint exec_groups (fr : list fragment) (f : nat) (objty : name) (ov : oval) (path : list pel)
           (gs : list (name * selection * list selection)) : sres :=
    match gs with
    | [] => (Some [], [])
    | (key, s, subs) :: rest =>
      let r := exec_field S U fr vars Mono f objty ov key s subs (path ++ [PN key]) in
      if c_viol r then (None, c_errs r)
      else
        let '(o, e2) := exec_groups fr f objty ov path rest in
        (match o with Some l => Some ((key, c_json r) :: l) | None => None end, c_errs r ++ e2)
    end.

  Lemma exec_sels_S : forall fr f objty ov sels path,
      exec_sels S U fr vars Mono (Datatypes.S f) objty ov sels path =
      match flatten S fr vars (Datatypes.S f) objty sels with
      | FlatBad e => (None, [e])
      | FlatOk fl => exec_groups fr f objty ov path (group (Datatypes.S (length fl)) fl)
      end.
  Proof.
    intros. cbn [exec_sels].
    destruct (flatten S fr vars (Datatypes.S f) objty sels) as [fl|e]; [|reflexivity].
    generalize (group (Datatypes.S (length fl)) fl). intro gs.
    induction gs as [|[[k s] subs] rest IH]; [reflexivity|].
    cbn [exec_groups]. rewrite <- IH. reflexivity.
  Qed.

  (* the two sub-selection lists are interchangeable at every fuel below k *)
  Definition SubsLe (k : nat) (subs subs' : list selection) : Prop :=
    forall f', (f' < k)%nat -> forall T ov p, le_res (xsels f' T ov subs p) (xsels' f' T ov subs' p).

  Lemma SubsLe_mono : forall k k' a b, (k' <= k)%nat -> SubsLe k a b -> SubsLe k' a b.
  Proof. unfold SubsLe; intros. apply H0. lia. Qed.

  (* one step of the list fold of [complete] *)
  Definition lstep (fr : list fragment) (f : nat) (t' : ty) (ov : oval) (fname : name) (cargs : list (bytes * json))
             (subs : list selection) (path : list pel)
             (acc : list json * list xerr * bool * N) (it : fval) : list json * list xerr * bool * N :=
    let '(out, errs, viol, i) := acc in
    let r := complete S U fr vars Mono f t' ov fname cargs it subs (path ++ [PI i]) in
    (out ++ [c_json r], errs ++ c_errs r, viol || c_viol r, i + 1).

  Definition acc_le (a a' : list json * list xerr * bool * N) : Prop :=
    a' = a \/ has_oof (snd (fst (fst a))).

  Lemma fold_lstep_le : forall f t' ov fname cargs subs subs' path items a a',
      (forall it p, le_cres (xcomplete f t' ov fname cargs it subs p) (xcomplete' f t' ov fname cargs it subs' p)) ->
      acc_le a a' ->
      acc_le (fold_left (lstep frags f t' ov fname cargs subs path) items a)
             (fold_left (lstep frags' f t' ov fname cargs subs' path) items a').
  Proof.
    intros f t' ov fname cargs subs subs' path items.
    induction items as [|it items IH]; intros a a' Hc Ha; [exact Ha|].
    cbn [fold_left]. apply IH; [exact Hc|].
    destruct a as [[[out errs] viol] i]. destruct Ha as [Ha|Ha].
    - subst a'. cbn [lstep]. destruct (Hc it (path ++ [PI i])) as [E|E].
      + left. rewrite E. reflexivity.
      + right. cbn. apply has_oof_app_r. exact E.
    - right. destruct a' as [[[out' errs'] viol'] i']. cbn in *. apply has_oof_app_l. exact Ha.
  Qed.

  (* ---- unfolding equations of [complete] with the recursive calls folded back ---- *)
  Definition obj_target (cargs : list (bytes * json)) (fv : fval) : option (option entity) :=
    match fv with
    | FRef t' k => match find_entity U t' k with Some e => Some (Some e) | None => None end
    | FLookup t' a =>
      match assoc a cargs with
      | Some j => Some (find_entity U t' (json_key_string j))
      | None => Some None
      end
    | FNullRef | FSc JNull => Some None
    | _ => None
    end.
  Definition finish_obj (r : sres) : cres :=
    let '(o, errs) := r in
    match o with
    | Some l => {| c_json := JObj l; c_errs := errs; c_viol := false |}
    | None => cnull errs
    end.
  Definition complete_object (fr : list fragment) (f : nat) (n : name) (cargs : list (bytes * json)) (fv : fval)
             (subs : list selection) (path : list pel) : cres :=
    match obj_target cargs fv with
    | None => cnull [XErr path]
    | Some None => cnull []
    | Some (Some e) =>
      if negb (match kind_of S n with None => bytes_eqb n [95;69;110;116;105;116;121] | _ => possible S n (en_type e) end)
      then cnull [XErr path]
      else finish_obj (exec_sels S U fr vars Mono f (en_type e) {| ov_ent := e; ov_repr := None |} subs path)
    end.

  Lemma complete_S_named : forall fr f n ov fname cargs fv subs path,
      complete S U fr vars Mono (Datatypes.S f) (TNamed n) ov fname cargs fv subs path =
      match kind_of S n with
      | Some KScalar | Some KEnum => leaf_value Mono ov fname cargs fv path
      | Some KObject | Some KInterface | Some KUnion | None => complete_object fr f n cargs fv subs path
      | Some KInputObject => cnull [XInvalid n]
      end.
  Proof. reflexivity. Qed.

  Definition finish_list (a : list json * list xerr * bool * N) : cres :=
    let '(out, errs, viol, _) := a in
    if viol then cnull errs else {| c_json := JArr out; c_errs := errs; c_viol := false |}.

  Lemma complete_S_list : forall fr f t' ov fname cargs fv subs path,
      complete S U fr vars Mono (Datatypes.S f) (TList t') ov fname cargs fv subs path =
      match fv with
      | FLst items => finish_list (fold_left (lstep fr f t' ov fname cargs subs path) items ([], [], false, 0))
      | FSc JNull | FNullRef => cnull []
      | FSc (JArr js) => complete S U fr vars Mono f (TList t') ov fname cargs (FLst (map FSc js)) subs path
      | _ => cnull [XErr path]
      end.
  Proof. reflexivity. Qed.

  Definition finish_nonnull (path : list pel) (r : cres) : cres :=
    match c_json r with
    | JNull => {| c_json := JNull; c_errs := match c_errs r with [] => [XErr path] | e => e end; c_viol := true |}
    | _ => r
    end.
  Lemma complete_S_nonnull : forall fr f t' ov fname cargs fv subs path,
      complete S U fr vars Mono (Datatypes.S f) (TNonNull t') ov fname cargs fv subs path =
      finish_nonnull path (complete S U fr vars Mono f t' ov fname cargs fv subs path).
  Proof. reflexivity. Qed.

  Lemma finish_obj_le : forall r r', le_res r r' -> le_cres (finish_obj r) (finish_obj r').
  Proof.
    intros r r' [E|E]; [subst; apply le_cres_refl|].
    right. destruct r as [[l|] errs]; cbn in *; exact E.
  Qed.

  Lemma complete_cong : forall k subs subs',
      SubsLe k subs subs' ->
      forall t ov fname cargs fv path,
        le_cres (xcomplete k t ov fname cargs fv subs path) (xcomplete' k t ov fname cargs fv subs' path).
  Proof.
    induction k as [|f IH]; intros subs subs' HS t ov fname cargs fv path.
    - left. reflexivity.
    - assert (HS' : SubsLe f subs subs') by (eapply SubsLe_mono; [|exact HS]; lia).
      destruct t as [n|t'|t'].
      + (* named *)
        rewrite !complete_S_named.
        assert (HO : le_cres (complete_object frags f n cargs fv subs path) (complete_object frags' f n cargs fv subs' path)).
        { unfold complete_object. destruct (obj_target cargs fv) as [[e|]|]; try apply le_cres_refl.
          destruct (negb _); [apply le_cres_refl|].
          apply finish_obj_le. apply HS. lia. }
        destruct (kind_of S n) as [[| | | | |]|]; try apply le_cres_refl; exact HO.
      + (* list *)
        rewrite !complete_S_list.
        destruct fv as [j| | |items| | | |]; try apply le_cres_refl.
        * destruct j as [| | | |js|]; try apply le_cres_refl.
          apply IH. exact HS'.
        * pose proof (fold_lstep_le f t' ov fname cargs subs subs' path items ([], [], false, 0) ([], [], false, 0)
                                    (fun it p => IH subs subs' HS' t' ov fname cargs it p) (or_introl eq_refl)) as HF.
          destruct (fold_left (lstep frags f t' ov fname cargs subs path) items ([], [], false, 0)) as [[[out errs] viol] i].
          destruct HF as [HF|HF].
          -- rewrite HF. apply le_cres_refl.
          -- right. cbn in HF. cbn. destruct viol; cbn; exact HF.
      + (* non-null *)
        rewrite !complete_S_nonnull.
        destruct (IH subs subs' HS' t' ov fname cargs fv path) as [E|E].
        * rewrite E. apply le_cres_refl.
        * right. unfold finish_nonnull.
          destruct (c_json (xcomplete f t' ov fname cargs fv subs path)); try exact E.
          cbn. destruct (c_errs (xcomplete f t' ov fname cargs fv subs path)); [destruct E|exact E].
  Qed.

  (* ---- fields ---- *)
  Definition fsig (s : selection) : option (name * list argument) :=
    match s with SField _ n args _ _ => Some (n, args) | _ => None end.

  Definition field_body (fr : list fragment) (f : nat) (objty : name) (ov : oval) (fname : name) (args : list argument)
             (subs : list selection) (path : list pel) : cres :=
    if bytes_eqb fname s_typename then {| c_json := JStr objty; c_errs := []; c_viol := false |}
    else
      match find_type objty (s_types S) with
      | None => {| c_json := JNull; c_errs := [XInvalid objty]; c_viol := true |}
      | Some td =>
        match find_field fname (td_fields td) with
        | None => {| c_json := JNull; c_errs := [XInvalid fname]; c_viol := true |}
        | Some fd =>
          complete S U fr vars Mono f (fd_type fd) ov fname (coerce_args S vars (fd_args fd) args)
                   (match assoc fname (en_fields (ov_ent ov)) with Some v => v | None => FSc JNull end) subs path
        end
      end.
  Lemma exec_field_S : forall fr f objty ov key a n args ds sb subs path,
      exec_field S U fr vars Mono (Datatypes.S f) objty ov key (SField a n args ds sb) subs path =
      field_body fr f objty ov n args subs path.
  Proof. reflexivity. Qed.
  Lemma exec_field_S_nonfield : forall fr f objty ov key s subs path,
      fsig s = None ->
      exec_field S U fr vars Mono (Datatypes.S f) objty ov key s subs path =
      {| c_json := JNull; c_errs := [XInvalid []]; c_viol := true |}.
  Proof. intros. destruct s; [discriminate| |]; reflexivity. Qed.

  Lemma exec_field_cong : forall k objty ov key s s' subs subs' path,
      fsig s = fsig s' -> SubsLe k subs subs' ->
      le_cres (xfield k objty ov key s subs path) (xfield' k objty ov key s' subs' path).
  Proof.
    intros k objty ov key s s' subs subs' path Hs HS.
    destruct k as [|f]; [left; reflexivity|].
    destruct s as [a n args ds sb| |]; destruct s' as [a' n' args' ds' sb'| |]; try discriminate.
    - cbn in Hs. inversion Hs; subst n' args'.
      rewrite !exec_field_S. unfold field_body.
      destruct (bytes_eqb n s_typename); [apply le_cres_refl|].
      destruct (find_type objty (s_types S)) as [td|]; [|apply le_cres_refl].
      destruct (find_field n (td_fields td)) as [fd|]; [|apply le_cres_refl].
      apply complete_cong. eapply SubsLe_mono; [|exact HS]. lia.
    - left. reflexivity.
    - left. reflexivity.
    - left. reflexivity.
    - left. reflexivity.
  Qed.

  (* ---- groups ---- *)
  Definition grel (k : nat) (g g' : name * selection * list selection) : Prop :=
    fst (fst g) = fst (fst g') /\ fsig (snd (fst g)) = fsig (snd (fst g')) /\ SubsLe k (snd g) (snd g').

  Lemma exec_groups_cong : forall f objty ov path gs gs',
      Forall2 (grel f) gs gs' ->
      le_res (exec_groups frags f objty ov path gs) (exec_groups frags' f objty ov path gs').
  Proof.
    intros f objty ov path gs gs' H. induction H as [|[[k s] subs] [[k' s'] subs'] gs gs' Hg HF IH].
    - left. reflexivity.
    - destruct Hg as [Hk [Hs HS]]. cbn in Hk, Hs, HS. subst k'.
      cbn [exec_groups].
      destruct (exec_field_cong f objty ov k s s' subs subs' (path ++ [PN k]) Hs HS) as [E|E].
      + rewrite E. destruct (c_viol (xfield f objty ov k s subs (path ++ [PN k]))); [left; reflexivity|].
        destruct IH as [E2|E2].
        * rewrite E2. left. reflexivity.
        * right. destruct (exec_groups frags f objty ov path gs) as [o e2]. cbn in *. apply has_oof_app_r. exact E2.
      + right. destruct (c_viol (xfield f objty ov k s subs (path ++ [PN k]))); [exact E|].
        destruct (exec_groups frags f objty ov path gs) as [o e2]. cbn. apply has_oof_app_l. exact E.
  Qed.
End Cong.
