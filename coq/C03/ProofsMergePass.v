(* C03 proofs, part 10f: inline_fragment_selection_merging preserves [execute] whenever it keeps the
   order of the response -- executable hypothesis [merge_in_order d]: at every selection list the pass
   processes, between an inline fragment and the last fragment it absorbs stand only absorbed fragments
   and fragments on ANOTHER OBJECT type (both conditions name object types of the schema), and between a
   field and the last field it absorbs stand only absorbed fields and fields with another response key
   or without sub-selections. *)
From Gv Require Import lib.Bytes lib.Json lib.Gql lib.Exec C03.Model C03.ProofsExec C03.ProofsRel C03.ProofsDoc
     C03.ProofsMono C03.ProofsPasses C03.ProofsDedup C03.ProofsCompose C03.ProofsInlineExecCong C03.ProofsInlineExecRel
     C03.ProofsInlineExec C03.ProofsMergeFlat C03.ProofsMergeRel C03.ProofsMergeExec C03.ProofsMergeExec2.
From Coq Require Import Lia PeanoNat.
Open Scope N_scope.

Fixpoint takew {A} (m : A -> bool) (l : list A) : list A :=
  match l with [] => [] | x :: r => if m x then x :: takew m r else [] end.
Fixpoint dropw {A} (m : A -> bool) (l : list A) : list A :=
  match l with [] => [] | x :: r => if m x then dropw m r else l end.

Definition okfield_b (k : name) (y : selection) : bool :=
  match y with
  | SField ay ny _ _ suby => negb (bytes_eqb (response_name ay ny) k) || match suby with [] => true | _ => false end
  | _ => false
  end.
Fixpoint ord_b (k : name) (m : selection -> bool) (rest : list selection) : bool :=
  match rest with
  | [] => true
  | y :: r => if existsb m rest then (m y || okfield_b k y) && ord_b k m r else true
  end.
Definition disj_b (S : schema) (c : option name) (y : selection) : bool :=
  match c, y with
  | Some c1, SInline (Some c2) _ _ => is_object_b S c1 && is_object_b S c2 && negb (bytes_eqb c1 c2)
  | _, _ => false
  end.
Fixpoint ordI_b (S : schema) (c : option name) (m : selection -> bool) (rest : list selection) : bool :=
  match rest with
  | [] => true
  | y :: r => if existsb m rest then (m y || disj_b S c y) && ordI_b S c m r else true
  end.
Definition step_ok (S : schema) (s : selection) (rest : list selection) : bool :=
  match s with
  | SInline c _ _ => ordI_b S c (can_merge s) rest
  | SField a n _ _ _ => ord_b (response_name a n) (can_merge s) rest
  | SSpread _ _ => true
  end.
Fixpoint level_ok (S : schema) (n : nat) (l : list selection) : bool :=
  match n, l with
  | Datatypes.S n', s :: rest => step_ok S s rest && level_ok S n' (filter (fun x => negb (can_merge s x)) rest)
  | _, _ => true
  end.
Fixpoint morder (S : schema) (fuel : nat) (l : list selection) : bool :=
  match fuel with
  | O => match l with [] => true | _ => false end
  | Datatypes.S f =>
    level_ok S (length l) l && forallb (fun s => morder S f (sel_subs s)) (merge_level_gen dirs_eqb (length l) l)
  end.
Definition merge_in_order (S : schema) (d : document) : bool :=
  forallb (fun def => morder S (Datatypes.S (sels_size (def_sels def))) (def_sels def)) d.

Lemma filter_none_g : forall (A : Type) (m : A -> bool) r,
    forallb (fun x => negb (m x)) r = true -> filter m r = [] /\ filter (fun x => negb (m x)) r = r.
Proof.
  induction r as [|x r IH]; cbn; intro H; [split; reflexivity|].
  apply andb_prop in H. destruct H as [Hx Hr]. destruct (IH Hr) as [E1 E2].
  rewrite Hx. apply Bool.negb_true_iff in Hx. rewrite Hx. rewrite E1, E2. split; reflexivity.
Qed.
Lemma takew_dropw : forall (A : Type) (m : A -> bool) l, l = takew m l ++ dropw m l.
Proof. induction l as [|x r IH]; cbn; [reflexivity|]. destruct (m x); cbn; [f_equal; exact IH|reflexivity]. Qed.
Lemma prefix_split : forall (A : Type) (m : A -> bool) l,
    forallb (fun x => negb (m x)) (dropw m l) = true ->
    filter m l = takew m l /\ filter (fun x => negb (m x)) l = dropw m l.
Proof.
  induction l as [|x r IH]; cbn [dropw takew filter]; intro H; [split; reflexivity|].
  destruct (m x) eqn:E; cbn [negb].
  - destruct (IH H) as [E1 E2]. rewrite E1, E2. split; reflexivity.
  - cbn [forallb] in H. rewrite E in H. cbn in H.
    destruct (filter_none_g _ m r H) as [E1 E2]. rewrite E1, E2. split; reflexivity.
Qed.
Lemma takew_all : forall (A : Type) (m : A -> bool) l, Forall (fun x => m x = true) (takew m l).
Proof. induction l as [|x r IH]; cbn; [constructor|]. destruct (m x) eqn:E; constructor; assumption. Qed.

Lemma tag_snd : forall (m : selection -> bool) l, map snd (map (fun x => (m x, x)) l) = l.
Proof. induction l; cbn; congruence. Qed.
Lemma tag_true : forall (m : selection -> bool) l, sel_true (map (fun x => (m x, x)) l) = filter m l.
Proof. induction l as [|x l IH]; [reflexivity|]. unfold sel_true in *. cbn. destruct (m x); cbn; congruence. Qed.
Lemma tag_false : forall (m : selection -> bool) l, sel_false (map (fun x => (m x, x)) l) = filter (fun x => negb (m x)) l.
Proof. induction l as [|x l IH]; [reflexivity|]. unfold sel_false in *. cbn. destruct (m x); cbn; congruence. Qed.

Lemma okfield_b_sound : forall k y, okfield_b k y = true -> okfield k y.
Proof.
  intros k y H. destruct y as [ay ny gy dy sy| |]; try discriminate. cbn in *.
  apply Bool.orb_true_iff in H. destruct H as [H|H].
  - left. intro E. rewrite E, bytes_eqb_refl in H. discriminate.
  - right. destruct sy; [reflexivity|discriminate].
Qed.
Lemma ord_b_sound : forall k m rest, ord_b k m rest = true -> OrdT k (map (fun x => (m x, x)) rest).
Proof.
  intros k m. induction rest as [|y r IH]; intro H.
  - exists [], []. split; [reflexivity|]. split; constructor.
  - cbn [ord_b] in H. destruct (existsb m (y :: r)) eqn:Ee.
    + apply andb_prop in H. destruct H as [Hy Hr]. destruct (IH Hr) as [pre [post [E [Hpost Hpre]]]].
      exists ((m y, y) :: pre), post. cbn [map]. rewrite E. split; [reflexivity|]. split; [exact Hpost|].
      constructor; [|exact Hpre]. cbn. apply Bool.orb_true_iff in Hy. destruct Hy as [Hy|Hy]; [left; exact Hy|right; apply okfield_b_sound; exact Hy].
    + exists [], (map (fun x => (m x, x)) (y :: r)). split; [reflexivity|]. split; [|constructor].
      apply Forall_forall. intros p Hp. apply in_map_iff in Hp. destruct Hp as [x [<- Hx]]. cbn.
      destruct (m x) eqn:Em; [|reflexivity]. exfalso.
      assert (existsb m (y :: r) = true) by (apply existsb_exists; exists x; auto). congruence.
Qed.

Lemma object_only_self : forall S o a, is_object_b S a = true -> type_applies S o a = true -> o = a.
Proof.
  intros S o a Ha Hc. unfold is_object_b, kind_of in Ha. destruct (builtin_scalar a); [discriminate|].
  unfold type_applies in Hc. destruct (find_type a (s_types S)) as [t|]; [|discriminate].
  destruct (td_kind t); try discriminate. rewrite Bool.orb_false_r in Hc. apply bytes_eqb_eq. exact Hc.
Qed.
Lemma disj_b_sound : forall S vars c y, disj_b S c y = true -> disjI S vars c y.
Proof.
  intros S vars c y H. destruct c as [c1|]; [|discriminate]. destruct y as [|[c2|] ds2 sub2|]; try discriminate.
  cbn in H. apply andb_prop in H. destruct H as [H H3]. apply andb_prop in H. destruct H as [H1 H2].
  cbn. intros objty Hg. unfold inl_gate in *. cbn [included negb] in Hg.
  destruct (negb (included vars ds2)); [reflexivity|].
  assert (K1 : exists k, kind_of S c1 = Some k) by (unfold is_object_b in H1; destruct (kind_of S c1); [eauto|discriminate]).
  assert (K2 : exists k, kind_of S c2 = Some k) by (unfold is_object_b in H2; destruct (kind_of S c2); [eauto|discriminate]).
  destruct K1 as [k1 K1]. destruct K2 as [k2 K2]. rewrite K1 in Hg. rewrite K2.
  destruct (type_applies S objty c1) eqn:E1; [|discriminate].
  apply (object_only_self S objty c1 H1) in E1. subst objty.
  destruct (type_applies S c1 c2) eqn:E2; [|reflexivity].
  apply (object_only_self S c1 c2 H2) in E2. subst c2. rewrite bytes_eqb_refl in H3. discriminate.
Qed.
Lemma ordI_b_sound : forall S vars c m rest, ordI_b S c m rest = true -> OrdI S vars c (map (fun x => (m x, x)) rest).
Proof.
  intros S vars c m. induction rest as [|y r IH]; intro H.
  - exists [], []. split; [reflexivity|]. split; constructor.
  - cbn [ordI_b] in H. destruct (existsb m (y :: r)) eqn:Ee.
    + apply andb_prop in H. destruct H as [Hy Hr]. destruct (IH Hr) as [pre [post [E [Hpost Hpre]]]].
      exists ((m y, y) :: pre), post. cbn [map]. rewrite E. split; [reflexivity|]. split; [exact Hpost|].
      constructor; [|exact Hpre]. cbn. apply Bool.orb_true_iff in Hy. destruct Hy as [Hy|Hy]; [left; exact Hy|right; apply disj_b_sound; exact Hy].
    + exists [], (map (fun x => (m x, x)) (y :: r)). split; [reflexivity|]. split; [|constructor].
      apply Forall_forall. intros p Hp. apply in_map_iff in Hp. destruct Hp as [x [<- Hx]]. cbn.
      destruct (m x) eqn:Em; [|reflexivity]. exfalso.
      assert (existsb m (y :: r) = true) by (apply existsb_exists; exists x; auto). congruence.
Qed.

Section Pass.
  Variable S : schema.
  Variable vars : list (bytes * json).
  Notation mrel := (mrel S vars).
  Notation morder := (morder S).
  Notation level_ok := (level_ok S).
  Notation msels := (merge_sels_gen dirs_eqb).
  Notation mlevel := (merge_level_gen dirs_eqb).

  Lemma opt_name_eqb_eq : forall a b, opt_name_eqb a b = true -> a = b.
  Proof. intros [x|] [y|] H; cbn in H; try discriminate; [apply bytes_eqb_eq in H; subst|]; reflexivity. Qed.

  Lemma can_merge_field : forall a n args ds sub x,
      can_merge (SField a n args ds sub) x = true -> absorbedF vars a n ds x.
  Proof.
    intros a n args ds sub x H. unfold can_merge, can_merge_gen in H.
    destruct sub as [|s0 sub]; [discriminate|]. destruct x as [a2 n2 g2 d2 [|y0 sub2]| |]; try discriminate.
    apply andb_prop in H. destruct H as [H H4]. apply andb_prop in H. destruct H as [H H3]. apply andb_prop in H. destruct H as [H1 H2].
    apply bytes_eqb_eq in H1. apply opt_name_eqb_eq in H2. subst. cbn. split; [reflexivity|]. split; [reflexivity|].
    symmetry. apply dirs_eqb_included. exact H4.
  Qed.
  Lemma can_merge_inline : forall c ds sub x,
      can_merge (SInline c ds sub) x = true -> absorbedI vars c ds x.
  Proof.
    intros c ds sub x H. unfold can_merge, can_merge_gen in H. destruct x as [|c2 d2 sub2|]; try discriminate.
    apply andb_prop in H. destruct H as [H1 H2]. apply opt_name_eqb_eq in H1. subst. cbn. split; [reflexivity|].
    symmetry. apply dirs_eqb_included. exact H2.
  Qed.

  Definition child (f : nat) (s : selection) : selection :=
    match s with SSpread _ _ => s | _ => with_subs s (msels f (sel_subs s)) end.
  Lemma msels_S : forall f l, msels (Datatypes.S f) l = map (child f) (mlevel (length l) l).
  Proof. reflexivity. Qed.

  Definition ChildOK (f : nat) : Prop := forall l, morder f l = true -> mrel l (msels f l).

  Lemma level_mrel : forall f, ChildOK f ->
      forall n l, (length l <= n)%nat -> level_ok n l = true ->
                  forallb (fun s => morder f (sel_subs s)) (mlevel n l) = true ->
                  mrel l (map (child f) (mlevel n l)).
  Proof.
    intros f HC. induction n as [|n IH]; intros l Hlen Hlev Hch.
    - destruct l; [apply mr_nil|cbn in Hlen; lia].
    - destruct l as [|s rest]; [apply mr_nil|].
      cbn [level_ok] in Hlev. apply andb_prop in Hlev. destruct Hlev as [Hstep Hlev].
      cbn [merge_level_gen] in *. unfold absorb_gen in *. fold (can_merge s) in *.
      set (m := can_merge s) in *. cbn [map forallb] in *. apply andb_prop in Hch. destruct Hch as [Hs Hch].
      assert (Hlen' : (length (filter (fun x => negb (m x)) rest) <= n)%nat).
      { pose proof (filter_length_le _ (fun x => negb (m x)) rest). cbn in Hlen. lia. }
      specialize (IH _ Hlen' Hlev Hch).
      destruct s as [a nm args ds sub|c ds sub|fn ds].
      + cbn [with_subs sel_subs child] in *.
        rewrite <- (tag_snd m rest) at 1. apply mr_fld.
        * apply Forall_forall. intros p Hp. apply in_map_iff in Hp. destruct Hp as [x [<- _]]. cbn. intro Hm.
          exact (can_merge_field a nm args ds sub x Hm).
        * apply ord_b_sound. exact Hstep.
        * rewrite tag_true. apply HC. exact Hs.
        * rewrite tag_false. exact IH.
      + cbn [with_subs sel_subs child] in *. cbn [step_ok] in Hstep. fold m in Hstep.
        rewrite <- (tag_snd m rest) at 1. apply mr_inl.
        * apply Forall_forall. intros p Hp. apply in_map_iff in Hp. destruct Hp as [x [<- _]]. cbn. intro Hm.
          exact (can_merge_inline c ds sub x Hm).
        * apply ordI_b_sound. exact Hstep.
        * rewrite tag_true. apply HC. exact Hs.
        * rewrite tag_false. exact IH.
      + cbn [with_subs child map]. assert (Em : forall x, m x = false) by reflexivity.
        assert (E2 : filter (fun x => negb (m x)) rest = rest).
        { apply (filter_none_g _ m rest). apply forallb_forall. intros x _. rewrite Em. reflexivity. }
        apply mr_spread. rewrite E2 in IH |- *. exact IH.
  Qed.

  Lemma msels_mrel : forall f, ChildOK f.
  Proof.
    induction f as [|f IH]; intros l H.
    - cbn in H. destruct l; [apply mr_nil|discriminate].
    - cbn [morder] in H. apply andb_prop in H. destruct H as [H1 H2].
      rewrite msels_S. apply level_mrel; [exact IH|apply le_n|exact H1|exact H2].
  Qed.
End Pass.

Lemma merge_sel_rewrite : forall d,
    merge_sel d = doc_rewrite (fun o => merge_sels_gen dirs_eqb (Datatypes.S (sels_size (op_sels o))) (op_sels o))
                              (fun fr => merge_sels_gen dirs_eqb (Datatypes.S (sels_size (fr_sels fr))) (fr_sels fr)) d.
Proof. reflexivity. Qed.

Theorem merge_sel_preserves_exec_partial : forall S U d opn v,
    merge_in_order S d = true ->
    forall fuel fuel',
      oof_b (rs_errs (execute fuel S U Mono d opn v)) = false ->
      oof_b (rs_errs (execute fuel' S U Mono (merge_sel d) opn v)) = false ->
      execute fuel' S U Mono (merge_sel d) opn v = execute fuel S U Mono d opn v.
Proof.
  intros S U d opn v Hord fuel fuel'. rewrite merge_sel_rewrite.
  set (fo := fun o => merge_sels_gen dirs_eqb (Datatypes.S (sels_size (op_sels o))) (op_sels o)).
  set (ff := fun fr => merge_sels_gen dirs_eqb (Datatypes.S (sels_size (fr_sels fr))) (fr_sels fr)).
  unfold execute. rewrite pick_op_rewrite.
  destruct (pick_op d opn) as [o|] eqn:Ep; cbn [option_map]; [|reflexivity].
  change (op_kind (rw_op fo o)) with (op_kind o).
  destruct (root_type S (op_kind o)) as [rt|]; [|reflexivity].
  change (effective_vars (rw_op fo o)) with (effective_vars o).
  destruct (find_entity U rt []) as [root|]; [|reflexivity].
  rewrite doc_frags_rewrite. change (op_sels (rw_op fo o)) with (fo o).
  set (vars := effective_vars o (match v with JObj m => m | _ => [] end)).
  pose proof (pick_op_In _ _ _ Ep) as Hin. apply In_doc_ops in Hin.
  unfold merge_in_order in Hord. rewrite forallb_forall in Hord.
  assert (HFR : frags_mrel S (doc_frags d) (map (rw_frag ff) (doc_frags d)) vars).
  { intro n. rewrite find_frag_map. destruct (find_frag n (doc_frags d)) as [fr|] eqn:Ef; cbn [option_map]; [|reflexivity].
    exists (rw_frag ff fr). split; [reflexivity|]. split; [reflexivity|]. cbn [rw_frag fr_sels]. unfold ff.
    pose proof (find_frag_In _ _ _ Ef) as Hfin. apply In_doc_frags in Hfin.
    apply msels_mrel. exact (Hord _ Hfin). }
  assert (HOP : mrel S vars (op_sels o) (fo o)) by (unfold fo; apply msels_mrel; exact (Hord _ Hin)).
  pose proof (mrel_exec S U (doc_frags d) (map (rw_frag ff) (doc_frags d)) vars HFR fuel fuel' (op_sels o) (fo o) rt HOP
                        {| ov_ent := root; ov_repr := None |} []) as HE.
  destruct (exec_sels S U (doc_frags d) vars Mono fuel rt {| ov_ent := root; ov_repr := None |} (op_sels o) []) as [r errs].
  remember (exec_sels S U (map (rw_frag ff) (doc_frags d)) vars Mono fuel' rt {| ov_ent := root; ov_repr := None |} (fo o) []) as X eqn:EX.
  clear EX. destruct X as [r' errs'].
  cbn [rs_errs]. intros Hn Hn'.
  pose proof (HE (oof_b_false _ Hn) (oof_b_false _ Hn')) as E. inversion E. reflexivity.
Qed.
