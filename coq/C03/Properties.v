(* C03 property theorems: statements only; every proof is [exact lemma]. *)
From Gv Require Import lib.Bytes lib.Json lib.Gql lib.Exec C03.Model C03.Spec C03.ProofsExec C03.ProofsRel C03.ProofsDoc C03.ProofsPasses.

(* remove_self_aliasing: same response with the same fuel whenever the original execution finishes *)
Theorem c03_self_alias_preserves_exec :
  forall (S : schema) (U : universe) (d : document) (fuel : nat) (opn : option name) (v : json),
    oof_b (rs_errs (execute fuel S U Mono d opn v)) = false ->
    execute fuel S U Mono (self_alias d) opn v = execute fuel S U Mono d opn v.
Proof. exact self_alias_preserves_exec. Qed.
Print Assumptions c03_self_alias_preserves_exec.

Theorem c03_self_alias_idempotent : forall d : document, self_alias (self_alias d) = self_alias d.
Proof. exact self_alias_idempotent. Qed.
Print Assumptions c03_self_alias_idempotent.

(* fragment_spread_inlining *)
Theorem c03_frag_inline_preserves_exec :
  forall (S : schema) (U : universe) (d : document) (fuel : nat) (opn : option name) (v : json),
    oof_b (rs_errs (execute fuel S U Mono d opn v)) = false ->
    execute fuel S U Mono (frag_inline S d) opn v = execute fuel S U Mono d opn v.
Proof. exact frag_inline_preserves_exec. Qed.
Print Assumptions c03_frag_inline_preserves_exec.

(* directive_include_skip, for requests whose conditions the pass reads like the executor and where
   no selection set is emptied (no placeholder is inserted) *)
Theorem c03_include_skip_preserves_exec_partial :
  forall (S : schema) (U : universe) (d : document) (fuel : nat) (opn : option name) (v : json),
    (forall o, pick_op d opn = Some o ->
               include_skip_ok (obj_members v) (effective_vars o (obj_members v)) d = true) ->
    oof_b (rs_errs (execute fuel S U Mono d opn v)) = false ->
    execute fuel S U Mono (include_skip (obj_members v) d) opn v = execute fuel S U Mono d opn v.
Proof. exact include_skip_preserves_exec_partial. Qed.
Print Assumptions c03_include_skip_preserves_exec_partial.
