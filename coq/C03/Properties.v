(* C03 property theorems: statements only; every proof is [exact lemma].

   "no out-of-fuel" is [oof_b (rs_errs r) = false]; every equation below is an equation between
   whole responses (data tree and error list) of the reference executor lib/Exec.v in mode Mono,
   for ALL schemas, universes, documents, operation names, variables and fuels.

   Passes covered by theorems (engine order): directive_include_skip (partial), fragment_spread_inlining,
   remove_self_aliasing, inline_selections_from_inline_fragments (partial), inline_fragment_selection_merging
   (partial: merges that keep the response order), fragment_definition_removal (partial), field_deduplication;
   the variable passes are covered by the semantic differential only. *)
From Gv Require Import lib.Bytes lib.Json lib.Gql lib.Exec C03.Model C03.Spec
     C03.ProofsExec C03.ProofsRel C03.ProofsDoc C03.ProofsPasses C03.ProofsDedup C03.ProofsMono
     C03.ProofsCompose C03.Examples C03.ProofsRefute C03.ProofsDirs
     C03.ProofsInlineExecCong C03.ProofsInlineExecRel C03.ProofsInlineExec C03.ProofsInlineExecDoc C03.ExamplesInline
     C03.ProofsInlineIdem C03.ProofsMergeIdem C03.ProofsComposeInline
     C03.ProofsMergeFlat C03.ProofsMergeRel C03.ProofsMergeExec C03.ProofsMergeExec2 C03.ProofsMergePass C03.ProofsComposeFull C03.ProofsComposeSf C03.ProofsMergeIdem2.
From Coq Require Import List Permutation.

(* ---- the executor: fuel only decides whether an execution finishes ---- *)
Theorem c03_execute_fuel_monotone :
  forall (S : schema) (U : universe) (d : document) (opn : option name) (v : json) (f f' : nat),
    (f <= f')%nat -> oof_b (rs_errs (execute f S U Mono d opn v)) = false ->
    execute f' S U Mono d opn v = execute f S U Mono d opn v.
Proof. exact execute_mono. Qed.
Print Assumptions c03_execute_fuel_monotone.

(* ---- remove_self_aliasing ---- *)
Theorem c03_self_alias_preserves_exec :
  forall (S : schema) (U : universe) (d : document) (fuel : nat) (opn : option name) (v : json),
    oof_b (rs_errs (execute fuel S U Mono d opn v)) = false ->
    execute fuel S U Mono (self_alias d) opn v = execute fuel S U Mono d opn v.
Proof. exact self_alias_preserves_exec. Qed.
Print Assumptions c03_self_alias_preserves_exec.

Theorem c03_self_alias_idempotent : forall d : document, self_alias (self_alias d) = self_alias d.
Proof. exact self_alias_idempotent. Qed.
Print Assumptions c03_self_alias_idempotent.

(* ---- fragment_spread_inlining ---- *)
Theorem c03_frag_inline_preserves_exec :
  forall (S : schema) (U : universe) (d : document) (fuel : nat) (opn : option name) (v : json),
    oof_b (rs_errs (execute fuel S U Mono d opn v)) = false ->
    execute fuel S U Mono (frag_inline S d) opn v = execute fuel S U Mono d opn v.
Proof. exact frag_inline_preserves_exec. Qed.
Print Assumptions c03_frag_inline_preserves_exec.

Theorem c03_frag_inline_idempotent_partial :
  forall (S : schema) (d : document),
    ops_spread_free (frag_inline S d) = true -> frag_inline S (frag_inline S d) = frag_inline S d.
Proof. exact frag_inline_idempotent_partial. Qed.
Print Assumptions c03_frag_inline_idempotent_partial.

Theorem c03_frag_inline_idempotent_refuted :
  exists (S : schema) (d : document), frag_inline S (frag_inline S d) <> frag_inline S d.
Proof. exact frag_inline_idempotent_refuted. Qed.
Print Assumptions c03_frag_inline_idempotent_refuted.

(* ---- directive_include_skip ----
   hypothesis [include_skip_ok]: the pass reads every @skip/@include condition like the executor
   (a JSON boolean, else the variable's default) and empties no selection set *)
Theorem c03_include_skip_preserves_exec_partial :
  forall (S : schema) (U : universe) (d : document) (fuel : nat) (opn : option name) (v : json),
    (forall o, pick_op d opn = Some o ->
               include_skip_ok (obj_members v) (effective_vars o (obj_members v)) d = true) ->
    oof_b (rs_errs (execute fuel S U Mono d opn v)) = false ->
    execute fuel S U Mono (include_skip (obj_members v) d) opn v = execute fuel S U Mono d opn v.
Proof. exact include_skip_preserves_exec_partial. Qed.
Print Assumptions c03_include_skip_preserves_exec_partial.

Theorem c03_include_skip_preserves_exec_refuted :
  exists S U d fuel opn v,
    oof_b (rs_errs (execute fuel S U Mono d opn v)) = false /\
    execute fuel S U Mono (include_skip (obj_members v) d) opn v <> execute fuel S U Mono d opn v /\
    resp_equiv (execute fuel S U Mono d opn v) (execute fuel S U Mono (include_skip (obj_members v) d) opn v) = true.
Proof. exact include_skip_preserves_exec_refuted. Qed.
Print Assumptions c03_include_skip_preserves_exec_refuted.

(* the repaired pass (work/c03_fix_directive-after-dropped-directive-not-visited.patch: the walker
   ranges over a copy of the directive refs) visits every directive, so its output holds no
   evaluable @skip/@include and it is idempotent on EVERY document *)
Theorem c03_include_skip_idempotent :
  forall (jv : list (bytes * json)) (d : document), include_skip jv (include_skip jv d) = include_skip jv d.
Proof. exact include_skip_idempotent. Qed.
Print Assumptions c03_include_skip_idempotent.

(* historical: before the repair one run could leave an evaluable directive behind (the walker
   skipped the position after a dropped directive); that pass was idempotent only once every
   remaining directive was one it keeps *)
Theorem c03_include_skip_idempotent_pre_repair_partial :
  forall (jv : list (bytes * json)) (d : document),
    settled jv (include_skip_pre_repair jv d) = true ->
    include_skip_pre_repair jv (include_skip_pre_repair jv d) = include_skip_pre_repair jv d.
Proof. exact (include_skip_gen_idempotent_partial true). Qed.
Print Assumptions c03_include_skip_idempotent_pre_repair_partial.

Theorem c03_include_skip_idempotent_pre_repair_refuted :
  exists (jv : list (bytes * json)) (d : document),
    include_skip_pre_repair jv (include_skip_pre_repair jv d) <> include_skip_pre_repair jv d.
Proof. exact include_skip_idempotent_pre_repair_refuted. Qed.
Print Assumptions c03_include_skip_idempotent_pre_repair_refuted.

(* { count @skip(if: false) @include(if: false) @tag  a { name } }: the repaired pass removes [count]
   in its single run, the old one did not *)
Theorem c03_include_skip_fixed_witness :
  include_skip [] d_three = d_three_done /\ include_skip_pre_repair [] d_three <> d_three_done.
Proof. exact include_skip_fixed_witness. Qed.
Print Assumptions c03_include_skip_fixed_witness.

(* ---- inline_selections_from_inline_fragments: the placeholder of an emptied fragment ----
   { a { id ... { name @skip(if: true) } } } and { a { id name @skip(if: true) } } differ only in
   fragment structure; before work/c03_fix_placeholder-left-after-fragment-inlining.patch their normal
   forms differed (the placeholder was inlined next to [id]), now they are equal; the repaired pass
   removes an inlinable fragment that holds only the placeholder whenever its set has another selection *)
Theorem c03_placeholder_pre_repair_refuted :
  norm_selections_pre_repair S0 [] d_wrapped <> norm_selections_pre_repair S0 [] d_plain.
Proof. exact placeholder_pre_repair_refuted. Qed.
Print Assumptions c03_placeholder_pre_repair_refuted.

Theorem c03_placeholder_fixed_witness : norm_selections S0 [] d_wrapped = norm_selections S0 [] d_plain.
Proof. exact placeholder_fixed_witness. Qed.
Print Assumptions c03_placeholder_fixed_witness.

Theorem c03_placeholder_fragment_dropped : forall S T f c done r,
  could_inline S T c [] [placeholder] = true -> (1 <= length done + length r)%nat ->
  il_level S true (Datatypes.S f) T done (SInline c [] [placeholder] :: r) = il_level S true f T done r.
Proof. exact placeholder_fragment_dropped. Qed.
Print Assumptions c03_placeholder_fragment_dropped.

(* ---- fragment_definition_removal ---- *)
Theorem c03_remove_frag_defs_preserves_exec_partial :
  forall (S : schema) (U : universe) (d : document) (fuel : nat) (opn : option name) (v : json),
    ops_spread_free d = true ->
    oof_b (rs_errs (execute fuel S U Mono d opn v)) = false ->
    execute fuel S U Mono (remove_frag_defs d) opn v = execute fuel S U Mono d opn v.
Proof. exact remove_frag_defs_preserves_exec. Qed.
Print Assumptions c03_remove_frag_defs_preserves_exec_partial.

Theorem c03_remove_frag_defs_idempotent : forall d : document, remove_frag_defs (remove_frag_defs d) = remove_frag_defs d.
Proof. exact remove_frag_defs_idempotent. Qed.
Print Assumptions c03_remove_frag_defs_idempotent.

(* ---- field_deduplication ---- *)
Theorem c03_dedup_preserves_exec :
  forall (S : schema) (U : universe) (d : document) (fuel : nat) (opn : option name) (v : json),
    oof_b (rs_errs (execute fuel S U Mono d opn v)) = false ->
    execute fuel S U Mono (dedup d) opn v = execute fuel S U Mono d opn v.
Proof. exact dedup_preserves_exec. Qed.
Print Assumptions c03_dedup_preserves_exec.

Theorem c03_dedup_idempotent : forall d : document, dedup (dedup d) = dedup d.
Proof. exact dedup_idempotent. Qed.
Print Assumptions c03_dedup_idempotent.

(* ---- directive lists in field_deduplication and inline_fragment_selection_merging ----
   A later selection is dropped as a duplicate ([flat_eqb], the premise of every [dl_drop] step of
   [dd_sels_dl]) or merged into an earlier one ([can_merge]) only when their directive lists are equal
   as MULTISETS: some permutation of the later list is pointwise [dir_eqb] to the earlier list
   (directives may be repeatable: every application is matched with a distinct one). *)
Theorem c03_dedup_requires_equal_directives : forall x s : selection,
  flat_eqb x s = true ->
  exists p, Permutation (sel_dirs s) p /\ Forall2 (fun d d' => dir_eqb d d' = true) (sel_dirs x) p.
Proof. exact dedup_requires_equal_directives. Qed.
Print Assumptions c03_dedup_requires_equal_directives.

Theorem c03_merge_requires_equal_directives : forall l r : selection,
  can_merge l r = true ->
  exists p, Permutation (sel_dirs r) p /\ Forall2 (fun d d' => dir_eqb d d' = true) (sel_dirs l) p.
Proof. exact merge_requires_equal_directives. Qed.
Print Assumptions c03_merge_requires_equal_directives.

(* The set-semantics variant (equal length, every earlier directive equal to SOME later one; seeded
   regression C04-m7, never the code of /repo) is refuted: it equates
   [@include(if: $x), @include(if: $x)] with [@include(if: $x), @skip(if: $y)], which no pairwise
   matching does, and the merging pass built on it changes the response of
     query($x: Boolean!, $y: Boolean!) { a @include(if:$x) @include(if:$x) { id }  a @include(if:$x) @skip(if:$y) { name } }
   under {"x": true, "y": true} (the skipped [name] is selected), which the model of the code
   leaves alone.  (On spec-valid operations the two comparisons can only differ on a repeatable
   directive, and no directive with execution semantics is repeatable: the sampled exec_preserved
   clause cannot see the variant, corr:C03/merge_selections and corr:C03/dedup_fields do.) *)
Theorem c03_merge_dirs_as_set_refuted :
  dirs_eqb_set [dir_include (VVar n_x); dir_include (VVar n_x)] [dir_include (VVar n_x); dir_skip (VVar n_y)] = true /\
  (~ exists p, Permutation [dir_include (VVar n_x); dir_skip (VVar n_y)] p /\
               Forall2 (fun d d' => dir_eqb d d' = true) [dir_include (VVar n_x); dir_include (VVar n_x)] p) /\
  merge_sel d_set = d_set /\
  execute 30 S0 U0 Mono (merge_sel_dirs_as_set d_set) None v_set <> execute 30 S0 U0 Mono d_set None v_set /\
  rs_errs (execute 30 S0 U0 Mono d_set None v_set) = [].
Proof. exact merge_dirs_as_set_refuted_proof. Qed.
Print Assumptions c03_merge_dirs_as_set_refuted.

(* the hypothesis of c03_merge_requires_equal_directives is satisfiable by lists that differ in order *)
Example c03_merge_equal_directives_nontrivial :
  can_merge (SField None n_a [] [dir_include (VVar n_x); dir_skip (VVar n_y)] [ SField None n_id [] [] [] ])
            (SField None n_a [] [dir_skip (VVar n_y); dir_include (VVar n_x)] [ SField None n_name [] [] [] ]) = true.
Proof. exact merge_equal_dirs_witness. Qed.

(* ---- the proved passes composed in engine order ----
   norm_proved S jv d = dedup (remove_frag_defs (self_alias (frag_inline S (include_skip jv d)))) *)
Theorem c03_norm_preserves_exec_partial :
  forall (S : schema) (U : universe) (d : document) (opn : option name) (v : json),
    (forall o, pick_op d opn = Some o ->
               include_skip_ok (obj_members v) (effective_vars o (obj_members v)) d = true) ->
    ops_spread_free (frag_inline S (include_skip (obj_members v) d)) = true ->
    forall fuel fuel' : nat,
      oof_b (rs_errs (execute fuel S U Mono d opn v)) = false ->
      oof_b (rs_errs (execute fuel' S U Mono (norm_proved S (obj_members v) d) opn v)) = false ->
      execute fuel' S U Mono (norm_proved S (obj_members v) d) opn v = execute fuel S U Mono d opn v.
Proof. exact norm_preserves_exec_partial. Qed.
Print Assumptions c03_norm_preserves_exec_partial.

(* the hypotheses are satisfiable by a request with a redex of every proved pass *)
Theorem c03_example_hypotheses :
  (forall o, pick_op d0 (Some n_Q) = Some o ->
             include_skip_ok (obj_members (JObj [])) (effective_vars o (obj_members (JObj []))) d0 = true) /\
  ops_spread_free (frag_inline S0 (include_skip (obj_members (JObj [])) d0)) = true.
Proof. exact ex_hypotheses. Qed.
Print Assumptions c03_example_hypotheses.

(* ---- inline_selections_from_inline_fragments ----
   The pass decides with the static type of a selection set (couldInline), the executor with the
   runtime type.  Executable hypotheses (each shown to be needed below):
     static_schema_ok S : "_Entity" is not declared; every name in an object's implements list passes
                          the executor's type test for that object; where a type O passes the executor's test
                          for a type T, each field of T has in O the same type name, or an object type that passes
                          for T's, or (both interfaces) one that passes for T's and is implemented only together with it;
     types_known S d    : root types of the operations and types of the fragment definitions are declared;
     keys_agree d       : fields with the same response key name the same field (the executor runs all
                          of them with the first one's definition).
   The equation is between whole responses, for any two fuels at which both executions finish
   (inlining lengthens selection lists, and [flatten] spends fuel along a list). *)
Theorem c03_inline_fragments_pre_repair_preserves_exec :
  forall (S : schema) (U : universe) (d : document) (opn : option name) (v : json),
    static_schema_ok S = true -> types_known S d = true -> keys_agree d = true ->
    forall fuel fuel' : nat,
      oof_b (rs_errs (execute fuel S U Mono d opn v)) = false ->
      oof_b (rs_errs (execute fuel' S U Mono (inline_sel_pre_repair S d) opn v)) = false ->
      execute fuel' S U Mono (inline_sel_pre_repair S d) opn v = execute fuel S U Mono d opn v.
Proof. exact inline_sel_pre_repair_preserves_exec. Qed.
Print Assumptions c03_inline_fragments_pre_repair_preserves_exec.

(* the repaired pass also drops an inlinable fragment that holds only the "__internal_typename"
   placeholder -- a response key disappears; the theorem covers it whenever that repair does not fire *)
Theorem c03_inline_fragments_preserves_exec_partial :
  forall (S : schema) (U : universe) (d : document) (opn : option name) (v : json),
    static_schema_ok S = true -> types_known S d = true -> keys_agree d = true ->
    inline_sel S d = inline_sel_pre_repair S d ->
    forall fuel fuel' : nat,
      oof_b (rs_errs (execute fuel S U Mono d opn v)) = false ->
      oof_b (rs_errs (execute fuel' S U Mono (inline_sel S d) opn v)) = false ->
      execute fuel' S U Mono (inline_sel S d) opn v = execute fuel S U Mono d opn v.
Proof. exact inline_sel_preserves_exec_partial. Qed.
Print Assumptions c03_inline_fragments_preserves_exec_partial.

(* non-vacuity: { a { ... on A { id } ... on I { name } ... { id } }  i { ... on I { id } ... on A { name } } }
   (a: A, A implements I, i: I) satisfies the hypotheses and has redexes of the three kinds *)
Example c03_inline_fragments_hypotheses :
  static_schema_ok S1 = true /\ types_known S1 d_inl = true /\ keys_agree d_inl = true /\
  inline_sel S1 d_inl = inline_sel_pre_repair S1 d_inl.
Proof. exact ex_inline_hypotheses. Qed.
Example c03_inline_fragments_nontrivial :
  inline_sel S1 d_inl =
  qdoc [ fld n_a [ fld n_id []; fld n_name []; fld n_id [] ];
         fld n_i [ fld n_id []; SInline (Some n_A) [] [fld n_name []] ] ] /\
  execute 30 S1 U1 Mono d_inl None (JObj []) =
  {| rs_data := JObj [(n_a, JObj [(n_id, JStr [49]); (n_name, JStr [110])]);
                      (n_i, JObj [(n_id, JStr [49]); (n_name, JStr [110])])]; rs_errs := [] |} /\
  execute 30 S1 U1 Mono (inline_sel S1 d_inl) None (JObj []) = execute 30 S1 U1 Mono d_inl None (JObj []).
Proof. exact ex_inline_nontrivial. Qed.

(* without the placeholder hypothesis the equation fails ({ a { id ... { __internal_typename: __typename } } }),
   the responses stay equivalent *)
Theorem c03_inline_fragments_preserves_exec_refuted :
  static_schema_ok S1 = true /\ types_known S1 d_ph = true /\ keys_agree d_ph = true /\
  inline_sel S1 d_ph <> inline_sel_pre_repair S1 d_ph /\
  oof_b (rs_errs (execute 30 S1 U1 Mono d_ph None (JObj []))) = false /\
  oof_b (rs_errs (execute 30 S1 U1 Mono (inline_sel S1 d_ph) None (JObj []))) = false /\
  execute 30 S1 U1 Mono (inline_sel S1 d_ph) None (JObj []) <> execute 30 S1 U1 Mono d_ph None (JObj []) /\
  resp_equiv (execute 30 S1 U1 Mono d_ph None (JObj [])) (execute 30 S1 U1 Mono (inline_sel S1 d_ph) None (JObj [])) = true.
Proof. exact inline_sel_preserves_exec_refuted. Qed.
Print Assumptions c03_inline_fragments_preserves_exec_refuted.

(* keys_agree is needed: { x: a { ... on A { name } }  x: b { ... on B { q } } } *)
Theorem c03_inline_fragments_keys_agree_needed :
  static_schema_ok S1 = true /\ types_known S1 d_keys = true /\ keys_agree d_keys = false /\
  inline_sel S1 d_keys = inline_sel_pre_repair S1 d_keys /\
  oof_b (rs_errs (execute 30 S1 U1 Mono d_keys None (JObj []))) = false /\
  oof_b (rs_errs (execute 30 S1 U1 Mono (inline_sel S1 d_keys) None (JObj []))) = false /\
  execute 30 S1 U1 Mono (inline_sel S1 d_keys) None (JObj []) <> execute 30 S1 U1 Mono d_keys None (JObj []).
Proof. exact inline_keys_agree_needed. Qed.
Print Assumptions c03_inline_fragments_keys_agree_needed.

(* types_known is needed: { ... on Query { __typename } } over a schema that does not declare Query *)
Theorem c03_inline_fragments_types_known_needed :
  static_schema_ok S_noroot = true /\ types_known S_noroot d_root = false /\ keys_agree d_root = true /\
  inline_sel S_noroot d_root = inline_sel_pre_repair S_noroot d_root /\
  oof_b (rs_errs (execute 30 S_noroot U1 Mono d_root None (JObj []))) = false /\
  oof_b (rs_errs (execute 30 S_noroot U1 Mono (inline_sel S_noroot d_root) None (JObj []))) = false /\
  execute 30 S_noroot U1 Mono (inline_sel S_noroot d_root) None (JObj []) <> execute 30 S_noroot U1 Mono d_root None (JObj []).
Proof. exact inline_types_known_needed. Qed.
Print Assumptions c03_inline_fragments_types_known_needed.

(* static_schema_ok is needed: interface I { r: A }, type C implements I { r: B }, { i { r { ... on A { name } } } } *)
Theorem c03_inline_fragments_schema_ok_needed :
  static_schema_ok S_cov = false /\ types_known S_cov d_cov = true /\ keys_agree d_cov = true /\
  inline_sel S_cov d_cov = inline_sel_pre_repair S_cov d_cov /\
  oof_b (rs_errs (execute 30 S_cov U_cov Mono d_cov None (JObj []))) = false /\
  oof_b (rs_errs (execute 30 S_cov U_cov Mono (inline_sel S_cov d_cov) None (JObj []))) = false /\
  execute 30 S_cov U_cov Mono (inline_sel S_cov d_cov) None (JObj []) <> execute 30 S_cov U_cov Mono d_cov None (JObj []).
Proof. exact inline_schema_ok_needed. Qed.
Print Assumptions c03_inline_fragments_schema_ok_needed.

(* idempotence: refuted by the nesting quirk of couldInline (finding inlining-depends-on-fragment-nesting:
   { a { ... on I { ... { id } } } } needs two runs), proved when the output holds no inlinable fragment *)
Theorem c03_inline_fragments_idempotent_partial :
  forall (S : schema) (d : document),
    inline_settled S (inline_sel S d) = true -> inline_sel S (inline_sel S d) = inline_sel S d.
Proof. exact inline_sel_idempotent_partial. Qed.
Print Assumptions c03_inline_fragments_idempotent_partial.

Theorem c03_inline_fragments_idempotent_refuted :
  exists (S : schema) (d : document), inline_sel S (inline_sel S d) <> inline_sel S d.
Proof. exact inline_sel_idempotent_refuted. Qed.
Print Assumptions c03_inline_fragments_idempotent_refuted.

Example c03_inline_fragments_idempotent_nontrivial :
  inline_settled S1 (inline_sel S1 d_inl) = true /\ inline_sel S1 d_inl <> d_inl.
Proof. exact inline_sel_idempotent_nontrivial. Qed.

(* ---- inline_fragment_selection_merging ----
   The equation between whole responses is refuted: an absorbed selection moves forward, so response
   keys change places ({ i { ... on A { name } id ... on A { x: id } } } answers name, id, x before and
   name, x, id after the pass); the responses are equal up to member order. *)
Theorem c03_merge_selections_preserves_exec_refuted :
  merge_sel d_mreorder = qdoc [ fld n_i [ SInline (Some n_A) [] [fld n_name []; SField (Some n_x) n_id [] [] []]; fld n_id [] ] ] /\
  execute 30 S1 U1 Mono d_mreorder None (JObj []) =
    {| rs_data := JObj [(n_i, JObj [(n_name, JStr [110]); (n_id, JStr [49]); (n_x, JStr [49])])]; rs_errs := [] |} /\
  execute 30 S1 U1 Mono (merge_sel d_mreorder) None (JObj []) =
    {| rs_data := JObj [(n_i, JObj [(n_name, JStr [110]); (n_x, JStr [49]); (n_id, JStr [49])])]; rs_errs := [] |} /\
  resp_equiv (execute 30 S1 U1 Mono d_mreorder None (JObj [])) (execute 30 S1 U1 Mono (merge_sel d_mreorder) None (JObj [])) = true.
Proof. exact merge_sel_preserves_exec_refuted. Qed.
Print Assumptions c03_merge_selections_preserves_exec_refuted.

(* the same on fields of an operation that passes validation:
   query($t: Boolean!) { a { id }  a @include(if: $t) { name }  a { x: id } } with {"t": true} *)
Theorem c03_merge_selections_fields_reorder :
  execute 30 S1 U1 Mono d_freorder None v_t =
    {| rs_data := JObj [(n_a, JObj [(n_id, JStr [49]); (n_name, JStr [110]); (n_x, JStr [49])])]; rs_errs := [] |} /\
  execute 30 S1 U1 Mono (merge_sel d_freorder) None v_t =
    {| rs_data := JObj [(n_a, JObj [(n_id, JStr [49]); (n_x, JStr [49]); (n_name, JStr [110])])]; rs_errs := [] |} /\
  resp_equiv (execute 30 S1 U1 Mono d_freorder None v_t) (execute 30 S1 U1 Mono (merge_sel d_freorder) None v_t) = true.
Proof. exact merge_sel_fields_reorder. Qed.
Print Assumptions c03_merge_selections_fields_reorder.

(* idempotent on every document: the output holds no mergeable pair at any level *)
Theorem c03_merge_selections_idempotent : forall d : document, merge_sel (merge_sel d) = merge_sel d.
Proof. exact merge_sel_idempotent. Qed.
Print Assumptions c03_merge_selections_idempotent.

Example c03_merge_selections_idempotent_nontrivial :
  merge_settled dirs_eqb (merge_sel d_mreorder) = true /\ merge_sel d_mreorder <> d_mreorder.
Proof. exact merge_sel_idempotent_nontrivial. Qed.

(* ---- the composition extended with inline_selections_from_inline_fragments at its engine position ----
   norm_pre_inline S jv d    = self_alias (frag_inline S (include_skip jv d))
   norm_upto_inline S jv d   = inline_sel S (norm_pre_inline S jv d)
   norm_proved_inline S jv d = dedup (remove_frag_defs (norm_upto_inline S jv d)) *)
Theorem c03_norm_preserves_exec_inline_partial :
  forall (S : schema) (U : universe) (d : document) (opn : option name) (v : json),
    (forall o, pick_op d opn = Some o ->
               include_skip_ok (obj_members v) (effective_vars o (obj_members v)) d = true) ->
    static_schema_ok S = true ->
    types_known S (norm_pre_inline S (obj_members v) d) = true ->
    keys_agree (norm_pre_inline S (obj_members v) d) = true ->
    inline_sel S (norm_pre_inline S (obj_members v) d) = inline_sel_pre_repair S (norm_pre_inline S (obj_members v) d) ->
    ops_spread_free (norm_upto_inline S (obj_members v) d) = true ->
    forall fuel fuel1 fuel' : nat,
      oof_b (rs_errs (execute fuel S U Mono d opn v)) = false ->
      oof_b (rs_errs (execute fuel1 S U Mono (norm_upto_inline S (obj_members v) d) opn v)) = false ->
      oof_b (rs_errs (execute fuel' S U Mono (norm_proved_inline S (obj_members v) d) opn v)) = false ->
      execute fuel' S U Mono (norm_proved_inline S (obj_members v) d) opn v = execute fuel S U Mono d opn v.
Proof. exact norm_preserves_exec_inline_partial. Qed.
Print Assumptions c03_norm_preserves_exec_inline_partial.

Example c03_norm_inline_hypotheses :
  (forall o, pick_op d_full (Some n_Q) = Some o ->
             include_skip_ok (obj_members (JObj [])) (effective_vars o (obj_members (JObj []))) d_full = true) /\
  static_schema_ok S1 = true /\
  types_known S1 (norm_pre_inline S1 [] d_full) = true /\
  keys_agree (norm_pre_inline S1 [] d_full) = true /\
  inline_sel S1 (norm_pre_inline S1 [] d_full) = inline_sel_pre_repair S1 (norm_pre_inline S1 [] d_full) /\
  ops_spread_free (norm_upto_inline S1 [] d_full) = true /\
  inline_sel S1 (norm_pre_inline S1 [] d_full) <> norm_pre_inline S1 [] d_full /\
  oof_b (rs_errs (execute 30 S1 U1 Mono d_full (Some n_Q) (JObj []))) = false /\
  oof_b (rs_errs (execute 30 S1 U1 Mono (norm_upto_inline S1 [] d_full) (Some n_Q) (JObj []))) = false /\
  oof_b (rs_errs (execute 30 S1 U1 Mono (norm_proved_inline S1 [] d_full) (Some n_Q) (JObj []))) = false.
Proof. exact ex_full_hypotheses. Qed.

(* ---- inline_fragment_selection_merging, when it keeps the order of the response ----
   merge_in_order S d (executable; follows the pass through every selection list it processes): between an
   inline fragment and the last fragment it absorbs stand only absorbed fragments and fragments on another
   OBJECT type of S (never entered together with it); between a field and the last field it absorbs stand
   only absorbed fields and fields with another response key or without sub-selections.
   (The comparison of the code -- equal names, aliases, argument sets and directive multisets -- is what
   the hypothesis is evaluated with; the proof uses that equal directive multisets include/exclude alike
   and that the executor answers a response key with the first field's name and arguments.) *)
Theorem c03_merge_selections_preserves_exec_partial :
  forall (S : schema) (U : universe) (d : document) (opn : option name) (v : json),
    merge_in_order S d = true ->
    forall fuel fuel' : nat,
      oof_b (rs_errs (execute fuel S U Mono d opn v)) = false ->
      oof_b (rs_errs (execute fuel' S U Mono (merge_sel d) opn v)) = false ->
      execute fuel' S U Mono (merge_sel d) opn v = execute fuel S U Mono d opn v.
Proof. exact merge_sel_preserves_exec_partial. Qed.
Print Assumptions c03_merge_selections_preserves_exec_partial.

(* non-vacuity: { a { id }  a { name }  i { ... on A { name } ... on B { q } ... on A { x: id } id } } has a field
   merge and a fragment merge (over a fragment on another object type) and satisfies the hypothesis; the two
   refutation witnesses above do not *)
Example c03_merge_selections_hypotheses :
  merge_in_order S1 d_merge = true /\
  merge_sel d_merge = qdoc [ fld n_a [fld n_id []; fld n_name []];
                             fld n_i [ SInline (Some n_A) [] [fld n_name []; SField (Some n_x) n_id [] [] []];
                                       SInline (Some n_B) [] [fld n_q []]; fld n_id [] ] ] /\
  execute 30 S1 U1 Mono (merge_sel d_merge) None (JObj []) = execute 30 S1 U1 Mono d_merge None (JObj []) /\
  rs_errs (execute 30 S1 U1 Mono d_merge None (JObj [])) = [] /\
  merge_in_order S1 d_mreorder = false /\ merge_in_order S1 d_freorder = false.
Proof. exact ex_merge_hypotheses. Qed.

(* ---- the whole selection pipeline of the model, in engine order ----
   norm_selections S jv d = dedup (remove_frag_defs (merge_sel (inline_sel S (self_alias (frag_inline S (include_skip jv d))))))
   norm_upto_merge S jv d = merge_sel (norm_upto_inline S jv d)
   Same hypotheses as c03_norm_preserves_exec_partial plus those of the two passes.  Besides the first
   and the last execution, the executions after inlining and after merging must finish with some fuel (the theorems of those two passes relate two fuels, those of the others one). *)
Theorem c03_norm_preserves_exec_full_partial :
  forall (S : schema) (U : universe) (d : document) (opn : option name) (v : json),
    (forall o, pick_op d opn = Some o ->
               include_skip_ok (obj_members v) (effective_vars o (obj_members v)) d = true) ->
    ops_spread_free (frag_inline S (include_skip (obj_members v) d)) = true ->
    static_schema_ok S = true ->
    types_known S (norm_pre_inline S (obj_members v) d) = true ->
    keys_agree (norm_pre_inline S (obj_members v) d) = true ->
    inline_sel S (norm_pre_inline S (obj_members v) d) = inline_sel_pre_repair S (norm_pre_inline S (obj_members v) d) ->
    merge_in_order S (norm_upto_inline S (obj_members v) d) = true ->
    forall fuel fuel1 fuel2 fuel' : nat,
      oof_b (rs_errs (execute fuel S U Mono d opn v)) = false ->
      oof_b (rs_errs (execute fuel1 S U Mono (norm_upto_inline S (obj_members v) d) opn v)) = false ->
      oof_b (rs_errs (execute fuel2 S U Mono (norm_upto_merge S (obj_members v) d) opn v)) = false ->
      oof_b (rs_errs (execute fuel' S U Mono (norm_selections S (obj_members v) d) opn v)) = false ->
      execute fuel' S U Mono (norm_selections S (obj_members v) d) opn v = execute fuel S U Mono d opn v.
Proof. exact norm_preserves_exec_full_partial'. Qed.
Print Assumptions c03_norm_preserves_exec_full_partial.

(* non-vacuity: a request with a redex of every one of the seven passes *)
Example c03_norm_full_hypotheses :
  (forall o, pick_op d_all (Some n_Q) = Some o ->
             include_skip_ok (obj_members (JObj [])) (effective_vars o (obj_members (JObj []))) d_all = true) /\
  ops_spread_free (frag_inline S2 (include_skip (obj_members (JObj [])) d_all)) = true /\
  static_schema_ok S2 = true /\
  types_known S2 (norm_pre_inline S2 [] d_all) = true /\
  keys_agree (norm_pre_inline S2 [] d_all) = true /\
  inline_sel S2 (norm_pre_inline S2 [] d_all) = inline_sel_pre_repair S2 (norm_pre_inline S2 [] d_all) /\
  merge_in_order S2 (norm_upto_inline S2 [] d_all) = true /\
  norm_upto_inline S2 [] d_all <> norm_pre_inline S2 [] d_all /\
  norm_upto_merge S2 [] d_all <> norm_upto_inline S2 [] d_all /\
  oof_b (rs_errs (execute 40 S2 U1 Mono d_all (Some n_Q) (JObj []))) = false /\
  oof_b (rs_errs (execute 40 S2 U1 Mono (norm_upto_inline S2 [] d_all) (Some n_Q) (JObj []))) = false /\
  oof_b (rs_errs (execute 40 S2 U1 Mono (norm_upto_merge S2 [] d_all) (Some n_Q) (JObj []))) = false /\
  oof_b (rs_errs (execute 40 S2 U1 Mono (norm_selections S2 [] d_all) (Some n_Q) (JObj []))) = false.
Proof. exact ex_all_hypotheses'. Qed.

Example c03_norm_full_normal_form :
  norm_selections S2 [] d_all =
  [ DOp {| op_kind := OpQuery; op_name := Some n_Q;
           op_vars := [{| vd_name := n_s; vd_type := (TNamed [66;111;111;108;101;97;110]); vd_default := Some (VBool false); vd_dirs := [] |}];
           op_dirs := [];
           op_sels := [ SField None n_a [] [] [ SField None n_id [] [] []; SField None n_name [] [] [] ];
                        SField None n_i [] [] [ SField None n_id [] [] [];
                                                SInline (Some n_A) [] [SField None n_name [] [] []; SField (Some n_x) n_id [] [] []] ] ] |} ].
Proof. exact ex_all_normal_form. Qed.
