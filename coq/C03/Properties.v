(* C03 property theorems: statements only; every proof is [exact lemma].

   "no out-of-fuel" is [oof_b (rs_errs r) = false]; every equation below is an equation between
   whole responses (data tree and error list) of the reference executor lib/Exec.v in mode Mono,
   for ALL schemas, universes, documents, operation names, variables and fuels.

   Passes covered by theorems (engine order): directive_include_skip (partial), fragment_spread_inlining,
   remove_self_aliasing, fragment_definition_removal (partial), field_deduplication.
   Not covered by theorems (model correspondence + semantic differential only):
   inline_selections_from_inline_fragments, inline_fragment_selection_merging; the variable passes
   are covered by the semantic differential only. *)
From Gv Require Import lib.Bytes lib.Json lib.Gql lib.Exec C03.Model C03.Spec
     C03.ProofsExec C03.ProofsRel C03.ProofsDoc C03.ProofsPasses C03.ProofsDedup C03.ProofsMono
     C03.ProofsCompose C03.Examples C03.ProofsRefute C03.ProofsDirs.
From Coq Require Import List Permutation.

(* ---- the executor: fuel only decides whether an execution finishes ---- *)
Theorem c03_execute_fuel_monotone :
  forall (S : schema) (U : universe) (d : document) (opn : option name) (v : json) (f f' : nat),
    (f <= f')%nat -> oof_b (rs_errs (execute f S U Mono d opn v)) = false ->
    execute f' S U Mono d opn v = execute f S U Mono d opn v.
Proof. exact execute_mono. Qed.
Print Assumptions c03_execute_fuel_monotone.

(* ---- remove_self_aliasing ---- *)
Theorem c03_self_alias_preserves_exec :
  forall (S : schema) (U : universe) (d : document) (fuel : nat) (opn : option name) (v : json),
    oof_b (rs_errs (execute fuel S U Mono d opn v)) = false ->
    execute fuel S U Mono (self_alias d) opn v = execute fuel S U Mono d opn v.
Proof. exact self_alias_preserves_exec. Qed.
Print Assumptions c03_self_alias_preserves_exec.

Theorem c03_self_alias_idempotent : forall d : document, self_alias (self_alias d) = self_alias d.
Proof. exact self_alias_idempotent. Qed.
Print Assumptions c03_self_alias_idempotent.

(* ---- fragment_spread_inlining ---- *)
Theorem c03_frag_inline_preserves_exec :
  forall (S : schema) (U : universe) (d : document) (fuel : nat) (opn : option name) (v : json),
    oof_b (rs_errs (execute fuel S U Mono d opn v)) = false ->
    execute fuel S U Mono (frag_inline S d) opn v = execute fuel S U Mono d opn v.
Proof. exact frag_inline_preserves_exec. Qed.
Print Assumptions c03_frag_inline_preserves_exec.

Theorem c03_frag_inline_idempotent_partial :
  forall (S : schema) (d : document),
    ops_spread_free (frag_inline S d) = true -> frag_inline S (frag_inline S d) = frag_inline S d.
Proof. exact frag_inline_idempotent_partial. Qed.
Print Assumptions c03_frag_inline_idempotent_partial.

Theorem c03_frag_inline_idempotent_refuted :
  exists (S : schema) (d : document), frag_inline S (frag_inline S d) <> frag_inline S d.
Proof. exact frag_inline_idempotent_refuted. Qed.
Print Assumptions c03_frag_inline_idempotent_refuted.

(* ---- directive_include_skip ----
   hypothesis [include_skip_ok]: the pass reads every @skip/@include condition like the executor
   (a JSON boolean, else the variable's default) and empties no selection set *)
Theorem c03_include_skip_preserves_exec_partial :
  forall (S : schema) (U : universe) (d : document) (fuel : nat) (opn : option name) (v : json),
    (forall o, pick_op d opn = Some o ->
               include_skip_ok (obj_members v) (effective_vars o (obj_members v)) d = true) ->
    oof_b (rs_errs (execute fuel S U Mono d opn v)) = false ->
    execute fuel S U Mono (include_skip (obj_members v) d) opn v = execute fuel S U Mono d opn v.
Proof. exact include_skip_preserves_exec_partial. Qed.
Print Assumptions c03_include_skip_preserves_exec_partial.

Theorem c03_include_skip_preserves_exec_refuted :
  exists S U d fuel opn v,
    oof_b (rs_errs (execute fuel S U Mono d opn v)) = false /\
    execute fuel S U Mono (include_skip (obj_members v) d) opn v <> execute fuel S U Mono d opn v /\
    resp_equiv (execute fuel S U Mono d opn v) (execute fuel S U Mono (include_skip (obj_members v) d) opn v) = true.
Proof. exact include_skip_preserves_exec_refuted. Qed.
Print Assumptions c03_include_skip_preserves_exec_refuted.

(* the repaired pass (work/c03_fix_directive-after-dropped-directive-not-visited.patch: the walker
   ranges over a copy of the directive refs) visits every directive, so its output holds no
   evaluable @skip/@include and it is idempotent on EVERY document *)
Theorem c03_include_skip_idempotent :
  forall (jv : list (bytes * json)) (d : document), include_skip jv (include_skip jv d) = include_skip jv d.
Proof. exact include_skip_idempotent. Qed.
Print Assumptions c03_include_skip_idempotent.

(* historical: before the repair one run could leave an evaluable directive behind (the walker
   skipped the position after a dropped directive); that pass was idempotent only once every
   remaining directive was one it keeps *)
Theorem c03_include_skip_idempotent_pre_repair_partial :
  forall (jv : list (bytes * json)) (d : document),
    settled jv (include_skip_pre_repair jv d) = true ->
    include_skip_pre_repair jv (include_skip_pre_repair jv d) = include_skip_pre_repair jv d.
Proof. exact (include_skip_gen_idempotent_partial true). Qed.
Print Assumptions c03_include_skip_idempotent_pre_repair_partial.

Theorem c03_include_skip_idempotent_pre_repair_refuted :
  exists (jv : list (bytes * json)) (d : document),
    include_skip_pre_repair jv (include_skip_pre_repair jv d) <> include_skip_pre_repair jv d.
Proof. exact include_skip_idempotent_pre_repair_refuted. Qed.
Print Assumptions c03_include_skip_idempotent_pre_repair_refuted.

(* { count @skip(if: false) @include(if: false) @tag  a { name } }: the repaired pass removes [count]
   in its single run, the old one did not *)
Theorem c03_include_skip_fixed_witness :
  include_skip [] d_three = d_three_done /\ include_skip_pre_repair [] d_three <> d_three_done.
Proof. exact include_skip_fixed_witness. Qed.
Print Assumptions c03_include_skip_fixed_witness.

(* ---- inline_selections_from_inline_fragments: the placeholder of an emptied fragment ----
   { a { id ... { name @skip(if: true) } } } and { a { id name @skip(if: true) } } differ only in
   fragment structure; before work/c03_fix_placeholder-left-after-fragment-inlining.patch their normal
   forms differed (the placeholder was inlined next to [id]), now they are equal; the repaired pass
   removes an inlinable fragment that holds only the placeholder whenever its set has another selection *)
Theorem c03_placeholder_pre_repair_refuted :
  norm_selections_pre_repair S0 [] d_wrapped <> norm_selections_pre_repair S0 [] d_plain.
Proof. exact placeholder_pre_repair_refuted. Qed.
Print Assumptions c03_placeholder_pre_repair_refuted.

Theorem c03_placeholder_fixed_witness : norm_selections S0 [] d_wrapped = norm_selections S0 [] d_plain.
Proof. exact placeholder_fixed_witness. Qed.
Print Assumptions c03_placeholder_fixed_witness.

Theorem c03_placeholder_fragment_dropped : forall S T f c done r,
  could_inline S T c [] [placeholder] = true -> (1 <= length done + length r)%nat ->
  il_level S true (Datatypes.S f) T done (SInline c [] [placeholder] :: r) = il_level S true f T done r.
Proof. exact placeholder_fragment_dropped. Qed.
Print Assumptions c03_placeholder_fragment_dropped.

(* ---- fragment_definition_removal ---- *)
Theorem c03_remove_frag_defs_preserves_exec_partial :
  forall (S : schema) (U : universe) (d : document) (fuel : nat) (opn : option name) (v : json),
    ops_spread_free d = true ->
    oof_b (rs_errs (execute fuel S U Mono d opn v)) = false ->
    execute fuel S U Mono (remove_frag_defs d) opn v = execute fuel S U Mono d opn v.
Proof. exact remove_frag_defs_preserves_exec. Qed.
Print Assumptions c03_remove_frag_defs_preserves_exec_partial.

Theorem c03_remove_frag_defs_idempotent : forall d : document, remove_frag_defs (remove_frag_defs d) = remove_frag_defs d.
Proof. exact remove_frag_defs_idempotent. Qed.
Print Assumptions c03_remove_frag_defs_idempotent.

(* ---- field_deduplication ---- *)
Theorem c03_dedup_preserves_exec :
  forall (S : schema) (U : universe) (d : document) (fuel : nat) (opn : option name) (v : json),
    oof_b (rs_errs (execute fuel S U Mono d opn v)) = false ->
    execute fuel S U Mono (dedup d) opn v = execute fuel S U Mono d opn v.
Proof. exact dedup_preserves_exec. Qed.
Print Assumptions c03_dedup_preserves_exec.

Theorem c03_dedup_idempotent : forall d : document, dedup (dedup d) = dedup d.
Proof. exact dedup_idempotent. Qed.
Print Assumptions c03_dedup_idempotent.

(* ---- directive lists in field_deduplication and inline_fragment_selection_merging ----
   A later selection is dropped as a duplicate ([flat_eqb], the premise of every [dl_drop] step of
   [dd_sels_dl]) or merged into an earlier one ([can_merge]) only when their directive lists are equal
   as MULTISETS: some permutation of the later list is pointwise [dir_eqb] to the earlier list
   (directives may be repeatable: every application is matched with a distinct one). *)
Theorem c03_dedup_requires_equal_directives : forall x s : selection,
  flat_eqb x s = true ->
  exists p, Permutation (sel_dirs s) p /\ Forall2 (fun d d' => dir_eqb d d' = true) (sel_dirs x) p.
Proof. exact dedup_requires_equal_directives. Qed.
Print Assumptions c03_dedup_requires_equal_directives.

Theorem c03_merge_requires_equal_directives : forall l r : selection,
  can_merge l r = true ->
  exists p, Permutation (sel_dirs r) p /\ Forall2 (fun d d' => dir_eqb d d' = true) (sel_dirs l) p.
Proof. exact merge_requires_equal_directives. Qed.
Print Assumptions c03_merge_requires_equal_directives.

(* The set-semantics variant (equal length, every earlier directive equal to SOME later one; seeded
   regression C04-m7, never the code of /repo) is refuted: it equates
   [@include(if: $x), @include(if: $x)] with [@include(if: $x), @skip(if: $y)], which no pairwise
   matching does, and the merging pass built on it changes the response of
     query($x: Boolean!, $y: Boolean!) { a @include(if:$x) @include(if:$x) { id }  a @include(if:$x) @skip(if:$y) { name } }
   under {"x": true, "y": true} (the skipped [name] is selected), which the model of the code
   leaves alone.  (On spec-valid operations the two comparisons can only differ on a repeatable
   directive, and no directive with execution semantics is repeatable: the sampled exec_preserved
   clause cannot see the variant, corr:C03/merge_selections and corr:C03/dedup_fields do.) *)
Theorem c03_merge_dirs_as_set_refuted :
  dirs_eqb_set [dir_include (VVar n_x); dir_include (VVar n_x)] [dir_include (VVar n_x); dir_skip (VVar n_y)] = true /\
  (~ exists p, Permutation [dir_include (VVar n_x); dir_skip (VVar n_y)] p /\
               Forall2 (fun d d' => dir_eqb d d' = true) [dir_include (VVar n_x); dir_include (VVar n_x)] p) /\
  merge_sel d_set = d_set /\
  execute 30 S0 U0 Mono (merge_sel_dirs_as_set d_set) None v_set <> execute 30 S0 U0 Mono d_set None v_set /\
  rs_errs (execute 30 S0 U0 Mono d_set None v_set) = [].
Proof. exact merge_dirs_as_set_refuted_proof. Qed.
Print Assumptions c03_merge_dirs_as_set_refuted.

(* the hypothesis of c03_merge_requires_equal_directives is satisfiable by lists that differ in order *)
Example c03_merge_equal_directives_nontrivial :
  can_merge (SField None n_a [] [dir_include (VVar n_x); dir_skip (VVar n_y)] [ SField None n_id [] [] [] ])
            (SField None n_a [] [dir_skip (VVar n_y); dir_include (VVar n_x)] [ SField None n_name [] [] [] ]) = true.
Proof. exact merge_equal_dirs_witness. Qed.

(* ---- the proved passes composed in engine order ----
   norm_proved S jv d = dedup (remove_frag_defs (self_alias (frag_inline S (include_skip jv d)))) *)
Theorem c03_norm_preserves_exec_partial :
  forall (S : schema) (U : universe) (d : document) (opn : option name) (v : json),
    (forall o, pick_op d opn = Some o ->
               include_skip_ok (obj_members v) (effective_vars o (obj_members v)) d = true) ->
    ops_spread_free (frag_inline S (include_skip (obj_members v) d)) = true ->
    forall fuel fuel' : nat,
      oof_b (rs_errs (execute fuel S U Mono d opn v)) = false ->
      oof_b (rs_errs (execute fuel' S U Mono (norm_proved S (obj_members v) d) opn v)) = false ->
      execute fuel' S U Mono (norm_proved S (obj_members v) d) opn v = execute fuel S U Mono d opn v.
Proof. exact norm_preserves_exec_partial. Qed.
Print Assumptions c03_norm_preserves_exec_partial.

(* the hypotheses are satisfiable by a request with a redex of every proved pass *)
Theorem c03_example_hypotheses :
  (forall o, pick_op d0 (Some n_Q) = Some o ->
             include_skip_ok (obj_members (JObj [])) (effective_vars o (obj_members (JObj []))) d0 = true) /\
  ops_spread_free (frag_inline S0 (include_skip (obj_members (JObj [])) d0)) = true.
Proof. exact ex_hypotheses. Qed.
Print Assumptions c03_example_hypotheses.
