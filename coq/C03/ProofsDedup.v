(* C03 proofs, part 5: field deduplication (field_deduplication.go) preserves [execute] and is
   idempotent.  A leaf field that is dropped has an earlier flat-equal sibling; after CollectFields
   both land in the same response-key group, the earlier one first, and the dropped one contributes
   no sub-selections. *)
From Gv Require Import lib.Bytes lib.Json lib.Gql lib.Exec C03.Model C03.Spec
     C03.ProofsExec C03.ProofsRel C03.ProofsDoc C03.ProofsPasses.
From Coq Require Import Lia PeanoNat.
Open Scope N_scope.

(* ------------------------------------------------------------------ syntactic equality is equality *)
Section ValInd.
  Variable P : value -> Prop.
  Hypothesis Hvar : forall n, P (VVar n).
  Hypothesis Hint : forall r, P (VInt r).
  Hypothesis Hfloat : forall r, P (VFloat r).
  Hypothesis Hstr : forall r b, P (VStr r b).
  Hypothesis Hbool : forall b, P (VBool b).
  Hypothesis Hnull : P VNull.
  Hypothesis Henum : forall n, P (VEnum n).
  Hypothesis Hlist : forall l, Forall P l -> P (VList l).
  Hypothesis Hobj : forall l, Forall (fun kv => P (snd kv)) l -> P (VObj l).
  Fixpoint value_ind' (v : value) : P v :=
    match v with
    | VVar n => Hvar n | VInt r => Hint r | VFloat r => Hfloat r | VStr r b => Hstr r b
    | VBool b => Hbool b | VNull => Hnull | VEnum n => Henum n
    | VList l => Hlist l ((fix go (l : list value) : Forall P l :=
                             match l with [] => Forall_nil _ | x :: r => Forall_cons _ (value_ind' x) (go r) end) l)
    | VObj l => Hobj l ((fix go (l : list (name * value)) : Forall (fun kv => P (snd kv)) l :=
                           match l with [] => Forall_nil _ | x :: r => Forall_cons _ (value_ind' (snd x)) (go r) end) l)
    end.
End ValInd.

Lemma value_eqb_eq : forall a w, value_eqb a w = true -> a = w.
Proof.
  induction a using value_ind'; intros w; destruct w; cbn; intro E; try discriminate.
  - f_equal. apply bytes_eqb_eq. exact E.
  - f_equal. apply bytes_eqb_eq. exact E.
  - f_equal. apply bytes_eqb_eq. exact E.
  - apply andb_prop in E. destruct E as [E1 E2]. apply bytes_eqb_eq in E1. apply Bool.eqb_prop in E2. subst. reflexivity.
  - apply Bool.eqb_prop in E. subst. reflexivity.
  - reflexivity.
  - f_equal. apply bytes_eqb_eq. exact E.
  - f_equal. revert items E. induction H as [|x l Hx Hl IH]; intros [|y items] E; try discriminate; [reflexivity|].
    apply andb_prop in E. destruct E as [E1 E2]. f_equal; [apply Hx; exact E1|apply IH; exact E2].
  - f_equal. revert fields E. induction H as [|[k x] l Hx Hl IH]; intros [|[k' y] fields] E; try discriminate; [reflexivity|].
    apply andb_prop in E. destruct E as [E1 E3]. apply andb_prop in E1. destruct E1 as [E1 E2].
    apply bytes_eqb_eq in E1. cbn in Hx. apply Hx in E2. subst. f_equal. apply IH. exact E3.
Qed.

(* the by-name comparison of argument lists: every name is looked up to the same value on both sides *)
Lemma assoc_some_in : forall (l : list argument) k v, assoc k l = Some v -> In (k, v) l.
Proof.
  induction l as [|[k' v'] l IH]; cbn; intros k v E; [discriminate|].
  destruct (bytes_eqb k k') eqn:Ek.
  - apply bytes_eqb_eq in Ek. inversion E; subst. left. reflexivity.
  - right. apply IH. exact E.
Qed.
Lemma args_contained_assoc : forall a b, args_contained a b = true ->
  forall k v, assoc k a = Some v -> assoc k b = Some v.
Proof.
  intros a b H k v E. unfold args_contained in H. rewrite forallb_forall in H.
  specialize (H _ (assoc_some_in a k v E)). cbn [fst snd] in H.
  destruct (assoc k b) as [w|]; [|discriminate]. apply value_eqb_eq in H. subst. reflexivity.
Qed.
Lemma args_eqb_assoc : forall a b, args_eqb a b = true -> forall k, assoc k a = assoc k b.
Proof.
  intros a b E k. unfold args_eqb in E. apply andb_prop in E. destruct E as [E E2]. apply andb_prop in E. destruct E as [_ E1].
  destruct (assoc k a) as [v|] eqn:Ea.
  - symmetry. eapply args_contained_assoc; eassumption.
  - destruct (assoc k b) as [w|] eqn:Eb; [|reflexivity].
    rewrite (args_contained_assoc b a E2 k w Eb) in Ea. discriminate.
Qed.

Lemma dir_eqb_props : forall a b, dir_eqb a b = true ->
  d_name a = d_name b /\ forall k, assoc k (d_args a) = assoc k (d_args b).
Proof.
  intros [n1 a1] [n2 a2] E. unfold dir_eqb in E. cbn in E. apply andb_prop in E. destruct E as [E1 E2].
  apply bytes_eqb_eq in E1. split; [exact E1|]. cbn. apply args_eqb_assoc. exact E2.
Qed.

Section Dedup.
  Variable S : schema.
  Variable U : universe.
  Variable frags frags' : list fragment.
  Variable vars : list (bytes * json).

  (* ---- @skip/@include do not see the order of directives ---- *)
  Lemma included_remove_first : forall d b b',
      remove_first_dir d b = Some b' -> included vars b = included vars [d] && included vars b'.
  Proof.
    intros d. induction b as [|x r IH]; intros b' E; cbn [remove_first_dir] in E; [discriminate|].
    destruct (dir_eqb d x) eqn:Ex.
    - inversion E; subst. rewrite (included_cons vars x b'). f_equal.
      destruct (dir_eqb_props _ _ Ex) as [Hn Ha]. cbn [included]. unfold dir_if. rewrite Hn, (Ha s_if). reflexivity.
    - destruct (remove_first_dir d r) as [r'|]; [|discriminate]. inversion E; subst.
      rewrite (included_cons vars x r), (included_cons vars x r'), (IH r' eq_refl).
      destruct (included vars [x]), (included vars [d]); reflexivity.
  Qed.
  Lemma dirs_eqb_included : forall a b, dirs_eqb a b = true -> included vars a = included vars b.
  Proof.
    induction a as [|d a IH]; intros b E; cbn [dirs_eqb] in E.
    - destruct b; [reflexivity|discriminate].
    - destruct (remove_first_dir d b) as [b'|] eqn:Er; [|discriminate].
      rewrite (included_cons vars d a), (IH b' E). symmetry. apply included_remove_first. exact Er.
  Qed.

  Definition is_leaf_field (s : selection) : bool :=
    match s with SField _ _ _ _ [] => true | _ => false end.

  Lemma flat_eqb_props : forall x s,
      flat_eqb x s = true ->
      is_leaf_field x = true /\ is_leaf_field s = true /\ sel_key x = sel_key s /\
      included vars (sel_dirs x) = included vars (sel_dirs s).
  Proof.
    intros x s E. destruct x as [a1 n1 g1 d1 [|]| |]; try discriminate.
    destruct s as [a2 n2 g2 d2 [|]| |]; try discriminate.
    cbn in E. apply andb_prop in E. destruct E as [E E4]. apply andb_prop in E. destruct E as [E E3].
    apply andb_prop in E. destruct E as [E1 E2]. apply bytes_eqb_eq in E1. subst n2.
    repeat split; try reflexivity.
    - cbn. destruct a1 as [x|], a2 as [y|]; cbn in E2; try discriminate; [apply bytes_eqb_eq in E2; subst|]; reflexivity.
    - cbn. apply dirs_eqb_included. exact E4.
  Qed.

  (* ---- the relation ---- *)
  Inductive dl : list selection -> list selection -> list selection -> Prop :=
  | dl_nil : forall seen, dl seen [] []
  | dl_keep : forall seen s s' l l', ds s s' -> dl (s :: seen) l l' -> dl seen (s :: l) (s' :: l')
  | dl_drop : forall seen s x l l', In x seen -> flat_eqb x s = true -> dl seen l l' -> dl seen (s :: l) l'
  with ds : selection -> selection -> Prop :=
  | ds_field : forall a n args dirs sub sub', dl [] sub sub' -> ds (SField a n args dirs sub) (SField a n args dirs sub')
  | ds_inline : forall c dirs sub sub', dl [] sub sub' -> ds (SInline c dirs sub) (SInline c dirs sub')
  | ds_spread : forall n dirs, ds (SSpread n dirs) (SSpread n dirs).

  Lemma dl_weaken : forall seen l l', dl seen l l' -> forall seen2, incl seen seen2 -> dl seen2 l l'.
  Proof.
    induction 1; intros seen2 Hi.
    - apply dl_nil.
    - apply dl_keep; [assumption|]. apply IHdl. intros y [Hy|Hy]; [left; exact Hy|right; apply Hi; exact Hy].
    - eapply dl_drop; [apply Hi; eassumption|eassumption|]. apply IHdl. exact Hi.
  Qed.
  Lemma dl_app : forall seen a a', dl seen a a' -> forall b b', dl [] b b' -> dl seen (a ++ b) (a' ++ b').
  Proof.
    induction 1; intros b b' Hb; cbn.
    - eapply dl_weaken; [exact Hb|]. intros y [].
    - apply dl_keep; [assumption|]. apply IHdl. exact Hb.
    - eapply dl_drop; [eassumption|eassumption|]. apply IHdl. exact Hb.
  Qed.

  Lemma ds_key : forall s s', ds s s' -> sel_key s = sel_key s'.
  Proof. intros s s' H; destruct H; reflexivity. Qed.
  Lemma ds_fsig : forall s s', ds s s' -> fsig s = fsig s'.
  Proof. intros s s' H; destruct H; reflexivity. Qed.
  Lemma ds_subs : forall s s', ds s s' -> dl [] (field_subs s) (field_subs s').
  Proof. intros s s' H; destruct H; cbn; auto; apply dl_nil. Qed.
  Lemma ds_dirs : forall s s', ds s s' -> sel_dirs s = sel_dirs s'.
  Proof. intros s s' H; destruct H; reflexivity. Qed.

  Definition frags_dl : Prop :=
    forall n,
      match find_frag n frags with
      | Some fr => exists fr', find_frag n frags' = Some fr' /\ fr_type fr' = fr_type fr /\ dl [] (fr_sels fr) (fr_sels fr')
      | None => find_frag n frags' = None
      end.
  Hypothesis Hfr : frags_dl.

  (* ---- flattened lists ---- *)
  Inductive prune : list name -> list selection -> list selection -> Prop :=
  | pr_nil : forall pre, prune pre [] []
  | pr_keep : forall pre s s' l l', ds s s' -> prune (sel_key s :: pre) l l' -> prune pre (s :: l) (s' :: l')
  | pr_drop : forall pre s l l', mem_bytes (sel_key s) pre = true -> field_subs s = [] -> prune pre l l' -> prune pre (s :: l) l'.

  Definition kincl (a b : list name) : Prop := forall k, mem_bytes k a = true -> mem_bytes k b = true.
  Lemma mem_bytes_cons : forall k x l, mem_bytes k (x :: l) = bytes_eqb k x || mem_bytes k l.
  Proof. reflexivity. Qed.
  Lemma kincl_cons : forall a b x, kincl a b -> kincl (x :: a) (x :: b).
  Proof. intros a b x H k. rewrite !mem_bytes_cons. intro E. apply orb_prop in E. destruct E as [E|E]; [rewrite E; reflexivity|rewrite (H k E); apply orb_true_r]. Qed.

  Lemma prune_weaken : forall pre l l', prune pre l l' -> forall pre2, kincl pre pre2 -> prune pre2 l l'.
  Proof.
    induction 1; intros pre2 Hi.
    - apply pr_nil.
    - apply pr_keep; [assumption|]. apply IHprune. apply kincl_cons. exact Hi.
    - apply pr_drop; [apply Hi; assumption|assumption|]. apply IHprune. exact Hi.
  Qed.
  Lemma prune_app : forall pre a a', prune pre a a' -> forall b b', prune pre b b' -> prune pre (a ++ b) (a' ++ b').
  Proof.
    induction 1; intros b b' Hb; cbn.
    - exact Hb.
    - apply pr_keep; [assumption|]. apply IHprune. eapply prune_weaken; [exact Hb|].
      intros k E. rewrite mem_bytes_cons, E. apply orb_true_r.
    - apply pr_drop; [assumption|assumption|]. apply IHprune. exact Hb.
  Qed.

  Definition flat_prune (pre : list name) (r r' : flat) : Prop :=
    match r with
    | FlatOk fl => exists fl', r' = FlatOk fl' /\ prune pre fl fl'
    | FlatBad XOutOfFuel => True
    | FlatBad e => r' = FlatBad e
    end.
  Lemma flat_prune_not_oof : forall pre r r', flat_prune pre r r' -> not_oof r -> not_oof r'.
  Proof.
    intros pre r r' H Hn. destruct r as [fl|e].
    - destruct H as [fl' [E _]]. subst. discriminate.
    - destruct e; cbn in H; subst; try discriminate. exfalso. apply Hn. reflexivity.
  Qed.
  Lemma flat_prune_weaken : forall pre pre2 r r', kincl pre pre2 -> flat_prune pre r r' -> flat_prune pre2 r r'.
  Proof.
    intros pre pre2 r r' Hi H. destruct r as [fl|e]; [|exact H].
    destruct H as [fl' [E P]]. exists fl'. split; [exact E|]. eapply prune_weaken; eassumption.
  Qed.
  Lemma flat_seq_prune : forall pre a a' b b',
      flat_prune pre a a' -> flat_prune pre b b' -> flat_prune pre (flat_seq a b) (flat_seq a' b').
  Proof.
    intros pre a a' b b' Ha Hb.
    destruct a as [l1|e].
    - destruct Ha as [l1' [E1 F1]]. subst a'.
      destruct b as [l2|e].
      + destruct Hb as [l2' [E2 F2]]. subst b'. cbn. eexists; split; [reflexivity|]. apply prune_app; assumption.
      + cbn. destruct e; cbn in Hb; subst; cbn; auto.
    - cbn. destruct e; cbn in Ha; subst; cbn; auto.
  Qed.

  (* what [pre] must know about the selections seen so far in the enclosing selection set *)
  Definition seen_inv (seen : list selection) (pre : list name) : Prop :=
    forall x, In x seen -> is_leaf_field x = true -> included vars (sel_dirs x) = true -> mem_bytes (sel_key x) pre = true.

  Lemma bytes_mem_refl : forall k l, mem_bytes k (k :: l) = true.
  Proof. intros. rewrite mem_bytes_cons, bytes_eqb_refl. reflexivity. Qed.

  Lemma flatten_dl : forall f objty seen l l' pre,
      dl seen l l' -> seen_inv seen pre ->
      flat_prune pre (flatten S frags vars f objty l) (flatten S frags' vars f objty l').
  Proof.
    induction f as [|f IH]; intros objty seen l l' pre H Hinv.
    - cbn. exact I.
    - destruct H as [seen|seen s s' l l' Hs Hl|seen s x l l' Hx Hfe Hl].
      + cbn. eexists; split; [reflexivity|apply pr_nil].
      + rewrite !flatten_S_cons.
        destruct Hs as [a n args dirs sub sub' Hsub|c dirs sub sub' Hsub|n dirs]; cbn [flat_here].
        * (* field *)
          destruct (included vars dirs) eqn:Ei.
          -- assert (HR : flat_prune (sel_key (SField a n args dirs sub) :: pre)
                                     (flatten S frags vars f objty l) (flatten S frags' vars f objty l')).
             { eapply IH; [exact Hl|]. intros y [Hy|Hy] Hlf Hin.
               - subst y. apply bytes_mem_refl.
               - rewrite mem_bytes_cons, (Hinv y Hy Hlf Hin). apply orb_true_r. }
             destruct (flatten S frags vars f objty l) as [fl|e].
             ++ destruct HR as [fl' [E P]]. rewrite E. cbn. eexists; split; [reflexivity|].
                apply pr_keep; [apply ds_field; exact Hsub|exact P].
             ++ destruct e; cbn in HR; cbn; auto; rewrite HR; reflexivity.
          -- assert (HR : flat_prune pre (flatten S frags vars f objty l) (flatten S frags' vars f objty l')).
             { eapply IH; [exact Hl|]. intros y [Hy|Hy] Hlf Hin.
               - subst y. cbn in Hin. congruence.
               - apply Hinv; assumption. }
             apply (flat_seq_prune pre (FlatOk []) (FlatOk [])); [|exact HR].
             cbn. eexists; split; [reflexivity|apply pr_nil].
        * (* inline fragment *)
          assert (HR : flat_prune pre (flatten S frags vars f objty l) (flatten S frags' vars f objty l')).
          { eapply IH; [exact Hl|]. intros y [Hy|Hy] Hlf Hin; [subst y; discriminate|apply Hinv; assumption]. }
          assert (HS : flat_prune pre (flatten S frags vars f objty sub) (flatten S frags' vars f objty sub')).
          { eapply IH; [exact Hsub|]. intros y []. }
          apply flat_seq_prune; [|exact HR].
          destruct (negb (included vars dirs)); [cbn; eexists; split; [reflexivity|apply pr_nil]|].
          destruct c as [c|]; [|exact HS].
          destruct (kind_of S c).
          -- destruct (type_applies S objty c); [exact HS|cbn; eexists; split; [reflexivity|apply pr_nil]].
          -- destruct (bytes_eqb c _); [exact HS|reflexivity].
        * (* spread *)
          assert (HR : flat_prune pre (flatten S frags vars f objty l) (flatten S frags' vars f objty l')).
          { eapply IH; [exact Hl|]. intros y [Hy|Hy] Hlf Hin; [subst y; discriminate|apply Hinv; assumption]. }
          apply flat_seq_prune; [|exact HR].
          destruct (negb (included vars dirs)); [cbn; eexists; split; [reflexivity|apply pr_nil]|].
          specialize (Hfr n). destruct (find_frag n frags) as [fr|].
          -- destruct Hfr as [fr' [E1 [E2 E3]]]. rewrite E1, E2.
             destruct (type_applies S objty (fr_type fr)); [|cbn; eexists; split; [reflexivity|apply pr_nil]].
             eapply IH; [exact E3|]. intros y [].
          -- rewrite Hfr. reflexivity.
      + (* a dropped duplicate *)
        rewrite flatten_S_cons.
        destruct (flat_eqb_props x s Hfe) as [Hlx [Hls [Hk Hd]]].
        assert (HR : flat_prune pre (flatten S frags vars f objty l) (flatten S frags' vars f objty l')).
        { eapply IH; [exact Hl|exact Hinv]. }
        destruct s as [a n args dirs [|]| |]; try discriminate. cbn [flat_here].
        assert (Hmono : not_oof (flatten S frags vars f objty l) ->
                        flatten S frags' vars (Datatypes.S f) objty l' = flatten S frags' vars f objty l').
        { intro Hn. apply flatten_mono. eapply flat_prune_not_oof; [exact HR|exact Hn]. }
        destruct (flatten S frags vars f objty l) as [fl|e] eqn:Efl.
        * rewrite Hmono by discriminate. destruct HR as [fl' [E P]]. rewrite E.
          destruct (included vars dirs) eqn:Ei; cbn [flat_seq app].
          -- eexists; split; [reflexivity|]. apply pr_drop; [|reflexivity|exact P].
             rewrite <- Hk. apply Hinv; [exact Hx|exact Hlx|]. rewrite Hd. exact Ei.
          -- eexists; split; [reflexivity|exact P].
        * assert (X : flat_prune pre (FlatBad e) (flatten S frags' vars (Datatypes.S f) objty l')).
          { destruct e as [pth|rsn|]; [rewrite Hmono by discriminate; exact HR|rewrite Hmono by discriminate; exact HR|exact I]. }
          destruct (included vars dirs); cbn [flat_seq]; exact X.
  Qed.

  (* ---- groups ---- *)
  Lemma filter_length_le : forall (A : Type) (p : A -> bool) l, (length (filter p l) <= length l)%nat.
  Proof. induction l; cbn; [lia|]. destruct (p a); cbn; lia. Qed.

  Lemma group_fuel : forall n m l, (length l < n)%nat -> (length l < m)%nat -> group n l = group m l.
  Proof.
    induction n as [|n IH]; intros m l Hn Hm; [lia|].
    destruct m as [|m]; [lia|]. destruct l as [|s rest]; [reflexivity|].
    cbn [group]. f_equal. apply IH.
    - pose proof (filter_length_le _ (fun x => negb (bytes_eqb (sel_key x) (sel_key s))) rest). cbn in Hn. lia.
    - pose proof (filter_length_le _ (fun x => negb (bytes_eqb (sel_key x) (sel_key s))) rest). cbn in Hm. lia.
  Qed.

  Lemma prune_length : forall pre l l', prune pre l l' -> (length l' <= length l)%nat.
  Proof. induction 1; cbn; lia. Qed.

  Definition subs_of (l : list selection) : list selection :=
    flat_map (fun x => match x with SField _ _ _ _ ss => ss | _ => [] end) l.

  Lemma subs_same : forall k pre l l', prune pre l l' ->
      dl [] (subs_of (filter (fun x => bytes_eqb (sel_key x) k) l))
            (subs_of (filter (fun x => bytes_eqb (sel_key x) k) l')).
  Proof.
    intros k. induction 1 as [pre|pre s s' l l' Hs Hp IH|pre s l l' Hm Hsub Hp IH]; cbn [filter].
    - apply dl_nil.
    - rewrite <- (ds_key _ _ Hs). destruct (bytes_eqb (sel_key s) k); [|exact IH].
      unfold subs_of. cbn [flat_map]. apply dl_app; [|exact IH].
      pose proof (ds_subs _ _ Hs) as HS. destruct s, s'; cbn in *; exact HS.
    - destruct (bytes_eqb (sel_key s) k); [|exact IH].
      unfold subs_of. cbn [flat_map].
      assert (E0 : match s with SField _ _ _ _ ss => ss | _ => [] end = []) by (destruct s; cbn in Hsub; auto).
      rewrite E0. exact IH.
  Qed.

  Fixpoint kremove (k : name) (l : list name) : list name :=
    match l with [] => [] | x :: r => if bytes_eqb x k then kremove k r else x :: kremove k r end.
  Lemma bytes_eqb_sym : forall a b, bytes_eqb a b = bytes_eqb b a.
  Proof. induction a; destruct b; cbn; auto. rewrite N.eqb_sym, IHa. reflexivity. Qed.
  Lemma mem_kremove : forall j k l, mem_bytes j l = true -> bytes_eqb j k = false -> mem_bytes j (kremove k l) = true.
  Proof.
    intros j k. induction l as [|x r IH]; cbn; intros Hm Hn; [discriminate|].
    apply orb_prop in Hm. destruct (bytes_eqb x k) eqn:Ex.
    - destruct Hm as [Hm|Hm]; [|apply IH; assumption].
      apply bytes_eqb_eq in Hm. apply bytes_eqb_eq in Ex. subst. rewrite bytes_eqb_refl in Hn. discriminate.
    - cbn. destruct Hm as [Hm|Hm]; [rewrite Hm; reflexivity|rewrite IH by assumption; apply orb_true_r].
  Qed.

  Lemma prune_other : forall k pre l l', prune pre l l' ->
      prune (kremove k pre)
            (filter (fun x => negb (bytes_eqb (sel_key x) k)) l)
            (filter (fun x => negb (bytes_eqb (sel_key x) k)) l').
  Proof.
    intros k. induction 1 as [pre|pre s s' l l' Hs Hp IH|pre s l l' Hm Hsub Hp IH]; cbn [filter].
    - apply pr_nil.
    - rewrite <- (ds_key _ _ Hs). cbn [kremove] in IH. destruct (bytes_eqb (sel_key s) k) eqn:E; cbn [negb].
      + exact IH.
      + apply pr_keep; [exact Hs|exact IH].
    - destruct (bytes_eqb (sel_key s) k) eqn:E; cbn [negb]; [exact IH|].
      apply pr_drop; [apply mem_kremove; assumption|exact Hsub|exact IH].
  Qed.

  Definition grelD (g g' : name * selection * list selection) : Prop :=
    fst (fst g) = fst (fst g') /\ fsig (snd (fst g)) = fsig (snd (fst g')) /\ dl [] (snd g) (snd g').

  Lemma group_prune : forall n fl fl', prune [] fl fl' -> Forall2 grelD (group n fl) (group n fl').
  Proof.
    induction n as [|n IH]; intros fl fl' H; [constructor|].
    inversion H as [pre|pre s s' l l' Hs Hp|pre s l l' Hm]; subst; [constructor| |discriminate].
    cbn [group]. rewrite <- (ds_key _ _ Hs).
    constructor.
    - split; [reflexivity|]. split; [exact (ds_fsig _ _ Hs)|]. cbn [snd].
      change (dl [] (subs_of (s :: filter (fun x => bytes_eqb (sel_key x) (sel_key s)) l))
                 (subs_of (s' :: filter (fun x => bytes_eqb (sel_key x) (sel_key s)) l'))).
      unfold subs_of. cbn [flat_map]. apply dl_app; [|exact (subs_same (sel_key s) _ _ _ Hp)].
      pose proof (ds_subs _ _ Hs) as HS. destruct s, s'; cbn in *; exact HS.
    - apply IH. pose proof (prune_other (sel_key s) _ _ _ Hp) as HO. cbn [kremove] in HO.
      rewrite bytes_eqb_refl in HO. exact HO.
  Qed.

  (* ---- the executor does not see the deduplication ---- *)
  Theorem dl_exec : forall f l l',
      dl [] l l' ->
      forall T ov p, le_res (exec_sels S U frags vars Mono f T ov l p) (exec_sels S U frags' vars Mono f T ov l' p).
  Proof.
    induction f as [f IH] using (well_founded_induction Wf_nat.lt_wf).
    intros l l' H T ov p. destruct f as [|f]; [left; reflexivity|].
    rewrite !exec_sels_S.
    assert (Hinv : seen_inv [] []) by (intros y []).
    pose proof (flatten_dl (Datatypes.S f) T [] l l' [] H Hinv) as HF.
    destruct (flatten S frags vars (Datatypes.S f) T l) as [fl|e].
    - destruct HF as [fl' [E P]]. rewrite E.
      rewrite (group_fuel (Datatypes.S (length fl')) (Datatypes.S (length fl)) fl');
        [|lia|pose proof (prune_length _ _ _ P); lia].
      apply exec_groups_cong.
      pose proof (group_prune (Datatypes.S (length fl)) fl fl' P) as HG.
      induction HG as [|g g' gs gs' Hg HG IHG]; constructor; [|exact IHG].
      destruct Hg as [Hk [Hs Hl]]. split; [exact Hk|]. split; [exact Hs|].
      intros f' Hlt T' ov' p'. apply IH; [lia|exact Hl].
    - unfold flat_prune in HF. destruct e as [pth|rsn|].
      + rewrite HF. left. reflexivity.
      + rewrite HF. left. reflexivity.
      + right. cbn. left. reflexivity.
  Qed.
End Dedup.

(* ------------------------------------------------------------------ the pass is in the relation *)
Section DedupPass.
  Variable vars : list (bytes * json).
  Notation dl := (dl).

  Lemma dd_sel_leaf : forall s, is_leaf_field (dd_sel s) = true -> dd_sel s = s.
  Proof.
    destruct s as [a n args ds sub|c ds sub|f ds]; cbn; intro H; try discriminate.
    destruct sub as [|x r]; [reflexivity|]. cbn in H. discriminate.
  Qed.

  Lemma flat_eqb_leaf_l : forall x s, flat_eqb x s = true -> is_leaf_field x = true.
  Proof. intros x s E. destruct x as [a n g d [|]| |]; try discriminate. reflexivity. Qed.

  Lemma existsb_seen : forall seen s,
      existsb (fun x => flat_eqb x s) (map dd_sel seen) = true ->
      exists x, In x seen /\ flat_eqb x s = true.
  Proof.
    intros seen s H. apply existsb_exists in H. destruct H as [y [Hy Hf]].
    apply in_map_iff in Hy. destruct Hy as [x [Hx Hin]]. subst y.
    pose proof (flat_eqb_leaf_l _ _ Hf) as Hl. rewrite (dd_sel_leaf x Hl) in Hf. exists x. auto.
  Qed.

  Lemma dd_level_rel : forall l seen,
      Forall (fun s => ds s (dd_sel s)) l ->
      dl (rev seen) l (dd_level (map dd_sel seen) (map dd_sel l)).
  Proof.
    induction l as [|s l IH]; intros seen HF; cbn [map dd_level]; [apply dl_nil|].
    inversion HF as [|? ? Hs Hl]; subst.
    destruct (existsb (fun x => flat_eqb x (dd_sel s)) (map dd_sel seen)) eqn:E.
    - destruct (existsb_seen seen (dd_sel s) E) as [x [Hx Hf]].
      assert (Hls : is_leaf_field (dd_sel s) = true).
      { destruct (dd_sel s) as [a n g d [|]| |]; destruct x as [a1 n1 g1 d1 [|]| |]; try discriminate; reflexivity. }
      rewrite (dd_sel_leaf s Hls) in Hf.
      eapply dl_drop; [apply in_rev in Hx; exact Hx| exact Hf|].
      apply IH. exact Hl.
    - apply dl_keep; [exact Hs|].
      specialize (IH (seen ++ [s]) Hl). rewrite rev_app_distr in IH. cbn in IH. rewrite map_app in IH. exact IH.
  Qed.

  Lemma dd_sel_ds : forall s, ds s (dd_sel s).
  Proof.
    induction s using sel_ind'; cbn [dd_sel].
    - apply ds_field. apply (dd_level_rel sub []). exact H.
    - apply ds_inline. apply (dd_level_rel sub []). exact H.
    - apply ds_spread.
  Qed.

  Lemma dd_sels_dl : forall l, dl [] l (dd_sels l).
  Proof. intro l. apply (dd_level_rel l []). apply Forall_forall. intros; apply dd_sel_ds. Qed.
End DedupPass.

Lemma dedup_rewrite : forall d, dedup d = doc_rewrite (fun o => dd_sels (op_sels o)) (fun f => dd_sels (fr_sels f)) d.
Proof. reflexivity. Qed.

Theorem dedup_preserves_exec : forall S U d fuel opn v,
    resp_le (execute fuel S U Mono d opn v) (execute fuel S U Mono (dedup d) opn v).
Proof.
  intros. rewrite dedup_rewrite. apply execute_rewrite_sem.
  intros o _ T ov p. apply dl_exec.
  - intro n. rewrite find_frag_map. destruct (find_frag n (doc_frags d)) as [fr|]; cbn [option_map]; [|reflexivity].
    exists (rw_frag (fun f => dd_sels (fr_sels f)) fr). split; [reflexivity|]. split; [reflexivity|]. cbn. apply dd_sels_dl.
  - apply dd_sels_dl.
Qed.

(* ------------------------------------------------------------------ idempotence *)
Lemma dd_level_idem : forall m seen, dd_level seen (dd_level seen m) = dd_level seen m.
Proof.
  induction m as [|s m IH]; intros seen; cbn [dd_level]; [reflexivity|].
  destruct (existsb (fun x => flat_eqb x s) seen) eqn:E; [apply IH|].
  cbn [dd_level]. rewrite E. f_equal. apply IH.
Qed.
Lemma dd_level_sub : forall m seen, incl (dd_level seen m) m.
Proof.
  induction m as [|s m IH]; intros seen x Hx; cbn [dd_level] in Hx; [exact Hx|].
  destruct (existsb (fun y => flat_eqb y s) seen).
  - right. eapply IH. exact Hx.
  - destruct Hx as [Hx|Hx]; [left; exact Hx|right; eapply IH; exact Hx].
Qed.
Lemma map_id_on : forall (g : selection -> selection) l, (forall x, In x l -> g x = x) -> map g l = l.
Proof. induction l as [|x l IH]; intro H; cbn; [reflexivity|]. rewrite H by (left; reflexivity). f_equal. apply IH. intros; apply H; right; assumption. Qed.

Lemma dd_list_idem : forall l, Forall (fun s => dd_sel (dd_sel s) = dd_sel s) l ->
                               dd_level [] (map dd_sel (dd_level [] (map dd_sel l))) = dd_level [] (map dd_sel l).
Proof.
  intros l H.
  rewrite (map_id_on dd_sel (dd_level [] (map dd_sel l))); [apply dd_level_idem|].
  intros x Hx. apply dd_level_sub in Hx. apply in_map_iff in Hx. destruct Hx as [s [Hs Hin]]. subst x.
  rewrite Forall_forall in H. apply H. exact Hin.
Qed.
Lemma dd_sel_idem : forall s, dd_sel (dd_sel s) = dd_sel s.
Proof.
  induction s using sel_ind'; cbn [dd_sel].
  - f_equal. apply dd_list_idem. exact H.
  - f_equal. apply dd_list_idem. exact H.
  - reflexivity.
Qed.
Lemma dd_sels_idem : forall l, dd_sels (dd_sels l) = dd_sels l.
Proof. intro l. unfold dd_sels. apply dd_list_idem. apply Forall_forall. intros; apply dd_sel_idem. Qed.

Theorem dedup_idempotent : forall d, dedup (dedup d) = dedup d.
Proof.
  intro d. unfold dedup, map_doc_sels. rewrite map_map. apply map_ext. intros [o|f]; cbn.
  - f_equal. f_equal. apply dd_sels_idem.
  - f_equal. f_equal. apply dd_sels_idem.
Qed.
