(* C03 proofs, part 10c: the relation behind inline_fragment_selection_merging, restricted to merges
   that keep the order of the response:
     - an inline fragment absorbs later fragments (same condition, directives that include/exclude
       alike) as long as everything that stands before the last absorbed one is either absorbed too or
       an inline fragment that is never entered where the absorbing one is (e.g. on another object type);
     - a field absorbs later fields of the same name and response key (directives that include/
       exclude alike) as long as everything that stands before the last absorbed one is either
       absorbed too or a field with another response key or without sub-selections.
   and the relation [R] on flattened field lists that [group] cannot distinguish. *)
From Gv Require Import lib.Bytes lib.Json lib.Gql lib.Exec C03.Model C03.ProofsExec C03.ProofsRel C03.ProofsDoc
     C03.ProofsMono C03.ProofsPasses C03.ProofsDedup C03.ProofsInlineExecCong C03.ProofsInlineExecRel C03.ProofsMergeFlat.
From Coq Require Import Lia PeanoNat.
Open Scope N_scope.

Definition sel_true (tr : list (bool * selection)) : list selection := map snd (filter (fun p => fst p) tr).
Definition sel_false (tr : list (bool * selection)) : list selection := map snd (filter (fun p => negb (fst p)) tr).
Definition okfield (k : name) (y : selection) : Prop :=
  match y with SField ay ny _ _ suby => response_name ay ny <> k \/ suby = [] | _ => False end.
Definition OrdT (k : name) (tr : list (bool * selection)) : Prop :=
  exists pre post, tr = pre ++ post /\ Forall (fun p => fst p = false) post /\
                   Forall (fun p => fst p = true \/ okfield k (snd p)) pre.

Section MRel.
  Variable S : schema.
  Variable vars : list (bytes * json).

  Definition absorbedF (a : option name) (n : name) (ds : list directive) (x : selection) : Prop :=
    match x with
    | SField ax nx _ dsx _ => nx = n /\ response_name ax nx = response_name a n /\ included vars dsx = included vars ds
    | _ => False
    end.
  Definition absorbedI (c : option name) (ds : list directive) (x : selection) : Prop :=
    match x with SInline cx dsx _ => cx = c /\ included vars dsx = included vars ds | _ => False end.

  (* [y] is an inline fragment that is skipped at every runtime type at which a fragment on [c] is entered *)
  Definition disjI (c : option name) (y : selection) : Prop :=
    match y with
    | SInline c2 ds2 _ => forall objty, inl_gate S vars objty c [] = GEnter -> inl_gate S vars objty c2 ds2 = GSkip
    | _ => False
    end.
  Definition OrdI (c : option name) (tr : list (bool * selection)) : Prop :=
    exists pre post, tr = pre ++ post /\ Forall (fun p => fst p = false) post /\
                     Forall (fun p => fst p = true \/ disjI c (snd p)) pre.

  Inductive mrel : list selection -> list selection -> Prop :=
  | mr_nil : mrel [] []
  | mr_spread : forall n ds l l', mrel l l' -> mrel (SSpread n ds :: l) (SSpread n ds :: l')
  | mr_inl : forall c ds sub tr sub' l',
      Forall (fun p => fst p = true -> absorbedI c ds (snd p)) tr ->
      OrdI c tr ->
      mrel (sub ++ flat_map sel_subs (sel_true tr)) sub' ->
      mrel (sel_false tr) l' ->
      mrel (SInline c ds sub :: map snd tr) (SInline c ds sub' :: l')
  | mr_fld : forall a n args ds sub tr sub' l',
      Forall (fun p => fst p = true -> absorbedF a n ds (snd p)) tr ->
      OrdT (response_name a n) tr ->
      mrel (sub ++ flat_map sel_subs (sel_true tr)) sub' ->
      mrel (sel_false tr) l' ->
      mrel (SField a n args ds sub :: map snd tr) (SField a n args ds sub' :: l').

  Lemma map_snd_pair : forall (b : list selection), map snd (map (pair false) b) = b.
  Proof. induction b; cbn; congruence. Qed.
  Lemma sel_true_app_false : forall tr b, sel_true (tr ++ map (pair false) b) = sel_true tr.
  Proof.
    intros tr b. unfold sel_true. rewrite filter_app, map_app.
    replace (filter (fun p => fst p) (map (pair false) b)) with (@nil (bool * selection)); [cbn; apply app_nil_r|].
    induction b; cbn; auto.
  Qed.
  Lemma sel_false_app_false : forall tr b, sel_false (tr ++ map (pair false) b) = sel_false tr ++ b.
  Proof.
    intros tr b. unfold sel_false. rewrite filter_app, map_app. f_equal.
    induction b; cbn; congruence.
  Qed.

  Lemma mrel_app : forall a a', mrel a a' -> forall b b', mrel b b' -> mrel (a ++ b) (a' ++ b').
  Proof.
    intros x x' H.
    induction H as [|n ds l l' Hl IHl|c ds sub tr sub' l' Htr Hord Hsub IHsub Hl IHl
                    |a n args ds sub tr sub' l' Htr Hord Hsub IHsub Hl IHl]; intros b b' Hb; cbn [app].
    - exact Hb.
    - apply mr_spread. apply IHl. exact Hb.
    - replace (map snd tr ++ b) with (map snd (tr ++ map (pair false) b)) by (rewrite map_app, map_snd_pair; reflexivity).
      apply mr_inl.
      + apply Forall_app. split; [exact Htr|]. apply Forall_forall. intros p Hp. apply in_map_iff in Hp.
        destruct Hp as [y [<- _]]. cbn. discriminate.
      + destruct Hord as [pre [post [E [Hpost Hpre]]]]. exists pre, (post ++ map (pair false) b).
        split; [rewrite E, app_assoc; reflexivity|]. split; [|exact Hpre].
        apply Forall_app. split; [exact Hpost|]. apply Forall_forall. intros p Hp. apply in_map_iff in Hp.
        destruct Hp as [y [<- _]]. reflexivity.
      + rewrite sel_true_app_false. exact Hsub.
      + rewrite sel_false_app_false. apply IHl. exact Hb.
    - replace (map snd tr ++ b) with (map snd (tr ++ map (pair false) b)) by (rewrite map_app, map_snd_pair; reflexivity).
      apply mr_fld.
      + apply Forall_app. split; [exact Htr|]. apply Forall_forall. intros p Hp. apply in_map_iff in Hp.
        destruct Hp as [y [<- _]]. cbn. discriminate.
      + destruct Hord as [pre [post [E [Hpost Hpre]]]]. exists pre, (post ++ map (pair false) b).
        split; [rewrite E, app_assoc; reflexivity|]. split; [|exact Hpre].
        apply Forall_app. split; [exact Hpost|]. apply Forall_forall. intros p Hp. apply in_map_iff in Hp.
        destruct Hp as [y [<- _]]. reflexivity.
      + rewrite sel_true_app_false. exact Hsub.
      + rewrite sel_false_app_false. apply IHl. exact Hb.
  Qed.

  (* ---- flattened lists ---- *)
  Definition keyp (k : name) (x : selection) : bool := bytes_eqb (sel_key x) k.
  Definition notin (ks : list name) (x : selection) : bool := negb (mem_bytes (sel_key x) ks).
  Definition subsk (k : name) (fl : list selection) : list selection := flat_map field_subs (filter (keyp k) fl).
  Definition hd_rel (a a' : list selection) : Prop :=
    match a, a' with
    | [], [] => True
    | s :: _, s' :: _ => sel_key s = sel_key s' /\ fsig s = fsig s'
    | _, _ => False
    end.
  Record R (fl fl' : list selection) : Prop :=
    { R_hd : forall ks, hd_rel (filter (notin ks) fl) (filter (notin ks) fl');
      R_subs : forall k, mrel (subsk k fl) (subsk k fl') }.

  Lemma subsk_app : forall k a b, subsk k (a ++ b) = subsk k a ++ subsk k b.
  Proof. intros. unfold subsk. rewrite filter_app, flat_map_app. reflexivity. Qed.

  Lemma R_nil : R [] [].
  Proof. split; intros; cbn; [exact I|apply mr_nil]. Qed.

  Lemma hd_rel_app : forall a a' b b', hd_rel a a' -> hd_rel b b' -> hd_rel (a ++ b) (a' ++ b').
  Proof. intros [|s a] [|s' a'] b b' Ha Hb; cbn in *; try contradiction; auto. Qed.

  Lemma R_app : forall a a' b b', R a a' -> R b b' -> R (a ++ b) (a' ++ b').
  Proof.
    intros a a' b b' [Ha1 Ha2] [Hb1 Hb2]. split.
    - intro ks. rewrite !filter_app. apply hd_rel_app; auto.
    - intro k. rewrite !subsk_app. apply mrel_app; auto.
  Qed.

  Lemma R_field : forall a n args ds sub sub', mrel sub sub' -> R [SField a n args ds sub] [SField a n args ds sub'].
  Proof.
    intros a n args ds sub sub' H. split.
    - intro ks. cbn [filter]. unfold notin. cbn [sel_key]. destruct (negb _); cbn; auto.
    - intro k. unfold subsk. cbn [filter]. unfold keyp. cbn [sel_key]. destruct (bytes_eqb _ k); cbn; [rewrite !app_nil_r; exact H|apply mr_nil].
  Qed.

  (* ---- group ---- *)
  Definition G (g g' : name * selection * list selection) : Prop :=
    fst (fst g) = fst (fst g') /\ fsig (snd (fst g)) = fsig (snd (fst g')) /\ mrel (snd g) (snd g').

  Lemma filter_filter : forall (A : Type) (p q : A -> bool) l, filter p (filter q l) = filter (fun x => q x && p x) l.
  Proof. induction l as [|x l IH]; cbn; [reflexivity|]. destruct (q x); cbn; [destruct (p x); cbn; congruence|exact IH]. Qed.
  Lemma filter_ext' : forall (A : Type) (p q : A -> bool) l, (forall x, p x = q x) -> filter p l = filter q l.
  Proof. induction l as [|x l IH]; intro H; cbn; [reflexivity|]. rewrite H, IH; auto. Qed.

  Lemma group_R : forall fl fl', R fl fl' ->
      forall n ks, Forall2 G (group n (filter (notin ks) fl)) (group n (filter (notin ks) fl')).
  Proof.
    intros fl fl' [H1 H2]. induction n as [|n IH]; intro ks; [constructor|].
    pose proof (H1 ks) as Hh.
    destruct (filter (notin ks) fl) as [|s rest] eqn:EA; destruct (filter (notin ks) fl') as [|s' rest'] eqn:EA';
      cbn in Hh; try contradiction; [constructor|].
    destruct Hh as [Hk Hs]. cbn [group]. rewrite <- Hk. set (k := sel_key s) in *.
    assert (Hnk : mem_bytes k ks = false).
    { assert (Hin : In s (filter (notin ks) fl)) by (rewrite EA; left; reflexivity).
      apply filter_In in Hin. destruct Hin as [_ Hn]. unfold notin in Hn. apply Bool.negb_true_iff in Hn. exact Hn. }
    assert (Esub : forall l, flat_map field_subs (filter (keyp k) (filter (notin ks) l)) = subsk k l).
    { intro l. unfold subsk. f_equal. rewrite filter_filter. apply filter_ext'. intro x. unfold notin, keyp.
      destruct (bytes_eqb (sel_key x) k) eqn:E; [|apply Bool.andb_false_r].
      apply bytes_eqb_eq in E. rewrite E, Hnk. reflexivity. }
    assert (Erest : forall l, filter (fun x => negb (bytes_eqb (sel_key x) k)) (filter (notin ks) l) = filter (notin (k :: ks)) l).
    { intro l. rewrite filter_filter. apply filter_ext'. intro x. unfold notin. cbn [mem_bytes].
      rewrite Bool.negb_orb. apply Bool.andb_comm. }
    constructor.
    - split; [reflexivity|]. split; [exact Hs|]. cbn [snd].
      change (mrel (flat_map field_subs (s :: filter (fun x => bytes_eqb (sel_key x) k) rest))
                   (flat_map field_subs (s' :: filter (fun x => bytes_eqb (sel_key x) k) rest'))).
      assert (E1 : s :: filter (fun x => bytes_eqb (sel_key x) k) rest = filter (keyp k) (s :: rest)).
      { cbn [filter]. unfold keyp at 1. fold k. rewrite bytes_eqb_refl. reflexivity. }
      assert (E2 : s' :: filter (fun x => bytes_eqb (sel_key x) k) rest' = filter (keyp k) (s' :: rest')).
      { cbn [filter]. unfold keyp at 1. rewrite <- Hk. fold k. rewrite bytes_eqb_refl. reflexivity. }
      rewrite E1, E2, <- EA, <- EA', !Esub. apply H2.
    - assert (E1 : filter (fun x => negb (bytes_eqb (sel_key x) k)) rest = filter (fun x => negb (bytes_eqb (sel_key x) k)) (s :: rest)).
      { cbn [filter]. fold k. rewrite bytes_eqb_refl. reflexivity. }
      assert (E2 : filter (fun x => negb (bytes_eqb (sel_key x) k)) rest' = filter (fun x => negb (bytes_eqb (sel_key x) k)) (s' :: rest')).
      { cbn [filter]. rewrite <- Hk. fold k. rewrite bytes_eqb_refl. reflexivity. }
      rewrite E1, E2, <- EA, <- EA', !Erest. apply IH.
  Qed.

  Lemma filter_notin_nil : forall l, filter (notin []) l = l.
  Proof. induction l as [|x l IH]; cbn; [reflexivity|]. rewrite IH. reflexivity. Qed.
End MRel.
