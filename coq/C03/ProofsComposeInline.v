(* C03 proofs, part 11: the composition of the proved passes extended with
   inline_selections_from_inline_fragments at its engine position (after remove_self_aliasing,
   before fragment_definition_removal). *)
From Gv Require Import lib.Bytes lib.Json lib.Gql lib.Exec C03.Model C03.Spec C03.ProofsExec C03.ProofsRel C03.ProofsDoc
     C03.ProofsPasses C03.ProofsDedup C03.ProofsMono C03.ProofsCompose C03.Examples
     C03.ProofsInlineExecCong C03.ProofsInlineExecRel C03.ProofsInlineExec C03.ProofsInlineExecDoc C03.ExamplesInline.
Open Scope N_scope.

(* the input of the inlining pass *)
Definition norm_pre_inline (S : schema) (jv : list (bytes * json)) (d : document) : document :=
  self_alias (frag_inline S (include_skip jv d)).
Definition norm_upto_inline (S : schema) (jv : list (bytes * json)) (d : document) : document :=
  inline_sel S (norm_pre_inline S jv d).
Definition norm_proved_inline (S : schema) (jv : list (bytes * json)) (d : document) : document :=
  dedup (remove_frag_defs (norm_upto_inline S jv d)).

Theorem norm_preserves_exec_inline_partial : forall S U d opn v,
    (forall o, pick_op d opn = Some o ->
               include_skip_ok (obj_members v) (effective_vars o (obj_members v)) d = true) ->
    static_schema_ok S = true ->
    types_known S (norm_pre_inline S (obj_members v) d) = true ->
    keys_agree (norm_pre_inline S (obj_members v) d) = true ->
    inline_sel S (norm_pre_inline S (obj_members v) d) = inline_sel_pre_repair S (norm_pre_inline S (obj_members v) d) ->
    ops_spread_free (norm_upto_inline S (obj_members v) d) = true ->
    forall fuel fuel1 fuel',
      oof_b (rs_errs (execute fuel S U Mono d opn v)) = false ->
      oof_b (rs_errs (execute fuel1 S U Mono (norm_upto_inline S (obj_members v) d) opn v)) = false ->
      oof_b (rs_errs (execute fuel' S U Mono (norm_proved_inline S (obj_members v) d) opn v)) = false ->
      execute fuel' S U Mono (norm_proved_inline S (obj_members v) d) opn v = execute fuel S U Mono d opn v.
Proof.
  intros S U d opn v Hok Hs Htk Hka Hrep Hsf fuel fuel1 fuel' Hn Hn1 Hn'.
  set (x := norm_pre_inline S (obj_members v) d) in *.
  set (y := norm_upto_inline S (obj_members v) d) in *.
  (* d -> x at the same fuel *)
  assert (Hx : resp_le (execute fuel S U Mono d opn v) (execute fuel S U Mono x opn v)).
  { unfold x, norm_pre_inline.
    eapply resp_le_trans; [apply include_skip_preserves_exec_partial; exact Hok|].
    eapply resp_le_trans; [apply frag_inline_preserves_exec|].
    apply self_alias_preserves_exec. }
  pose proof (Hx Hn) as Ex.
  assert (Hnx : oof_b (rs_errs (execute fuel S U Mono x opn v)) = false) by (rewrite Ex; exact Hn).
  (* x -> y between two fuels *)
  assert (Ey : execute fuel1 S U Mono y opn v = execute fuel S U Mono x opn v).
  { unfold y, norm_upto_inline. fold x. apply inline_sel_preserves_exec_partial; assumption. }
  (* y -> z *)
  assert (Hz : forall f, resp_le (execute f S U Mono y opn v) (execute f S U Mono (norm_proved_inline S (obj_members v) d) opn v)).
  { intro f. unfold norm_proved_inline. fold y.
    eapply resp_le_trans; [apply remove_frag_defs_preserves_exec; exact Hsf|].
    apply dedup_preserves_exec. }
  rewrite (two_fuel S U y (norm_proved_inline S (obj_members v) d) opn v v Hz fuel1 fuel' Hn1 Hn').
  rewrite Ey. exact Ex.
Qed.

(* non-vacuity: a request with a redex of every pass of the composition
     query Q($s: Boolean = false) { a { id id: id ...F ... on I { name @skip(if: $s) } ... { id } } x: count... }  over S1 *)
Definition d_full : document :=
  [ DOp {| op_kind := OpQuery; op_name := Some n_Q;
           op_vars := [{| vd_name := n_s; vd_type := (TNamed [66;111;111;108;101;97;110]); vd_default := Some (VBool false); vd_dirs := [] |}];
           op_dirs := [];
           op_sels := [ SField None n_a [] []
                          [ SField None n_id [] [] []; SField (Some n_id) n_id [] [] []; SSpread n_F [];
                            SInline (Some n_I) [] [SField None n_name [] [dir_skip (VVar n_s)] []];
                            SInline None [] [SField None n_id [] [] []] ];
                        SField None n_i [] [] [ SInline (Some n_I) [] [SField None n_id [] [] []]; SInline (Some n_A) [] [SField None n_name [] [] []] ] ] |};
    DFrag {| fr_name := n_F; fr_type := n_A; fr_dirs := []; fr_sels := [SField None n_name [] [] []; SField None n_id [] [] []] |} ].

Example ex_full_hypotheses :
  (forall o, pick_op d_full (Some n_Q) = Some o ->
             include_skip_ok (obj_members (JObj [])) (effective_vars o (obj_members (JObj []))) d_full = true) /\
  static_schema_ok S1 = true /\
  types_known S1 (norm_pre_inline S1 [] d_full) = true /\
  keys_agree (norm_pre_inline S1 [] d_full) = true /\
  inline_sel S1 (norm_pre_inline S1 [] d_full) = inline_sel_pre_repair S1 (norm_pre_inline S1 [] d_full) /\
  ops_spread_free (norm_upto_inline S1 [] d_full) = true /\
  inline_sel S1 (norm_pre_inline S1 [] d_full) <> norm_pre_inline S1 [] d_full /\
  oof_b (rs_errs (execute 30 S1 U1 Mono d_full (Some n_Q) (JObj []))) = false /\
  oof_b (rs_errs (execute 30 S1 U1 Mono (norm_upto_inline S1 [] d_full) (Some n_Q) (JObj []))) = false /\
  oof_b (rs_errs (execute 30 S1 U1 Mono (norm_proved_inline S1 [] d_full) (Some n_Q) (JObj []))) = false.
Proof.
  split; [intros o H; vm_compute in H; inversion H; subst; vm_compute; reflexivity|].
  vm_compute. repeat split; discriminate.
Qed.
