(* C03 proofs, part 9e: idempotence of inline_selections_from_inline_fragments.
   Refuted in general (couldInline looks at the fragment's nested fragments BEFORE they are
   processed: finding inlining-depends-on-fragment-nesting); holds whenever the output has no
   inlinable fragment left. *)
From Gv Require Import lib.Bytes lib.Json lib.Gql lib.Exec C03.Model C03.ProofsPasses C03.ProofsDedup C03.ProofsCompose
     C03.Examples C03.ExamplesInline.
From Coq Require Import Lia PeanoNat.
Open Scope N_scope.

Lemma map_id_on_def : forall (g : definition -> definition) l, (forall x, In x l -> g x = x) -> map g l = l.
Proof. induction l as [|x l IH]; intro H; cbn; [reflexivity|]. rewrite H by (left; reflexivity). rewrite IH; [reflexivity|]. intros; apply H; right; assumption. Qed.

Section Settled.
  Variable S : schema.
  Fixpoint ils_sel (T : option name) (s : selection) : bool :=
    match s with
    | SField a n _ _ sub => forallb (ils_sel (sub_type S T n)) sub
    | SInline c ds sub => negb (could_inline S T c ds sub) && forallb (ils_sel (match c with Some x => Some x | None => T end)) sub
    | SSpread _ _ => true
    end.
  Definition inline_settled (d : document) : bool :=
    forallb (fun def => match def with
                        | DOp o => forallb (ils_sel (root_type S (op_kind o))) (op_sels o)
                        | DFrag fr => forallb (ils_sel (Some (fr_type fr))) (fr_sels fr)
                        end) d.

  Variable b : bool.
  Lemma il_level_settled : forall fuel T done l,
      forallb (ils_sel T) l = true -> il_level S b fuel T done l = done ++ l.
  Proof.
    induction fuel as [|f IH]; intros T done l H; cbn [il_level]; [reflexivity|].
    destruct l as [|x r]; [rewrite app_nil_r; reflexivity|].
    cbn [forallb] in H. apply andb_prop in H. destruct H as [Hx Hr].
    destruct x as [a n args ds sub|c ds sub|n ds].
    - rewrite (IH T _ r Hr). rewrite <- app_assoc. reflexivity.
    - cbn [ils_sel] in Hx. apply andb_prop in Hx. destruct Hx as [Hc _].
      apply Bool.negb_true_iff in Hc. rewrite Hc. rewrite (IH T _ r Hr). rewrite <- app_assoc. reflexivity.
    - rewrite (IH T _ r Hr). rewrite <- app_assoc. reflexivity.
  Qed.

  Lemma il_sels_settled : forall fuel T l, forallb (ils_sel T) l = true -> il_sels S b fuel T l = l.
  Proof.
    induction fuel as [|f IH]; intros T l H; cbn [il_sels]; [reflexivity|].
    rewrite (il_level_settled _ T [] l H). cbn [app].
    apply map_id_on. intros x Hx. rewrite forallb_forall in H. specialize (H x Hx).
    destruct x as [a n args ds sub|c ds sub|n ds]; [| |reflexivity].
    - cbn [ils_sel] in H. rewrite (IH _ sub H). reflexivity.
    - cbn [ils_sel] in H. apply andb_prop in H. destruct H as [_ H]. rewrite (IH _ sub H). reflexivity.
  Qed.

  Lemma inline_sel_settled_fix : forall d, inline_settled d = true -> inline_sel_gen b S d = d.
  Proof.
    intros d H. unfold inline_sel_gen. apply map_id_on_def. intros def Hin.
    unfold inline_settled in H. rewrite forallb_forall in H. specialize (H def Hin).
    destruct def as [o|fr].
    - rewrite (il_sels_settled _ _ _ H). destruct o; reflexivity.
    - rewrite (il_sels_settled _ _ _ H). destruct fr; reflexivity.
  Qed.
End Settled.

Theorem inline_sel_idempotent_partial : forall S d,
    inline_settled S (inline_sel S d) = true -> inline_sel S (inline_sel S d) = inline_sel S d.
Proof. intros S d H. unfold inline_sel at 1. apply inline_sel_settled_fix. exact H. Qed.

(* { a { ... on I { ... { id } } } } with a: A, A implements I.  First run: the outer fragment is not
   inlinable (its nested fragment has no type condition), the inner one is; second run: the outer
   fragment, now { ... on I { id } }, is inlinable. *)
Definition d_nest : document := qdoc [ fld n_a [ SInline (Some n_I) [] [ SInline None [] [fld n_id []] ] ] ].
Theorem inline_sel_idempotent_refuted :
  exists (S : schema) (d : document), inline_sel S (inline_sel S d) <> inline_sel S d.
Proof. exists S1, d_nest. vm_compute. discriminate. Qed.
Example inline_sel_nest_runs :
  inline_sel S1 d_nest = qdoc [ fld n_a [ SInline (Some n_I) [] [fld n_id []] ] ] /\
  inline_sel S1 (inline_sel S1 d_nest) = qdoc [ fld n_a [ fld n_id [] ] ].
Proof. vm_compute. split; reflexivity. Qed.
(* the hypothesis of the partial theorem is satisfiable by a document with redexes *)
Example inline_sel_idempotent_nontrivial :
  inline_settled S1 (inline_sel S1 d_inl) = true /\ inline_sel S1 d_inl <> d_inl.
Proof. vm_compute. split; [reflexivity|discriminate]. Qed.
