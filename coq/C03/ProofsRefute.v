(* C03: why two of the pass theorems carry a hypothesis -- the unrestricted statements are false of
   the faithful model (witnesses by computation). *)
From Gv Require Import lib.Bytes lib.Json lib.Gql lib.Exec C03.Model C03.Spec
     C03.ProofsExec C03.ProofsRel C03.ProofsDoc C03.ProofsPasses C03.ProofsCompose C03.Examples.
Open Scope N_scope.

(* { a { name @skip(if: true) } } : the pass empties the selection set of [a] and puts its
   placeholder there; the response then has the extra key "__internal_typename" (the planner hides
   it, Spec.resp_equiv ignores it) *)
Definition d_emptied : document :=
  [ DOp {| op_kind := OpQuery; op_name := None; op_vars := []; op_dirs := [];
           op_sels := [ SField None n_a [] [] [ SField None n_name [] [dir_skip (VBool true)] [] ] ] |} ].

Theorem include_skip_preserves_exec_refuted :
  exists S U d fuel opn v,
    oof_b (rs_errs (execute fuel S U Mono d opn v)) = false /\
    execute fuel S U Mono (include_skip (obj_members v) d) opn v <> execute fuel S U Mono d opn v /\
    resp_equiv (execute fuel S U Mono d opn v) (execute fuel S U Mono (include_skip (obj_members v) d) opn v) = true.
Proof.
  exists S0, U0, d_emptied, 30%nat, None, (JObj []). split; [vm_compute; reflexivity|]. split.
  - vm_compute. discriminate.
  - vm_compute. reflexivity.
Qed.

(* query { ...F }  fragment F on Query { count ...F } : on a (spec-invalid) fragment cycle the
   inlining stops when its fuel is used up, and a second run unrolls the cycle further *)
Definition d_cycle : document :=
  [ DOp {| op_kind := OpQuery; op_name := None; op_vars := []; op_dirs := []; op_sels := [ SSpread n_F [] ] |};
    DFrag {| fr_name := n_F; fr_type := n_Query; fr_dirs := []; fr_sels := [ SField None n_count [] [] []; SSpread n_F [] ] |} ].

Theorem frag_inline_idempotent_refuted :
  exists S d, frag_inline S (frag_inline S d) <> frag_inline S d.
Proof. exists S0, d_cycle. vm_compute. discriminate. Qed.

(* { count @skip(if: false) @include(if: false) @tag } : the directive walk drops @skip, then reads
   the position after it, which by now holds @tag -- @include(if: false) is not visited and the
   field survives this run; a second run removes it (the real first stage does exactly this, the
   engine's second normalisation repairs it) *)
Definition dir_tag : directive := {| d_name := [116;97;103]; d_args := [] |}.
Definition dir_include (v : value) : directive := {| d_name := s_include; d_args := [(s_if, v)] |}.
Definition d_three : document :=
  [ DOp {| op_kind := OpQuery; op_name := None; op_vars := []; op_dirs := [];
           op_sels := [ SField None n_count [] [dir_skip (VBool false); dir_include (VBool false); dir_tag] [];
                        SField None n_a [] [] [ SField None n_name [] [] [] ] ] |} ].

Theorem include_skip_idempotent_refuted :
  exists jv d, include_skip jv (include_skip jv d) <> include_skip jv d.
Proof. exists [], d_three. vm_compute. discriminate. Qed.
