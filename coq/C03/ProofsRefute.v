(* C03: why two of the pass theorems carry a hypothesis -- the unrestricted statements are false of
   the faithful model (witnesses by computation). *)
From Gv Require Import lib.Bytes lib.Json lib.Gql lib.Exec C03.Model C03.Spec
     C03.ProofsExec C03.ProofsRel C03.ProofsDoc C03.ProofsPasses C03.ProofsCompose C03.Examples.
Open Scope N_scope.

(* { a { name @skip(if: true) } } : the pass empties the selection set of [a] and puts its
   placeholder there; the response then has the extra key "__internal_typename" (the planner hides
   it, Spec.resp_equiv ignores it) *)
Definition d_emptied : document :=
  [ DOp {| op_kind := OpQuery; op_name := None; op_vars := []; op_dirs := [];
           op_sels := [ SField None n_a [] [] [ SField None n_name [] [dir_skip (VBool true)] [] ] ] |} ].

Theorem include_skip_preserves_exec_refuted :
  exists S U d fuel opn v,
    oof_b (rs_errs (execute fuel S U Mono d opn v)) = false /\
    execute fuel S U Mono (include_skip (obj_members v) d) opn v <> execute fuel S U Mono d opn v /\
    resp_equiv (execute fuel S U Mono d opn v) (execute fuel S U Mono (include_skip (obj_members v) d) opn v) = true.
Proof.
  exists S0, U0, d_emptied, 30%nat, None, (JObj []). split; [vm_compute; reflexivity|]. split.
  - vm_compute. discriminate.
  - vm_compute. reflexivity.
Qed.

(* query { ...F }  fragment F on Query { count ...F } : on a (spec-invalid) fragment cycle the
   inlining stops when its fuel is used up, and a second run unrolls the cycle further *)
Definition d_cycle : document :=
  [ DOp {| op_kind := OpQuery; op_name := None; op_vars := []; op_dirs := []; op_sels := [ SSpread n_F [] ] |};
    DFrag {| fr_name := n_F; fr_type := n_Query; fr_dirs := []; fr_sels := [ SField None n_count [] [] []; SSpread n_F [] ] |} ].

Theorem frag_inline_idempotent_refuted :
  exists S d, frag_inline S (frag_inline S d) <> frag_inline S d.
Proof. exists S0, d_cycle. vm_compute. discriminate. Qed.
