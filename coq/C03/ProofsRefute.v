(* C03: why two of the pass theorems carry a hypothesis -- the unrestricted statements are false of
   the faithful model (witnesses by computation). *)
From Gv Require Import lib.Bytes lib.Json lib.Gql lib.Exec C03.Model C03.Spec
     C03.ProofsExec C03.ProofsRel C03.ProofsDoc C03.ProofsPasses C03.ProofsCompose C03.Examples.
From Coq Require Import Lia PeanoNat.
Open Scope N_scope.

(* { a { name @skip(if: true) } } : the pass empties the selection set of [a] and puts its
   placeholder there; the response then has the extra key "__internal_typename" (the planner hides
   it, Spec.resp_equiv ignores it) *)
Definition d_emptied : document :=
  [ DOp {| op_kind := OpQuery; op_name := None; op_vars := []; op_dirs := [];
           op_sels := [ SField None n_a [] [] [ SField None n_name [] [dir_skip (VBool true)] [] ] ] |} ].

Theorem include_skip_preserves_exec_refuted :
  exists S U d fuel opn v,
    oof_b (rs_errs (execute fuel S U Mono d opn v)) = false /\
    execute fuel S U Mono (include_skip (obj_members v) d) opn v <> execute fuel S U Mono d opn v /\
    resp_equiv (execute fuel S U Mono d opn v) (execute fuel S U Mono (include_skip (obj_members v) d) opn v) = true.
Proof.
  exists S0, U0, d_emptied, 30%nat, None, (JObj []). split; [vm_compute; reflexivity|]. split.
  - vm_compute. discriminate.
  - vm_compute. reflexivity.
Qed.

(* query { ...F }  fragment F on Query { count ...F } : on a (spec-invalid) fragment cycle the
   inlining stops when its fuel is used up, and a second run unrolls the cycle further *)
Definition d_cycle : document :=
  [ DOp {| op_kind := OpQuery; op_name := None; op_vars := []; op_dirs := []; op_sels := [ SSpread n_F [] ] |};
    DFrag {| fr_name := n_F; fr_type := n_Query; fr_dirs := []; fr_sels := [ SField None n_count [] [] []; SSpread n_F [] ] |} ].

Theorem frag_inline_idempotent_refuted :
  exists S d, frag_inline S (frag_inline S d) <> frag_inline S d.
Proof. exists S0, d_cycle. vm_compute. discriminate. Qed.

(* { count @skip(if: false) @include(if: false) @tag } : BEFORE THE REPAIR
   (work/c03_fix_directive-after-dropped-directive-not-visited.patch) the directive walk dropped @skip,
   then read the position after it, which by then held @tag -- @include(if: false) was not visited
   and the field survived the run; a second run removed it.  The repaired pass removes it at once. *)
Definition dir_tag : directive := {| d_name := [116;97;103]; d_args := [] |}.
Definition dir_include (v : value) : directive := {| d_name := s_include; d_args := [(s_if, v)] |}.
Definition d_three : document :=
  [ DOp {| op_kind := OpQuery; op_name := None; op_vars := []; op_dirs := [];
           op_sels := [ SField None n_count [] [dir_skip (VBool false); dir_include (VBool false); dir_tag] [];
                        SField None n_a [] [] [ SField None n_name [] [] [] ] ] |} ].
Definition d_three_done : document :=
  [ DOp {| op_kind := OpQuery; op_name := None; op_vars := []; op_dirs := [];
           op_sels := [ SField None n_a [] [] [ SField None n_name [] [] [] ] ] |} ].

Theorem include_skip_idempotent_pre_repair_refuted :
  exists jv d, include_skip_pre_repair jv (include_skip_pre_repair jv d) <> include_skip_pre_repair jv d.
Proof. exists [], d_three. vm_compute. discriminate. Qed.

Theorem include_skip_fixed_witness :
  include_skip [] d_three = d_three_done /\ include_skip_pre_repair [] d_three <> d_three_done.
Proof. split; [vm_compute; reflexivity|vm_compute; discriminate]. Qed.

(* { a { id ... { name @skip(if: true) } } } and { a { id name @skip(if: true) } } differ only in
   fragment structure.  BEFORE THE REPAIR (work/c03_fix_placeholder-left-after-fragment-inlining.patch)
   the placeholder that @skip left in the emptied fragment was inlined next to [id], so the two had
   different normal forms; the repaired pass drops the emptied fragment. *)
Definition d_wrapped : document :=
  [ DOp {| op_kind := OpQuery; op_name := None; op_vars := []; op_dirs := [];
           op_sels := [ SField None n_a [] [] [ SField None n_id [] [] [];
                                                SInline None [] [ SField None n_name [] [dir_skip (VBool true)] [] ] ] ] |} ].
Definition d_plain : document :=
  [ DOp {| op_kind := OpQuery; op_name := None; op_vars := []; op_dirs := [];
           op_sels := [ SField None n_a [] [] [ SField None n_id [] [] [];
                                                SField None n_name [] [dir_skip (VBool true)] [] ] ] |} ].

Theorem placeholder_pre_repair_refuted :
  norm_selections_pre_repair S0 [] d_wrapped <> norm_selections_pre_repair S0 [] d_plain.
Proof. vm_compute. discriminate. Qed.

Theorem placeholder_fixed_witness :
  norm_selections S0 [] d_wrapped = norm_selections S0 [] d_plain.
Proof. vm_compute. reflexivity. Qed.

(* the firing rule of the repaired pass: an inlinable fragment that holds only the placeholder is
   removed whenever its selection set has another selection, before or after it *)
Theorem placeholder_fragment_dropped : forall S T f c done r,
  could_inline S T c [] [placeholder] = true -> (1 <= length done + length r)%nat ->
  il_level S true (Datatypes.S f) T done (SInline c [] [placeholder] :: r) = il_level S true f T done r.
Proof.
  intros S T f c done r Hc Hl. cbn [il_level]. rewrite Hc.
  assert (E : Nat.ltb 1 (length done + length (SInline c [] [placeholder] :: r)) = true).
  { apply Nat.ltb_lt. cbn [length]. lia. }
  rewrite E. reflexivity.
Qed.
