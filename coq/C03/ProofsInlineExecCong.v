(* C03 proofs, part 9a: two-fuel congruence of the reference executor.  Two executions of "the same
   field" (possibly under different fragment environments and with DIFFERENT fuels) whose
   sub-selection lists are interchangeable -- at every runtime type the field can produce -- give the
   same result whenever NEITHER runs out of fuel.  (The one-sided [le_res] of ProofsExec is not
   enough for the passes that move selections between nesting levels: [flatten] spends its fuel
   along a list, so a pass that lengthens a list needs more fuel there and less below.)  md = Mono. *)
From Gv Require Import lib.Bytes lib.Json lib.Gql lib.Exec C03.ProofsExec C03.ProofsRel C03.ProofsDoc C03.ProofsMono.
From Coq Require Import Lia PeanoNat.
Open Scope N_scope.

Definition eq2 (o n : sres) : Prop := ~ has_oof (snd o) -> ~ has_oof (snd n) -> n = o.
Definition ceq2 (o n : cres) : Prop := ~ has_oof (c_errs o) -> ~ has_oof (c_errs n) -> n = o.

(* the check [complete] makes before it executes the sub-selections on an entity of type [R] *)
Definition tcheck (S : schema) (n R : name) : bool :=
  match kind_of S n with None => bytes_eqb n [95;69;110;116;105;116;121] | _ => possible S n R end.

Section Cong2.
  Variable S : schema.
  Variable U : universe.
  Variable frags frags' : list fragment.
  Variable vars : list (bytes * json).

  Notation xsels := (exec_sels S U frags vars Mono).
  Notation xsels' := (exec_sels S U frags' vars Mono).
  Notation xfield := (exec_field S U frags vars Mono).
  Notation xfield' := (exec_field S U frags' vars Mono).
  Notation xcomplete := (complete S U frags vars Mono).
  Notation xcomplete' := (complete S U frags' vars Mono).

  (* interchangeable below fuel k (any fuel on the new side) at every runtime type in P *)
  Definition SubsEq (P : name -> Prop) (k : nat) (subs subs' : list selection) : Prop :=
    forall f, (f < k)%nat -> forall f' T, P T -> forall ov p, eq2 (xsels f T ov subs p) (xsels' f' T ov subs' p).

  Lemma SubsEq_mono : forall P k k' a b, (k' <= k)%nat -> SubsEq P k a b -> SubsEq P k' a b.
  Proof. unfold SubsEq; intros. apply H0; [lia|assumption]. Qed.

  Lemma finish_obj_errs : forall r, c_errs (finish_obj r) = snd r.
  Proof. intros [[l|] e]; reflexivity. Qed.

  Lemma finish_obj_eq2 : forall r r', eq2 r r' -> ceq2 (finish_obj r) (finish_obj r').
  Proof.
    intros r r' H Hn Hn'. rewrite finish_obj_errs in Hn, Hn'. rewrite (H Hn Hn'). reflexivity.
  Qed.

  Lemma finish_nonnull_oof : forall p r, has_oof (c_errs r) -> has_oof (c_errs (finish_nonnull p r)).
  Proof.
    intros p r H. unfold finish_nonnull. destruct (c_json r); try exact H.
    cbn. destruct (c_errs r); [destruct H|exact H].
  Qed.

  Lemma fold_lstep_eq2 : forall f f' t' ov fname cargs subs subs' path,
      (forall it p, ceq2 (xcomplete f t' ov fname cargs it subs p) (xcomplete' f' t' ov fname cargs it subs' p)) ->
      forall items a,
        ~ has_oof (acc_errs (fold_left (lstep S U vars frags f t' ov fname cargs subs path) items a)) ->
        ~ has_oof (acc_errs (fold_left (lstep S U vars frags' f' t' ov fname cargs subs' path) items a)) ->
        fold_left (lstep S U vars frags' f' t' ov fname cargs subs' path) items a =
        fold_left (lstep S U vars frags f t' ov fname cargs subs path) items a.
  Proof.
    intros f f' t' ov fname cargs subs subs' path Hc.
    induction items as [|it items IH]; intros a Hn Hn'; [reflexivity|].
    cbn [fold_left] in *.
    assert (Hstep : lstep S U vars frags' f' t' ov fname cargs subs' path a it =
                    lstep S U vars frags f t' ov fname cargs subs path a it).
    { destruct a as [[[out errs] viol] i]. cbn [lstep].
      rewrite (Hc it (path ++ [PI i])); [reflexivity| |].
      - intro Ho. apply Hn. apply fold_lstep_errs_prefix. cbn. apply has_oof_app_r. exact Ho.
      - intro Ho. apply Hn'. apply fold_lstep_errs_prefix. cbn. apply has_oof_app_r. exact Ho. }
    rewrite Hstep in *. apply IH; assumption.
  Qed.

  Lemma complete_cong2 : forall P k subs subs',
      SubsEq P k subs subs' ->
      forall t, (forall R, tcheck S (named_of t) R = true -> P R) ->
      forall k' ov fname cargs fv path,
        ceq2 (xcomplete k t ov fname cargs fv subs path) (xcomplete' k' t ov fname cargs fv subs' path).
  Proof.
    intros P. induction k as [|f IH]; intros subs subs' HS t Ht k' ov fname cargs fv path.
    - intros Hn _. exfalso. apply Hn. cbn. left. reflexivity.
    - destruct k' as [|f']; [intros _ Hn; exfalso; apply Hn; cbn; left; reflexivity|].
      assert (HS' : SubsEq P f subs subs') by (eapply SubsEq_mono; [|exact HS]; lia).
      destruct t as [n|t'|t'].
      + rewrite !complete_S_named.
        assert (HO : ceq2 (complete_object S U vars frags f n cargs fv subs path)
                          (complete_object S U vars frags' f' n cargs fv subs' path)).
        { unfold complete_object. destruct (obj_target U cargs fv) as [[e|]|]; try (intros _ _; reflexivity).
          destruct (negb _) eqn:En; [intros _ _; reflexivity|].
          apply finish_obj_eq2. apply HS; [lia|]. apply Ht. cbn [named_of]. unfold tcheck.
          apply Bool.negb_false_iff in En. exact En. }
        destruct (kind_of S n) as [[| | | | |]|]; try (intros _ _; reflexivity); exact HO.
      + rewrite !complete_S_list.
        destruct fv as [j| | |items| | | |]; try (intros _ _; reflexivity).
        * destruct j as [| | | |js|]; try (intros _ _; reflexivity).
          apply (IH subs subs' HS' (TList t') Ht).
        * intros Hn Hn'.
          assert (E : fold_left (lstep S U vars frags' f' t' ov fname cargs subs' path) items ([], [], false, 0) =
                      fold_left (lstep S U vars frags f t' ov fname cargs subs path) items ([], [], false, 0)).
          { apply fold_lstep_eq2.
            - intros it p. apply (IH subs subs' HS' t' Ht).
            - intro Ho. apply Hn.
              destruct (fold_left (lstep S U vars frags f t' ov fname cargs subs path) items ([], [], false, 0)) as [[[out errs] viol] i].
              cbn in *. destruct viol; exact Ho.
            - intro Ho. apply Hn'.
              destruct (fold_left (lstep S U vars frags' f' t' ov fname cargs subs' path) items ([], [], false, 0)) as [[[out errs] viol] i].
              cbn in *. destruct viol; exact Ho. }
          rewrite E. reflexivity.
      + rewrite !complete_S_nonnull. intros Hn Hn'.
        rewrite (IH subs subs' HS' t' Ht f' ov fname cargs fv path); [reflexivity| |].
        * intro Ho. apply Hn. apply finish_nonnull_oof. exact Ho.
        * intro Ho. apply Hn'. apply finish_nonnull_oof. exact Ho.
  Qed.

  Lemma exec_field_cong2 : forall P k k' objty ov key s s' subs subs' path,
      fsig s = fsig s' -> SubsEq P k subs subs' ->
      (forall n args td fd R, fsig s = Some (n, args) -> find_type objty (s_types S) = Some td ->
                              find_field n (td_fields td) = Some fd -> tcheck S (named_of (fd_type fd)) R = true -> P R) ->
      ceq2 (xfield k objty ov key s subs path) (xfield' k' objty ov key s' subs' path).
  Proof.
    intros P k k' objty ov key s s' subs subs' path Hs HS Hhop.
    destruct k as [|f]; [intros Hn _; exfalso; apply Hn; cbn; left; reflexivity|].
    destruct k' as [|f']; [intros _ Hn; exfalso; apply Hn; cbn; left; reflexivity|].
    destruct s as [a n args ds sb| |]; destruct s' as [a' n' args' ds' sb'| |]; try discriminate;
      try (intros _ _; reflexivity).
    cbn in Hs. inversion Hs; subst n' args'.
    rewrite !exec_field_S. unfold field_body.
    destruct (bytes_eqb n s_typename); [intros _ _; reflexivity|].
    destruct (find_type objty (s_types S)) as [td|] eqn:Et; [|intros _ _; reflexivity].
    destruct (find_field n (td_fields td)) as [fd|] eqn:Ef; [|intros _ _; reflexivity].
    apply (complete_cong2 P f subs subs').
    - eapply SubsEq_mono; [|exact HS]. lia.
    - intros R HR. eapply Hhop; [reflexivity|reflexivity|exact Ef|exact HR].
  Qed.

  Definition grel2 (f f' : nat) (objty : name) (ov : oval) (g g' : name * selection * list selection) : Prop :=
    fst (fst g) = fst (fst g') /\
    forall p, ceq2 (xfield f objty ov (fst (fst g)) (snd (fst g)) (snd g) p)
                   (xfield' f' objty ov (fst (fst g')) (snd (fst g')) (snd g') p).

  Lemma exec_groups_cong2 : forall f f' objty ov path gs gs',
      Forall2 (grel2 f f' objty ov) gs gs' ->
      eq2 (exec_groups S U vars frags f objty ov path gs) (exec_groups S U vars frags' f' objty ov path gs').
  Proof.
    intros f f' objty ov path gs gs' H. induction H as [|[[k s] subs] [[k' s'] subs'] gs gs' Hg HF IH].
    - intros _ _. reflexivity.
    - destruct Hg as [Hk Hc]. cbn [fst snd] in Hk, Hc. subst k'.
      cbn [exec_groups]. intros Hn Hn'.
      assert (Hr : ~ has_oof (c_errs (xfield f objty ov k s subs (path ++ [PN k])))).
      { intro Ho. apply Hn. destruct (c_viol (xfield f objty ov k s subs (path ++ [PN k]))); [exact Ho|].
        destruct (exec_groups S U vars frags f objty ov path gs) as [o e2]. cbn. apply has_oof_app_l. exact Ho. }
      assert (Hr' : ~ has_oof (c_errs (xfield' f' objty ov k s' subs' (path ++ [PN k])))).
      { intro Ho. apply Hn'. destruct (c_viol (xfield' f' objty ov k s' subs' (path ++ [PN k]))); [exact Ho|].
        destruct (exec_groups S U vars frags' f' objty ov path gs') as [o e2]. cbn. apply has_oof_app_l. exact Ho. }
      pose proof (Hc (path ++ [PN k]) Hr Hr') as E. rewrite E in *.
      destruct (c_viol (xfield f objty ov k s subs (path ++ [PN k]))); [reflexivity|].
      rewrite IH; [reflexivity| |].
      + intro Ho. apply Hn. destruct (exec_groups S U vars frags f objty ov path gs) as [o e2]. cbn in *. apply has_oof_app_r. exact Ho.
      + intro Ho. apply Hn'. destruct (exec_groups S U vars frags' f' objty ov path gs') as [o e2]. cbn in *. apply has_oof_app_r. exact Ho.
  Qed.
End Cong2.
