(* C03 proofs, part 10d: the executor cannot distinguish [mrel]-related selection lists. *)
From Gv Require Import lib.Bytes lib.Json lib.Gql lib.Exec C03.Model C03.ProofsExec C03.ProofsRel C03.ProofsDoc
     C03.ProofsMono C03.ProofsPasses C03.ProofsDedup C03.ProofsInlineExecCong C03.ProofsInlineExecRel
     C03.ProofsMergeFlat C03.ProofsMergeRel.
From Coq Require Import Lia PeanoNat.
Open Scope N_scope.

Lemma bytes_neq_eqb : forall a b, a <> b -> bytes_eqb a b = false.
Proof. intros a b H. destruct (bytes_eqb a b) eqn:E; [|reflexivity]. exfalso. apply H. apply bytes_eqb_eq. exact E. Qed.
Lemma flat_seq_nil_l : forall r, flat_seq (FlatOk []) r = r.
Proof. destruct r; reflexivity. Qed.

Section Absorb.
  Variable S : schema.
  Variable vars : list (bytes * json).
  Notation mrel := (mrel S vars).
  Notation R := (R S vars).
  Notation incl_of := (incl_of vars).
  Variables (a : option name) (n : name) (ds : list directive).
  Let k := response_name a n.

  Definition HA (pre : list (bool * selection)) : Prop := Forall (fun p => fst p = true -> absorbedF vars a n ds (snd p)) pre.
  Definition HO (pre : list (bool * selection)) : Prop := Forall (fun p => fst p = true \/ okfield k (snd p)) pre.

  Lemma HA_cons : forall p pre, HA (p :: pre) -> (fst p = true -> absorbedF vars a n ds (snd p)) /\ HA pre.
  Proof. intros p pre H. inversion H; subst. auto. Qed.
  Lemma HO_cons : forall p pre, HO (p :: pre) -> (fst p = true \/ okfield k (snd p)) /\ HO pre.
  Proof. intros p pre H. inversion H; subst. auto. Qed.

  Lemma sel_false_true : forall y pre, sel_false ((true, y) :: pre) = sel_false pre.
  Proof. reflexivity. Qed.
  Lemma sel_false_false : forall y pre, sel_false ((false, y) :: pre) = y :: sel_false pre.
  Proof. reflexivity. Qed.
  Lemma sel_true_true : forall y pre, sel_true ((true, y) :: pre) = y :: sel_true pre.
  Proof. reflexivity. Qed.
  Lemma sel_true_false : forall y pre, sel_true ((false, y) :: pre) = sel_true pre.
  Proof. reflexivity. Qed.

  Lemma pre_fields : forall pre, HA pre -> HO pre ->
      forallb is_field_b (map snd pre) = true /\ forallb is_field_b (sel_false pre) = true.
  Proof.
    induction pre as [|[b y] pre IH]; intros H1 H2; [split; reflexivity|].
    destruct (HA_cons _ _ H1) as [Ha H1']. destruct (HO_cons _ _ H2) as [Ho H2']. destruct (IH H1' H2') as [E1 E2].
    cbn [fst snd] in *. cbn [map forallb snd].
    assert (Hy : is_field_b y = true).
    { destruct b; [specialize (Ha eq_refl); destruct y; try contradiction; reflexivity|].
      destruct Ho as [Ho|Ho]; [discriminate|]. destruct y; try contradiction; reflexivity. }
    destruct b; [rewrite sel_false_true|rewrite sel_false_false; cbn [forallb]]; rewrite Hy, E1, ?E2; auto.
  Qed.

  (* the absorbing field is excluded: so are the absorbed ones *)
  Lemma absorbed_excluded : forall pre, HA pre -> included vars ds = false ->
      flat_map incl_of (map snd pre) = flat_map incl_of (sel_false pre).
  Proof.
    induction pre as [|[b y] pre IH]; intros H1 Hi; [reflexivity|].
    destruct (HA_cons _ _ H1) as [Ha H1']. cbn [fst snd] in Ha. cbn [map flat_map snd].
    destruct b.
    - rewrite sel_false_true. specialize (Ha eq_refl). destruct y as [ax nx gx dx sx| |]; try contradiction.
      destruct Ha as [_ [_ Hd]]. unfold ProofsMergeFlat.incl_of at 1. cbn [sel_dirs]. rewrite Hd, Hi. cbn [app]. apply IH; assumption.
    - rewrite sel_false_false. cbn [flat_map]. f_equal. apply IH; assumption.
  Qed.

  Section Included.
    Hypothesis Hi : included vars ds = true.

    Lemma true_elem : forall y, absorbedF vars a n ds y -> incl_of y = [y] /\ sel_key y = k /\ is_field_b y = true.
    Proof.
      intros y Hy. destruct y as [ax nx gx dx sx| |]; try contradiction. destruct Hy as [_ [Hk Hd]].
      unfold ProofsMergeFlat.incl_of. cbn [sel_dirs sel_key]. rewrite Hd, Hi. auto.
    Qed.

    Lemma LA : forall ks pre, HA pre -> mem_bytes k ks = true ->
        filter (notin ks) (flat_map incl_of (map snd pre)) = filter (notin ks) (flat_map incl_of (sel_false pre)).
    Proof.
      intros ks. induction pre as [|[b y] pre IH]; intros H1 Hm; [reflexivity|].
      destruct (HA_cons _ _ H1) as [Ha H1']. cbn [fst snd] in Ha. cbn [map flat_map snd].
      destruct b.
      - rewrite sel_false_true. destruct (true_elem y (Ha eq_refl)) as [E1 [E2 _]]. rewrite E1. cbn [app filter].
        unfold notin at 1. rewrite E2, Hm. cbn [negb]. apply IH; assumption.
      - rewrite sel_false_false. cbn [flat_map]. rewrite !filter_app. f_equal. apply IH; assumption.
    Qed.

    Lemma LB : forall k' pre, HA pre -> bytes_eqb k k' = false ->
        subsk k' (flat_map incl_of (map snd pre)) = subsk k' (flat_map incl_of (sel_false pre)).
    Proof.
      intros k'. induction pre as [|[b y] pre IH]; intros H1 Hk; [reflexivity|].
      destruct (HA_cons _ _ H1) as [Ha H1']. cbn [fst snd] in Ha. cbn [map flat_map snd].
      destruct b.
      - rewrite sel_false_true. destruct (true_elem y (Ha eq_refl)) as [E1 [E2 _]]. rewrite E1. cbn [app].
        unfold subsk at 1. cbn [filter]. unfold keyp at 1. rewrite E2, Hk. apply IH; assumption.
      - rewrite sel_false_false. cbn [flat_map]. rewrite !subsk_app. f_equal. apply IH; assumption.
    Qed.

    Lemma false_elem : forall y, okfield k y -> subsk k (incl_of y) = [].
    Proof.
      intros y Hy. destruct y as [ay ny gy dy sy| |]; try contradiction.
      unfold ProofsMergeFlat.incl_of. cbn [sel_dirs]. destruct (included vars dy); [|reflexivity].
      unfold subsk. cbn [filter]. unfold keyp. cbn [sel_key]. destruct Hy as [Hy|Hy].
      - rewrite (bytes_neq_eqb _ _ Hy). reflexivity.
      - subst sy. destruct (bytes_eqb _ k); reflexivity.
    Qed.

    Lemma LC : forall pre, HA pre -> HO pre ->
        subsk k (flat_map incl_of (map snd pre)) = flat_map sel_subs (sel_true pre) /\
        subsk k (flat_map incl_of (sel_false pre)) = [].
    Proof.
      induction pre as [|[b y] pre IH]; intros H1 H2; [split; reflexivity|].
      destruct (HA_cons _ _ H1) as [Ha H1']. destruct (HO_cons _ _ H2) as [Ho H2']. destruct (IH H1' H2') as [E1 E2].
      cbn [fst snd] in *. cbn [map flat_map snd].
      destruct b.
      - rewrite sel_false_true, sel_true_true. split; [|exact E2].
        destruct (true_elem y (Ha eq_refl)) as [F1 [F2 F3]]. rewrite F1. cbn [app flat_map].
        unfold subsk at 1. cbn [filter]. unfold keyp at 1. rewrite F2, bytes_eqb_refl. cbn [flat_map].
        fold (subsk k (flat_map incl_of (map snd pre))). rewrite E1. f_equal.
        destruct y; try discriminate. reflexivity.
      - destruct Ho as [Ho|Ho]; [discriminate|].
        rewrite sel_false_false, sel_true_false. cbn [flat_map]. rewrite !subsk_app, (false_elem y Ho), E1, E2. split; reflexivity.
    Qed.

    Lemma R_absorb : forall args sub sub' pre P fl2',
        HA pre -> HO pre ->
        mrel (sub ++ flat_map sel_subs (sel_true pre)) sub' ->
        R (flat_map incl_of (sel_false pre) ++ P) fl2' ->
        R (SField a n args ds sub :: flat_map incl_of (map snd pre) ++ P) (SField a n args ds sub' :: fl2').
    Proof.
      intros args sub sub' pre P fl2' H1 H2 Hsub [Rh Rs]. destruct (LC pre H1 H2) as [C1 C2]. split.
      - intro ks. cbn [filter].
        assert (En : forall x, notin ks (SField a n args ds x) = negb (mem_bytes k ks)) by reflexivity.
        rewrite !En. destruct (mem_bytes k ks) eqn:Em; cbn [negb].
        + rewrite filter_app, (LA ks pre H1 Em), <- filter_app. apply Rh.
        + cbn. split; reflexivity.
      - intro k'. unfold subsk at 1 2. cbn [filter].
        assert (En : forall x, keyp k' (SField a n args ds x) = bytes_eqb k k') by reflexivity.
        rewrite !En. destruct (bytes_eqb k k') eqn:Ek.
        + apply bytes_eqb_eq in Ek. subst k'. cbn [flat_map field_subs].
          fold (subsk k (flat_map incl_of (map snd pre) ++ P)). fold (subsk k fl2').
          rewrite subsk_app, C1, app_assoc. apply mrel_app; [exact Hsub|].
          pose proof (Rs k) as Hk. rewrite subsk_app, C2 in Hk. exact Hk.
        + fold (subsk k' (flat_map incl_of (map snd pre) ++ P)). fold (subsk k' fl2').
          rewrite subsk_app, (LB k' pre H1 Ek), <- subsk_app. apply Rs.
    Qed.
  End Included.
End Absorb.
