From Gv Require Import lib.Bytes lib.Json lib.ExtractAnchor C02.Model C07.Model C16.Model C16.ModelCache.
From Coq Require Import ZArith.
Require Import ExtrOcamlBasic.
Extraction Language OCaml.
Extraction "model.ml" extraction_anchor run_history exchange_cache exchange_plain init_cstate clean_response ttl
  stored_ok_b refused_b miss_sends_b sent_has_miss_b full_hit clean_source_b source_of.
